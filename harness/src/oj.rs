// A tiny order-preserving JSON value (serde_json::Value sorts object keys unless a feature
// that the repo's lock file cannot satisfy is enabled).  Field order = struct field order =
// the order in which SWC's generated visitors walk the children.
#[derive(Clone, Debug, PartialEq)]
pub enum J {
    Null,
    Bool(bool),
    Num(String),
    Str(String),
    Arr(Vec<J>),
    Obj(Vec<(String, J)>),
}

impl J {
    pub fn get(&self, k: &str) -> Option<&J> {
        match self {
            J::Obj(m) => m.iter().find(|(key, _)| key == k).map(|(_, v)| v),
            _ => None,
        }
    }
    pub fn as_str(&self) -> Option<&str> {
        match self {
            J::Str(s) => Some(s),
            _ => None,
        }
    }
    pub fn as_u64(&self) -> Option<u64> {
        match self {
            J::Num(s) => s.parse().ok(),
            _ => None,
        }
    }
    pub fn s(x: &str) -> J {
        J::Str(x.to_string())
    }
    pub fn n(x: u64) -> J {
        J::Num(x.to_string())
    }
    pub fn strs(xs: &[String]) -> J {
        J::Arr(xs.iter().map(|x| J::Str(x.clone())).collect())
    }
    pub fn to_json(&self, out: &mut String) {
        match self {
            J::Null => out.push_str("null"),
            J::Bool(b) => out.push_str(if *b { "true" } else { "false" }),
            J::Num(s) => out.push_str(s),
            J::Str(s) => out.push_str(&serde_json::to_string(s).unwrap()),
            J::Arr(a) => {
                out.push('[');
                for (i, x) in a.iter().enumerate() {
                    if i > 0 {
                        out.push(',');
                    }
                    x.to_json(out);
                }
                out.push(']');
            }
            J::Obj(m) => {
                out.push('{');
                for (i, (k, x)) in m.iter().enumerate() {
                    if i > 0 {
                        out.push(',');
                    }
                    out.push_str(&serde_json::to_string(k).unwrap());
                    out.push(':');
                    x.to_json(out);
                }
                out.push('}');
            }
        }
    }
}

pub struct P<'a> {
    b: &'a [u8],
    i: usize,
}

pub fn parse(text: &str) -> J {
    let mut p = P { b: text.as_bytes(), i: 0 };
    let v = p.value();
    p.ws();
    assert!(p.i == p.b.len(), "trailing JSON");
    v
}

impl<'a> P<'a> {
    fn ws(&mut self) {
        while self.i < self.b.len() && (self.b[self.i] as char).is_ascii_whitespace() {
            self.i += 1;
        }
    }
    fn value(&mut self) -> J {
        self.ws();
        match self.b[self.i] {
            b'n' => {
                self.i += 4;
                J::Null
            }
            b't' => {
                self.i += 4;
                J::Bool(true)
            }
            b'f' => {
                self.i += 5;
                J::Bool(false)
            }
            b'"' => J::Str(self.string()),
            b'[' => {
                self.i += 1;
                let mut a = vec![];
                loop {
                    self.ws();
                    if self.b[self.i] == b']' {
                        self.i += 1;
                        break;
                    }
                    if self.b[self.i] == b',' {
                        self.i += 1;
                        continue;
                    }
                    a.push(self.value());
                }
                J::Arr(a)
            }
            b'{' => {
                self.i += 1;
                let mut m = vec![];
                loop {
                    self.ws();
                    if self.b[self.i] == b'}' {
                        self.i += 1;
                        break;
                    }
                    if self.b[self.i] == b',' {
                        self.i += 1;
                        continue;
                    }
                    let k = self.string();
                    self.ws();
                    assert!(self.b[self.i] == b':');
                    self.i += 1;
                    let v = self.value();
                    m.push((k, v));
                }
                J::Obj(m)
            }
            _ => {
                let st = self.i;
                while self.i < self.b.len() && !matches!(self.b[self.i], b',' | b']' | b'}' | b' ' | b'\n' | b'\r' | b'\t') {
                    self.i += 1;
                }
                J::Num(String::from_utf8(self.b[st..self.i].to_vec()).unwrap())
            }
        }
    }
    fn string(&mut self) -> String {
        // delegate escapes to serde_json: find the closing quote
        let st = self.i;
        self.i += 1;
        loop {
            match self.b[self.i] {
                b'\\' => self.i += 2,
                b'"' => {
                    self.i += 1;
                    break;
                }
                _ => self.i += 1,
            }
        }
        serde_json::from_str::<String>(std::str::from_utf8(&self.b[st..self.i]).unwrap()).unwrap()
    }
}
