use swc_core::common::{sync::Lrc, FileName, SourceMap, Mark, GLOBALS, Globals, comments::SingleThreadedComments};
use swc_core::ecma::parser::{parse_file_as_module, Syntax, EsSyntax, TsSyntax};
use swc_core::ecma::transforms::base::resolver;
use swc_core::ecma::ast::*;
use swc_core::ecma::visit::VisitMutWith;
fn main() {
    let src = std::env::args().nth(1).unwrap();
    let cm: Lrc<SourceMap> = Default::default();
    GLOBALS.set(&Globals::new(), || {
        let fm = cm.new_source_file(FileName::Anon.into(), src);
        let comments = SingleThreadedComments::default();
        let mut errs = vec![];
        let mut m = parse_file_as_module(&fm, Syntax::Typescript(TsSyntax{tsx:true, ..Default::default()}), EsVersion::latest(), Some(&comments), &mut errs).unwrap();
        let um = Mark::new(); let tm = Mark::new();
        m.visit_mut_with(&mut resolver(um, tm, true));
        println!("{}", serde_json::to_string(&m).unwrap());
    });
}
