// Harness: runs the real visitor (built from /repo's working tree, hooks on) on cases and
// writes, per case, everything the Coq model needs, in a trivial line-token format.
mod oj;
use oj::J;
use std::io::{BufRead, Write};
use std::panic::{catch_unwind, AssertUnwindSafe};
use std::sync::{Arc, Mutex};
use swc_core::common::{
    comments::{Comments, SingleThreadedComments},
    errors::{DiagnosticBuilder, Emitter, Handler},
    sync::Lrc,
    FileName, Globals, Mark, SourceMap, Spanned, SyntaxContext, GLOBALS,
};
use swc_core::ecma::ast::*;
use swc_core::ecma::codegen::to_code_default;
use swc_core::ecma::parser::{parse_file_as_module, EsSyntax, Syntax, TsSyntax};
use swc_core::ecma::transforms::base::{fixer::fixer, hygiene::hygiene, resolver};
use swc_core::ecma::visit::VisitMutWith;
use swc_core::plugin::errors::HANDLER;
use swc_vue_jsx_visitor::{Options, VueJsxTransformVisitor};

struct Collect(Arc<Mutex<Vec<String>>>);
impl Emitter for Collect {
    fn emit(&mut self, db: &DiagnosticBuilder<'_>) {
        self.0.lock().unwrap().push(db.message());
    }
}

fn is_span(m: &[(String, J)]) -> bool {
    m.len() == 2 && m[0].0 == "start" && m[1].0 == "end" && m[0].1.as_u64().is_some() && m[1].1.as_u64().is_some()
}

// strip spans; CallExpression gets "syn" (span is DUMMY_SP)
fn strip(v: &J) -> J {
    match v {
        J::Obj(m) => {
            if is_span(m) {
                return J::Bool(true);
            }
            let mut out = vec![];
            let ty = v.get("type").and_then(|t| t.as_str()).unwrap_or("");
            for (k, val) in m {
                if k == "span" {
                    if ty == "CallExpression" {
                        let dummy = val.get("start").and_then(|x| x.as_u64()) == Some(0)
                            && val.get("end").and_then(|x| x.as_u64()) == Some(0);
                        out.push(("syn".to_string(), J::Bool(dummy)));
                    }
                    continue;
                }
                out.push((k.clone(), strip(val)));
            }
            J::Obj(out)
        }
        J::Arr(a) => J::Arr(a.iter().map(strip).collect()),
        _ => v.clone(),
    }
}

fn collect_ctxts(v: &J, set: &mut std::collections::BTreeSet<u64>) {
    match v {
        J::Obj(m) => {
            for (k, val) in m {
                if k == "ctxt" {
                    if let Some(n) = val.as_u64() {
                        set.insert(n);
                    }
                } else {
                    collect_ctxts(val, set);
                }
            }
        }
        J::Arr(a) => a.iter().for_each(|x| collect_ctxts(x, set)),
        _ => {}
    }
}

const GEN_BASE: u64 = 1_000_000;

// rename contexts not present in the input by first occurrence (document order)
fn canon(v: &mut J, known: &std::collections::BTreeSet<u64>, map: &mut Vec<u64>) {
    match v {
        J::Obj(m) => {
            for (k, val) in m.iter_mut() {
                if k == "ctxt" {
                    if let Some(n) = val.as_u64() {
                        if !known.contains(&n) {
                            let idx = match map.iter().position(|x| *x == n) {
                                Some(i) => i,
                                None => {
                                    map.push(n);
                                    map.len() - 1
                                }
                            };
                            *val = J::n(GEN_BASE + idx as u64);
                        }
                    }
                } else {
                    canon(val, known, map);
                }
            }
        }
        J::Arr(a) => a.iter_mut().for_each(|x| canon(x, known, map)),
        _ => {}
    }
}

fn tag_names(v: &J, out: &mut Vec<String>) {
    match v {
        J::Obj(m) => {
            if v.get("type").and_then(|t| t.as_str()) == Some("JSXOpeningElement") {
                if let Some(name) = v.get("name") {
                    let n = match name.get("type").and_then(|t| t.as_str()) {
                        Some("Identifier") => name.get("value"),
                        Some("JSXMemberExpression") => name.get("property").and_then(|p| p.get("value")),
                        Some("JSXNamespacedName") => name.get("name").and_then(|p| p.get("value")),
                        _ => None,
                    };
                    if let Some(J::Str(s)) = n {
                        if !out.contains(s) {
                            out.push(s.clone());
                        }
                    }
                }
            }
            m.iter().for_each(|(_, x)| tag_names(x, out));
        }
        J::Arr(a) => a.iter().for_each(|x| tag_names(x, out)),
        _ => {}
    }
}

fn to_j<T: serde::Serialize>(x: &T) -> J {
    oj::parse(&serde_json::to_string(x).unwrap())
}

// ---- line-token emitter -------------------------------------------------------------
fn emit_str(s: &str, out: &mut String) {
    out.push('"');
    let mut first = true;
    for c in s.chars() {
        if !first {
            out.push(',');
        }
        first = false;
        out.push_str(&(c as u32).to_string());
    }
    out.push('\n');
}
fn emit(v: &J, out: &mut String) {
    match v {
        J::Null => out.push_str("N\n"),
        J::Bool(true) => out.push_str("T\n"),
        J::Bool(false) => out.push_str("F\n"),
        J::Num(n) => {
            out.push('#');
            out.push_str(n);
            out.push('\n');
        }
        J::Str(s) => emit_str(s, out),
        J::Arr(a) => {
            out.push_str(&format!("[{}\n", a.len()));
            a.iter().for_each(|x| emit(x, out));
        }
        J::Obj(m) => {
            out.push_str(&format!("{{{}\n", m.len()));
            for (k, x) in m {
                emit_str(k, out);
                emit(x, out);
            }
        }
    }
}

fn syntax_of(s: &str, jsx: bool) -> Syntax {
    if s == "tsx" {
        Syntax::Typescript(TsSyntax { tsx: jsx, ..Default::default() })
    } else {
        Syntax::Es(EsSyntax { jsx, ..Default::default() })
    }
}

fn run_case(case: &J) -> J {
    let src = case.get("src").and_then(|x| x.as_str()).unwrap_or("").to_string();
    let syn = case.get("syntax").and_then(|x| x.as_str()).unwrap_or("jsx").to_string();
    let opts_text = case.get("options").and_then(|x| x.as_str()).unwrap_or("{}").to_string();
    let mut rec = run_one(case.get("id").cloned().unwrap_or(J::Null), &src, &syn, &opts_text);
    // an alternative run of the same case (other options and/or other source) for paired properties
    let src_alt = case.get("src_alt").and_then(|x| x.as_str());
    let opts_alt = case.get("options_alt").and_then(|x| x.as_str());
    if src_alt.is_some() || opts_alt.is_some() {
        let alt = run_one(J::Null, src_alt.unwrap_or(&src), &syn, opts_alt.unwrap_or(&opts_text));
        if let J::Obj(m) = alt {
            let keep: Vec<(String, J)> = m
                .into_iter()
                .filter(|(k, _)| matches!(k.as_str(), "status" | "output" | "diags" | "printed" | "unres" | "options" | "options_error" | "reparse_ok"))
                .collect();
            if let J::Obj(r) = &mut rec {
                r.push(("alt".into(), J::Obj(keep)));
            }
        }
    }
    rec
}

fn run_one(id: J, src: &str, syn: &str, opts_text: &str) -> J {
    let src = src.to_string();
    let syn = syn.to_string();
    let opts_text = opts_text.to_string();
    let mut rec: Vec<(String, J)> = vec![];
    rec.push(("id".into(), id));
    rec.push(("syntax".into(), J::s(&syn)));
    rec.push(("options_text".into(), J::s(&opts_text)));

    // the configuration text as ordered JSON (duplicates kept), for the model of serde's derive
    let oj_text = opts_text.clone();
    let options_json = catch_unwind(move || oj::parse(&oj_text)).unwrap_or(J::Null);
    let mut pats: Vec<String> = vec![];
    fn strings_under(j: &J, key: bool, out: &mut Vec<String>) {
        match j {
            J::Str(s) if key => {
                if !out.contains(s) {
                    out.push(s.clone())
                }
            }
            J::Arr(a) => a.iter().for_each(|x| strings_under(x, key, out)),
            J::Obj(m) => m.iter().for_each(|(k, v)| strings_under(v, k == "customElementPatterns", out)),
            _ => {}
        }
    }
    // in the sequence form the patterns are the third element
    if let J::Arr(a) = &options_json {
        if let Some(x) = a.get(2) {
            strings_under(x, true, &mut pats);
        }
    }
    strings_under(&options_json, false, &mut pats);
    rec.push(("options_json".into(), options_json));
    rec.push((
        "regex_valid".into(),
        J::Arr(pats.iter().map(|p| J::Arr(vec![J::s(p), J::Bool(swc_vue_jsx_visitor::Regex::new(p).is_ok())])).collect()),
    ));
    // options exactly as plugin/src/lib.rs reads them
    let opts: Result<Options, _> = serde_json::from_str(&opts_text);
    let opts = match opts {
        Ok(o) => o,
        Err(e) => {
            rec.push(("status".into(), J::s("bad-options")));
            rec.push(("options_error".into(), J::s(&e.to_string())));
            return J::Obj(rec);
        }
    };
    rec.push((
        "options".into(),
        J::Obj(vec![
            ("transformOn".into(), J::Bool(opts.transform_on)),
            ("optimize".into(), J::Bool(opts.optimize)),
            ("mergeProps".into(), J::Bool(opts.merge_props)),
            ("enableObjectSlots".into(), J::Bool(opts.enable_object_slots)),
            ("pragma".into(), opts.pragma.as_ref().map(|p| J::s(p)).unwrap_or(J::Null)),
            ("resolveType".into(), J::Bool(opts.resolve_type)),
            ("patterns".into(), J::Arr(opts.custom_element_patterns.iter().map(|r| J::s(r.as_str())).collect())),
        ]),
    ));

    let cm: Lrc<SourceMap> = Default::default();
    GLOBALS.set(&Globals::new(), || {
        let fm = cm.new_source_file(FileName::Anon.into(), src.clone());
        let comments = SingleThreadedComments::default();
        let mut errs = vec![];
        let parsed = parse_file_as_module(&fm, syntax_of(&syn, true), EsVersion::latest(), Some(&comments), &mut errs);
        let mut module = match parsed {
            Ok(m) if errs.is_empty() => m,
            _ => {
                rec.push(("status".into(), J::s("parse-error")));
                return;
            }
        };
        let unresolved_mark = Mark::new();
        let top_mark = Mark::new();
        module.visit_mut_with(&mut resolver(unresolved_mark, top_mark, syn == "tsx"));
        let unres_ctxt = SyntaxContext::empty().apply_mark(unresolved_mark).as_u32();
        rec.push(("unres".into(), J::n(unres_ctxt as u64)));

        let input_json = strip(&to_j(&module));
        let mut known = std::collections::BTreeSet::new();
        collect_ctxts(&input_json, &mut known);
        known.insert(0);
        known.insert(unres_ctxt as u64);

        // leading comments: module span, then every top-level item
        let mut cmts: Vec<J> = vec![];
        let mut positions = vec![module.span.lo];
        positions.extend(module.body.iter().map(|i| i.span().lo));
        for p in positions {
            let texts = comments.with_leading(p, |cs| cs.iter().map(|c| c.text.to_string()).collect::<Vec<_>>());
            cmts.push(J::strs(&texts));
        }
        rec.push(("comments".into(), J::Arr(cmts)));

        // regex table
        let mut names = vec![];
        tag_names(&input_json, &mut names);
        let table: Vec<J> = names
            .iter()
            .map(|n| J::Arr(vec![J::s(n), J::Arr(opts.custom_element_patterns.iter().map(|r| J::Bool(r.is_match(n))).collect())]))
            .collect();
        rec.push(("matches".into(), J::Arr(table)));
        rec.push(("input".into(), input_json));

        let run = |m: &Module| -> (Result<Module, String>, Vec<String>) {
            let diags = Arc::new(Mutex::new(vec![]));
            let handler = Handler::with_emitter(true, false, Box::new(Collect(diags.clone())));
            let mut m2 = m.clone();
            let r = catch_unwind(AssertUnwindSafe(|| {
                HANDLER.set(&handler, || {
                    let mut v = VueJsxTransformVisitor::new(opts.clone(), unresolved_mark, Some(comments.clone()));
                    m2.visit_mut_with(&mut v);
                });
                m2
            }));
            let d = diags.lock().unwrap().clone();
            match r {
                Ok(m) => (Ok(m), d),
                Err(e) => {
                    let msg = e.downcast_ref::<String>().cloned().or_else(|| e.downcast_ref::<&str>().map(|s| s.to_string())).unwrap_or_default();
                    (Err(msg), d)
                }
            }
        };
        let canon_of = |m: &Module| -> J {
            let mut j = strip(&to_j(m));
            let mut map = vec![];
            canon(&mut j, &known, &mut map);
            j
        };

        let (out1, diags1) = run(&module);
        rec.push(("diags".into(), J::strs(&diags1)));
        let out1 = match out1 {
            Ok(m) => m,
            Err(msg) => {
                rec.push(("status".into(), J::s("panic")));
                rec.push(("panic".into(), J::s(&msg)));
                return;
            }
        };
        rec.push(("status".into(), J::s("ok")));
        let out_json = canon_of(&out1);
        rec.push(("output".into(), out_json.clone()));

        // determinism: a second in-process run
        let (out1b, diags1b) = run(&module);
        let same = match out1b {
            Ok(m) => canon_of(&m) == out_json && diags1b == diags1,
            Err(_) => false,
        };
        rec.push(("rerun_same".into(), J::Bool(same)));

        // idempotence: the visitor on its own raw output
        let (out2, diags2) = run(&out1);
        match out2 {
            Ok(m) => {
                rec.push(("output2".into(), canon_of(&m)));
                rec.push(("diags2".into(), J::strs(&diags2)));
            }
            Err(msg) => {
                rec.push(("output2".into(), J::Null));
                rec.push(("panic2".into(), J::s(&msg)));
            }
        }

        // print (hygiene + fixer + codegen) and re-parse with JSX off
        let mut printed_m = out1.clone();
        let pr = catch_unwind(AssertUnwindSafe(|| {
            printed_m.visit_mut_with(&mut hygiene());
            printed_m.visit_mut_with(&mut fixer(Some(&comments)));
            to_code_default(cm.clone(), Some(&comments), &printed_m)
        }));
        match pr {
            Ok(code) => {
                let fm2 = cm.new_source_file(FileName::Anon.into(), code.clone());
                let mut errs2 = vec![];
                let re = parse_file_as_module(&fm2, syntax_of(&syn, false), EsVersion::latest(), None, &mut errs2);
                rec.push(("reparse_ok".into(), J::Bool(re.is_ok() && errs2.is_empty())));
                rec.push(("printed".into(), J::s(&code)));
            }
            Err(_) => {
                rec.push(("reparse_ok".into(), J::Bool(false)));
                rec.push(("printed".into(), J::Null));
            }
        }
    });
    J::Obj(rec)
}

fn main() {
    let args: Vec<String> = std::env::args().collect();
    std::panic::set_hook(Box::new(|_| {}));
    match args.get(1).map(|s| s.as_str()) {
        // run <cases.jsonl> <out.tok> <out.jsonl> [progress-file]
        Some("run") => {
            let f = std::fs::File::open(&args[2]).unwrap();
            let mut tok = std::io::BufWriter::new(std::fs::File::create(&args[3]).unwrap());
            let mut js = std::io::BufWriter::new(std::fs::File::create(&args[4]).unwrap());
            for line in std::io::BufReader::new(f).lines() {
                let line = line.unwrap();
                if line.trim().is_empty() {
                    continue;
                }
                let case = oj::parse(&line);
                if let Some(p) = args.get(5) {
                    let mut t = String::new();
                    case.get("id").unwrap_or(&J::Null).to_json(&mut t);
                    std::fs::write(p, t).ok();
                }
                let rec = run_case(&case);
                let mut s = String::new();
                emit(&rec, &mut s);
                tok.write_all(s.as_bytes()).unwrap();
                // the side file for the orchestrator: everything except the big trees
                // cases of the scope stream keep the trees: the binding analysis (C06) reads them
                let keep_json = matches!(case.get("keep_json"), Some(J::Bool(true)));
                if let J::Obj(m) = rec {
                    let small: Vec<(String, J)> = m
                        .into_iter()
                        .filter(|(k, _)| keep_json && k != "output2" || k != "input" && k != "output" && k != "output2")
                        .map(|(k, v)| {
                            if k == "alt" {
                                if let J::Obj(a) = v {
                                    return (k, J::Obj(a.into_iter().filter(|(k2, _)| k2 != "output").collect()));
                                }
                                return (k, J::Null);
                            }
                            (k, v)
                        })
                        .collect();
                    let mut t = String::new();
                    J::Obj(small).to_json(&mut t);
                    writeln!(js, "{}", t).unwrap();
                }
                // a later case may kill the process (stack overflow): what is done must be on disk
                tok.flush().unwrap();
                js.flush().unwrap();
            }
        }
        // text <strings.txt> : one string per line as comma separated code points
        Some("text") => {
            let f = std::fs::File::open(&args[2]).unwrap();
            let out = std::io::stdout();
            let mut out = std::io::BufWriter::new(out.lock());
            for line in std::io::BufReader::new(f).lines() {
                let line = line.unwrap();
                let s: String = line.split(',').filter(|x| !x.is_empty()).map(|x| char::from_u32(x.parse().unwrap()).unwrap()).collect();
                let r = swc_vue_jsx_visitor::verif_hooks::transform_text(&s);
                let cps: Vec<String> = r.chars().map(|c| (c as u32).to_string()).collect();
                writeln!(out, "{}", cps.join(",")).unwrap();
            }
        }
        Some("tables") => {
            let mut html: Vec<&str> = css_dataset::tags::STANDARD_HTML_TAGS.iter().copied().collect();
            html.sort();
            let mut svg: Vec<&str> = css_dataset::tags::SVG_TAGS.iter().copied().collect();
            svg.sort();
            let v = serde_json::json!({
                "html": html, "svg": svg,
                "patch_flags": swc_vue_jsx_visitor::verif_hooks::patch_flags(),
                "slot_flags": swc_vue_jsx_visitor::verif_hooks::slot_flags(),
            });
            println!("{}", v);
        }
        // json <file.jsx|tsx> <options-json>: input/output JSON for inspection
        Some("json") => {
            let src = std::fs::read_to_string(&args[2]).unwrap();
            let syn = if args[2].ends_with(".tsx") { "tsx" } else { "jsx" };
            let rec = run_case(&J::Obj(vec![
                ("id".into(), J::n(0)),
                ("src".into(), J::Str(src)),
                ("syntax".into(), J::s(syn)),
                ("options".into(), J::Str(args.get(3).cloned().unwrap_or("{}".into()))),
            ]));
            let mut t = String::new();
            rec.to_json(&mut t);
            println!("{}", t);
        }
        _ => eprintln!("usage: run|text|tables|json"),
    }
}
