(* JSON values as the harness emits them (spans stripped).  Numbers are kept as the text
   serde_json prints, so nothing is ever rounded. *)
From VJ Require Import Model.Str.

Inductive jv :=
| JNull
| JBool (b : bool)
| JNum (s : str)
| JStr (s : str)
| JArr (l : list jv)
| JObj (l : list (str * jv)).

Fixpoint jv_eqb (a b : jv) {struct a} : bool :=
  match a, b with
  | JNull, JNull => true
  | JBool x, JBool y => Bool.eqb x y
  | JNum x, JNum y => str_eqb x y
  | JStr x, JStr y => str_eqb x y
  | JArr x, JArr y =>
      (fix go (x y : list jv) {struct x} : bool :=
         match x, y with
         | [], [] => true
         | u :: x', v :: y' => jv_eqb u v && go x' y'
         | _, _ => false
         end) x y
  | JObj x, JObj y =>
      (fix go (x y : list (str * jv)) {struct x} : bool :=
         match x, y with
         | [], [] => true
         | (k, u) :: x', (k', v) :: y' => str_eqb k k' && jv_eqb u v && go x' y'
         | _, _ => false
         end) x y
  | _, _ => false
  end.

Fixpoint jget (k : str) (l : list (str * jv)) : option jv :=
  match l with
  | [] => None
  | (k', v) :: r => if str_eqb k k' then Some v else jget k r
  end.

Definition jfield (k : str) (j : jv) : option jv :=
  match j with JObj l => jget k l | _ => None end.

Definition jstr (j : jv) : option str := match j with JStr s => Some s | _ => None end.
Definition jbool (j : jv) : option bool := match j with JBool b => Some b | _ => None end.
Definition jnat (j : jv) : option N := match j with JNum s => N_of_dec s | _ => None end.
Definition jarr (j : jv) : list jv := match j with JArr l => l | _ => [] end.

(* rename generated syntax contexts (>= gen_base) by first occurrence in document order *)
Definition gen_base : N := 1000000.

Fixpoint assoc_N (k : N) (l : list (N * N)) : option N :=
  match l with
  | [] => None
  | (k', v) :: r => if N.eqb k k' then Some v else assoc_N k r
  end.

Definition canon_ctx (c : N) (m : list (N * N)) : N * list (N * N) :=
  if N.ltb c gen_base then (c, m)
  else match assoc_N c m with
       | Some v => (v, m)
       | None => let v := gen_base + N.of_nat (List.length m) in (v, m ++ [(c, v)])
       end.

Fixpoint canon (j : jv) (m : list (N * N)) {struct j} : jv * list (N * N) :=
  match j with
  | JArr l =>
      let '(l', m') :=
        (fix go (l : list jv) (m : list (N * N)) {struct l} : list jv * list (N * N) :=
           match l with
           | [] => ([], m)
           | x :: r => let '(x', m1) := canon x m in
                       let '(r', m2) := go r m1 in (x' :: r', m2)
           end) l m in
      (JArr l', m')
  | JObj l =>
      let '(l', m') :=
        (fix go (l : list (str * jv)) (m : list (N * N)) {struct l}
           : list (str * jv) * list (N * N) :=
           match l with
           | [] => ([], m)
           | (k, x) :: r =>
               let '(x', m1) :=
                 if str_eqb k (s_ "ctxt") then
                   match x with
                   | JNum s => match N_of_dec s with
                               | Some c => let '(c', m1) := canon_ctx c m in (JNum (dec_of_N c'), m1)
                               | None => (x, m)
                               end
                   | _ => canon x m
                   end
                 else canon x m in
               let '(r', m2) := go r m1 in ((k, x') :: r', m2)
           end) l m in
      (JObj l', m')
  | _ => (j, m)
  end.
