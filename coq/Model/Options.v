(* How the plugin reads its configuration: serde's derived Deserialize for `Options`
   (#[serde(rename_all = "camelCase", default)]) applied to the JSON text, as observed on
   serde_json::from_str::<Options>.  The regex crate decides pattern validity (an oracle). *)
From VJ Require Import Model.Str Model.Json Model.Ast Model.State.
From VJ Require Import Gen.Tables.

Record raw_options := {
  ro_transform_on : bool; ro_optimize : bool; ro_patterns : list str; ro_merge_props : bool;
  ro_object_slots : bool; ro_pragma : option str; ro_resolve_type : bool;
}.

Definition default_raw : raw_options :=
  {| ro_transform_on := default_transform_on; ro_optimize := default_optimize; ro_patterns := [];
     ro_merge_props := default_merge_props; ro_object_slots := default_enable_object_slots;
     ro_pragma := None; ro_resolve_type := default_resolve_type |}.

Section Parse.
Variable valid_regex : str -> bool.

Definition as_patterns (j : jv) : option (list str) :=
  match j with
  | JArr l =>
      fold_right (fun x acc => match x, acc with
                               | JStr p, Some ps => if valid_regex p then Some (p :: ps) else None
                               | _, _ => None
                               end) (Some []) l
  | _ => None
  end.

(* one `key: value` of the map form; None = deserialisation error *)
Definition set_field (k : str) (v : jv) (o : raw_options) : option raw_options :=
  if sq "transformOn" k then
    match v with JBool b => Some {| ro_transform_on := b; ro_optimize := ro_optimize o; ro_patterns := ro_patterns o; ro_merge_props := ro_merge_props o; ro_object_slots := ro_object_slots o; ro_pragma := ro_pragma o; ro_resolve_type := ro_resolve_type o |} | _ => None end
  else if sq "optimize" k then
    match v with JBool b => Some {| ro_transform_on := ro_transform_on o; ro_optimize := b; ro_patterns := ro_patterns o; ro_merge_props := ro_merge_props o; ro_object_slots := ro_object_slots o; ro_pragma := ro_pragma o; ro_resolve_type := ro_resolve_type o |} | _ => None end
  else if sq "customElementPatterns" k then
    match as_patterns v with Some ps => Some {| ro_transform_on := ro_transform_on o; ro_optimize := ro_optimize o; ro_patterns := ps; ro_merge_props := ro_merge_props o; ro_object_slots := ro_object_slots o; ro_pragma := ro_pragma o; ro_resolve_type := ro_resolve_type o |} | None => None end
  else if sq "mergeProps" k then
    match v with JBool b => Some {| ro_transform_on := ro_transform_on o; ro_optimize := ro_optimize o; ro_patterns := ro_patterns o; ro_merge_props := b; ro_object_slots := ro_object_slots o; ro_pragma := ro_pragma o; ro_resolve_type := ro_resolve_type o |} | _ => None end
  else if sq "enableObjectSlots" k then
    match v with JBool b => Some {| ro_transform_on := ro_transform_on o; ro_optimize := ro_optimize o; ro_patterns := ro_patterns o; ro_merge_props := ro_merge_props o; ro_object_slots := b; ro_pragma := ro_pragma o; ro_resolve_type := ro_resolve_type o |} | _ => None end
  else if sq "pragma" k then
    match v with
    | JStr p => Some {| ro_transform_on := ro_transform_on o; ro_optimize := ro_optimize o; ro_patterns := ro_patterns o; ro_merge_props := ro_merge_props o; ro_object_slots := ro_object_slots o; ro_pragma := Some p; ro_resolve_type := ro_resolve_type o |}
    | JNull => Some {| ro_transform_on := ro_transform_on o; ro_optimize := ro_optimize o; ro_patterns := ro_patterns o; ro_merge_props := ro_merge_props o; ro_object_slots := ro_object_slots o; ro_pragma := None; ro_resolve_type := ro_resolve_type o |}
    | _ => None
    end
  else if sq "resolveType" k then
    match v with JBool b => Some {| ro_transform_on := ro_transform_on o; ro_optimize := ro_optimize o; ro_patterns := ro_patterns o; ro_merge_props := ro_merge_props o; ro_object_slots := ro_object_slots o; ro_pragma := ro_pragma o; ro_resolve_type := b |} | _ => None end
  else Some o.                                   (* unknown keys are ignored *)

Definition is_known_key (k : str) : bool := mem_str k option_keys.

(* map form: unknown keys are skipped, known keys may not repeat *)
Fixpoint parse_fields (l : list (str * jv)) (seen : list str) (o : raw_options) : option raw_options :=
  match l with
  | [] => Some o
  | (k, v) :: r =>
      if is_known_key k then
        if mem_str k seen then None
        else match set_field k v o with
             | Some o' => parse_fields r (k :: seen) o'
             | None => None
             end
      else parse_fields r seen o
  end.

(* sequence form: the fields in declaration order, missing ones default; extra ones are an error *)
Fixpoint parse_seq (l : list jv) (keys : list str) (o : raw_options) : option raw_options :=
  match l, keys with
  | [], _ => Some o
  | _ :: _, [] => None
  | v :: r, k :: ks => match set_field k v o with
                       | Some o' => parse_seq r ks o'
                       | None => None
                       end
  end.

Definition parse_options (j : jv) : option raw_options :=
  match j with
  | JObj l => parse_fields l [] default_raw
  | JArr l => parse_seq l option_keys default_raw
  | _ => None
  end.

End Parse.

Definition options_of_raw (r : raw_options) : options :=
  {| o_transform_on := ro_transform_on r; o_optimize := ro_optimize r; o_merge_props := ro_merge_props r;
     o_object_slots := ro_object_slots r; o_pragma := ro_pragma r; o_resolve_type := ro_resolve_type r;
     o_npat := List.length (ro_patterns r) |}.
