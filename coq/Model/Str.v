(* Strings as lists of Unicode scalar values, and the subset of Rust's `str` API
   the transform uses.  Modelled, not verified, parts of `std` (DESIGN 3.3). *)
From Coq Require Export List NArith Bool.
From Coq Require Ascii String.
Export String.StringSyntax.
Delimit Scope string_scope with string.
Export ListNotations.
Open Scope N_scope.

Definition str := list N.

Fixpoint str_eqb (a b : str) : bool :=
  match a, b with
  | [], [] => true
  | x :: a', y :: b' => N.eqb x y && str_eqb a' b'
  | _, _ => false
  end.

(* Coq [string] literal (ASCII bytes) -> code points; used for constants only *)
Fixpoint s_ (x : String.string) : str :=
  match x with
  | String.EmptyString => []
  | String.String c r => Ascii.N_of_ascii c :: s_ r
  end.
Arguments s_ _%string_scope.

Definition c_ (x : String.string) : N :=
  match x with String.String c _ => Ascii.N_of_ascii c | _ => 0 end.
Arguments c_ _%string_scope.

Fixpoint starts_with (p s : str) : bool :=
  match p, s with
  | [], _ => true
  | x :: p', y :: s' => N.eqb x y && starts_with p' s'
  | _, [] => false
  end.

Fixpoint strip_prefix (p s : str) : option str :=
  match p, s with
  | [], _ => Some s
  | x :: p', y :: s' => if N.eqb x y then strip_prefix p' s' else None
  | _, [] => None
  end.

(* str::split(char): always at least one piece *)
Fixpoint split_on (c : N) (s : str) : list str :=
  match s with
  | [] => [[]]
  | x :: r =>
      if N.eqb x c then [] :: split_on c r
      else match split_on c r with
           | [] => [[x]]            (* unreachable: split_on never returns [] *)
           | p :: ps => (x :: p) :: ps
           end
  end.

Fixpoint join (sep : str) (l : list str) : str :=
  match l with
  | [] => []
  | [a] => a
  | a :: r => a ++ sep ++ join sep r
  end.

(* str::replace(char, char) *)
Definition replace_char (a b : N) (s : str) : str :=
  map (fun x => if N.eqb x a then b else x) s.

(* str::replace("\r\n", "\n") *)
Fixpoint replace_crlf (s : str) : str :=
  match s with
  | 13 :: ((10 :: _) as r) => replace_crlf r
  | x :: r => x :: replace_crlf r
  | [] => []
  end.

(* trim_start_matches(char) / trim_end_matches(char) *)
Fixpoint trim_start_c (c : N) (s : str) : str :=
  match s with
  | x :: r => if N.eqb x c then trim_start_c c r else s
  | [] => []
  end.

Definition trim_end_c (c : N) (s : str) : str := rev (trim_start_c c (rev s)).

(* char::is_whitespace = Unicode White_Space *)
Definition is_ws (c : N) : bool :=
  (N.leb 9 c && N.leb c 13) || N.eqb c 32 || N.eqb c 133 || N.eqb c 160
  || N.eqb c 5760 || (N.leb 8192 c && N.leb c 8202) || N.eqb c 8232 || N.eqb c 8233
  || N.eqb c 8239 || N.eqb c 8287 || N.eqb c 12288.

Fixpoint trim_start (s : str) : str :=
  match s with
  | x :: r => if is_ws x then trim_start r else s
  | [] => []
  end.

Definition trim_end (s : str) : str := rev (trim_start (rev s)).
Definition trim (s : str) : str := trim_end (trim_start s).

(* the maximal prefix of non-whitespace characters *)
Fixpoint take_non_ws (s : str) : str :=
  match s with
  | x :: r => if is_ws x then [] else x :: take_non_ws r
  | [] => []
  end.

(* str::split_whitespace().next() *)
Definition first_word (s : str) : option str :=
  match take_non_ws (trim_start s) with
  | [] => None
  | w => Some w
  end.

Definition is_ascii_lower (c : N) : bool := N.leb 97 c && N.leb c 122.
Definition is_ascii_upper (c : N) : bool := N.leb 65 c && N.leb c 90.
Definition to_ascii_lower (c : N) : N := if is_ascii_upper c then c + 32 else c.

Definition lower_str (s : str) : str := map to_ascii_lower s.
Definition eq_ignore_ascii_case (a b : str) : bool := str_eqb (lower_str a) (lower_str b).

(* byte-wise lexicographic order on UTF-8 coincides with code point order *)
Fixpoint str_ltb (a b : str) : bool :=
  match a, b with
  | [], [] => false
  | [], _ => true
  | _, [] => false
  | x :: a', y :: b' => if N.ltb x y then true else if N.eqb x y then str_ltb a' b' else false
  end.

Fixpoint mem_str (x : str) (l : list str) : bool :=
  match l with
  | [] => false
  | y :: r => str_eqb x y || mem_str x r
  end.

(* BTreeSet<Atom> insertion: sorted, duplicate-free *)
Fixpoint set_insert (x : str) (l : list str) : list str :=
  match l with
  | [] => [x]
  | y :: r => if str_eqb x y then l else if str_ltb x y then x :: l else y :: set_insert x r
  end.

(* IndexSet insertion: first occurrence kept, insertion order *)
Definition iset_insert (x : str) (l : list str) : list str :=
  if mem_str x l then l else l ++ [x].

(* decimal rendering of a natural number (for `_slot2`, ...) *)
Fixpoint dec_digits (fuel : nat) (n : N) (acc : str) : str :=
  match fuel with
  | O => acc
  | S f =>
      let d := N.modulo n 10 in
      let q := N.div n 10 in
      let acc' := (48 + d) :: acc in
      if N.eqb q 0 then acc' else dec_digits f q acc'
  end.
Definition dec_of_N (n : N) : str := dec_digits 40 n [].

Fixpoint N_of_dec_aux (s : str) (acc : N) : option N :=
  match s with
  | [] => Some acc
  | c :: r => if N.leb 48 c && N.leb c 57 then N_of_dec_aux r (acc * 10 + (c - 48)) else None
  end.
Definition N_of_dec (s : str) : option N :=
  match s with [] => None | _ => N_of_dec_aux s 0 end.
