(* Options, per-case environment, the visitor's mutable fields as an explicit state record,
   and the constructors for the AST pieces the transform builds. *)
From VJ Require Import Model.Str Model.Json Model.Ast.

Record options := {
  o_transform_on : bool;
  o_optimize : bool;
  o_merge_props : bool;
  o_object_slots : bool;
  o_pragma : option str;
  o_resolve_type : bool;
  o_npat : nat;                 (* number of custom element patterns *)
}.

(* everything the model takes from outside the module text *)
Record env := {
  e_opts : options;
  e_unres : N;                               (* ctxt that carries the unresolved mark *)
  e_matches : list (str * list bool);        (* regex oracle: tag name -> per-pattern result *)
  e_html : list str;                         (* css_dataset::tags::STANDARD_HTML_TAGS *)
  e_svg : list str;                          (* css_dataset::tags::SVG_TAGS *)
  e_comments : list (list str);              (* leading comments: module, then each item *)
}.

Fixpoint lookup_matches (n : str) (t : list (str * list bool)) : list bool :=
  match t with
  | [] => []
  | (k, v) :: r => if str_eqb k n then v else lookup_matches n r
  end.

(* custom_element_patterns.iter().any(|p| p.is_match(name)) *)
Definition pat_any (E : env) (name : str) : bool :=
  existsb (fun b => b) (lookup_matches name (e_matches E)).

Definition is_html_or_svg (E : env) (name : str) : bool :=
  match name with
  | c :: _ => is_ascii_lower c && (mem_str name (e_html E) || mem_str name (e_svg E))
  | [] => false
  end.

Record st := mkSt {
  imports : list str;            (* keys of vue_imports, sorted (BTreeMap) *)
  ton_helper : bool;             (* transform_on_helper.is_some() *)
  define_component : option N;
  interfaces : list (str * N * node);   (* value: the (merged) list of body members + extends *)
  aliases : list (str * N * node);
  pragma : option str;
  slot_helper : bool;
  inj_vars : list node;
  slot_counter : N;
  slot_stack : list bool;        (* true = SlotFlag::Dynamic *)
  assign_left : option str;      (* only the symbol is ever compared *)
  inj_consts : list node;
  fresh : N;
  diags : list str;
  panicked : bool;
}.

Definition st0 : st :=
  mkSt [] false None [] [] None false [] 1 [] None [] 0 [] false.

Definition set_imports v s := mkSt v (ton_helper s) (define_component s) (interfaces s) (aliases s) (pragma s) (slot_helper s) (inj_vars s) (slot_counter s) (slot_stack s) (assign_left s) (inj_consts s) (fresh s) (diags s) (panicked s).
Definition set_ton v s := mkSt (imports s) v (define_component s) (interfaces s) (aliases s) (pragma s) (slot_helper s) (inj_vars s) (slot_counter s) (slot_stack s) (assign_left s) (inj_consts s) (fresh s) (diags s) (panicked s).
Definition set_define_component v s := mkSt (imports s) (ton_helper s) v (interfaces s) (aliases s) (pragma s) (slot_helper s) (inj_vars s) (slot_counter s) (slot_stack s) (assign_left s) (inj_consts s) (fresh s) (diags s) (panicked s).
Definition set_interfaces v s := mkSt (imports s) (ton_helper s) (define_component s) v (aliases s) (pragma s) (slot_helper s) (inj_vars s) (slot_counter s) (slot_stack s) (assign_left s) (inj_consts s) (fresh s) (diags s) (panicked s).
Definition set_aliases v s := mkSt (imports s) (ton_helper s) (define_component s) (interfaces s) v (pragma s) (slot_helper s) (inj_vars s) (slot_counter s) (slot_stack s) (assign_left s) (inj_consts s) (fresh s) (diags s) (panicked s).
Definition set_pragma v s := mkSt (imports s) (ton_helper s) (define_component s) (interfaces s) (aliases s) v (slot_helper s) (inj_vars s) (slot_counter s) (slot_stack s) (assign_left s) (inj_consts s) (fresh s) (diags s) (panicked s).
Definition set_slot_helper v s := mkSt (imports s) (ton_helper s) (define_component s) (interfaces s) (aliases s) (pragma s) v (inj_vars s) (slot_counter s) (slot_stack s) (assign_left s) (inj_consts s) (fresh s) (diags s) (panicked s).
Definition set_inj_vars v s := mkSt (imports s) (ton_helper s) (define_component s) (interfaces s) (aliases s) (pragma s) (slot_helper s) v (slot_counter s) (slot_stack s) (assign_left s) (inj_consts s) (fresh s) (diags s) (panicked s).
Definition set_slot_counter v s := mkSt (imports s) (ton_helper s) (define_component s) (interfaces s) (aliases s) (pragma s) (slot_helper s) (inj_vars s) v (slot_stack s) (assign_left s) (inj_consts s) (fresh s) (diags s) (panicked s).
Definition set_slot_stack v s := mkSt (imports s) (ton_helper s) (define_component s) (interfaces s) (aliases s) (pragma s) (slot_helper s) (inj_vars s) (slot_counter s) v (assign_left s) (inj_consts s) (fresh s) (diags s) (panicked s).
Definition set_assign_left v s := mkSt (imports s) (ton_helper s) (define_component s) (interfaces s) (aliases s) (pragma s) (slot_helper s) (inj_vars s) (slot_counter s) (slot_stack s) v (inj_consts s) (fresh s) (diags s) (panicked s).
Definition set_inj_consts v s := mkSt (imports s) (ton_helper s) (define_component s) (interfaces s) (aliases s) (pragma s) (slot_helper s) (inj_vars s) (slot_counter s) (slot_stack s) (assign_left s) v (fresh s) (diags s) (panicked s).
Definition set_fresh v s := mkSt (imports s) (ton_helper s) (define_component s) (interfaces s) (aliases s) (pragma s) (slot_helper s) (inj_vars s) (slot_counter s) (slot_stack s) (assign_left s) (inj_consts s) v (diags s) (panicked s).
Definition set_diags v s := mkSt (imports s) (ton_helper s) (define_component s) (interfaces s) (aliases s) (pragma s) (slot_helper s) (inj_vars s) (slot_counter s) (slot_stack s) (assign_left s) (inj_consts s) (fresh s) v (panicked s).
Definition set_panicked v s := mkSt (imports s) (ton_helper s) (define_component s) (interfaces s) (aliases s) (pragma s) (slot_helper s) (inj_vars s) (slot_counter s) (slot_stack s) (assign_left s) (inj_consts s) (fresh s) (diags s) v.

Definition add_diag (m : String.string) (s : st) : st := set_diags (diags s ++ [s_ m]) s.
Arguments add_diag _%string_scope _.
Definition panic (s : st) : st := set_panicked true s.

(* ---- generated identifiers ----------------------------------------------------------- *)
(* every `private_ident!` carries a fresh mark; the model gives it a context >= gen_base.
   Helpers get a context determined by their name (one ident per helper, cloned at each
   use); temporaries draw from the [fresh] counter. *)
Definition helper_names : list String.string :=
  ["Fragment"; "createTextVNode"; "createVNode"; "isVNode"; "mergeDefaults"; "mergeProps";
   "resolveComponent"; "resolveDirective"; "vModelCheckbox"; "vModelDynamic"; "vModelRadio";
   "vModelSelect"; "vModelText"; "vShow"; "withDirectives"]%string.

Fixpoint helper_index (n : str) (l : list String.string) (i : N) : N :=
  match l with
  | [] => i
  | h :: r => if sq h n then i else helper_index n r (i + 1)
  end.

Definition helper_ctx (name : str) : N := gen_base + helper_index name helper_names 0.
Definition ton_ctx : N := gen_base + 50.
Definition slot_helper_ctx : N := gen_base + 51.
Definition temp_ctx (k : N) : N := gen_base + 1000 + k.

Definition mk_ident (sym : str) (ctx : N) : node := Ident sym ctx false.
Definition mk_bident (sym : str) (ctx : N) : node := BIdent sym ctx false nnull.

(* import_from_vue(name): `_name` private ident, registered in the BTreeMap *)
Definition import_from_vue (name : String.string) (s : st) : node * st :=
  let n := s_ name in
  (mk_ident (c_ "_" :: n) (helper_ctx n), set_imports (set_insert n (imports s)) s).
Arguments import_from_vue _%string_scope _.

Definition fresh_ident (sym : str) (s : st) : node * N * st :=
  let k := fresh s in
  (mk_ident sym (temp_ctx k), temp_ctx k, set_fresh (k + 1) s).

(* ---- AST constructors (what `quote_str!`, `Expr::Lit`, ... build) --------------------- *)
Definition mk_str (v : str) : node := Str v nnull.
Definition mk_strS (v : String.string) : node := Str (s_ v) nnull.
Arguments mk_strS _%string_scope.
Definition mk_num (n : N) : node := Num (dec_of_N n ++ s_ ".0") nnull.
Definition mk_call (callee : node) (args : list node) : node :=
  Call true 0 callee (map (Elem false) args) nnull.
Definition mk_arrow (params : list node) (body : node) : node :=
  Arrow 0 params body false false nnull nnull.
Definition mk_void0 : node := Unary (s_ "void") (mk_num 0).
Definition empty_ident : node := Ident [] 0 false.

Definition has_unres (E : env) (n : node) : bool :=
  match n with Ident _ c _ => N.eqb c (e_unres E) | _ => false end.
