(* visitor/src/directive.rs *)
From VJ Require Import Model.Str Model.Json Model.Ast Model.State Model.Util.

(* is_directive: name bytes match [b'v', b'-' | b'A'..=b'Z', ..] *)
Definition attr_base_name (name : node) : str :=
  match name with
  | IdName s => s
  | JNs (IdName ns) _ => ns
  | _ => []
  end.

Definition is_directive_name (s : str) : bool :=
  match s with
  | 118 :: c :: _ => N.eqb c 45 || is_ascii_upper c
  | _ => false
  end.

Definition is_directive (attr : node) : bool :=
  match attr with
  | JAttr name _ => is_directive_name (attr_base_name name)
  | _ => false
  end.

Inductive directive :=
| DNormal (name : str) (argument modifiers : option node) (value : node)
| DText (e : node)
| DHtml (e : node)
| DVModel (argument targ modifiers : option node) (value : node)
| DSlots (e : option node).

Definition lowercase_first (s : str) : str :=
  match s with c :: r => to_ascii_lower c :: r | [] => [] end.

(* parse_modifiers: string literals of the array, as a BTreeSet *)
Fixpoint parse_modifiers (elems : list node) : list str :=
  match elems with
  | [] => []
  | Elem false (Str v _) :: r => set_insert v (parse_modifiers r)
  | _ :: r => parse_modifiers r
  end.

Definition set_of_list (l : list str) : list str := fold_right set_insert [] l.

(* is_simple_ident: can be printed as an unquoted property key *)
Definition is_ascii_alpha (c : N) : bool := is_ascii_lower c || is_ascii_upper c.
Definition is_ascii_digit (c : N) : bool := N.leb 48 c && N.leb c 57.
Definition is_simple_ident (m : str) : bool :=
  match m with
  | c :: r => (is_ascii_alpha c || N.eqb c 95 || N.eqb c 36)
              && forallb (fun c => is_ascii_alpha c || is_ascii_digit c || N.eqb c 95 || N.eqb c 36) r
  | [] => false
  end.

Definition transform_modifiers (mods : list str) (quote : bool) : option node :=
  match mods with
  | [] => None
  | _ => Some (Obj (map (fun m => KV (if quote || negb (is_simple_ident m) then mk_str m else IdName m)
                                     (Bool true)) mods))
  end.

Definition nonempty_mods (m : option (list str)) : bool :=
  match m with Some (_ :: _) => true | _ => false end.

(* the non-spread element at index i *)
Definition elem_at (elems : list node) (i : nat) : option node :=
  match nth_error elems i with Some (Elem false e) => Some e | _ => None end.

Definition as_array (e : node) : option (list node) := match e with Arr l => Some l | _ => None end.

Definition or_void0 (a : option node) : option node :=
  match a with Some _ => a | None => Some mk_void0 end.

Definition first_or_self (e : node) : node :=
  match e with
  | Arr (Elem false x :: _) => x
  | _ => e
  end.

Definition parse_html_text (which : String.string) (value : node) (s : st) : node * st :=
  match value with
  | Str v _ => (mk_str v, s)                    (* the value only: the raw JSX text is dropped *)
  | JExprC JEmpty => (Bool true, set_diags (diags s ++ [s_ "You have to use JSX Expression inside your `" ++ s_ which ++ s_ "`."]) s)
  | JExprC e => (first_or_self e, s)
  | _ => (Bool true, set_diags (diags s ++ [s_ "You have to use JSX Expression inside your `" ++ s_ which ++ s_ "`."]) s)
  end.
Arguments parse_html_text _%string_scope _ _.

(* the array form `[value, arg?, [modifiers]?]`, shared by v-model and runtime directives;
   [dflt]: a component's v-model gets the explicit `null` argument *)
Definition array_form (dflt : bool) (argument : option node) (splitted : list str) (elems : list node)
  : node * option node * option (list str) :=
  let v := match elems with Elem false e :: _ => e | _ => empty_ident end in
  let arg_d := if dflt then match argument with None => Some Null | _ => argument end else argument in
  match elem_at elems 1 with
  | Some e =>
      match as_array e with
      | Some elems2 => (v, arg_d, Some (parse_modifiers elems2))
      | None =>
          (v, match argument with None => Some e | _ => argument end,
           match elem_at elems 2 with
           | Some x => match as_array x with
                       | Some elems3 => Some (parse_modifiers elems3)
                       | None => None
                       end
           | None => None
           end)
      end
  | None => (v, arg_d, Some (set_of_list splitted))
  end.

Definition vmodel_attr_value (value : node) (s : st) : node * st :=
  match value with
  | JExprC JEmpty =>
      (empty_ident, add_diag "You have to use JSX Expression inside your `v-model`." s)
  | JExprC e => (e, s)
  | _ => (empty_ident, add_diag "You have to use JSX Expression inside your `v-model`." s)
  end.

Definition vmodel_first_check (attr_value : node) (s : st) : st :=
  match attr_value with
  | Arr (Elem false _ :: _) => s
  | Arr _ => add_diag "The first element of `v-model` array must be the bound expression." s
  | _ => s
  end.

Definition vmodel_parts (attr_value : node) (is_component : bool) (argument : option node)
           (splitted : list str) : node * option node * option (list str) :=
  match attr_value with
  | Arr elems => array_form is_component argument splitted elems
  | _ => (attr_value, argument, Some (set_of_list splitted))
  end.

(* expressions `(value) = $event` can assign to *)
(* parentheses and type wrappers are looked through *)
Fixpoint is_assignable (v : node) {struct v} : bool :=
  match v with
  | Ident _ _ _ | Member _ _ => true
  | Paren e => is_assignable e
  | NObj fs =>
      let t := ntype v in
      if sq "SuperPropExpression" t then true
      else if sq "TsAsExpression" t || sq "TsNonNullExpression" t
              || sq "TsSatisfiesExpression" t || sq "TsTypeAssertion" t
      then (fix find (l : list node) : bool :=
              match l with
              | Field k e :: r => if sq "expression" k then is_assignable e else find r
              | _ :: r => find r
              | [] => false
              end) fs
      else false
  | _ => false
  end.

Definition vmodel_target_check (v : node) (s : st) : st :=
  if is_assignable v then s
  else add_diag "`v-model` must be bound to an assignable expression (identifier or member expression)." s.

Definition parse_v_model (value : node) (is_component : bool) (argument : option node)
           (splitted : list str) (s : st) : directive * st :=
  let '(attr_value, s) := vmodel_attr_value value s in
  let s := vmodel_first_check attr_value s in
  let '(value', argument, modifiers) := vmodel_parts attr_value is_component argument splitted in
  let s := vmodel_target_check value' s in
  (DVModel argument
           (if negb is_component && nonempty_mods modifiers then or_void0 argument else argument)
           (match modifiers with Some m => transform_modifiers m is_component | None => None end)
           value', s).

Definition parse_v_slots (value : node) : directive :=
  match value with
  | JExprC ((Ident _ _ _) as e) => DSlots (Some e)
  | JExprC ((Obj _) as e) => DSlots (Some e)
  | _ => DSlots None
  end.

Definition normal_parts (value : node) (argument : option node) (splitted : list str)
  : node * option node * option (list str) :=
  match value with
  | JExprC JEmpty => (empty_ident, argument, Some (set_of_list splitted))
  | JExprC (Arr elems) => array_form false argument splitted elems
  | JExprC e => (e, argument, Some (set_of_list splitted))
  | _ => (empty_ident, argument, Some (set_of_list splitted))
  end.

(* parse_directive(jsx_attr, is_component); [name]/[value] are the attribute's fields *)
Definition parse_directive (name value : node) (is_component : bool) (s : st) : directive * st :=
  let '(dname, argument, splitted) :=
    match name with
    | JNs (IdName ns) (IdName nm) =>
        let parts := split_on 95 nm in
        (lowercase_first (trim_start_c 45 (trim_start_c 118 ns)),
         Some (match parts with p :: _ => p | [] => nm end),
         match parts with _ :: r => r | [] => [] end)
    | IdName sym =>
        let parts := split_on 95 (trim_start_c 45 (trim_start_c 118 sym)) in
        (lowercase_first (match parts with p :: _ => p | [] => sym end),
         None,
         match parts with _ :: r => r | [] => [] end)
    | _ => ([], None, [])
    end in
  let argument := match argument with Some a => Some (mk_str a) | None => None end in
  if sq "html" dname then let '(e, s) := parse_html_text "v-html" value s in (DHtml e, s)
  else if sq "text" dname then let '(e, s) := parse_html_text "v-text" value s in (DText e, s)
  else if sq "model" dname then parse_v_model value is_component argument splitted s
  else if sq "slots" dname then (parse_v_slots value, s)
  else
    let '(value', argument, modifiers) := normal_parts value argument splitted in
    (DNormal dname
             (if nonempty_mods modifiers then or_void0 argument else argument)
             (match modifiers with Some m => transform_modifiers m false | None => None end)
             value', s).
