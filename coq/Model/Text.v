(* util::transform_text (visitor/src/util.rs) *)
From VJ Require Import Model.Str.

(* the loop body: `index == 0`, `index == last_index` *)
Definition clean_line (first last : bool) (l : str) : str :=
  let l := if first then l else trim_start_c 32 l in
  if last then l else trim_end_c 32 l.

Fixpoint clean_lines (first : bool) (ls : list str) : list str :=
  match ls with
  | [] => []
  | [l] => let l' := clean_line first true l in
           match l' with [] => [] | _ => [l'] end
  | l :: r => let l' := clean_line first false l in
              match l' with [] => clean_lines false r | _ => l' :: clean_lines false r end
  end.

Definition transform_text (text : str) : str :=
  let v := replace_char 9 32 (replace_char 13 10 (replace_crlf text)) in
  join [32] (clean_lines true (split_on 10 v)).
