(* visitor/src/resolve_type.rs and the resolveType hooks of lib.rs
   (visit_mut_call_expr, visit_mut_var_declarator, interface / alias registration,
    inject_define_component_option).  Recursion through the user's declarations runs on
   fuel; running out of fuel is recorded as [panicked].  The real code overflowed the stack on
   self- and mutually-referential declarations until fix 9b943db; it now remembers the names and
   indexed accesses being resolved and reports a reference back to one of them ("Circular type
   reference.").  That bookkeeping is NOT modelled: on cyclic declarations model (fuel) and code
   (diagnostic) differ, and the cyclic stream of the C08 check judges the real run alone. *)
From VJ Require Import Model.Str Model.Json Model.Ast Model.State Model.Util.

Section Types.
Variable E : env.

Definition tf (k : String.string) (n : node) : node :=
  match nfield k n with Some v => v | None => nnull end.
Arguments tf _%string_scope _.
Definition tlist (k : String.string) (n : node) : list node :=
  match nfield k n with Some (NArr l) => l | _ => [] end.
Arguments tlist _%string_scope _.
Definition tbool (k : String.string) (n : node) : bool :=
  match nfield k n with Some (NScalar (JBool b)) => b | _ => false end.
Arguments tbool _%string_scope _.
Definition is_ty (t : String.string) (n : node) : bool := sq t (ntype n).
Arguments is_ty _%string_scope _.

(* TsTypeAnn -> the type; [None] when the annotation is absent *)
Definition ann_type (a : node) : option node :=
  if is_ty "TsTypeAnnotation" a then Some (tf "typeAnnotation" a) else None.

(* type parameters of a TsTypeRef *)
Definition type_params (ty : node) : list node :=
  let p := tf "typeParams" ty in
  if is_ty "TsTypeParameterInstantiation" p then tlist "params" p else [].

(* ---- registries ----------------------------------------------------------------------- *)
Fixpoint reg_get (sym : str) (c : N) (l : list (str * N * node)) : option node :=
  match l with
  | [] => None
  | (k, c', v) :: r => if str_eqb k sym && N.eqb c c' then Some v else reg_get sym c r
  end.

Fixpoint reg_update (sym : str) (c : N) (f : option node -> node) (l : list (str * N * node))
  : list (str * N * node) :=
  match l with
  | [] => [(sym, c, f None)]
  | (k, c', v) :: r =>
      if str_eqb k sym && N.eqb c c' then (k, c', f (Some v)) :: r
      else (k, c', v) :: reg_update sym c f r
  end.

(* an interface is stored as NArr [NArr extends; NArr body] *)
Definition iface_extends (i : node) : list node :=
  match i with NArr [NArr e; _] => e | _ => [] end.
Definition iface_body (i : node) : list node :=
  match i with NArr [_; NArr b] => b | _ => [] end.

Definition register_ts_decl (n : node) (s : st) : st :=
  if is_ty "TsInterfaceDeclaration" n then
    match tf "id" n with
    | Ident sym c _ =>
        let body := tlist "body" (tf "body" n) in
        let ext := tlist "extends" n in
        set_interfaces
          (reg_update sym c
             (fun old => match old with
                         | Some i => NArr [NArr (iface_extends i ++ ext); NArr (iface_body i ++ body)]
                         | None => NArr [NArr ext; NArr body]
                         end) (interfaces s)) s
    | _ => s
    end
  else if is_ty "TsTypeAliasDeclaration" n then
    match tf "id" n with
    | Ident sym c _ => set_aliases (reg_update sym c (fun _ => tf "typeAnnotation" n) (aliases s)) s
    | _ => s
    end
  else s.

(* TypeDeclCollector: every declaration of the module, in document order, before the
   transformation starts *)
Definition collect_ts_decls (subs_of : node -> list node) (m : node) (s : st) : st :=
  if o_resolve_type (e_opts E) then fold_left (fun s n => register_ts_decl n s) (subs_of m) s else s.

(* ---- refined type elements ------------------------------------------------------------ *)
Inductive relem :=
| RProp (key : node) (computed optional : bool) (tann : node)
| RGetter (key : node) (computed : bool) (tann : node)
| RMethod (key : node) (computed optional : bool)
| RCall (params : list node).

Definition refine_member (m : node) : option relem :=
  if is_ty "TsPropertySignature" m then
    Some (RProp (tf "key" m) (tbool "computed" m) (tbool "optional" m) (tf "typeAnnotation" m))
  else if is_ty "TsMethodSignature" m then
    Some (RMethod (tf "key" m) (tbool "computed" m) (tbool "optional" m))
  else if is_ty "TsGetterSignature" m then
    Some (RGetter (tf "key" m) (tbool "computed" m) (tf "typeAnnotation" m))
  else if is_ty "TsCallSignatureDeclaration" m then Some (RCall (tlist "params" m))
  else None.

Fixpoint refine_members (ms : list node) : list relem :=
  match ms with
  | [] => []
  | m :: r => match refine_member m with Some x => x :: refine_members r | None => refine_members r end
  end.

Definition key_name (k : node) : option str :=
  match k with Ident s _ _ => Some s | IdName s => Some s | Str v _ => Some v | _ => None end.

Definition relem_key (x : relem) : option node :=
  match x with
  | RProp k _ _ _ | RGetter k _ _ | RMethod k _ _ => Some k
  | RCall _ => None
  end.

Definition msg_unres_ref : str :=
  s_ "Unresolvable type reference or unsupported built-in utility type.".
Definition msg_other_mod : str := s_ "Types from other modules can't be resolved.".
Definition msg_unres : str := s_ "Unresolvable type.".
Definition msg_index_key : str := s_ "Unsupported type as index key.".
Definition diag (m : str) (s : st) : st := set_diags (diags s ++ [m]) s.

Definition lit_str_type (ty : node) : option str :=
  if is_ty "TsLiteralType" ty then
    match tf "literal" ty with Str v _ => Some v | _ => None end
  else None.

Definition ref_ident (ty : node) : option (str * N) :=
  if is_ty "TsTypeReference" ty then
    match tf "typeName" ty with Ident s c _ => Some (s, c) | _ => None end
  else None.

(* resolve_string_or_union_strings *)
Fixpoint rsus (fuel : nat) (ty : node) (s : st) : list str * st :=
  match fuel with
  | O => ([], panic s)
  | S f =>
      match lit_str_type ty with
      | Some v => ([v], s)
      | None =>
          if is_ty "TsUnionType" ty then
            fold_left (fun '(acc, s) t =>
                         match lit_str_type t with
                         | Some v => (acc ++ [v], s)
                         | None => let '(l, s) := rsus f t s in (acc ++ l, s)
                         end) (tlist "types" ty) ([], s)
          else
            match ref_ident ty with
            | Some (sym, c) =>
                match reg_get sym c (aliases s) with
                | Some aliased => rsus f aliased s
                | None => if N.eqb c (e_unres E) then ([], diag msg_unres_ref s)
                          else ([], diag msg_other_mod s)
                end
            | None => ([], diag msg_index_key s)
            end
      end
  end.

Definition fn_ref : node :=
  gobj "TsTypeReference" [fld "typeName" (Ident (s_ "Function") 0 false); fld "typeParams" nnull].
Definition mk_union (tys : list node) : node := gobj "TsUnionType" [fld "types" (NArr tys)].

Definition is_kw (k : String.string) (ty : node) : bool :=
  is_ty "TsKeywordType" ty &&
  match tf "kind" ty with NScalar (JStr x) => sq k x | _ => false end.
Arguments is_kw _%string_scope _.

Definition is_num_lit_type (ty : node) : option str :=
  if is_ty "TsLiteralType" ty then
    match tf "literal" ty with Num v _ => Some v | _ => None end
  else None.

(* members selected by an index type, as a list of types *)
Definition index_all_string (members : list node) : list node :=
  fold_right (fun m acc =>
    if is_ty "TsPropertySignature" m || is_ty "TsGetterSignature" m then
      match tf "key" m with
      | Ident _ _ _ | Str _ _ =>
          match ann_type (tf "typeAnnotation" m) with Some t => t :: acc | None => acc end
      | _ => acc
      end
    else if is_ty "TsIndexSignature" m then
      match ann_type (tf "typeAnnotation" m) with Some t => t :: acc | None => acc end
    else if is_ty "TsMethodSignature" m then fn_ref :: acc
    else acc) [] members.

Definition index_by_keys (keys : list str) (members : list node) : list node :=
  fold_right (fun m acc =>
    if is_ty "TsPropertySignature" m || is_ty "TsGetterSignature" m then
      match key_name (tf "key" m) with
      | Some k => if mem_str k keys then
                    match ann_type (tf "typeAnnotation" m) with Some t => t :: acc | None => acc end
                  else acc
      | None => acc
      end
    else if is_ty "TsMethodSignature" m then
      match key_name (tf "key" m) with
      | Some k => if mem_str k keys then fn_ref :: acc else acc
      | None => acc
      end
    else acc) [] members.

Definition select_members (fuel : nat) (members : list node) (index : node) (s : st)
  : option node * st :=
  let '(props, s) :=
    if is_kw "string" index then (index_all_string members, s)
    else if (match lit_str_type index with Some _ => true | None => false end)
            || is_ty "TsUnionType" index || is_ty "TsTypeReference" index then
      let '(keys, s) := rsus fuel index s in (index_by_keys keys members, s)
    else ([], s) in
  match props with
  | [t] => (Some t, s)
  | _ => (Some (mk_union props), s)
  end.

(* f64 `as usize` of the JSON number text; [None] = certainly out of range *)
Definition usize_of_num (v : str) : option nat :=
  match v with
  | 45 :: _ => Some O                                  (* negative saturates to 0 *)
  | _ =>
      if existsb (fun c => N.eqb c 101 || N.eqb c 69) v then None
      else match N_of_dec (hd [] (split_on 46 v)) with
           | Some n => Some (N.to_nat n)
           | None => Some O
           end
  end.

(* resolve_indexed_access *)
Fixpoint ria (fuel : nat) (obj index : node) (s : st) : option node * st :=
  match fuel with
  | O => (None, panic s)
  | S f =>
      match ref_ident obj with
      | Some (sym, c) =>
          match reg_get sym c (aliases s) with
          | Some aliased => ria f aliased index s
          | None =>
              match reg_get sym c (interfaces s) with
              | Some i => select_members f (iface_body i) index s
              | None =>
                  if N.eqb c (e_unres E) && sq "Array" sym then
                    (match type_params obj with t :: _ => Some t | [] => None end, s)
                  else (None, s)
              end
          end
      | None =>
          if is_ty "TsTypeLiteral" obj then select_members f (tlist "members" obj) index s
          else if is_ty "TsArrayType" obj then
            if is_kw "number" index || (match is_num_lit_type index with Some _ => true | None => false end)
            then (Some (tf "elemType" obj), s) else (None, s)
          else if is_ty "TsTupleType" obj then
            match is_num_lit_type index with
            | Some v =>
                match usize_of_num v with
                | Some i => (match nth_error (tlist "elemTypes" obj) i with
                             | Some el => Some (tf "ty" el)
                             | None => None
                             end, s)
                | None => (None, s)
                end
            | None =>
                if is_kw "number" index then
                  (Some (mk_union (map (tf "ty") (tlist "elemTypes" obj))), s)
                else (None, s)
            end
          else (None, s)
      end
  end.

(* resolve_type_elements *)
Definition key_in (keys : list str) (x : relem) (dflt : bool) : bool :=
  match relem_key x with
  | Some (Ident sy _ _) => mem_str sy keys
  | Some (Str v _) => mem_str v keys
  | Some _ => dflt
  | None => dflt
  end.

Fixpoint rte (fuel : nat) (ty : node) (s : st) : list relem * st :=
  match fuel with
  | O => ([], panic s)
  | S f =>
      let rte_list := fun (l : list node) (s : st) =>
        fold_left (fun '(acc, s) t => let '(x, s) := rte f t s in (acc ++ x, s)) l ([], s) in
      if is_ty "TsTypeLiteral" ty then (refine_members (tlist "members" ty), s)
      else if is_ty "TsUnionType" ty || is_ty "TsIntersectionType" ty then rte_list (tlist "types" ty) s
      else if is_ty "TsTypeReference" ty then
        match ref_ident ty with
        | None => ([], diag msg_unres s)          (* qualified name: falls to the last arm *)
        | Some (sym, c) =>
            match reg_get sym c (aliases s) with
            | Some aliased => rte f aliased s
            | None =>
                match reg_get sym c (interfaces s) with
                | Some i =>
                    let own := refine_members (iface_body i) in
                    let parents :=
                      fold_right (fun p acc => match tf "expression" p with
                                               | Ident ps pc po =>
                                                   gobj "TsTypeReference"
                                                        [fld "typeName" (Ident ps pc po); fld "typeParams" nnull] :: acc
                                               | _ => acc
                                               end) [] (iface_extends i) in
                    let '(inh, s) := rte_list parents s in
                    (own ++ inh, s)
                | None =>
                    if N.eqb c (e_unres E) then
                      let ps := type_params ty in
                      if sq "Partial" sym then
                        match ps with
                        | p :: _ =>
                            let '(inner, s) := rte f p s in
                            (map (fun x => match x with
                                           | RProp k cm _ t => RProp k cm true t
                                           | RMethod k cm _ => RMethod k cm true
                                           | _ => x
                                           end) inner, s)
                        | [] => ([], s)
                        end
                      else if sq "Required" sym then
                        match ps with
                        | p :: _ =>
                            let '(inner, s) := rte f p s in
                            (map (fun x => match x with
                                           | RProp k cm _ t => RProp k cm false t
                                           | RMethod k cm _ => RMethod k cm false
                                           | _ => x
                                           end) inner, s)
                        | [] => ([], s)
                        end
                      else if sq "Pick" sym then
                        match ps with
                        | o :: k :: _ =>
                            let '(keys, s) := rsus f k s in
                            let '(inner, s) := rte f o s in
                            (filter (fun x => key_in keys x false) inner, s)
                        | _ => ([], s)
                        end
                      else if sq "Omit" sym then
                        match ps with
                        | o :: k :: _ =>
                            let '(keys, s) := rsus f k s in
                            let '(inner, s) := rte f o s in
                            (filter (fun x => match relem_key x with
                                              | Some (Ident sy _ _) => negb (mem_str sy keys)
                                              | Some (Str v _) => negb (mem_str v keys)
                                              | _ => true
                                              end) inner, s)
                        | _ => ([], s)
                        end
                      else ([], diag msg_unres_ref s)
                    else ([], diag msg_other_mod s)
                end
            end
        end
      else if is_ty "TsIndexedAccessType" ty then
        let '(r, s) := ria f (tf "objectType" ty) (tf "indexType" ty) s in
        match r with
        | Some t => rte f t s
        | None => ([], diag msg_unres s)
        end
      else if is_ty "TsFunctionType" ty then ([RCall (tlist "params" ty)], s)
      else if is_ty "TsParenthesizedType" ty || is_ty "TsOptionalType" ty then
        rte f (tf "typeAnnotation" ty) s
      else ([], diag msg_unres s)
  end.

(* ---- infer_runtime_type --------------------------------------------------------------- *)
Definition oset_insert (x : option str) (l : list (option str)) : list (option str) :=
  if existsb (fun y => match x, y with
                       | None, None => true
                       | Some a, Some b => str_eqb a b
                       | _, _ => false
                       end) l then l else l ++ [x].
Definition oset_extend (l xs : list (option str)) : list (option str) :=
  fold_left (fun acc x => oset_insert x acc) xs l.

Definition members_runtime (ms : list node) : list (option str) :=
  fold_left (fun acc m =>
               if is_ty "TsCallSignatureDeclaration" m || is_ty "TsConstructSignatureDeclaration" m
               then oset_insert (Some (s_ "Function")) acc
               else oset_insert (Some (s_ "Object")) acc) ms [].

Definition one (x : String.string) : list (option str) := [Some (s_ x)].
Arguments one _%string_scope.

Fixpoint irt (fuel : nat) (ty : node) (s : st) : list (option str) * st :=
  match fuel with
  | O => ([], panic s)
  | S f =>
      if is_ty "TsKeywordType" ty then
        (if is_kw "string" ty then one "String"
         else if is_kw "number" ty then one "Number"
         else if is_kw "boolean" ty then one "Boolean"
         else if is_kw "object" ty then one "Object"
         else if is_kw "null" ty then [None]
         else if is_kw "bigint" ty then one "BigInt"
         else if is_kw "symbol" ty then one "Symbol"
         else [None], s)
      else if is_ty "TsTypeLiteral" ty then (members_runtime (tlist "members" ty), s)
      else if is_ty "TsFunctionType" ty || is_ty "TsConstructorType" ty then (one "Function", s)
      else if is_ty "TsArrayType" ty || is_ty "TsTupleType" ty then (one "Array", s)
      else if is_ty "TsLiteralType" ty then
        (match tf "literal" ty with
         | Str _ _ => one "String"
         | Bool _ => one "Boolean"
         | Num _ _ => one "Number"
         | l => if is_ty "TemplateLiteral" l then one "String" else one "Number"
         end, s)
      else if is_ty "TsTypeReference" ty then
        match ref_ident ty with
        | None => (one "Object", s)
        | Some (sym, c) =>
            match reg_get sym c (aliases s) with
            | Some aliased => irt f aliased s
            | None =>
                match reg_get sym c (interfaces s) with
                | Some i => (members_runtime (iface_body i), s)
                | None =>
                    let ps := type_params ty in
                    if mem_str sym (map s_ ["Array"; "Function"; "Object"; "Set"; "Map"; "WeakSet"; "WeakMap";
                                            "Date"; "Promise"; "Error"; "RegExp"]%string)
                    then ([Some sym], s)
                    else if mem_str sym (map s_ ["Partial"; "Required"; "Readonly"; "Record"; "Pick"; "Omit";
                                                 "InstanceType"]%string) then (one "Object", s)
                    else if mem_str sym (map s_ ["Uppercase"; "Lowercase"; "Capitalize"; "Uncapitalize"]%string)
                    then (one "String", s)
                    else if mem_str sym (map s_ ["Parameters"; "ConstructorParameters"]%string)
                    then (one "Array", s)
                    else if sq "NonNullable" sym then
                      match ps with
                      | p :: _ => let '(ts, s) := irt f p s in
                                  (filter (fun t => match t with Some _ => true | None => false end) ts, s)
                      | [] => (one "Object", s)
                      end
                    else if sq "Exclude" sym || sq "OmitThisParameter" sym then
                      match ps with
                      | p :: _ => irt f p s
                      | [] => (one "Object", s)
                      end
                    else if sq "Extract" sym then
                      match ps with
                      | _ :: p :: _ => irt f p s
                      | _ => (one "Object", s)
                      end
                    else (one "Object", s)
                end
            end
        end
      else if is_ty "TsParenthesizedType" ty || is_ty "TsOptionalType" ty then
        irt f (tf "typeAnnotation" ty) s
      else if is_ty "TsUnionType" ty || is_ty "TsIntersectionType" ty then
        fold_left (fun '(acc, s) t => let '(x, s) := irt f t s in (oset_extend acc x, s))
                  (tlist "types" ty) ([], s)
      else if is_ty "TsIndexedAccessType" ty then
        let '(r, s) := ria f (tf "objectType" ty) (tf "indexType" ty) s in
        match r with
        | Some t => irt f t s
        | None => ([], s)
        end
      else (one "Object", s)
  end.

Definition type_fuel : nat := 200.

(* ---- build_props_type ------------------------------------------------------------------ *)
(* extract_prop_name *)
Definition extract_prop_name (key : node) (computed : bool) (s : st) : node * st :=
  match key with
  | Ident sy _ _ => (IdName sy, s)
  | Str _ _ => (key, s)
  | Num _ _ => (key, s)
  | _ =>
      if is_ty "BigIntLiteral" key then (key, s)
      else if computed then (Computed key, s)
      else (IdName [], diag (s_ "Unsupported prop key.") s)
  end.

(* PropName::eq_ignore_span *)
Definition pname_eqb (a b : node) : bool :=
  match a, b with
  | IdName x, IdName y => str_eqb x y
  | Str x _, Str y _ => str_eqb x y
  | Num x _, Num y _ => str_eqb x y
  | IdName _, _ | _, IdName _ | Str _ _, _ | _, Str _ _ | Num _ _, _ | _, Num _ _ => false
  | _, _ => jv_eqb (enc a) (enc b)
  end.

Record prop_ir := mkIr { ir_key : node; ir_types : list (option str); ir_required : bool }.

Fixpoint ir_update (k : node) (f : prop_ir -> prop_ir) (l : list prop_ir) : option (list prop_ir) :=
  match l with
  | [] => None
  | x :: r => if pname_eqb k (ir_key x) then Some (f x :: r)
              else match ir_update k f r with Some r' => Some (x :: r') | None => None end
  end.

Definition infer_ann (tann : node) (s : st) : list (option str) * st :=
  match ann_type tann with
  | Some t => irt type_fuel t s
  | None => ([None], s)
  end.

Definition ir_step (acc : list prop_ir * st) (x : relem) : list prop_ir * st :=
  let '(irs, s) := acc in
  match x with
  | RProp key computed optional tann =>
      let '(k, s) := extract_prop_name key computed s in
      let '(types, s) := infer_ann tann s in
      match ir_update k (fun ir => mkIr (ir_key ir) (oset_extend (ir_types ir) types)
                                        (if optional then false else ir_required ir)) irs with
      | Some irs' => (irs', s)
      | None => (irs ++ [mkIr k (oset_extend [] types) (negb optional)], s)
      end
  | RGetter key computed tann =>
      let '(k, s) := extract_prop_name key computed s in
      let '(types, s) := infer_ann tann s in
      match ir_update k (fun ir => mkIr (ir_key ir) (oset_extend (ir_types ir) types) (ir_required ir)) irs with
      | Some irs' => (irs', s)
      | None => (irs ++ [mkIr k (oset_extend [] types) true], s)
      end
  | RMethod key computed optional =>
      let '(k, s) := extract_prop_name key computed s in
      match ir_update k (fun ir => mkIr (ir_key ir) (oset_insert (Some (s_ "Function")) (ir_types ir))
                                        (if optional then false else ir_required ir)) irs with
      | Some irs' => (irs', s)
      | None => (irs ++ [mkIr k [Some (s_ "Function")] (negb optional)], s)
      end
  | RCall _ => (irs, s)
  end.

Definition type_expr (t : option str) : node :=
  match t with Some n => Ident n 0 false | None => Null end.

(* f64::to_string of the JSON number text: `1.0` prints as `1`; other texts are kept *)
Definition num_to_string (v : str) : str :=
  match split_on 46 v with
  | [i; [48]] => i
  | _ => v
  end.

Definition default_matches (name key : node) : bool :=
  pname_eqb name key ||
  match name, key with
  | IdName a, Str b _ | Str a _, IdName b => str_eqb a b
  | Num n _, Str b _ | Str b _, Num n _ => str_eqb (num_to_string n) b
  | _, _ => false
  end.

Fixpoint find_default (defaults : list (node * node)) (key : node) : option node :=
  match defaults with
  | [] => None
  | (name, d) :: r => if default_matches name key then Some d else find_default r key
  end.

(* Vue never calls the default of a prop whose type is exactly Function: the factory the
   static analysis wrapped around the written value is removed again (every stored default
   that is an arrow is such a wrapper; getters keep their block body) *)
Definition unwrap_function_default (types : list (option str)) (d : node) : node :=
  match types with
  | [Some t] =>
      if sq "Function" t then
        match d with
        | Arrow _ [] b _ _ _ _ => match b with Block _ _ => d | _ => b end
        | _ => d
        end
      else d
  | _ => d
  end.

Definition build_props_type (ty : node) (defaults : list (node * node)) (s : st) : node * st :=
  let '(elems, s) := rte type_fuel ty s in
  let '(irs, s) := fold_left ir_step elems ([], s) in
  (Obj (map (fun ir =>
               KV (ir_key ir)
                  (Obj ([KV (IdName (s_ "type"))
                            (match ir_types ir with
                             | [] => Null
                             | [t] => type_expr t
                             | ts => Arr (map (fun t => Elem false (type_expr t)) ts)
                             end);
                         KV (IdName (s_ "required")) (Bool (ir_required ir))]
                        ++ match find_default defaults (ir_key ir) with
                           | Some d => [KV (IdName (s_ "default")) (unwrap_function_default (ir_types ir) d)]
                           | None => []
                           end))) irs), s).

(* ---- extract_props_type ----------------------------------------------------------------- *)
Fixpoint pat_type_ann (fuel : nat) (p : node) : option node :=
  match fuel with
  | O => None
  | S f =>
      match p with
      | BIdent _ _ _ t => if is_nnull t then None else Some t
      | _ =>
          if is_ty "ObjectPattern" p || is_ty "ArrayPattern" p then
            (let t := tf "typeAnnotation" p in if is_nnull t then None else Some t)
          else if is_ty "AssignmentPattern" p then pat_type_ann f (tf "left" p)
          else None
      end
  end.

Definition first_param (setup : node) : option node :=
  match setup with
  | Arrow _ (p :: _) _ _ _ _ _ => Some p
  | NObj _ =>
      if is_ty "FunctionExpression" setup then
        match tlist "params" setup with p :: _ => Some (tf "pat" p) | [] => None end
      else None
  | _ => None
  end.

Definition nth_param (setup : node) (i : nat) : option node :=
  match setup with
  | Arrow _ ps _ _ _ _ _ => nth_error ps i
  | NObj _ =>
      if is_ty "FunctionExpression" setup then
        match nth_error (tlist "params" setup) i with Some p => Some (tf "pat" p) | None => None end
      else None
  | _ => None
  end.

(* try_unwrap_lit_prop_name *)
Definition lit_prop_name (k : node) : option node :=
  match k with
  | IdName _ | Str _ _ | Num _ _ => Some k
  | Computed e =>
      match e with
      | Str _ _ | Num _ _ => Some e
      | _ => if is_ty "BigIntLiteral" e then Some e else None
      end
  | _ => if is_ty "BigIntLiteral" k then Some k else None
  end.

Definition static_default (p : node) : option (node * node) :=
  match p with
  | Ident sy c o => Some (IdName sy, mk_arrow [] (Ident sy c o))
  | KV key value =>
      match lit_prop_name key with
      | Some k => Some (k, if is_lit value then value else mk_arrow [] value)
      | None => None
      end
  | NObj _ =>
      if is_ty "GetterProperty" p then
        let body := tf "body" p in
        if is_nnull body then None
        else match lit_prop_name (tf "key" p) with
             | Some k => Some (k, mk_arrow [] body)
             | None => None
             end
      else if is_ty "MethodProperty" p then
        match lit_prop_name (tf "key" p), p with
        | Some k, NObj (ft :: fk :: rest) =>
            Some (k, gobj "FunctionExpression" (fld "identifier" nnull :: rest))
        | _, _ => None
        end
      else None
  | _ => None
  end.

Fixpoint static_defaults (ps : list node) : option (list (node * node)) :=
  match ps with
  | [] => Some []
  | p :: r => match static_default p, static_defaults r with
              | Some d, Some ds => Some (d :: ds)
              | _, _ => None
              end
  end.

Definition extract_props_type (arg0 : node) (s : st) : option node * st :=
  match arg0 with
  | Elem false setup =>
      match first_param setup with
      | None => (None, s)
      | Some param =>
          let defaults := if is_ty "AssignmentPattern" param then Some (tf "right" param) else None in
          match pat_type_ann 50 param with
          | None => (None, s)
          | Some tann =>
              let ty := tf "typeAnnotation" tann in
              match defaults with
              | None => let '(o, s) := build_props_type ty [] s in (Some o, s)
              | Some d =>
                  let static := match d with Obj ps => static_defaults ps | _ => None end in
                  match static with
                  | Some ds => let '(o, s) := build_props_type ty ds s in (Some o, s)
                  | None =>
                      let '(h, s) := import_from_vue "mergeDefaults" s in
                      let '(o, s) := build_props_type ty [] s in
                      (Some (Call false 0 h [Elem false o; Elem false d] nnull), s)
                  end
              end
          end
      end
  | _ => (None, s)
  end.

(* ---- extract_emits_type ----------------------------------------------------------------- *)
Definition param_type_ann (p : node) : option node :=
  match p with
  | BIdent _ _ _ t => if is_nnull t then None else Some t
  | _ => if is_ty "ArrayPattern" p || is_ty "ObjectPattern" p || is_ty "RestElement" p then
           (let t := tf "typeAnnotation" p in if is_nnull t then None else Some t)
         else None
  end.

Definition emits_of (x : relem) (s : st) : list str * st :=
  match x with
  | RMethod key _ _ | RProp key _ _ _ =>
      (match key with Ident sy _ _ => [sy] | Str v _ => [v] | _ => [] end, s)
  | RCall params =>
      match params with
      | p :: _ =>
          match param_type_ann p with
          | Some tann => rsus type_fuel (tf "typeAnnotation" tann) s
          | None => ([], s)
          end
      | [] => ([], s)
      end
  | RGetter _ _ _ => ([], s)
  end.

Definition extract_emits_type (arg0 : node) (s : st) : option node * st :=
  match arg0 with
  | Elem false setup =>
      match nth_param setup 1 with
      | None => (None, s)
      | Some p =>
          let tann :=
            match p with
            | BIdent _ _ _ t => if is_nnull t then None else Some t
            | _ => if is_ty "ArrayPattern" p || is_ty "ObjectPattern" p then
                     (let t := tf "typeAnnotation" p in if is_nnull t then None else Some t)
                   else None
            end in
          match tann with
          | None => (None, s)
          | Some tann =>
              let ty := tf "typeAnnotation" tann in
              match ref_ident ty with
              | Some (sym, _) =>
                  if sq "SetupContext" sym && is_ty "TsTypeParameterInstantiation" (tf "typeParams" ty) then
                    match type_params ty with
                    | def :: _ =>
                        let '(elems, s) := rte type_fuel def s in
                        let '(names, s) :=
                          fold_left (fun '(acc, s) x => let '(n, s) := emits_of x s in (acc ++ n, s))
                                    elems ([], s) in
                        (Some (Arr (map (fun n => Elem false (mk_str n)) names)), s)
                    | [] => (None, s)
                    end
                  else (None, s)
              | None => (None, s)
              end
          end
      end
  | _ => (None, s)
  end.

(* ---- inject_define_component_option ----------------------------------------------------- *)
(* object_has_option: the key in any spelling - identifier / string key of a key-value,
   getter or method, or a shorthand property *)
Definition key_is (name : String.string) (k : node) : bool :=
  match k with IdName s => sq name s | Str v _ => sq name v | _ => false end.
Arguments key_is _%string_scope _.

Definition has_ident_key (name : String.string) (props : list node) : bool :=
  existsb (fun p => match p with
                    | KV k _ => key_is name k
                    | Ident s _ _ => sq name s
                    | NObj _ =>
                        if is_ty "GetterProperty" p || is_ty "MethodProperty" p then key_is name (tf "key" p)
                        else false
                    | _ => false
                    end) props.
Arguments has_ident_key _%string_scope _.

(* insert before the first spread (or at the end) *)
Fixpoint insert_before_spread (kv : node) (props : list node) : list node :=
  match props with
  | [] => [kv]
  | (Spread _) as p :: r => kv :: p :: r
  | p :: r => p :: insert_before_spread kv r
  end.

Definition inject_option (args : list node) (name : String.string) (value : node) : list node :=
  let kv := KV (IdName (s_ name)) value in
  match args with
  | a0 :: Elem true _ :: _ => args
  | a0 :: Elem false (Obj props) :: r =>
      if has_ident_key name props then args else a0 :: Elem false (Obj (insert_before_spread kv props)) :: r
  | a0 :: Elem false other :: r => a0 :: Elem false (Obj [kv; Spread other]) :: r
  | [a0] => [a0; Elem false (Obj [kv])]
  | [] => []                                  (* no first argument: nothing is injected *)
  | _ => args ++ [Elem false (Obj [kv])]
  end.
Arguments inject_option _ _%string_scope _.

(* has_define_component_option: the options object literal already has `name: …` *)
Definition has_option (args : list node) (name : String.string) : bool :=
  match args with
  | _ :: Elem false (Obj props) :: _ => has_ident_key name props
  | _ => false
  end.
Arguments has_option _ _%string_scope.

Definition is_define_component_call (n : node) (s : st) : bool :=
  match n with
  | Call _ _ (Ident sym c _) _ _ =>
      match define_component s with
      | Some dc => N.eqb dc c && sq "defineComponent" sym
      | None => false
      end
  | _ => false
  end.

Definition hook_call (n : node) (s : st) : node * st :=
  if negb (o_resolve_type (e_opts E)) then (n, s)
  else if negb (is_define_component_call n s) then (n, s)
  else
    match n with
    | Call _ _ _ (_ :: Elem true _ :: _) _ => (n, s)       (* a spread argument list is left alone *)
    | Call sy c f ((a0 :: _) as args) ta =>
        let '(args, s) :=
          if has_option args "props" then (args, s)
          else let '(props, s) := extract_props_type a0 s in
               (match props with Some p => inject_option args "props" p | None => args end, s) in
        let '(args, s) :=
          if has_option args "emits" then (args, s)
          else let '(emits, s) := extract_emits_type a0 s in
               (match emits with Some e => inject_option args "emits" e | None => args end, s) in
        (Call sy c f args ta, s)
    | _ => (n, s)
    end.

Definition hook_declarator (n : node) (s : st) : node * st :=
  if negb (o_resolve_type (e_opts E)) then (n, s)
  else
    match n with
    | NObj [ft; Field ki (BIdent sym bc bo bt); Field kn ((Call sy c f args ta) as call); fd] =>
        if sq "id" ki && sq "init" kn && is_define_component_call call s then
          (NObj [ft; Field ki (BIdent sym bc bo bt);
                 Field kn (Call sy c f (inject_option args "name" (mk_str sym)) ta); fd], s)
        else (n, s)
    | _ => (n, s)
    end.

End Types.
