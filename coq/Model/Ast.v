(* The reduced AST: SWC's JSON AST (spans stripped) with the node kinds the transform
   inspects or produces made structural, everything else kept as generic JSON objects.
   [dec]/[enc] convert from/to JSON; [enc (dec j) = j] is re-checked on every case at run
   time by the correspondence runner. *)
From VJ Require Import Model.Str Model.Json.

Inductive node :=
| NScalar (j : jv)
| NArr (l : list node)
| NObj (l : list node)
| Field (k : str) (v : node)
| Ident (sym : str) (ctx : N) (opt : bool)
| BIdent (sym : str) (ctx : N) (opt : bool) (tann : node)
| IdName (sym : str)
| Str (v : str) (raw : node)
| Num (v : str) (raw : node)
| Bool (b : bool)
| Null
| Arr (elems : list node)
| Elem (spread : bool) (e : node)
| Hole
| Obj (props : list node)
| KV (key value : node)
| Computed (e : node)
| Spread (e : node)
| Call (syn : bool) (ctx : N) (callee : node) (args : list node) (targs : node)
| Arrow (ctx : N) (params : list node) (body : node) (async gen : bool) (tparams rtype : node)
| Assign (op : str) (l r : node)
| Paren (e : node)
| Cond (t c a : node)
| Bin (op : str) (l r : node)
| Unary (op : str) (a : node)
| Member (o p : node)
| Block (ctx : N) (stmts : list node)
| JsxE (name : node) (attrs : list node) (selfc : bool) (targs : node)
       (children : list node) (closing : node)
| JsxF (children : list node)
| JAttr (name value : node)
| JNs (ns name : node)
| JExprC (e : node)
| JEmpty
| JText (v raw : str)
| JSpreadChild (e : node).

Definition nnull : node := NScalar JNull.
Definition sq (x : String.string) (y : str) : bool := str_eqb (s_ x) y.
Arguments sq _%string_scope _.

(* ---- stage 1: JSON -> generic node ---------------------------------------------------- *)
Fixpoint dec0 (j : jv) {struct j} : node :=
  match j with
  | JArr l => NArr ((fix go (l : list jv) : list node :=
                       match l with [] => [] | x :: r => dec0 x :: go r end) l)
  | JObj l => NObj ((fix go (l : list (str * jv)) : list node :=
                       match l with [] => [] | (k, x) :: r => Field k (dec0 x) :: go r end) l)
  | _ => NScalar j
  end.

(* ---- stage 2: recognise the structural kinds ----------------------------------------- *)
Definition fkey (n : node) : str := match n with Field k _ => k | _ => [] end.
Definition fval (n : node) : node := match n with Field _ v => v | _ => nnull end.

Fixpoint keys_ok (fs : list node) (ks : list String.string) : bool :=
  match fs, ks with
  | [], [] => true
  | f :: fs', k :: ks' => match f with Field k' _ => sq k k' | _ => false end && keys_ok fs' ks'
  | _, _ => false
  end.

Definition as_list (n : node) : option (list node) := match n with NArr l => Some l | _ => None end.
Definition as_bool (n : node) : option bool := match n with NScalar (JBool b) => Some b | _ => None end.
Definition as_str (n : node) : option str := match n with NScalar (JStr s) => Some s | _ => None end.
Definition as_num (n : node) : option str := match n with NScalar (JNum s) => Some s | _ => None end.
Definition as_N (n : node) : option N := match n with NScalar (JNum s) => N_of_dec s | _ => None end.
Definition is_null_or_true (n : node) : option bool :=
  match n with NScalar JNull => Some false | NScalar (JBool true) => Some true | _ => None end.

Notation "'do' x <- a ; b" := (match a with Some x => b | None => None end)
  (at level 200, x name, a at level 100, b at level 200).

Definition classify_typed (ty : str) (r : list node) : option node :=
  if sq "Identifier" ty then
    match r with
    | [c; v; o] => if keys_ok r ["ctxt"; "value"; "optional"]%string then
        do c' <- as_N (fval c); do v' <- as_str (fval v); do o' <- as_bool (fval o);
        Some (Ident v' c' o') else None
    | [c; v; o; t] => if keys_ok r ["ctxt"; "value"; "optional"; "typeAnnotation"]%string then
        do c' <- as_N (fval c); do v' <- as_str (fval v); do o' <- as_bool (fval o);
        Some (BIdent v' c' o' (fval t)) else None
    | [v] => if keys_ok r ["value"]%string then do v' <- as_str (fval v); Some (IdName v') else None
    | _ => None
    end
  else if sq "StringLiteral" ty then
    match r with
    | [v; w] => if keys_ok r ["value"; "raw"]%string then
        do v' <- as_str (fval v); Some (Str v' (fval w)) else None
    | _ => None
    end
  else if sq "NumericLiteral" ty then
    match r with
    | [v; w] => if keys_ok r ["value"; "raw"]%string then
        do v' <- as_num (fval v); Some (Num v' (fval w)) else None
    | _ => None
    end
  else if sq "BooleanLiteral" ty then
    match r with
    | [v] => if keys_ok r ["value"]%string then do b <- as_bool (fval v); Some (Bool b) else None
    | _ => None
    end
  else if sq "NullLiteral" ty then match r with [] => Some Null | _ => None end
  else if sq "ArrayExpression" ty then
    match r with
    | [e] => if keys_ok r ["elements"]%string then
        do l <- as_list (fval e);
        Some (Arr (map (fun x => match x with NScalar JNull => Hole | _ => x end) l)) else None
    | _ => None
    end
  else if sq "ObjectExpression" ty then
    match r with
    | [p] => if keys_ok r ["properties"]%string then do l <- as_list (fval p); Some (Obj l) else None
    | _ => None
    end
  else if sq "KeyValueProperty" ty then
    match r with
    | [k; v] => if keys_ok r ["key"; "value"]%string then Some (KV (fval k) (fval v)) else None
    | _ => None
    end
  else if sq "Computed" ty then
    match r with
    | [e] => if keys_ok r ["expression"]%string then Some (Computed (fval e)) else None
    | _ => None
    end
  else if sq "SpreadElement" ty then
    match r with
    | [s; a] => if keys_ok r ["spread"; "arguments"]%string then
        match fval s with NScalar (JBool true) => Some (Spread (fval a)) | _ => None end else None
    | _ => None
    end
  else if sq "CallExpression" ty then
    match r with
    | [s; c; f; a; t] =>
        if keys_ok r ["syn"; "ctxt"; "callee"; "arguments"; "typeArguments"]%string then
          do s' <- as_bool (fval s); do c' <- as_N (fval c); do a' <- as_list (fval a);
          Some (Call s' c' (fval f) a' (fval t)) else None
    | _ => None
    end
  else if sq "ArrowFunctionExpression" ty then
    match r with
    | [c; p; b; a; g; tp; rt] =>
        if keys_ok r ["ctxt"; "params"; "body"; "async"; "generator"; "typeParameters"; "returnType"]%string
        then do c' <- as_N (fval c); do p' <- as_list (fval p);
             do a' <- as_bool (fval a); do g' <- as_bool (fval g);
             Some (Arrow c' p' (fval b) a' g' (fval tp) (fval rt)) else None
    | _ => None
    end
  else if sq "AssignmentExpression" ty then
    match r with
    | [o; l; v] => if keys_ok r ["operator"; "left"; "right"]%string then
        do o' <- as_str (fval o); Some (Assign o' (fval l) (fval v)) else None
    | _ => None
    end
  else if sq "ParenthesisExpression" ty then
    match r with
    | [e] => if keys_ok r ["expression"]%string then Some (Paren (fval e)) else None
    | _ => None
    end
  else if sq "ConditionalExpression" ty then
    match r with
    | [t; c; a] => if keys_ok r ["test"; "consequent"; "alternate"]%string then
        Some (Cond (fval t) (fval c) (fval a)) else None
    | _ => None
    end
  else if sq "BinaryExpression" ty then
    match r with
    | [o; l; v] => if keys_ok r ["operator"; "left"; "right"]%string then
        do o' <- as_str (fval o); Some (Bin o' (fval l) (fval v)) else None
    | _ => None
    end
  else if sq "UnaryExpression" ty then
    match r with
    | [o; a] => if keys_ok r ["operator"; "argument"]%string then
        do o' <- as_str (fval o); Some (Unary o' (fval a)) else None
    | _ => None
    end
  else if sq "MemberExpression" ty then
    match r with
    | [o; p] => if keys_ok r ["object"; "property"]%string then Some (Member (fval o) (fval p)) else None
    | _ => None
    end
  else if sq "BlockStatement" ty then
    match r with
    | [c; s] => if keys_ok r ["ctxt"; "stmts"]%string then
        do c' <- as_N (fval c); do s' <- as_list (fval s); Some (Block c' s') else None
    | _ => None
    end
  else if sq "JSXElement" ty then
    match r with
    | [o; ch; cl] =>
        if keys_ok r ["opening"; "children"; "closing"]%string then
          match fval o with
          | NObj (Field kt (NScalar (JStr ot)) :: ((n :: a :: sc :: ta :: nil) as r')) =>
              if sq "type" kt && sq "JSXOpeningElement" ot
                 && keys_ok r' ["name"; "attributes"; "selfClosing"; "typeArguments"]%string
              then do a' <- as_list (fval a); do sc' <- as_bool (fval sc); do ch' <- as_list (fval ch);
                   Some (JsxE (fval n) a' sc' (fval ta) ch' (fval cl))
              else None
          | _ => None
          end
        else None
    | _ => None
    end
  else if sq "JSXFragment" ty then
    match r with
    | [o; ch; cl] =>
        if keys_ok r ["opening"; "children"; "closing"]%string then
          match fval o, fval cl with
          | NObj [Field k1 (NScalar (JStr t1))], NObj [Field k2 (NScalar (JStr t2))] =>
              if sq "type" k1 && sq "JSXOpeningFragment" t1 && sq "type" k2 && sq "JSXClosingFragment" t2
              then do ch' <- as_list (fval ch); Some (JsxF ch') else None
          | _, _ => None
          end
        else None
    | _ => None
    end
  else if sq "JSXAttribute" ty then
    match r with
    | [n; v] => if keys_ok r ["name"; "value"]%string then Some (JAttr (fval n) (fval v)) else None
    | _ => None
    end
  else if sq "JSXNamespacedName" ty then
    match r with
    | [n; v] => if keys_ok r ["namespace"; "name"]%string then Some (JNs (fval n) (fval v)) else None
    | _ => None
    end
  else if sq "JSXExpressionContainer" ty then
    match r with
    | [e] => if keys_ok r ["expression"]%string then Some (JExprC (fval e)) else None
    | _ => None
    end
  else if sq "JSXEmptyExpression" ty then match r with [] => Some JEmpty | _ => None end
  else if sq "JSXText" ty then
    match r with
    | [v; w] => if keys_ok r ["value"; "raw"]%string then
        do v' <- as_str (fval v); do w' <- as_str (fval w); Some (JText v' w') else None
    | _ => None
    end
  else if sq "JSXSpreadChild" ty then
    match r with
    | [e] => if keys_ok r ["expression"]%string then Some (JSpreadChild (fval e)) else None
    | _ => None
    end
  else None.

Definition classify (fs : list node) : node :=
  match fs with
  | Field kt (NScalar (JStr ty)) :: r =>
      if sq "type" kt then
        match classify_typed ty r with Some n => n | None => NObj fs end
      else NObj fs
  | [Field ks sp; Field ke e] =>
      if sq "spread" ks && sq "expression" ke then
        match is_null_or_true sp with Some b => Elem b e | None => NObj fs end
      else NObj fs
  | _ => NObj fs
  end.

Fixpoint refine (n : node) {struct n} : node :=
  match n with
  | NArr l => NArr (map refine l)
  | NObj l => classify (map refine l)
  | Field k v => Field k (refine v)
  | _ => n
  end.

Definition dec (j : jv) : node := refine (dec0 j).

(* ---- encoding ------------------------------------------------------------------------ *)
Definition jk (k : String.string) (v : jv) : str * jv := (s_ k, v).
Arguments jk _%string_scope _.
Definition jty (t : String.string) : str * jv := (s_ "type", JStr (s_ t)).
Arguments jty _%string_scope.
Definition jN (n : N) : jv := JNum (dec_of_N n).

Fixpoint enc (n : node) {struct n} : jv :=
  let encl := fix encl (l : list node) : list jv :=
                match l with [] => [] | x :: r => enc x :: encl r end in
  match n with
  | NScalar j => j
  | NArr l => JArr (encl l)
  | NObj l => JObj ((fix go (l : list node) : list (str * jv) :=
                       match l with
                       | [] => []
                       | Field k v :: r => (k, enc v) :: go r
                       | x :: r => ([], enc x) :: go r
                       end) l)
  | Field k v => JObj [(k, enc v)]
  | Ident v c o => JObj [jty "Identifier"; jk "ctxt" (jN c); jk "value" (JStr v); jk "optional" (JBool o)]
  | BIdent v c o t => JObj [jty "Identifier"; jk "ctxt" (jN c); jk "value" (JStr v);
                            jk "optional" (JBool o); jk "typeAnnotation" (enc t)]
  | IdName v => JObj [jty "Identifier"; jk "value" (JStr v)]
  | Str v w => JObj [jty "StringLiteral"; jk "value" (JStr v); jk "raw" (enc w)]
  | Num v w => JObj [jty "NumericLiteral"; jk "value" (JNum v); jk "raw" (enc w)]
  | Bool b => JObj [jty "BooleanLiteral"; jk "value" (JBool b)]
  | Null => JObj [jty "NullLiteral"]
  | Arr l => JObj [jty "ArrayExpression"; jk "elements" (JArr (encl l))]
  | Elem s e => JObj [jk "spread" (if s then JBool true else JNull); jk "expression" (enc e)]
  | Hole => JNull
  | Obj l => JObj [jty "ObjectExpression"; jk "properties" (JArr (encl l))]
  | KV k v => JObj [jty "KeyValueProperty"; jk "key" (enc k); jk "value" (enc v)]
  | Computed e => JObj [jty "Computed"; jk "expression" (enc e)]
  | Spread e => JObj [jty "SpreadElement"; jk "spread" (JBool true); jk "arguments" (enc e)]
  | Call s c f a t => JObj [jty "CallExpression"; jk "syn" (JBool s); jk "ctxt" (jN c);
                            jk "callee" (enc f); jk "arguments" (JArr (encl a));
                            jk "typeArguments" (enc t)]
  | Arrow c p b a g tp rt =>
      JObj [jty "ArrowFunctionExpression"; jk "ctxt" (jN c); jk "params" (JArr (encl p));
            jk "body" (enc b); jk "async" (JBool a); jk "generator" (JBool g);
            jk "typeParameters" (enc tp); jk "returnType" (enc rt)]
  | Assign o l r => JObj [jty "AssignmentExpression"; jk "operator" (JStr o);
                          jk "left" (enc l); jk "right" (enc r)]
  | Paren e => JObj [jty "ParenthesisExpression"; jk "expression" (enc e)]
  | Cond t c a => JObj [jty "ConditionalExpression"; jk "test" (enc t);
                        jk "consequent" (enc c); jk "alternate" (enc a)]
  | Bin o l r => JObj [jty "BinaryExpression"; jk "operator" (JStr o); jk "left" (enc l); jk "right" (enc r)]
  | Unary o a => JObj [jty "UnaryExpression"; jk "operator" (JStr o); jk "argument" (enc a)]
  | Member o p => JObj [jty "MemberExpression"; jk "object" (enc o); jk "property" (enc p)]
  | Block c s => JObj [jty "BlockStatement"; jk "ctxt" (jN c); jk "stmts" (JArr (encl s))]
  | JsxE nm a sc ta ch cl =>
      JObj [jty "JSXElement";
            jk "opening" (JObj [jty "JSXOpeningElement"; jk "name" (enc nm);
                                jk "attributes" (JArr (encl a)); jk "selfClosing" (JBool sc);
                                jk "typeArguments" (enc ta)]);
            jk "children" (JArr (encl ch)); jk "closing" (enc cl)]
  | JsxF ch => JObj [jty "JSXFragment"; jk "opening" (JObj [jty "JSXOpeningFragment"]);
                     jk "children" (JArr (encl ch)); jk "closing" (JObj [jty "JSXClosingFragment"])]
  | JAttr nm v => JObj [jty "JSXAttribute"; jk "name" (enc nm); jk "value" (enc v)]
  | JNs a b => JObj [jty "JSXNamespacedName"; jk "namespace" (enc a); jk "name" (enc b)]
  | JExprC e => JObj [jty "JSXExpressionContainer"; jk "expression" (enc e)]
  | JEmpty => JObj [jty "JSXEmptyExpression"]
  | JText v w => JObj [jty "JSXText"; jk "value" (JStr v); jk "raw" (JStr w)]
  | JSpreadChild e => JObj [jty "JSXSpreadChild"; jk "expression" (enc e)]
  end.

(* ---- small helpers used by the model -------------------------------------------------- *)
(* "type" of a generic object *)
Definition ntype (n : node) : str :=
  match n with
  | NObj (Field kt (NScalar (JStr ty)) :: _) => if sq "type" kt then ty else []
  | _ => []
  end.

Fixpoint nget (k : String.string) (fs : list node) : option node :=
  match fs with
  | [] => None
  | Field k' v :: r => if sq k k' then Some v else nget k r
  | _ :: r => nget k r
  end.
Arguments nget _%string_scope _.

Definition nfield (k : String.string) (n : node) : option node :=
  match n with NObj fs => nget k fs | _ => None end.
Arguments nfield _%string_scope _.

Definition is_nnull (n : node) : bool := match n with NScalar JNull => true | _ => false end.
