(* visitor/src/lib.rs: the lowering of one JSX element / fragment
   (transform_attrs, transform_children, wrap_children, build_iife, transform_tag,
    is_component, resolve_directive, get_pragma, transform_jsx_element/fragment) *)
From VJ Require Import Model.Str Model.Json Model.Ast Model.State Model.Util Model.Text
  Model.Directive.
From VJ Require Import Gen.Tables.

Section Lower.
Variable E : env.
Let O := e_opts E.

(* ---- is_component / transform_tag ------------------------------------------------------ *)
Definition all_digits (s : str) : bool := forallb (fun c => N.leb 48 c && N.leb c 57) s.

Definition is_fragment_name (name : str) : bool :=
  let n := match strip_prefix [95] name with Some r => r | None => name end in
  match strip_prefix (s_ "Fragment") n with
  | Some suffix => all_digits suffix
  | None => false
  end.

Definition tag_name_str (name : node) : str :=
  match name with
  | Ident s _ _ => s
  | JNs _ (IdName s) => s
  | NObj _ => match nfield "property" name with Some (IdName s) => s | _ => [] end
  | _ => []
  end.

Definition is_member_tag (name : node) : bool := sq "JSXMemberExpression" (ntype name).

Definition is_component (name : node) : bool :=
  let n := tag_name_str name in
  let should := negb (is_fragment_name n) && negb (sq "KeepAlive" n) in
  if is_member_tag name then should
  else negb (pat_any E n) && should && negb (is_html_or_svg E n).

Definition transform_tag (name : node) (s : st) : node * st :=
  match name with
  | Ident n c _ =>
      if is_html_or_svg E n then (mk_str n, s)
      else if sq "Fragment" n then import_from_vue "Fragment" s
      else if pat_any E n then (mk_str n, s)
      else if N.eqb c (e_unres E) then
        let '(h, s) := import_from_vue "resolveComponent" s in (mk_call h [mk_str n], s)
      else (name, s)
  | JNs (IdName ns) (IdName nm) =>
      (mk_str (ns ++ [58] ++ nm),
       add_diag "Namespace tags are not supported. Vue's JSX doesn't have namespace semantics." s)
  | _ => (name, s)
  end.

Definition get_pragma (s : st) : node * st :=
  match pragma s with
  | Some p => (mk_ident p 0, s)
  | None => match o_pragma O with
            | Some p => (mk_ident p 0, s)
            | None => import_from_vue "createVNode" s
            end
  end.

(* ---- transform_attrs ------------------------------------------------------------------ *)
Record acc := mkAcc {
  a_props : list node;
  a_margs : list node;
  a_dyn : list str;
  a_dirs : list directive;
  a_slots : option node;
  a_ref : bool; a_class : bool; a_style : bool; a_hyd : bool; a_dynkeys : bool;
  a_st : st;
}.

Definition kv_str (k : str) (v : node) : node := KV (mk_str k) v.

Definition listener (target : node) : node :=
  mk_arrow [mk_bident (s_ "$event") 0]
           (Assign (s_ "=") (Paren target) (mk_ident (s_ "$event") 0)).

Definition attr_name_str (name : node) : str :=
  match name with
  | IdName s => s
  | JNs (IdName ns) (IdName n) => ns ++ [58] ++ n
  | _ => []
  end.

Definition flush_obj (props : list node) : node :=
  Obj (if o_merge_props O then dedupe_props props else props).

Definition step_vmodel (is_comp : bool) (a : acc) (argument targ modifiers : option node)
           (value : node) : acc :=
  let props := a_props a in
  let dyn := a_dyn a in
  let dirs := a_dirs a in
  (* component: the value prop and its modifiers *)
  let '(props, dyn, dirs) :=
    if is_comp then
      let '(key, dyn) :=
        match argument with
        | Some Null | None => (mk_strS "modelValue", iset_insert (s_ "modelValue") dyn)
        | Some (Str v _) => (mk_str v, iset_insert v dyn)
        | Some e => (Computed e, dyn)
        end in
      let props := props ++ [KV key value] in
      let props :=
        match modifiers with
        | Some m =>
            let key := match argument with
                       | Some Null | None => mk_strS "modelModifiers"
                       | Some (Str v _) => mk_str (v ++ s_ "Modifiers")
                       | Some e => Computed (Bin (s_ "+") e (mk_strS "Modifiers"))
                       end in
            props ++ [KV key m]
        | None => props
        end in
      (props, dyn, dirs)
    else (props, dyn, dirs ++ [DNormal (s_ "model") targ modifiers value]) in
  let '(key, dyn, dk) :=
    match argument with
    | Some Null | None =>
        (mk_strS "onUpdate:modelValue", iset_insert (s_ "onUpdate:modelValue") dyn, a_dynkeys a)
    | Some (Str v _) =>
        let n := s_ "onUpdate:" ++ v in (mk_str n, iset_insert n dyn, a_dynkeys a)
    | Some e => (Computed (Bin (s_ "+") (mk_strS "onUpdate") e), dyn, true)
    end in
  mkAcc (props ++ [KV key (listener value)]) (a_margs a) dyn dirs (a_slots a)
        (a_ref a) (a_class a) (a_style a) (a_hyd a) dk (a_st a).

Definition step_directive (is_comp : bool) (a : acc) (name value : node) : acc :=
  let '(d, s) := parse_directive name value is_comp (a_st a) in
  match d with
  | DNormal _ _ _ _ =>
      mkAcc (a_props a) (a_margs a) (a_dyn a) (a_dirs a ++ [d]) (a_slots a)
            (a_ref a) (a_class a) (a_style a) (a_hyd a) (a_dynkeys a) s
  | DHtml e =>
      mkAcc (a_props a ++ [kv_str (s_ "innerHTML") e]) (a_margs a)
            (iset_insert (s_ "innerHTML") (a_dyn a)) (a_dirs a) (a_slots a)
            (a_ref a) (a_class a) (a_style a) (a_hyd a) (a_dynkeys a) s
  | DText e =>
      mkAcc (a_props a ++ [kv_str (s_ "textContent") e]) (a_margs a)
            (iset_insert (s_ "textContent") (a_dyn a)) (a_dirs a) (a_slots a)
            (a_ref a) (a_class a) (a_style a) (a_hyd a) (a_dynkeys a) s
  | DVModel argument targ modifiers v =>
      step_vmodel is_comp
        (mkAcc (a_props a) (a_margs a) (a_dyn a) (a_dirs a) (a_slots a)
               (a_ref a) (a_class a) (a_style a) (a_hyd a) (a_dynkeys a) s)
        argument targ modifiers v
  | DSlots e =>
      mkAcc (a_props a) (a_margs a) (a_dyn a) (a_dirs a) e
            (a_ref a) (a_class a) (a_style a) (a_hyd a) (a_dynkeys a) s
  end.

(* the value expression of a plain attribute; [None] = `unreachable!` *)
Definition plain_attr_value (value : node) : option node :=
  match value with
  | NScalar JNull => Some (Bool true)
  | Str v _ => Some (mk_str (transform_text v))
  | JExprC e => Some e                      (* incl. JEmpty: Expr::JSXEmpty; also an element
                                               value, which lower_el has lowered beforehand *)
  | _ => None
  end.

Definition step_plain (is_comp : bool) (a : acc) (name value : node) : acc :=
  let attr_name := attr_name_str name in
  let ton := o_transform_on O && (sq "on" attr_name || sq "nativeOn" attr_name) in
  let s := a_st a in
  let '(attr_value, s) :=
    match plain_attr_value value with
    | Some v => (v, s)
    | None => (Null, panic s)
    end in
  (* patch flag analysis *)
  let is_ref := sq "ref" attr_name in
  let dynamic := negb is_ref && negb (attr_value_constant value) in
  let hyd := a_hyd a ||
             (dynamic && negb is_comp && is_on attr_name
              && negb (eq_ignore_ascii_case attr_name (s_ "onclick"))
              && negb (sq "onUpdate:modelValue" attr_name)) in
  let cls := a_class a || (dynamic && sq "class" attr_name && negb is_comp) in
  let sty := a_style a || (dynamic && sq "style" attr_name && negb is_comp) in
  let dyn :=
    if dynamic then
      if (sq "class" attr_name && negb is_comp) || (sq "style" attr_name && negb is_comp)
         || sq "key" attr_name || sq "ref" attr_name || ton
      then a_dyn a else iset_insert attr_name (a_dyn a)
    else a_dyn a in
  if ton then
    let '(props, margs) :=
      match a_props a with
      | [] => ([], a_margs a)
      | ps => ([], a_margs a ++ [flush_obj ps])
      end in
    mkAcc props (margs ++ [mk_call (mk_ident (s_ "_transformOn") ton_ctx) [attr_value]])
          dyn (a_dirs a) (a_slots a)
          (a_ref a || is_ref) cls sty hyd true (set_ton true s)
  else
    mkAcc (a_props a ++ [kv_str attr_name attr_value]) (a_margs a) dyn (a_dirs a) (a_slots a)
          (a_ref a || is_ref) cls sty hyd (a_dynkeys a) s.

Definition step_spread (a : acc) (e : node) : acc :=
  let '(props, margs) :=
    match a_props a with
    | [] => ([], a_margs a)
    | ps => if o_merge_props O then ([], a_margs a ++ [Obj (dedupe_props ps)])
            else (ps, a_margs a)
    end in
  let '(props, margs) :=
    match e with
    | Obj ps => if o_merge_props O then (props, margs ++ [e]) else (props ++ ps, margs)
    | _ => if o_merge_props O then (props, margs ++ [e]) else (props ++ [Spread e], margs)
    end in
  mkAcc props margs (a_dyn a) (a_dirs a) (a_slots a)
        (a_ref a) (a_class a) (a_style a) (a_hyd a) true (a_st a).

Definition attr_step (is_comp : bool) (a : acc) (attr : node) : acc :=
  match attr with
  | JAttr name value =>
      if is_directive attr then step_directive is_comp a name value
      else step_plain is_comp a name value
  | Spread e => step_spread a e
  | _ => a
  end.

Definition has_flag (f b : N) : bool := negb (N.eqb (N.land f b) 0).

Definition compute_flags (a : acc) : N :=
  let f :=
    if a_dynkeys a then PF_FULL_PROPS
    else (if a_class a then PF_CLASS else 0)
         + (if a_style a then PF_STYLE else 0)
         + (match a_dyn a with [] => 0 | _ => PF_PROPS end)
         + (if a_hyd a then PF_HYDRATE_EVENTS else 0) in
  if (N.eqb f 0 || N.eqb f PF_HYDRATE_EVENTS)
     && (a_ref a || match a_dirs a with [] => false | _ => true end)
  then f + PF_NEED_PATCH else f.

Record attrs_result := mkAR {
  r_attrs : node; r_flags : N; r_dyn : option (list str); r_slots : option node;
  r_dirs : list directive; r_st : st;
}.

(* the props expression once all attributes have been folded *)
Definition final_attrs_expr (a : acc) : node * st :=
  match a_margs a with
  | _ :: _ =>
      let margs := match a_props a with
                   | [] => a_margs a
                   | ps => a_margs a ++ [flush_obj ps]
                   end in
      match margs with
      | [e] => (e, a_st a)
      | _ => let '(h, s) := import_from_vue "mergeProps" (a_st a) in (mk_call h margs, s)
      end
  | [] =>
      match a_props a with
      | [] => (Null, a_st a)
      | [Spread e] => (e, a_st a)
      | ps => (flush_obj ps, a_st a)
      end
  end.

Definition transform_attrs (attrs : list node) (is_comp : bool) (s : st) : attrs_result :=
  match attrs with
  | [] => mkAR Null 0 None None [] s
  | _ =>
      let a := fold_left (attr_step is_comp) attrs
                         (mkAcc [] [] [] [] None false false false false false s) in
      let '(expr, s) := final_attrs_expr a in
      mkAR expr (compute_flags a) (Some (a_dyn a)) (a_slots a) (a_dirs a) s
  end.

(* ---- children -------------------------------------------------------------------------- *)
Definition slot_flag_num (dynamic : bool) : N := if dynamic then SF_Dynamic else SF_Stable.

Definition merge_slots (props : list node) (slots : option node) : list node :=
  match slots with
  | Some (Obj sp) => props ++ sp
  | Some e => props ++ [Spread e]
  | None => props
  end.

Definition hint_prop (flag : bool) : list node :=
  if o_optimize O then [KV (IdName (s_ "_")) (mk_num (slot_flag_num flag))] else [].

Definition wrap_children (elems : list node) (flag : bool) (slots : option node) : node :=
  Obj (merge_slots [KV (IdName (s_ "default")) (mk_arrow [] (Arr elems))] slots ++ hint_prop flag).

(* build_iife: capture a child identifier that is being reassigned *)
Definition mk_capture (id : node) (name_ctx : N) (sym : str) : node :=
  mk_declarator (mk_bident (95 :: sym) name_ctx)
    (Call true 0 (mk_fn_expr [] (Block 0 [mk_return id])) [] nnull).

Fixpoint build_iife_elems (lft : str) (elems : list node) (s : st) : list node * st :=
  match elems with
  | [] => ([], s)
  | (Elem false ((Ident sym _ _) as id)) as el :: r =>
      if str_eqb sym lft then
        let '(nm, ctx, s) := fresh_ident (95 :: sym) s in
        let s := set_inj_consts (inj_consts s ++ [mk_capture id ctx sym]) s in
        let '(r', s) := build_iife_elems lft r s in
        (Elem false nm :: r', s)
      else let '(r', s) := build_iife_elems lft r s in (el :: r', s)
  | el :: r => let '(r', s) := build_iife_elems lft r s in (el :: r', s)
  end.

Definition build_iife (elems : list node) (s : st) : list node * st :=
  match assign_left s with
  | Some lft => build_iife_elems lft elems (set_assign_left None s)
  | None => (elems, s)
  end.

Definition generate_unique_slot_ident (s : st) : node * st :=
  let sym := if N.eqb (slot_counter s) 1 then s_ "_slot"
             else s_ "_slot" ++ dec_of_N (slot_counter s) in
  let '(id, ctx, s) := fresh_ident sym s in
  let s := set_inj_vars (inj_vars s ++ [mk_declarator (mk_bident sym ctx) nnull]) s in
  (id, set_slot_counter (slot_counter s + 1) s).

Definition slot_helper_ident : node := mk_ident (s_ "_isSlot") slot_helper_ctx.

Definition is_fn_like (e : node) : bool :=
  match e with
  | Arrow _ _ _ _ _ _ _ => true
  | NObj _ => sq "FunctionExpression" (ntype e)
  | _ => false
  end.

Definition is_bound_ident (e : node) : bool :=
  match e with Ident _ c _ => negb (N.eqb c (e_unres E)) | _ => false end.

Definition mark_dynamic (e : node) (s : st) : st :=
  if o_optimize O && is_bound_ident e
  then set_slot_stack (map (fun _ => true) (slot_stack s)) s else s.

Definition transform_jsx_text (v : str) (s : st) : option node * st :=
  match transform_text v with
  | [] => (None, s)
  | t => let '(h, s) := import_from_vue "createTextVNode" s in (Some (mk_call h [mk_str t]), s)
  end.

(* what transform_children does once the element list is known *)
Definition finish_children (elems : list node) (is_comp : bool) (slots : option node) (s : st)
  : node * st :=
  let '(flag, s) :=
    if o_optimize O then
      match rev (slot_stack s) with
      | top :: rest => (top, set_slot_stack (rev rest) s)
      | [] => (false, s)
      end
    else (false, s) in
  let default (s : st) :=
    if is_comp then (wrap_children elems flag slots, s) else (Arr elems, s) in
  match elems with
  | [] => (match slots with Some e => e | None => Null end, s)
  | [Elem false e] =>
      match e with
      | Ident _ _ _ =>
          if is_comp then
            let '(elems', s) := build_iife elems s in
            if o_object_slots O then
              (Cond (mk_call slot_helper_ident [e]) e (wrap_children elems' flag slots),
               set_slot_helper true s)
            else (wrap_children elems' flag slots, s)
          else default s
      | Call false _ _ _ _ =>
          if is_comp then
            if o_object_slots O then
              let '(slot, s) := generate_unique_slot_ident s in
              let '(elems', s) := build_iife [Elem false slot] (set_slot_helper true s) in
              (Cond (mk_call slot_helper_ident [Assign (s_ "=") (Paren slot) e]) slot
                    (wrap_children elems' flag slots), s)
            else (wrap_children elems flag slots, s)
          else default s
      | Obj props => (Obj (merge_slots props slots ++ hint_prop flag), s)
      | _ =>
          if is_fn_like e then
            (Obj (merge_slots [KV (IdName (s_ "default")) e] slots), s)
          else default s
      end
  | _ => default s
  end.

Definition resolve_directive (dname : str) (tag : node) (attrs : list node) (s : st) : node * st :=
  if sq "show" dname then import_from_vue "vShow" s
  else if sq "model" dname then
    match tag with
    | Ident n _ _ =>
        if sq "select" n then import_from_vue "vModelSelect" s
        else if sq "textarea" n then import_from_vue "vModelText" s
        else
          let typ := (fix find (l : list node) : option node :=
                        match l with
                        | JAttr (IdName k) v :: r =>
                            if sq "type" k && negb (is_nnull v) then Some v else find r
                        | _ :: r => find r
                        | [] => None
                        end) attrs in
          match typ with
          | Some (Str v _) =>
              if sq "checkbox" v then import_from_vue "vModelCheckbox" s
              else if sq "radio" v then import_from_vue "vModelRadio" s
              else import_from_vue "vModelText" s
          | None => import_from_vue "vModelText" s
          | Some _ => import_from_vue "vModelDynamic" s
          end
    | _ =>
        let typ := (fix find (l : list node) : option node :=
                      match l with
                      | JAttr (IdName k) v :: r =>
                          if sq "type" k && negb (is_nnull v) then Some v else find r
                      | _ :: r => find r
                      | [] => None
                      end) attrs in
        match typ with
        | Some (Str v _) =>
            if sq "checkbox" v then import_from_vue "vModelCheckbox" s
            else if sq "radio" v then import_from_vue "vModelRadio" s
            else import_from_vue "vModelText" s
        | None => import_from_vue "vModelText" s
        | Some _ => import_from_vue "vModelDynamic" s
        end
    end
  else let '(h, s) := import_from_vue "resolveDirective" s in (mk_call h [mk_str dname], s).

Definition opt_list (o : option node) : list node := match o with Some x => [x] | None => [] end.

Fixpoint build_directives (dirs : list directive) (tag : node) (attrs : list node) (s : st)
  : list node * st :=
  match dirs with
  | [] => ([], s)
  | DNormal name argument modifiers value :: r =>
      let '(d, s) := resolve_directive name tag attrs s in
      let '(r', s) := build_directives r tag attrs s in
      (Elem false (Arr (map (Elem false) ([d; value] ++ opt_list argument ++ opt_list modifiers)))
            :: r', s)
  | _ :: r => build_directives r tag attrs s
  end.

(* ---- the element / fragment lowering (mutually recursive with children) ---------------- *)
(* open recursion: [rec] is lower_el itself *)
Definition lower_children_with (rec : node -> st -> node * st)
  : list node -> st -> list node * st :=
  fix lower_children (cs : list node) (s : st) {struct cs} : list node * st :=
    match cs with
    | [] => ([], s)
    | c :: r =>
        let '(o, s) :=
          match c with
          | JText v _ => let '(t, s) := transform_jsx_text v s in
                         (match t with Some t => [Elem false t] | None => [] end, s)
          | JExprC JEmpty => ([], s)
          | JExprC e => ([Elem false e], mark_dynamic e s)
          | JSpreadChild e => ([Elem true e], mark_dynamic e s)
          | JsxE _ _ _ _ _ _ => let '(x, s) := rec c s in ([Elem false x], s)
          | JsxF _ => let '(x, s) := rec c s in ([Elem false x], s)
          | _ => ([], s)
          end in
        let '(r', s) := lower_children r s in (o ++ r', s)
    end.

(* a JSX element / fragment written directly as the value of a plain attribute is lowered
   when the attribute fold reaches it; doing all of them before the fold only permutes
   diagnostics (compared as a set) *)
Definition lower_attr_values_with (rec : node -> st -> node * st)
  : list node -> st -> list node * st :=
  fix lower_attr_values (l : list node) (s : st) {struct l} : list node * st :=
    match l with
    | [] => ([], s)
    | a :: r =>
        let '(a', s) :=
          match a with
          | JAttr nm ((JsxE _ _ _ _ _ _) as v) =>
              if is_directive a then (a, s)
              else let '(x, s) := rec v s in (JAttr nm (JExprC x), s)
          | JAttr nm ((JsxF _) as v) =>
              if is_directive a then (a, s)
              else let '(x, s) := rec v s in (JAttr nm (JExprC x), s)
          | _ => (a, s)
          end in
        let '(r', s) := lower_attr_values r s in (a' :: r', s)
    end.

Definition vnode_hints (ar : attrs_result) : list node :=
  if o_optimize O then
    (if N.eqb (r_flags ar) 0 then [] else [mk_num (r_flags ar)])
    ++ match r_dyn ar with
       | Some ((_ :: _) as d) => [Arr (map (fun p => Elem false (mk_str p)) d)]
       | _ => []
       end
  else [].

Definition push_slot_flag (s : st) : st :=
  if o_optimize O then set_slot_stack (slot_stack s ++ [false]) s else s.

Fixpoint lower_el (n : node) (s : st) {struct n} : node * st :=
  match n with
  | JsxE name attrs0 _ _ children _ =>
      let s := push_slot_flag s in
      let is_comp := is_component name in
      let '(attrs, s) := lower_attr_values_with lower_el attrs0 s in
      let ar := transform_attrs attrs is_comp s in
      let '(tag, s) := transform_tag name (r_st ar) in
      let '(elems, s) := lower_children_with lower_el children s in
      let '(ch, s) := finish_children elems is_comp (r_slots ar) s in
      let '(callee, s) := get_pragma s in
      let call := mk_call callee ([tag; r_attrs ar; ch] ++ vnode_hints ar) in
      match r_dirs ar with
      | [] => (call, s)
      | dirs =>
          let '(wd, s) := import_from_vue "withDirectives" s in
          let '(ds, s) := build_directives dirs name attrs s in
          (mk_call wd [call; Arr ds], s)
      end
  | JsxF children =>
      let s := push_slot_flag s in
      let '(callee, s) := get_pragma s in
      let '(frag, s) := import_from_vue "Fragment" s in
      let '(elems, s) := lower_children_with lower_el children s in
      let '(ch, s) := finish_children elems false None s in
      (mk_call callee [frag; Null; ch], s)
  | _ => (n, s)
  end.

End Lower.
