(* visitor/src/util.rs: is_constant, is_on, dedupe_props, decouple_v_models,
   build_slot_helper *)
From VJ Require Import Model.Str Model.Json Model.Ast Model.State.

(* Expr::Lit(..): Str, Bool, Null, Num, BigInt, Regex, JSXText *)
Definition is_lit (n : node) : bool :=
  match n with
  | Str _ _ | Num _ _ | Bool _ | Null | JText _ _ => true
  | NObj _ => sq "BigIntLiteral" (ntype n) || sq "RegExpLiteral" (ntype n)
  | _ => false
  end.

Fixpoint is_constant (e : node) {struct e} : bool :=
  match e with
  | Ident s _ _ => sq "undefined" s
  | Arr elems =>
      forallb (fun x => match x with Elem false a => is_constant a | _ => false end) elems
  | Obj props =>
      forallb (fun p => match p with
                        | KV _ v => is_constant v
                        | Ident s _ _ => sq "undefined" s
                        | _ => false
                        end) props
  | _ => is_lit e
  end.

(* is_jsx_attr_value_constant on Option<JSXAttrValue> with unwrap_or_default *)
Definition attr_value_constant (v : node) : bool :=
  match v with
  | Str _ _ => true
  | JExprC JEmpty => false
  | JExprC e => is_constant e
  | _ => false
  end.

Definition is_on (name : str) : bool :=
  match name with
  | 111 :: 110 :: c :: _ => negb (is_ascii_lower c)
  | _ => false
  end.

(* the mergeable names of dedupe_props *)
Definition dedupe_mergeable (name : str) : bool :=
  sq "class" name || sq "style" name || starts_with (s_ "on") name.

(* find the first defined `"name": v` and, if present, replace v by (f v) *)
Fixpoint update_first (name : str) (f : node -> node) (defined : list node)
  : option (list node) :=
  match defined with
  | [] => None
  | (KV (Str k w) v) as p :: r =>
      if str_eqb k name then Some (KV (Str k w) (f v) :: r)
      else match update_first name f r with Some r' => Some (p :: r') | None => None end
  | p :: r => match update_first name f r with Some r' => Some (p :: r') | None => None end
  end.

Definition merge_into (value : node) (old : node) : node :=
  match old with
  | Arr elems => Arr (elems ++ [Elem false value])
  | _ => Arr [Elem false old; Elem false value]
  end.

Definition dedupe_step (defined : list node) (p : node) : list node :=
  match p with
  | KV (Str name raw) value =>
      if dedupe_mergeable name then
        match update_first name (merge_into value) defined with
        | Some d => d
        | None => defined ++ [p]
        end
      else defined ++ [p]
  | _ => defined ++ [p]
  end.

Definition dedupe_props (props : list node) : list node := fold_left dedupe_step props [].

(* decouple_v_models *)
Definition decouple_one (elems : list node) : node :=
  let argument := match nth_error elems 1 with
                  | Some (Elem false (Str v _)) => Some v
                  | _ => None
                  end in
  match argument with
  | Some a =>
      let elems' := match elems with x :: _ :: r => x :: r | _ => elems end in
      JAttr (JNs (IdName (s_ "v-model")) (IdName a)) (JExprC (Arr elems'))
  | None => JAttr (IdName (s_ "v-model")) (JExprC (Arr elems))
  end.

Fixpoint decouple_v_models (elems : list node) : list node :=
  match elems with
  | [] => []
  | Elem false (Arr inner) :: r => decouple_one inner :: decouple_v_models r
  | _ :: r => decouple_v_models r
  end.

(* generic object builder for node kinds that have no constructor of their own *)
Definition gobj (ty : String.string) (fields : list node) : node :=
  NObj (Field (s_ "type") (NScalar (JStr (s_ ty))) :: fields).
Arguments gobj _%string_scope _.
Definition fld (k : String.string) (v : node) : node := Field (s_ k) v.
Arguments fld _%string_scope _.
Definition sc_bool (b : bool) : node := NScalar (JBool b).
Definition sc_str (s : String.string) : node := NScalar (JStr (s_ s)).
Arguments sc_str _%string_scope.
Definition sc_N (n : N) : node := NScalar (JNum (dec_of_N n)).

Definition mk_return (e : node) : node := gobj "ReturnStatement" [fld "argument" e].

(* Function { params, decorators, span, ctxt, body, is_generator, is_async, type_params, return_type } *)
Definition fn_fields (params : list node) (body : node) : list node :=
  [fld "params" (NArr params); fld "decorators" (NArr []); fld "ctxt" (sc_N 0);
   fld "body" body; fld "generator" (sc_bool false); fld "async" (sc_bool false);
   fld "typeParameters" nnull; fld "returnType" nnull].

Definition mk_param (pat : node) : node :=
  gobj "Parameter" [fld "decorators" (NArr []); fld "pat" pat].

Definition mk_fn_expr (params : list node) (body : node) : node :=
  gobj "FunctionExpression" (fld "identifier" nnull :: fn_fields params body).

Definition mk_fn_decl (id : node) (params : list node) (body : node) : node :=
  gobj "FunctionDeclaration"
       (fld "identifier" id :: fld "declare" (sc_bool false) :: fn_fields params body).

Definition mk_var_decl (kind : String.string) (decls : list node) : node :=
  gobj "VariableDeclaration"
       [fld "ctxt" (sc_N 0); fld "kind" (sc_str kind); fld "declare" (sc_bool false);
        fld "declarations" (NArr decls)].
Arguments mk_var_decl _%string_scope _.

Definition mk_declarator (name : node) (init : node) : node :=
  gobj "VariableDeclarator" [fld "id" name; fld "init" init; fld "definite" (sc_bool false)].

(* build_slot_helper(helper_name, is_vnode); [arg] = private_ident!("s") *)
Definition build_slot_helper (helper is_vnode : node) (arg_ctx : N) : node :=
  let arg := mk_ident (s_ "s") arg_ctx in
  let body :=
    Bin (s_ "||")
        (Bin (s_ "===") (Unary (s_ "typeof") arg) (mk_strS "function"))
        (Bin (s_ "&&")
             (Bin (s_ "===")
                  (mk_call (Member (Member (Obj []) (IdName (s_ "toString"))) (IdName (s_ "call")))
                           [arg])
                  (mk_strS "[object Object]"))
             (Unary (s_ "!") (mk_call is_vnode [arg]))) in
  mk_fn_decl helper [mk_param (mk_bident (s_ "s") arg_ctx)] (Block 0 [mk_return body]).
