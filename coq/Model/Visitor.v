(* visitor/src/lib.rs: the VisitMut implementation (module / stmts / arrow / expr /
   jsx opening element / import / ts decl / call / var declarator hooks),
   search_jsx_pragma, and the module-level injection of imports and helpers. *)
From VJ Require Import Model.Str Model.Json Model.Ast Model.State Model.Util Model.Text
  Model.Directive Model.Lower.

Section Visitor.
Variable E : env.


(* resolveType hooks, defined in Model/Types.v *)
Variable hook_call : node -> st -> node * st.          (* visit_mut_call_expr, after children *)
Variable hook_declarator : node -> st -> node * st.    (* visit_mut_var_declarator *)
Variable collect_ts_decls : node -> st -> st.          (* pre-pass: registers every interface / alias *)

(* ---- v-models (visit_mut_jsx_opening_element) ------------------------------------------ *)
Fixpoint split_at_vmodels (attrs : list node) : option (list node * node * list node) :=
  match attrs with
  | [] => None
  | (JAttr (IdName k) v) as a :: r =>
      if sq "v-models" k then Some ([], v, r)
      else match split_at_vmodels r with
           | Some (pre, v', post) => Some (a :: pre, v', post)
           | None => None
           end
  | a :: r => match split_at_vmodels r with
              | Some (pre, v', post) => Some (a :: pre, v', post)
              | None => None
              end
  end.

Definition vmodels_msg : str := s_ "you should pass a Two-dimensional Arrays to v-models".

Definition decouple_attrs (attrs : list node) (s : st) : list node * st :=
  match split_at_vmodels attrs with
  | None => (attrs, s)
  | Some (pre, v, post) =>
      match v with
      | JExprC JEmpty => (pre ++ post, set_diags (diags s ++ [vmodels_msg]) s)
      | JExprC (Arr elems) => (pre ++ decouple_v_models elems ++ post, s)
      | _ => (pre ++ post, set_diags (diags s ++ [vmodels_msg]) s)
      end
  end.

(* ---- declarations drained by visit_mut_stmts / visit_mut_arrow_expr -------------------- *)
Definition pending_decls (s : st) : list node :=
  (match inj_vars s with [] => [] | vs => [mk_var_decl "let" vs] end)
  ++ (match inj_consts s with [] => [] | cs => [mk_var_decl "const" cs] end).

Definition arrow_decls (s : st) : list node :=
  (match inj_consts s with [] => [] | cs => [mk_var_decl "const" cs] end)
  ++ (match inj_vars s with [] => [] | vs => [mk_var_decl "let" vs] end).

Definition enter_scope (s : st) : st :=
  set_slot_counter 1 (set_inj_vars [] (set_inj_consts [] s)).
Definition leave_scope (outer s : st) : st :=
  set_slot_counter (slot_counter outer)
    (set_inj_vars (inj_vars outer) (set_inj_consts (inj_consts outer) s)).

Definition is_block (n : node) : bool := match n with Block _ _ => true | _ => false end.

(* ---- import bookkeeping (visit_mut_import_decl) ---------------------------------------- *)
Fixpoint find_define_component (specs : list node) : option N :=
  match specs with
  | [] => None
  | sp :: r =>
      let here :=
        if sq "ImportSpecifier" (ntype sp) then
          match nfield "local" sp, nfield "imported" sp with
          | Some (Ident sym c _), Some (NScalar JNull) =>
              if sq "defineComponent" sym then Some c else None
          | _, _ => None
          end
        else None in
      match here with Some c => Some c | None => find_define_component r end
  end.

Definition post_import (n : node) (s : st) : st :=
  match nfield "source" n with
  | Some (Str v _) =>
      if sq "vue" v then
        match nfield "specifiers" n with
        | Some (NArr specs) =>
            match find_define_component specs with
            | Some c => set_define_component (Some c) s
            | None => s
            end
        | _ => s
        end
      else s
  | _ => s
  end.

(* ---- the traversal ------------------------------------------------------------------- *)
(* how a node is reached: in expression position (visit_mut_expr fires on it), as a JSX child
   or attribute value (visited, but lowered by the enclosing element), as a field of a
   SwitchCase, or as a statement list (visit_mut_stmts) *)
Inductive mode := MExpr | MNoLower | MSwitch | MStmts.

(* open recursion: [rec] is [visit] itself *)
Definition visit_list_with (rec : mode -> node -> st -> node * st) (m : mode)
  : list node -> st -> list node * st :=
  fix visit_list (l : list node) (s : st) {struct l} : list node * st :=
    match l with
    | [] => ([], s)
    | x :: r => let '(x', s) := rec m x s in
                let '(r', s) := visit_list r s in (x' :: r', s)
    end.

(* JSX children and attributes: nested elements are visited but not lowered here *)
Definition jsx_item_mode (x : node) : mode :=
  match x with JsxE _ _ _ _ _ _ | JsxF _ => MNoLower | _ => MExpr end.

Definition visit_jsx_list_with (rec : mode -> node -> st -> node * st)
  : list node -> st -> list node * st :=
  fix visit_jsx_list (l : list node) (s : st) {struct l} : list node * st :=
    match l with
    | [] => ([], s)
    | x :: r => let '(x', s) := rec (jsx_item_mode x) x s in
                let '(r', s) := visit_jsx_list r s in (x' :: r', s)
    end.

(* a Vec<Stmt>: visit_mut_stmts *)
Definition visit_stmts_with (rec : mode -> node -> st -> node * st) (stmts : list node) (s : st)
  : list node * st :=
  let outer := s in
  let s := enter_scope s in
  let '(stmts', s) := visit_list_with rec MExpr stmts s in
  (pending_decls s ++ stmts', leave_scope outer s).

Fixpoint visit (m : mode) (n : node) (s : st) {struct n} : node * st :=
  match n with
  | JsxE name attrs sc ta children closing =>
      let '(attrs', s) := visit_jsx_list_with visit attrs s in
      let '(attrs', s) := decouple_attrs attrs' s in
      let '(children', s) := visit_jsx_list_with visit children s in
      let n' := JsxE name attrs' sc ta children' closing in
      match m with MNoLower => (n', s) | _ => lower_el E n' s end
  | JsxF children =>
      let '(children', s) := visit_jsx_list_with visit children s in
      let n' := JsxF children' in
      match m with MNoLower => (n', s) | _ => lower_el E n' s end
  | JAttr nm v => let '(v', s) := visit (jsx_item_mode v) v s in (JAttr nm v', s)
  | JExprC e => let '(e', s) := visit MExpr e s in (JExprC e', s)
  | JSpreadChild e => let '(e', s) := visit MExpr e s in (JSpreadChild e', s)
  | Assign op l r =>
      match l with
      | BIdent sym _ _ _ =>
          let outer := assign_left s in
          let s := set_assign_left (Some sym) s in
          let '(l', s) := visit MExpr l s in
          let '(r', s) := visit MExpr r s in
          (Assign op l' r', set_assign_left outer s)
      | _ =>
          let '(l', s) := visit MExpr l s in
          let '(r', s) := visit MExpr r s in
          (Assign op l' r', s)
      end
  | Arrow c params body a g tp rt =>
      let '(params', s) := visit_list_with visit MExpr params s in
      let outer := s in
      let s := enter_scope s in
      let '(body', s) := visit MExpr body s in
      let body'' :=
        match arrow_decls s with
        | [] => body'
        | ds => if is_block body' then body' else Block 0 (ds ++ [mk_return body'])
        end in
      let s := leave_scope outer s in
      (Arrow c params' body'' a g tp rt, s)
  | Block c stmts =>
      let '(stmts', s) := visit_stmts_with visit stmts s in (Block c stmts', s)
  | Call sy c f args ta =>
      let '(f', s) := visit MExpr f s in
      let '(args', s) := visit_list_with visit MExpr args s in
      hook_call (Call sy c f' args' ta) s
  | NObj fields =>
      if sq "SwitchCase" (ntype n) then
        (* `consequent` is a Vec<Stmt> *)
        let '(fields', s) := visit_list_with visit MSwitch fields s in (NObj fields', s)
      else
        let '(fields', s) := visit_list_with visit MExpr fields s in
        let n' := NObj fields' in
        let ty := ntype n in
        if sq "ImportDeclaration" ty then (n', post_import n' s)
        else if sq "VariableDeclarator" ty then hook_declarator n' s
        else (n', s)
  | NArr l =>
      match m with
      | MStmts => let '(l', s) := visit_stmts_with visit l s in (NArr l', s)
      | _ => let '(l', s) := visit_list_with visit MExpr l s in (NArr l', s)
      end
  | Field k v =>
      let m' := match m with MSwitch => if sq "consequent" k then MStmts else MExpr | _ => MExpr end in
      let '(v', s) := visit m' v s in (Field k v', s)
  | BIdent sym c o t => let '(t', s) := visit MExpr t s in (BIdent sym c o t', s)
  | Arr elems => let '(e', s) := visit_list_with visit MExpr elems s in (Arr e', s)
  | Elem sp e => let '(e', s) := visit MExpr e s in (Elem sp e', s)
  | Obj props => let '(p', s) := visit_list_with visit MExpr props s in (Obj p', s)
  | KV k v => let '(k', s) := visit MExpr k s in
              let '(v', s) := visit MExpr v s in (KV k' v', s)
  | Computed e => let '(e', s) := visit MExpr e s in (Computed e', s)
  | Spread e => let '(e', s) := visit MExpr e s in (Spread e', s)
  | Paren e => let '(e', s) := visit MExpr e s in (Paren e', s)
  | Cond t c a => let '(t', s) := visit MExpr t s in
                  let '(c', s) := visit MExpr c s in
                  let '(a', s) := visit MExpr a s in (Cond t' c' a', s)
  | Bin op l r => let '(l', s) := visit MExpr l s in
                  let '(r', s) := visit MExpr r s in (Bin op l' r', s)
  | Unary op a => let '(a', s) := visit MExpr a s in (Unary op a', s)
  | Member o p => let '(o', s) := visit MExpr o s in
                  let '(p', s) := visit MExpr p s in (Member o' p', s)
  | _ => (n, s)
  end.

(* ---- search_jsx_pragma ----------------------------------------------------------------- *)
Fixpoint pragma_in_text (fuel : nat) (t : str) : option str :=
  match fuel with
  | O => None
  | S f =>
      match t with
      | [] => None
      | _ :: t' =>
          match strip_prefix (s_ "@jsx") t with
          | Some rest =>
              match rest with
              | c :: _ =>
                  if is_ws c then
                    match first_word rest with
                    | Some w => Some w
                    | None => pragma_in_text f t'
                    end
                  else pragma_in_text f t'
              | [] => None
              end
          | None => pragma_in_text f t'
          end
      end
  end.

Definition pragma_of_comment (t : str) : option str := pragma_in_text (S (List.length t)) t.

Fixpoint pragma_of_group (cs : list str) : option str :=
  match cs with
  | [] => None
  | c :: r => match pragma_of_comment c with Some p => Some p | None => pragma_of_group r end
  end.

Definition search_pragmas (groups : list (list str)) (s : st) : st :=
  fold_left (fun s g => match pragma_of_group g with
                        | Some p => set_pragma (Some p) s
                        | None => s
                        end) groups s.

(* ---- visit_mut_module ---------------------------------------------------------------- *)
Definition mk_import_spec (name : str) : node :=
  gobj "ImportSpecifier"
       [fld "local" (mk_ident (95 :: name) (helper_ctx name));
        fld "imported" (mk_ident name 0); fld "isTypeOnly" (sc_bool false)].

Definition mk_import (specs : list node) (src : String.string) : node :=
  gobj "ImportDeclaration"
       [fld "specifiers" (NArr specs); fld "source" (mk_strS src);
        fld "typeOnly" (sc_bool false); fld "with" nnull; fld "phase" (sc_str "evaluation")].
Arguments mk_import _ _%string_scope.

Definition finish_module (items : list node) (s : st) : list node * st :=
  let items := match inj_consts s with [] => items | cs => mk_var_decl "const" cs :: items end in
  let s := set_inj_consts [] s in
  let '(items, s) :=
    match inj_vars s with
    | [] => (items, s)
    | vs => (mk_var_decl "let" vs :: items, set_slot_counter 1 (set_inj_vars [] s))
    end in
  let '(items, s) :=
    if slot_helper s then
      let '(isv, s) := import_from_vue "isVNode" s in
      let '(_, ctx, s) := fresh_ident (s_ "s") s in
      (build_slot_helper slot_helper_ident isv ctx :: items, s)
    else (items, s) in
  let items :=
    if ton_helper s then
      mk_import [gobj "ImportDefaultSpecifier" [fld "local" (mk_ident (s_ "_transformOn") ton_ctx)]]
                "@vue/babel-helper-vue-transform-on" :: items
    else items in
  let items :=
    match imports s with
    | [] => items
    | names => mk_import (map mk_import_spec names) "vue" :: items
    end in
  (items, s).

Definition transform_module (m : node) : node * st :=
  match m with
  | NObj [Field kt ty; Field kb (NArr items); interp] =>
      let s := search_pragmas (e_comments E) st0 in
      let s := collect_ts_decls m s in
      let '(items', s) := visit_list_with visit MExpr items s in
      let '(items'', s) := finish_module items' s in
      (NObj [Field kt ty; Field kb (NArr items''); interp], s)
  | _ => (m, st0)
  end.

End Visitor.
