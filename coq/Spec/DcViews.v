(* What a defineComponent call received, read off an output tree (C16-C20).  These are views:
   facts extracted from the REAL output; the expected values come from the generator's own
   ground truth (the prop map / event set / call shape it encoded), compared in tools/props.py. *)
From VJ Require Import Model.Str Model.Json Model.Ast Model.State Model.Util Spec.OutViews Lemmas.NodeInd.

Definition key_text (k : node) : jv :=
  match k with
  | IdName s => JArr [JStr (s_ "ident"); JStr s]
  | Ident s _ _ => JArr [JStr (s_ "ident"); JStr s]
  | Str v _ => JArr [JStr (s_ "str"); JStr v]
  | Num v _ => JArr [JStr (s_ "num"); JStr v]
  | Computed _ => JArr [JStr (s_ "computed"); JStr []]
  | _ => JArr [JStr (s_ "other"); JStr []]
  end.

Definition type_names (t : node) : jv :=
  match t with
  | Null => JArr [JNull]
  | Ident s _ _ => JArr [JStr s]
  | Arr es => JArr (map (fun e => match e with
                                 | Elem false (Ident s _ _) => JStr s
                                 | Elem false Null => JNull
                                 | _ => JStr (s_ "?")
                                 end) es)
  | _ => JArr [JStr (s_ "?")]
  end.

(* shape of an emitted default: literal / arrow with expression body / arrow with block body /
   function expression / other *)
Definition default_shape (d : node) : jv :=
  match d with
  | Arrow _ [] (Block _ _) _ _ _ _ => JArr [JStr (s_ "arrow-block"); JNull]
  | Arrow _ [] b _ _ _ _ => JArr [JStr (s_ "arrow-expr"); enc b]
  | _ => if is_lit d then JArr [JStr (s_ "literal"); enc d]
         else if sq "FunctionExpression" (ntype d) then JArr [JStr (s_ "function"); JNull]
         else JArr [JStr (s_ "other"); enc d]
  end.

Definition find_kv (name : String.string) (props : list node) : option node :=
  fold_right (fun p acc => match p with
                           | KV (IdName k) v => if sq name k then Some v else acc
                           | _ => acc
                           end) None props.
Arguments find_kv _%string_scope _.

Definition prop_entry (p : node) : jv :=
  match p with
  | KV k (Obj fields) =>
      JObj [(s_ "key", key_text k);
            (s_ "type", match find_kv "type" fields with Some t => type_names t | None => JNull end);
            (s_ "required", match find_kv "required" fields with Some (Bool b) => JBool b | _ => JNull end);
            (s_ "default", match find_kv "default" fields with Some d => default_shape d | None => JNull end)]
  | _ => JStr (s_ "?")
  end.

Definition props_value (v : node) : jv :=
  match v with
  | Obj ps => JObj [(s_ "form", JStr (s_ "object")); (s_ "entries", JArr (map prop_entry ps))]
  | Call _ _ f [Elem false (Obj ps); Elem false d] _ =>
      if is_helper "mergeDefaults" f
      then JObj [(s_ "form", JStr (s_ "mergeDefaults")); (s_ "entries", JArr (map prop_entry ps)); (s_ "with", enc d)]
      else JObj [(s_ "form", JStr (s_ "other"))]
  | _ => JObj [(s_ "form", JStr (s_ "other"))]
  end.

Definition option_entry (p : node) : jv :=
  match p with
  | KV k v =>
      JObj [(s_ "key", key_text k);
            (s_ "value",
              match k with
              | IdName kn =>
                  if sq "props" kn then props_value v
                  else if sq "emits" kn then
                    match v with Arr _ => JObj [(s_ "emits", jstrs_of (str_elems v))] | _ => JStr (s_ "expr") end
                  else if sq "name" kn then match v with Str s _ => JObj [(s_ "name", JStr s)] | _ => JStr (s_ "expr") end
                  else JStr (s_ "expr")
              | _ => JStr (s_ "expr")
              end)]
  | Spread e => JObj [(s_ "spread", enc e)]
  | Ident s _ _ => JObj [(s_ "shorthand", JStr s)]
  | _ => JObj [(s_ "member", JStr (ntype p))]
  end.

Definition arg_shape (a : node) : jv :=
  match a with
  | Elem true _ => JStr (s_ "spread")
  | Elem false (Obj ps) => JObj [(s_ "object", JArr (map option_entry ps))]
  | Elem false (Arrow _ _ _ _ _ _ _) => JStr (s_ "arrow")
  | Elem false e => if sq "FunctionExpression" (ntype e) then JStr (s_ "function") else JStr (s_ "expr")
  | _ => JStr (s_ "?")
  end.

Definition is_dc_callee (f : node) : bool :=
  match f with
  | Ident s _ _ => sq "defineComponent" s || sq "dc" s
  | Member _ (IdName s) => sq "defineComponent" s
  | _ => false
  end.

(* every call whose callee is named defineComponent (any binding), in document order *)
Definition view_dc (out : node) : jv :=
  JArr (flat_map (fun n => match n with
                           | Call _ _ f args _ =>
                               if is_dc_callee f then [JObj [(s_ "callee", enc f); (s_ "args", JArr (map arg_shape args))]]
                               else []
                           | _ => []
                           end) (subs out)).
