(* Recognisers for the pieces of the *output* (real or model) that properties talk about,
   and per-property predicates that can be decided on the output alone. *)
From VJ Require Import Model.Str Model.Json Model.Ast Model.State Model.Util Model.Directive
  Model.Lower Spec.PatchFlags Lemmas.NodeInd.
From VJ Require Import Gen.Tables.

Definition is_gen_ctx (c : N) : bool := N.leb gen_base c.

(* the helper imported from 'vue' under the local name `_<name>` *)
Definition is_helper (name : String.string) (n : node) : bool :=
  match n with Ident s c _ => is_gen_ctx c && str_eqb s (95 :: s_ name) | _ => false end.
Arguments is_helper _%string_scope _.

Definition unelem (a : node) : option node := match a with Elem false e => Some e | _ => None end.

(* a call that creates a vnode: generated, callee an identifier, at least (type, props, children) *)
Definition is_vnode_call (n : node) : bool :=
  match n with
  | Call true _ ((Ident _ _ _) as f) (Elem false _ :: Elem false _ :: Elem false _ :: _) _ =>
      negb (is_helper "mergeProps" f)
  | _ => false
  end.

Definition num_value (n : node) : option N :=
  match n with Num v _ => N_of_dec (hd [] (split_on 46 v)) | _ => None end.

Definition str_elems (n : node) : list str :=
  match n with
  | Arr es => fold_right (fun e acc => match e with Elem false (Str v _) => v :: acc | _ => acc end) [] es
  | _ => []
  end.

Record vparts := { vp_callee : node; vp_tag : node; vp_props : node; vp_children : node;
                   vp_flags : N; vp_dyn : list str; vp_nargs : nat }.

Definition vnode_parts (n : node) : option vparts :=
  if is_vnode_call n then
    match n with
    | Call _ _ f (Elem _ t :: Elem _ p :: Elem _ c :: rest) _ =>
        let '(fl, dy) :=
          match rest with
          | [] => (0, [])
          | [Elem _ x] => match num_value x with Some k => (k, []) | None => (0, str_elems x) end
          | Elem _ x :: Elem _ y :: _ => (match num_value x with Some k => k | None => 0 end, str_elems y)
          | _ => (0, [])
          end in
        Some {| vp_callee := f; vp_tag := t; vp_props := p; vp_children := c;
                vp_flags := fl; vp_dyn := dy; vp_nargs := 3 + List.length rest |}
    | _ => None
    end
  else None.

(* ---- C13 on the output alone ----------------------------------------------------------- *)
(* an element host is created from a tag string *)
Definition host_is_component (tag : node) : bool := match tag with Str _ _ => false | _ => true end.

(* 0 = fine; 1 = a varying prop is not covered; 2 = the dynamic list names an absent prop;
   3 = ref / runtime directive left without a usable flag; 4 = undocumented bit *)
Definition out_call_flags_code (wrapped_in_directives : bool) (n : node) : N :=
  match vnode_parts n with
  | None => 0
  | Some v =>
      let f := vp_flags v in
      let ic := host_is_component (vp_tag v) in
      if negb (if N.eqb f 0 || has_flag f PF_FULL_PROPS then true
               else match vp_props v with
                    | Null => true
                    | Obj props => forallb (prop_ok ic f (vp_dyn v)) props
                    | _ => false
                    end) then 1
      else if negb (forallb (fun k => has_key k (static_entries (vp_props v))) (vp_dyn v)) then 2
      else if negb (if wrapped_in_directives || has_key (s_ "ref") (static_entries (vp_props v))
                    then (Nat.leb (vp_nargs v) 3 && N.eqb f 0)
                         || (negb (N.eqb f 0) && negb (N.eqb f PF_HYDRATE_EVENTS))
                    else true) then 3
      else if negb (N.eqb (N.land f (N.lnot (PF_CLASS + PF_STYLE + PF_PROPS + PF_FULL_PROPS
                                              + PF_HYDRATE_EVENTS + PF_NEED_PATCH) 16)) 0) then 4
      else 0
  end.

Definition out_call_flags_ok (w : bool) (n : node) : bool := N.eqb (out_call_flags_code w n) 0.

(* hosts that are neither elements nor slot-taking components: Fragment, KeepAlive *)
Definition tag_is_builtin_host (tag : node) : bool :=
  let nm := match tag with
            | Ident s _ _ => s
            | NObj _ => match nfield "property" tag with Some (IdName s) => s | _ => [] end
            | _ => []
            end in
  is_fragment_name nm || sq "KeepAlive" nm.

(* the `_` entries of slot objects are 1 or 2 *)
Definition slot_hint_ok (n : node) : bool :=
  match n with
  | KV (IdName k) v =>
      if str_eqb k [95] then
        match num_value v with Some 1 | Some 2 => true | _ => false end
      else true
  | _ => true
  end.

(* C13, slot stability: a slot whose direct children include an identifier bound in the file -
   directly, or inside elements / components / fragments nested directly in it - carries `_: 2` *)
Definition bound_ident (unres : N) (e : node) : bool :=
  match e with Ident _ c _ => negb (N.eqb c unres) && negb (is_gen_ctx c) | _ => false end.

Definition default_slot_elems (props : list node) : option (list node) :=
  fold_right (fun p acc => match p with
                           | KV (IdName k) (Arrow _ [] (Arr es) _ _ _ _) => if str_eqb k (s_ "default") then Some es else acc
                           | _ => acc
                           end) None props.

Definition slot_hint_value (props : list node) : option N :=
  fold_right (fun p acc => match p with
                           | KV (IdName k) v => if str_eqb k [95] then num_value v else acc
                           | _ => acc
                           end) None props.

(* per node: 0 fine, otherwise the failure code (+10 when the host is Fragment/KeepAlive and
   the only problem is an uncovered class/style: the known class C13/class_on_builtin_host) *)
Definition oracle_C13_code (n : node) : N :=
  if negb (slot_hint_ok n) then 5 else
  match n with
  | Call true _ f (Elem false inner :: _) _ =>
      let '(w, c) := if is_helper "withDirectives" f then (true, inner) else (false, n) in
      let code := out_call_flags_code w c in
      if N.eqb code 1 then
        match vnode_parts c with
        | Some v =>
            (* known only if treating the host as an element would make every prop covered *)
            if tag_is_builtin_host (vp_tag v)
               && match vp_props v with
                  | Obj props => forallb (prop_ok false (vp_flags v) (vp_dyn v)) props
                  | _ => false
                  end
            then 11 else 1
        | None => 1
        end
      else code
  | _ => 0
  end.

Definition oracle_C13_codes (out : node) : list N :=
  filter (fun c => negb (N.eqb c 0)) (map oracle_C13_code (subs out)).

(* ---- views: what a property reads off an output --------------------------------------- *)
Definition jstrs_of (l : list str) : jv := JArr (map JStr l).

Definition prop_shape (p : node) : jv :=
  match p with
  | KV (Str k _) v => JArr [JStr k; JBool (is_constant v)]
  | KV (IdName k) v => JArr [JStr (s_ "id:" ++ k); JBool (is_constant v)]
  | KV _ _ => JStr (s_ "computed")
  | Spread _ => JStr (s_ "spread")
  | _ => JStr (s_ "other")
  end.

Definition props_shape (p : node) : jv :=
  match p with
  | Null => JNull
  | Obj ps => JArr (map prop_shape ps)
  | Call true _ _ args _ =>
      JObj [(s_ "merge", JArr (map (fun a => match a with
                                             | Elem false (Obj ps) => JArr (map prop_shape ps)
                                             | _ => JStr (s_ "expr")
                                             end) args))]
  | _ => JStr (s_ "expr")
  end.

(* C13: per vnode call - host kind, prop keys with constancy, flag, dynamic list; `_` hints *)
Definition view_C13_node (n : node) : list jv :=
  match vnode_parts n with
  | Some v => [JArr [JBool (host_is_component (vp_tag v)); props_shape (vp_props v);
                     JNum (dec_of_N (vp_flags v)); jstrs_of (vp_dyn v)]]
  | None =>
      match n with
      | KV (IdName k) v => if str_eqb k [95] then [JObj [(s_ "_", enc v)]] else []
      | Call true _ f _ _ => if is_helper "withDirectives" f then [JStr (s_ "withDirectives")] else []
      | _ => []
      end
  end.

Definition view_C13 (out : node) : jv := JArr (flat_map view_C13_node (subs out)).

(* ---- C15: who creates the vnodes -------------------------------------------------------- *)
Definition callee_ok (expected : option str) (f : node) : bool :=
  match expected, f with
  | Some p, Ident s c _ => str_eqb s p && N.eqb c 0
  | None, _ => is_helper "createVNode" f
  | _, _ => false
  end.

(* the import declaration the transform put in front: `import { x as _x, ... } from "vue"` *)
Definition generated_vue_import (out : node) : list str :=
  match out with
  | NObj (_ :: Field _ (NArr (first :: _)) :: _) =>
      if sq "ImportDeclaration" (ntype first) then
        match nfield "specifiers" first with
        | Some (NArr specs) =>
            fold_right (fun sp acc =>
                          match nfield "local" sp, nfield "imported" sp with
                          | Some (Ident _ c _), Some (Ident imp _ _) =>
                              if is_gen_ctx c then imp :: acc else acc
                          | _, _ => acc
                          end) [] specs
        | _ => []
        end
      else []
  | _ => []
  end.

Definition count_str (x : str) (l : list str) : nat := List.length (filter (str_eqb x) l).

Definition oracle_C15 (expected : option str) (out : node) : bool :=
  let calls := filter is_vnode_call (subs out) in
  forallb (fun c => match c with Call _ _ f _ _ => callee_ok expected f | _ => true end) calls
  && match expected with
     | Some _ => Nat.eqb (count_str (s_ "createVNode") (generated_vue_import out)) 0
     | None => match calls with
               | [] => true
               | _ => Nat.eqb (count_str (s_ "createVNode") (generated_vue_import out)) 1
               end
     end.

Definition view_C15 (out : node) : jv :=
  JArr (map (fun c => match c with Call _ _ f _ _ => enc f | _ => JNull end) (filter is_vnode_call (subs out))
        ++ [jstrs_of (generated_vue_import out)]).

(* ---- C12: erasing the update hints ------------------------------------------------------- *)
Definition is_hint_kv (p : node) : bool :=
  match p with
  | KV (IdName k) v => str_eqb k [95] && match num_value v with Some 1 | Some 2 => true | _ => false end
  | _ => false
  end.

Definition drop_last_hint (props : list node) : list node :=
  match rev props with
  | p :: r => if is_hint_kv p then rev r else props
  | [] => props
  end.

(* the slot argument of a vnode call: an object, or the conditional built for object slots *)
Definition strip_slots (c : node) : node :=
  match c with
  | Obj props => Obj (drop_last_hint props)
  | Cond t a (Obj props) => Cond t a (Obj (drop_last_hint props))
  | _ => c
  end.

Fixpoint strip_hints (n : node) {struct n} : node :=
  match n with
  | Call true c f args ta =>
      let args' := map strip_hints args in
      if is_vnode_call n then
        match args' with
        | t :: p :: Elem sp ch :: _ => Call true c (strip_hints f) [t; p; Elem sp (strip_slots ch)] ta
        | _ => Call true c (strip_hints f) args' ta
        end
      else Call true c (strip_hints f) args' ta
  | NArr l => NArr (map strip_hints l)
  | NObj l => NObj (map strip_hints l)
  | Field k v => Field k (strip_hints v)
  | BIdent s c o t => BIdent s c o (strip_hints t)
  | Arr l => Arr (map strip_hints l)
  | Elem b e => Elem b (strip_hints e)
  | Obj l => Obj (map strip_hints l)
  | KV k v => KV (strip_hints k) (strip_hints v)
  | Computed e => Computed (strip_hints e)
  | Spread e => Spread (strip_hints e)
  | Call sy c f args ta => Call sy c (strip_hints f) (map strip_hints args) (strip_hints ta)
  | Arrow c ps b a g tp rt => Arrow c (map strip_hints ps) (strip_hints b) a g tp rt
  | Assign o l r => Assign o (strip_hints l) (strip_hints r)
  | Paren e => Paren (strip_hints e)
  | Cond t c a => Cond (strip_hints t) (strip_hints c) (strip_hints a)
  | Bin o l r => Bin o (strip_hints l) (strip_hints r)
  | Unary o a => Unary o (strip_hints a)
  | Member o p => Member (strip_hints o) (strip_hints p)
  | Block c l => Block c (map strip_hints l)
  | _ => n
  end.
