(* C13, last clause, decided on a source element and the output expression it was lowered to:
   wherever the output carries a generated slot hint `_`, its value is 1 or 2, and it is 2 when
   the source element has a file-bound identifier among its direct children or among the
   children of elements nested in it by direct JSX nesting.  Nested elements (children and
   element-valued attributes) are paired with their output calls as Spec/SiteCheck.v pairs them. *)
From VJ Require Import Model.Str Model.Json Model.Ast Model.State Model.Util Spec.JsxText Spec.OutViews
  Spec.Site Spec.SiteCheck Spec.SlotFlag Lemmas.NodeInd.

Section Check.
Variable E : env.

Definition flag_tag (t : String.string) : list str := [s_ t].
Arguments flag_tag _%string_scope.

(* the items of a children argument: an array, or the array a generated default slot returns *)
Definition out_items (c : node) : option (list node) :=
  match c with
  | Arr es => Some es
  | Obj props => default_slot_elems props
  | Cond _ _ (Obj props) => default_slot_elems props
  | _ => None
  end.

Definition last_prop (c : node) : option node :=
  match c with
  | Obj props => Some (last props Null)
  | Cond _ _ (Obj props) => Some (last props Null)
  | _ => None
  end.

Definition hint_check (el : node) (children : list node) (c : node) : list str :=
  if negb (o_optimize (e_opts E)) then [] else
  let sole_fn := match live_children children with
                 | [JExprC e] => fn_like e
                 | _ => false
                 end in
  if sole_fn then [] else
  match last_prop c with
  | Some (KV (IdName k) v) =>
      if str_eqb k [95] then
        match num_value v with
        | Some 2%N => []
        | Some 1%N => if dyn_text E el then flag_tag "C13:slot-flag-stable-with-bound-identifier-child" else []
        | _ => flag_tag "C13:slot-flag-value"
        end
      else []
  | _ => []
  end.

Fixpoint flags_site (fuel : nat) (el out : node) {struct fuel} : list str :=
  match fuel with
  | O => []
  | S f =>
      let '(call, _) := split_dirs out in
      match vnode_parts call with
      | None => []
      | Some v =>
          let pairs := fix pair (a b : list node) : list str :=
                         match a, b with
                         | x :: a', y :: b' => flags_site f x y ++ pair a' b'
                         | _, _ => []
                         end in
          match el with
          | JsxE name attrs _ _ children _ =>
              let is_comp := spec_is_component E name in
              let '(cs, _, _) := spec_attrs E is_comp name attrs in
              hint_check el children (vp_children v)
              ++ pairs (elem_contribs cs) (elem_contribs (view_contribs (vp_props v)))
              ++ match out_items (vp_children v) with
                 | Some es => check_items_with (flags_site f) [] children (view_items es)
                 | None => []
                 end
          | JsxF children =>
              hint_check el children (vp_children v)
              ++ match out_items (vp_children v) with
                 | Some es => check_items_with (flags_site f) [] children (view_items es)
                 | None => []
                 end
          | _ => []
          end
      end
  end.

End Check.
