(* Comparison of a source element with an output expression: children / slots and the
   recursive check of nested elements.  Returns the list of failed claims, each tagged with
   the property it belongs to ("C01:type", "C01:props", "C11:order", "C04:dirs", ...). *)
From VJ Require Import Model.Str Model.Json Model.Ast Model.State Model.Util Spec.JsxText Spec.OutViews Spec.Site Lemmas.NodeInd.

Inductive vitem := VText (s : str) | VExpr (e : node) | VSpread (e : node) | VElem (out : node).

Definition is_wrapped_vnode (x : node) : bool :=
  is_vnode_call x ||
  match x with
  | Call true _ f (Elem false inner :: _) _ => is_helper "withDirectives" f && is_vnode_call inner
  | _ => false
  end.

Definition view_item (e : node) : option vitem :=
  match e with
  | Elem true x => Some (VSpread x)
  | Elem false x =>
      match x with
      | Call true _ f [Elem false (Str s _)] _ =>
          if is_helper "createTextVNode" f then Some (VText s)
          else if is_wrapped_vnode x then Some (VElem x) else Some (VExpr x)
      | _ => if is_wrapped_vnode x then Some (VElem x) else Some (VExpr x)
      end
  | _ => None
  end.

Definition view_items (es : list node) : list vitem :=
  fold_right (fun e acc => match view_item e with Some i => i :: acc | None => acc end) [] es.

Definition tag (t : String.string) : list str := [s_ t].
Arguments tag _%string_scope.

Definition fn_like (e : node) : bool :=
  match e with
  | Arrow _ _ _ _ _ _ _ => true
  | NObj _ => sq "FunctionExpression" (ntype e)
  | _ => false
  end.

(* what the source children denote: text cleaned by the standard rule, empties dropped *)
Definition src_child_kind (c : node) : option (option node * option str) :=
  match c with
  | JText v _ => match jsx_clean v with [] => None | t => Some (None, Some t) end
  | JExprC JEmpty => None
  | JExprC e => Some (Some e, None)
  | JSpreadChild e => Some (Some (Spread e), None)
  | JsxE _ _ _ _ _ _ | JsxF _ => Some (Some c, None)
  | _ => None
  end.

Definition strip_hint (opt : bool) (props : list node) : list node := if opt then drop_last_hint props else props.

Definition vslots_entries (vs : option node) : list node :=
  match vs with Some (Obj sp) => sp | Some e => [Spread e] | None => [] end.

Fixpoint nodes_eqb (a b : list node) : bool :=
  match a, b with
  | [], [] => true
  | x :: a', y :: b' => node_eqb x y && nodes_eqb a' b'
  | _, _ => false
  end.

Section Check.
Variable E : env.
Let OP := e_opts E.

(* open recursion: [rec] checks a nested source element against an output expression *)
Definition check_items_with (rec : node -> node -> list str) (fail : list str)
  : list node -> list vitem -> list str :=
  fix go (cs : list node) (vs : list vitem) {struct cs} : list str :=
    match cs with
    | [] => match vs with [] => [] | _ => fail end
    | c :: r =>
        match src_child_kind c with
        | None => go r vs
        | Some (Some e, None) =>
            match vs with
            | v :: vr =>
                (match c, v with
                 | JExprC _, VExpr x => if node_eqb e x then [] else fail
                 | JSpreadChild s0, VSpread x => if node_eqb s0 x then [] else fail
                 | JsxE _ _ _ _ _ _, VElem x => rec c x
                 | JsxF _, VElem x => rec c x
                 | _, _ => fail
                 end) ++ go r vr
            | [] => fail
            end
        | Some (_, Some t) =>
            match vs with
            | VText s :: vr => (if str_eqb s t then [] else fail) ++ go r vr
            | _ => fail
            end
        | Some (None, None) => go r vs
        end
    end.

Definition live_children (cs : list node) : list node :=
  filter (fun c => match src_child_kind c with Some _ => true | None => false end) cs.

Definition split_dirs (out : node) : node * list node :=
  match out with
  | Call true _ f [Elem false inner; Elem false (Arr ds)] _ =>
      if is_helper "withDirectives" f then (inner, ds) else (out, [])
  | _ => (out, [])
  end.

Fixpoint dirs_match (spec : list adir) (view : list node) : bool :=
  match spec, view with
  | [], [] => true
  | d :: sr, v :: vr => match view_dir v with Some d' => adir_eqb d d' | None => false end && dirs_match sr vr
  | _, _ => false
  end.

Definition is_model_dir (d : adir) : bool :=
  match d with ADir (Ident s _ _) _ _ _ => starts_with (s_ "_vModel") s | _ => false end.

(* the pinned spelling of a computed v-model listener key: "onUpdate" + arg, without the colon *)
Definition pinned_listener_key (c : contrib) : contrib :=
  match c with
  | CListen (Computed (Bin op (Str k w) a)) t =>
      if sq "onUpdate:" k then CListen (Computed (Bin op (Str (s_ "onUpdate") w) a)) t else c
  | _ => c
  end.

Definition is_listen (c : contrib) : bool :=
  match c with
  | CListen _ _ => true
  | CKV _ vs => existsb (fun v => match is_listener v with Some _ => true | None => false end) vs
  | _ => false
  end.
Definition is_html_text (c : contrib) : bool :=
  match c with CKV k _ => sq "innerHTML" k || sq "textContent" k | _ => false end.

(* keys of contributions (for attributing a difference to the attribute kind it came from) *)
Definition contrib_key (c : contrib) : str :=
  match c with CKV k _ => k | CElem k _ => k | _ => [] end.

(* [model_keys]: the prop keys the element's v-model attributes denote (computed keys: the empty key) *)
Definition contribs_fail (model_keys : list str) (spec view : list contrib) : list str :=
  let is_listen := fun c => is_listen c
                            || match c with
                               | CKV k _ => mem_str k model_keys
                               | CKVc _ _ => mem_str [] model_keys
                               | _ => false
                               end in
  if contribs_eqb spec view then []
  else if contribs_eqb (map pinned_listener_key spec) view then tag "known:C05:vmodel_computed_arg"
  else if contribs_perm spec view || contribs_eqb_values_perm spec view then tag "C11:order"
  else
    (if contribs_eqb (filter is_listen spec) (filter is_listen view) then [] else tag "C05:model-props")
    ++ (if contribs_eqb (filter is_html_text spec) (filter is_html_text view) then [] else tag "C04:html-text")
    ++ (let rest := fun c => negb (is_listen c) && negb (is_html_text c) in
        if contribs_eqb (filter rest spec) (filter rest view) then
          (* each group is fine: the groups are interleaved differently *)
          (if contribs_eqb (filter is_listen spec) (filter is_listen view)
              && contribs_eqb (filter is_html_text spec) (filter is_html_text view)
           then tag "C11:order" else [])
        else tag "C01:props").

(* element values of attributes: (key, source element) paired with (key, output call) *)
Definition elem_contribs (cs : list contrib) : list node :=
  fold_right (fun c acc => match c with CElem _ n => n :: acc | _ => acc end) [] cs.

(* what the children argument must be, given the check [chk] of nested elements *)
Definition check_children_with (chk : node -> node -> list str) (is_comp : bool) (vslots : option node)
           (children : list node) (c : node) : list str :=
      let live := live_children children in
      let extra := vslots_entries vslots in
      let opt := o_optimize OP in
      let fail := if is_comp then tag "C03:slots" else tag "C02:children" in
      let items_ok := fun (vs : list vitem) => check_items_with (chk) fail children vs in
      (* a lazily evaluated default slot returning the children in order, v-slots beside it *)
      let default_slot := fun (props : list node) =>
        match strip_hint opt props with
        | KV (IdName k) (Arrow _ [] (Arr es) _ _ _ _) :: rest =>
            if sq "default" k then items_ok (view_items es) ++ (if nodes_eqb rest extra then [] else fail)
            else fail
        | _ => fail
        end in
      if negb is_comp then
        match live with
        | [] => match vslots, c with
                | Some e, _ => if node_eqb e c then [] else fail   (* v-slots on a non-component host: unspecified, accepted *)
                | None, Null => []
                | None, _ => fail
                end
        | _ =>
            match c with
            | Arr es => items_ok (view_items es)
            | Obj _ =>
                (* an element host whose only child is a function / object literal gets a slots object *)
                match live with
                | [JExprC e] => if fn_like e || match e with Obj _ => true | _ => false end
                                then tag "known:C02:sole_fn_or_object_child_of_element" else fail
                | _ => fail
                end
            | _ => fail
            end
        end
      else
        match live with
        | [] => match vslots, c with
                | Some e, _ => if node_eqb e c then [] else fail
                | None, Null => []
                | None, _ => fail
                end
        | [JExprC e] =>
            if fn_like e then
              match c with
              | Obj (KV (IdName k) v :: rest) =>
                  if sq "default" k && node_eqb v e && nodes_eqb rest extra then [] else fail
              | _ => fail
              end
            else
              match e with
              | Obj ps =>
                  match c with
                  | Obj props => if nodes_eqb (strip_hint opt props) (ps ++ extra) then [] else fail
                  | _ => fail
                  end
              | Ident _ _ _ =>
                  if o_object_slots OP then
                    match c with
                    | Cond (Call true _ h [Elem false t] _) cns (Obj props) =>
                        if is_helper "isSlot" h && node_eqb t e && node_eqb cns e then default_slot props else fail
                    | _ => fail
                    end
                  else match c with Obj props => default_slot props | _ => fail end
              | Call false _ _ _ _ =>
                  if o_object_slots OP then
                    (* decided at runtime; the call is evaluated exactly once, into a temporary *)
                    match c with
                    | Cond (Call true _ h [Elem false (Assign op (Paren tmp) t)] _) cns (Obj props) =>
                        if is_helper "isSlot" h && sq "=" op && node_eqb t e && node_eqb cns tmp
                           && match tmp with Ident _ tc _ => is_gen_ctx tc | _ => false end
                        then match strip_hint opt props with
                             | KV (IdName k) (Arrow _ [] (Arr [Elem false x]) _ _ _ _) :: rest =>
                                 if sq "default" k && node_eqb x tmp && nodes_eqb rest extra then [] else fail
                             | _ => fail
                             end
                        else fail
                    | _ => fail
                    end
                  else match c with Obj props => default_slot props | _ => fail end
              | _ => match c with Obj props => default_slot props | _ => fail end
              end
        | _ => match c with Obj props => default_slot props | _ => fail end
        end.

Fixpoint check_site (fuel : nat) (el : node) (out : node) {struct fuel} : list str :=
  match fuel with
  | O => tag "fuel"
  | S f =>
      let '(call, dirs_view) := split_dirs out in
      match vnode_parts call with
      | None => tag "C01:not-a-vnode-call"
      | Some v =>
          match el with
          | JsxE name attrs _ _ children _ =>
              let is_comp := spec_is_component E name in
              let '(cs, dirs, vslots) := spec_attrs E is_comp name attrs in
              let cv := view_contribs (vp_props v) in
              (if atype_eqb (spec_type E name) (view_type (vp_tag v)) then [] else tag "C01:type")
              ++ contribs_fail
                   (let all := splice_vmodels attrs false in
                    flat_map (fun a => if is_vmodel_attr a
                                       then map contrib_key (fst (fst (attr_spec E is_comp name all a)))
                                       else []) all)
                   cs cv
              ++ (* element-valued attributes, pairwise *)
                 (fix pair (a b : list node) : list str :=
                    match a, b with
                    | x :: a', y :: b' => check_site f x y ++ pair a' b'
                    | [], [] => []
                    | _, _ => tag "C01:props"
                    end) (elem_contribs cs) (elem_contribs cv)
              ++ (if dirs_match dirs dirs_view then []
                  else if existsb is_model_dir dirs then tag "C05:directive" else tag "C04:dirs")
              ++ check_children_with (check_site f) is_comp vslots children (vp_children v)
          | JsxF children =>
              (if atype_eqb TFragment (view_type (vp_tag v)) then [] else tag "C01:type")
              ++ (match vp_props v with Null => [] | _ => tag "C01:props" end)
              ++ (match dirs_view with [] => [] | _ => tag "C04:dirs" end)
              ++ check_children_with (check_site f) false None children (vp_children v)
          | _ => tag "not-an-element"
          end
      end
  end.

End Check.

(* the probe statement `const __site = <element>;` of a module *)
Definition find_site (m : node) : option node :=
  fold_right (fun n acc =>
                match n with
                | NObj [ft; Field ki (BIdent sym _ _ _); Field kn init; fd] =>
                    if sq "__site" sym && sq "init" kn then Some init else acc
                | _ => acc
                end) None (Lemmas.NodeInd.subs m).

(* ---- C11: every non-trivial expression once, attributes and element children eagerly,
   component children lazily ---------------------------------------------------------------- *)
(* literals, and array / object literals made of literals: evaluating them is unobservable (and a
   generated modifiers object `{ a: true }` may coincide with one the user wrote) *)
Fixpoint const_lit (e : node) {struct e} : bool :=
  match e with
  | Str _ _ | Num _ _ | Bool _ | Null => true
  | Arr es => (fix all (l : list node) : bool :=
                 match l with
                 | [] => true
                 | Elem false x :: r => const_lit x && all r
                 | _ => false
                 end) es
  | Obj ps => (fix all (l : list node) : bool :=
                 match l with
                 | [] => true
                 | KV (IdName _) v :: r => const_lit v && all r
                 | KV (Str _ _) v :: r => const_lit v && all r
                 | _ => false
                 end) ps
  | _ => false
  end.

Definition trivial (e : node) : bool :=
  match e with
  | Ident _ _ _ | JEmpty | Hole => true
  | _ => is_lit e || const_lit e
  end.

(* all nodes of a tree that are evaluated when the expression itself is (not inside function bodies) *)
Fixpoint eager_subs (n : node) {struct n} : list node :=
  let sl := fix sl (l : list node) : list node :=
              match l with [] => [] | x :: r => eager_subs x ++ sl r end in
  n ::
  match n with
  | Arrow _ _ _ _ _ _ _ => []
  | NObj l => if sq "FunctionExpression" (ntype n) || sq "FunctionDeclaration" (ntype n)
                 || sq "MethodProperty" (ntype n) || sq "GetterProperty" (ntype n) then [] else sl l
  | NArr l | Arr l | Obj l | Block _ l | JsxF l => sl l
  | Field _ v | Str _ v | Num _ v | Elem _ v | Computed v | Spread v | Paren v | Unary _ v
  | JExprC v | JSpreadChild v | BIdent _ _ _ v => eager_subs v
  | KV a b | Assign _ a b | Bin _ a b | Member a b | JAttr a b | JNs a b => eager_subs a ++ eager_subs b
  | Cond a b c => eager_subs a ++ eager_subs b ++ eager_subs c
  | Call _ _ f a t => eager_subs f ++ sl a ++ eager_subs t
  | JsxE nm ats _ ta ch cl => eager_subs nm ++ sl ats ++ eager_subs ta ++ sl ch ++ eager_subs cl
  | _ => []
  end.

Definition count_eq (e : node) (l : list node) : nat := List.length (filter (node_eqb e) l).

(* the expressions an object-literal property evaluates *)
Definition prop_exprs (p : node) : list node :=
  match p with
  | KV (Computed k) v => [k; v]
  | KV _ v => [v]
  | Spread e => [e]
  | Ident _ _ _ => []
  | _ => [p]
  end.

Section Order.
Variable E : env.

(* the leaf expressions of a source element, each with how it must be evaluated:
   1 = once when the vnode is created, 0 = once, but only when the slot function runs,
   2 = exempt (a computed v-model argument is evaluated once per generated prop key) *)
Definition ev (eager : bool) : nat := if eager then 1%nat else 0%nat.

Fixpoint src_leaves (fuel : nat) (el : node) (host_lazy : bool) {struct fuel} : list (node * nat) :=
  match fuel with
  | O => []
  | S f =>
      let child_leaves := fun (is_comp : bool) (sole_call : bool) (cs : list node) =>
        flat_map (fun c => match c with
                           | JExprC JEmpty => []
                           | JExprC (Obj ps) =>
                               if sole_call then map (fun x => (x, ev (negb host_lazy))) (flat_map prop_exprs ps)
                               else [(Obj ps, ev (negb (host_lazy || is_comp)))]
                           | JExprC e => [(e, ev (negb (host_lazy || (is_comp && negb sole_call))))]
                           | JSpreadChild e => [(e, ev (negb (host_lazy || is_comp)))]
                           | JsxE _ _ _ _ _ _ | JsxF _ => src_leaves f c (host_lazy || is_comp)
                           | _ => []
                           end) cs in
      match el with
      | JsxE name attrs _ _ children _ =>
          let is_comp := spec_is_component E name in
          let '(cs, dirs, vslots) := spec_attrs E is_comp name attrs in
          let eager := ev (negb host_lazy) in
          flat_map (fun c => match c with
                             | CKV _ vs =>
                                 (* a spread element of a flattened class / style / listener array is
                                    evaluated through its argument *)
                                 map (fun v => match v with Spread x => (x, eager) | _ => (v, eager) end) vs
                             | CKVc k v => [(k, eager); (v, eager)]
                             | CListen (Computed (Bin _ _ a)) t => [(a, 2%nat); (mk_listener t, eager)]
                             | CListen k t => [(k, 2%nat); (mk_listener t, eager)]
                             | CProp p => map (fun x => (x, eager)) (prop_exprs p)
                             | CSpread e => [(e, eager)]
                             | COn e => [(e, eager)]
                             | CElem _ site => src_leaves f site host_lazy
                             | CBreak => []
                             end) cs
          ++ flat_map (fun d => match d with ADir _ v a _ => (v, eager) :: match a with Some x => [(x, eager)] | None => [] end end) dirs
          ++ (match vslots with
              | Some (Obj ps) => map (fun x => (x, if is_comp then eager else 2%nat)) (flat_map prop_exprs ps)
              | Some e => [(e, if is_comp then eager else 2%nat)]
                (* element host: the v-slots value is dropped, or - with a sole object / function child -
                   merged into the slots object (both known findings): exempt from the count *)
              | None => []
              end)
          ++ (let live := live_children children in
              let sole_call := match live with
                               | [JExprC (Call false _ _ _ _)] => o_object_slots (e_opts E)
                               | [JExprC e] => fn_like e || match e with Obj _ => true | _ => false end
                               | _ => false
                               end in
              child_leaves is_comp sole_call children)
      | JsxF children =>
          let sole_call := match live_children children with
                           | [JExprC e] => fn_like e || match e with Obj _ => true | _ => false end
                           | _ => false
                           end in
          child_leaves false sole_call children
      | _ => []
      end
  end.

(* known finding: `v-slots` on an element host is dropped together with its value expression *)
Fixpoint vslots_dropped (fuel : nat) (el : node) {struct fuel} : bool :=
  match fuel with
  | O => false
  | S f =>
      match el with
      | JsxE name attrs _ _ children _ =>
          let is_comp := spec_is_component E name in
          let '(cs, _, vslots) := spec_attrs E is_comp name attrs in
          (negb is_comp && match vslots with Some e => negb (trivial e) | None => false end)
          || existsb (fun c => match c with CElem _ site => vslots_dropped f site | _ => false end) cs
          || existsb (vslots_dropped f) children
      | JsxF children => existsb (vslots_dropped f) children
      | _ => false
      end
  end.

(* arrays the lowering itself builds around the children: the body of a generated slot function and
   the children argument of a vnode call.  They are not occurrences of a source expression, even
   when a written array literal happens to look the same (`value={[a]}` beside the child `{a}`) *)
Definition gen_arrays_arrow (l : list node) : list node :=
  flat_map (fun n => match n with
                     | Arrow 0 [] ((Arr _) as a) _ _ _ _ => [a]
                     | _ => []
                     end) l.
Definition gen_arrays_call (l : list node) : list node :=
  flat_map (fun n => match n with
                     | Call true _ _ (_ :: _ :: Elem false ((Arr _) as a) :: _) _ => [a]
                     | _ => []
                     end) l.

Definition order_fail (el out : node) : list str :=
  let all_leaves := src_leaves 40 el false in
  let exempt : list node :=
    flat_map (fun p : node * nat => if Nat.eqb (snd p) 2 then subs (fst p) else []) all_leaves in
  let leaves : list (node * nat) :=
    filter (fun p : node * nat => negb (trivial (fst p)) && negb (Nat.eqb (snd p) 2)
                                  && negb (existsb (node_eqb (fst p)) exempt)) all_leaves in
  let all_out := subs out in
  let eager_out := eager_subs out in
  let gen_all := gen_arrays_arrow all_out ++ gen_arrays_call all_out in
  let gen_eager := gen_arrays_call eager_out in
  let count_all (e : node) : nat := (count_eq e all_out - count_eq e gen_all)%nat in
  let count_eager (e : node) : nat := (count_eq e eager_out - count_eq e gen_eager)%nat in
  let want_all (e : node) : nat :=
    fold_right (fun (p : node * nat) (acc : nat) => (count_eq e (subs (fst p)) + acc)%nat) 0%nat leaves in
  let want_eager (e : node) : nat :=
    fold_right (fun (p : node * nat) (acc : nat) =>
                  if Nat.eqb (snd p) 1 then (count_eq e (eager_subs (fst p)) + acc)%nat else acc) 0%nat leaves in
  let is_bad := fun p : node * nat =>
                        negb (Nat.eqb (count_all (fst p)) (want_all (fst p)))
                        || negb (Nat.eqb (count_eager (fst p)) (want_eager (fst p))) in
  let bad := existsb is_bad leaves in
  let d := fun n : nat => dec_of_N (N.of_nat n) in
  (if bad then
     tag "C11:once-eager-lazy"
     ++ match filter is_bad leaves with
        | p :: _ => [s_ "C11:leaf-" ++ d (length (filter (fun q => negb (is_bad q)) leaves)) ++ s_ "-all-"
                     ++ d (count_all (fst p)) ++ s_ "-of-" ++ d (want_all (fst p)) ++ s_ "-eager-"
                     ++ d (count_eager (fst p)) ++ s_ "-of-" ++ d (want_eager (fst p))]
        | [] => []
        end
   else [])
  ++ (if vslots_dropped 40 el then tag "known:C11:vslots_on_element_host_dropped" else []).

End Order.
