(* Vue's patch-flag contract for one vnode call (C13), stated on the result of the
   attribute lowering, independently of how the flags are computed. *)
From VJ Require Import Model.Str Model.Json Model.Ast Model.State Model.Util Model.Directive
  Model.Lower.
From VJ Require Import Gen.Tables.

Definition kv_key (p : node) : option str :=
  match p with KV (Str k _) _ => Some k | _ => None end.

Definition has_key (k : str) (props : list node) : bool :=
  existsb (fun p => match kv_key p with Some k' => str_eqb k k' | None => false end) props.

(* the statically visible `"key": value` entries of a props expression *)
Definition static_entries (e : node) : list node :=
  match e with
  | Obj props => props
  | Call true _ _ args _ =>
      flat_map (fun a => match a with Elem false (Obj props) => props | _ => [] end) args
  | _ => []
  end.

(* a render-varying prop named k is covered by the hints (flag f, dynamic list dyn) *)
Definition covered (is_comp : bool) (f : N) (dyn : list str) (k : str) : bool :=
  (sq "class" k && negb is_comp && has_flag f PF_CLASS)
  || (sq "style" k && negb is_comp && has_flag f PF_STYLE)
  || sq "key" k || sq "ref" k
  || (mem_str k dyn && has_flag f PF_PROPS).

Definition prop_ok (is_comp : bool) (f : N) (dyn : list str) (p : node) : bool :=
  match p with
  | KV (Str k _) v => is_constant v || covered is_comp f dyn k
  | _ => false                       (* spread / computed key / shorthand: needs FULL_PROPS *)
  end.

Definition is_ref_attr (a : node) : bool :=
  match a with
  | JAttr nm _ => negb (is_directive a) && sq "ref" (attr_name_str nm)
  | _ => false
  end.

Definition flags_ok (is_comp : bool) (attrs : list node) (r : attrs_result) : bool :=
  let f := r_flags r in
  let dyn := match r_dyn r with Some d => d | None => [] end in
  (* a positive flag without FULL_PROPS promises that everything else is constant *)
  (if N.eqb f 0 || has_flag f PF_FULL_PROPS then true
   else match r_attrs r with
        | Null => true
        | Obj props => forallb (prop_ok is_comp f dyn) props
        | _ => false
        end)
  (* the dynamic-prop list names only props that are present *)
  && forallb (fun k => has_key k (static_entries (r_attrs r))) dyn
  (* a ref or a runtime directive is never left with no flag / the hydration bit alone *)
  && (if existsb is_ref_attr attrs || match r_dirs r with [] => false | _ => true end
      then negb (N.eqb f 0) && negb (N.eqb f PF_HYDRATE_EVENTS) else true)
  (* only the documented non-negative bits *)
  && N.eqb (N.land f (N.lnot (PF_CLASS + PF_STYLE + PF_PROPS + PF_FULL_PROPS + PF_HYDRATE_EVENTS + PF_NEED_PATCH) 16)) 0.
