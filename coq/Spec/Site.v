(* An independent, executable reading of what one JSX element denotes (C01-C05, C11), written
   from the property texts and not from the transform:  [spec_site] computes the abstract vnode
   description from the SOURCE element, [view_site] reads the same description off an OUTPUT
   expression (real or model).  The oracle of the site properties is their equality. *)
From VJ Require Import Model.Str Model.Json Model.Ast Model.State Model.Util Spec.JsxText Spec.OutViews.

(* ---- abstract descriptions ------------------------------------------------------------- *)
Inductive atype :=
| TStr (s : str)               (* element / custom element: the tag string *)
| TResolve (s : str)           (* unbound component name: resolved at runtime by that name *)
| TFragment                    (* Vue's Fragment *)
| TExpr (e : node).            (* bound identifier or member expression: that value *)

(* what an attribute contributes to the props, in evaluation order *)
Inductive contrib :=
| CKV (k : str) (vs : list node)     (* `"k": v` ; several values for a repeated class/style/listener *)
| CKVc (k : node) (v : node)         (* computed key *)
| CListen (k : node) (target : node) (* `k: $event => (target) = $event` *)
| CProp (p : node)                   (* a property of a spread object literal, verbatim *)
| CSpread (e : node)                 (* `...e` *)
| COn (e : node)                     (* transformOn(e) *)
| CElem (k : str) (site : node)      (* an element given as attribute value (kept as source/out node) *)
| CBreak.                            (* boundary between two arguments of Vue's mergeProps: entries on
                                        both sides of it are MERGED (class / style / listeners), entries
                                        on one side follow plain last-wins object semantics *)

Inductive adir := ADir (def : node) (value : node) (arg : option node) (mods : list str).

(* ---- helpers --------------------------------------------------------------------------- *)
Definition node_eqb (a b : node) : bool := jv_eqb (enc a) (enc b).

Definition mergeable_key (k : str) : bool := sq "class" k || sq "style" k || starts_with (s_ "on") k.

(* nested array literals of plain elements are flattened: class / style / listener lists *)
Fixpoint flat_vals (v : node) {struct v} : list node :=
  match v with
  | Arr es =>
      (* Vue flattens nested arrays of class / style / listener values; a spread element stays a
         spread, a hole a hole *)
      (fix go (l : list node) : list node :=
         match l with
         | [] => []
         | e :: r => (match e with
                      | Elem false x => flat_vals x
                      | Elem true x => [Spread x]
                      | other => [other]
                      end) ++ go r
         end) es
  | _ => [v]
  end.

(* the listener `$event => (target) = $event`, canonical form *)
Definition mk_listener (target : node) : node :=
  Arrow 0 [BIdent (s_ "$event") 0 false nnull]
        (Assign (s_ "=") (Paren target) (Ident (s_ "$event") 0 false)) false false nnull nnull.

Definition is_listener (v : node) : option node :=
  match v with
  | Arrow _ [BIdent p _ _ _] (Assign op (Paren t) (Ident q _ _)) _ _ _ _ =>
      if sq "$event" p && sq "$event" q && sq "=" op then Some t else None
  | _ => None
  end.

Definition canon_value (v : node) : node :=
  match is_listener v with Some t => mk_listener t | None => v end.

Definition norm_contrib (c : contrib) : contrib :=
  match c with
  | CKV k vs => if mergeable_key k then CKV k (map canon_value (flat_map flat_vals vs)) else c
  | _ => c
  end.

(* group a repeated class/style/listener at the position of its first occurrence *)
Fixpoint add_to_group (k : str) (vs : list node) (done : list contrib) : option (list contrib) :=
  match done with
  | [] => None
  | CKV k' vs' :: r =>
      if str_eqb k k' then Some (CKV k' (vs' ++ vs) :: r)
      else match add_to_group k vs r with Some r' => Some (CKV k' vs' :: r') | None => None end
  | c :: r => match add_to_group k vs r with Some r' => Some (c :: r') | None => None end
  end.

Definition group_contribs (cs : list contrib) : list contrib :=
  fold_left (fun done c =>
               match c with
               | CKV k vs => if mergeable_key k then
                               match add_to_group k vs done with Some d => d | None => done ++ [c] end
                             else done ++ [c]
               | _ => done ++ [c]
               end) cs [].

Definition contrib_eqb (a b : contrib) : bool :=
  match a, b with
  | CKV k vs, CKV k' vs' =>
      str_eqb k k' && Nat.eqb (List.length vs) (List.length vs')
      && forallb (fun '(x, y) => node_eqb x y) (combine vs vs')
  | CKVc k v, CKVc k' v' => node_eqb k k' && node_eqb v v'
  | CListen k t, CListen k' t' => node_eqb k k' && node_eqb t t'
  | CProp p, CProp p' => node_eqb p p'
  | CSpread e, CSpread e' => node_eqb e e'
  | COn e, COn e' => node_eqb e e'
  | CElem k _, CElem k' _ => str_eqb k k'      (* the nested sites are compared separately *)
  | CBreak, CBreak => true
  | _, _ => false
  end.

Fixpoint contribs_eqb (a b : list contrib) : bool :=
  match a, b with
  | [], [] => true
  | x :: a', y :: b' => contrib_eqb x y && contribs_eqb a' b'
  | _, _ => false
  end.

(* the same contributions with the values of a repeated class / style / listener in another order *)
Fixpoint remove_node (x : node) (l : list node) : option (list node) :=
  match l with
  | [] => None
  | y :: r => if node_eqb x y then Some r
              else match remove_node x r with Some r' => Some (y :: r') | None => None end
  end.
Fixpoint nodes_perm (a b : list node) : bool :=
  match a with
  | [] => match b with [] => true | _ => false end
  | x :: a' => match remove_node x b with Some b' => nodes_perm a' b' | None => false end
  end.
Definition contrib_eqb_values_perm (a b : contrib) : bool :=
  match a, b with
  | CKV k vs, CKV k' vs' => str_eqb k k' && nodes_perm vs vs'
  | _, _ => contrib_eqb a b
  end.
Fixpoint contribs_eqb_values_perm (a b : list contrib) : bool :=
  match a, b with
  | [], [] => true
  | x :: a', y :: b' => contrib_eqb_values_perm x y && contribs_eqb_values_perm a' b'
  | _, _ => false
  end.

(* same contributions, possibly in another order *)
Fixpoint remove_contrib (x : contrib) (l : list contrib) : option (list contrib) :=
  match l with
  | [] => None
  | y :: r => if contrib_eqb x y then Some r
              else match remove_contrib x r with Some r' => Some (y :: r') | None => None end
  end.
Fixpoint contribs_perm (a b : list contrib) : bool :=
  match a with
  | [] => match b with [] => true | _ => false end
  | x :: a' => match remove_contrib x b with Some b' => contribs_perm a' b' | None => false end
  end.

(* classification of one property of an object literal (generated or written by the user) *)
Definition view_prop (p : node) : contrib :=
  match p with
  | KV (Str k _) v => if is_vnode_call v then CElem k v else CKV k [canon_value v]
  | KV (Computed k) v =>
      match is_listener v with
      | Some t => CListen (Computed k) t
      | None => CKVc k v
      end
  | Spread e => CSpread e
  | _ => CProp p
  end.

(* ---- the source side --------------------------------------------------------------------- *)
Section Spec.
Variable E : env.
Let O := e_opts E.

Definition spec_type (name : node) : atype :=
  match name with
  | Ident n c _ =>
      if is_html_or_svg E n then TStr n
      else if sq "Fragment" n then TFragment
      else if pat_any E n then TStr n
      else if N.eqb c (e_unres E) then TResolve n
      else TExpr name
  | JNs (IdName ns) (IdName nm) => TStr (ns ++ [58] ++ nm)
  | _ => TExpr name
  end.

(* component host: any tag other than HTML/SVG names, custom-element patterns, Fragment, KeepAlive *)
Definition last_name (name : node) : str :=
  match name with
  | Ident n _ _ => n
  | JNs _ (IdName nm) => nm
  | NObj _ => match nfield "property" name with Some (IdName s) => s | _ => [] end
  | _ => []
  end.

Definition fragment_like (n : str) : bool :=
  let n' := match n with 95 :: r => r | _ => n end in
  match strip_prefix (s_ "Fragment") n' with
  | Some d => forallb (fun c => N.leb 48 c && N.leb c 57) d
  | None => false
  end.

Definition spec_is_component (name : node) : bool :=
  let n := last_name name in
  let builtin := fragment_like n || sq "KeepAlive" n in
  match name with
  | Ident _ _ _ | JNs _ _ => negb builtin && negb (is_html_or_svg E n) && negb (pat_any E n)
  | _ => negb builtin
  end.

(* --- directive names: `v-name`, `vName`, `v-name:arg`, `_modifier` suffixes ------------- *)
Definition strip_v (s : str) : str :=
  let fix dash (s : str) := match s with 45 :: r => dash r | _ => s end in
  let fix vs (s : str) := match s with 118 :: r => vs r | _ => s end in
  dash (vs s).

Definition lower_first (s : str) : str := match s with c :: r => to_ascii_lower c :: r | [] => [] end.

Record dname := { dn_name : str; dn_arg : option str; dn_mods : list str }.

Definition spec_directive_name (name : node) : option dname :=
  let is_dir (b : str) := match b with 118 :: c :: _ => N.eqb c 45 || is_ascii_upper c | _ => false end in
  match name with
  | IdName s =>
      if is_dir s then
        match split_on 95 (strip_v s) with
        | n :: mods => Some {| dn_name := lower_first n; dn_arg := None; dn_mods := mods |}
        | [] => None
        end
      else None
  | JNs (IdName ns) (IdName nm) =>
      if is_dir ns then
        match split_on 95 nm with
        | a :: mods => Some {| dn_name := lower_first (strip_v ns); dn_arg := Some a; dn_mods := mods |}
        | [] => None
        end
      else None
  | _ => None
  end.

Definition plain_elems (e : node) : option (list node) :=
  match e with Arr es => Some es | _ => None end.

Definition nth_plain (es : list node) (i : nat) : option node :=
  match nth_error es i with Some (Elem false x) => Some x | _ => None end.

Fixpoint str_lits (es : list node) : list str :=
  match es with
  | Elem false (Str v _) :: r => v :: str_lits r
  | _ :: r => str_lits r
  | [] => []
  end.

(* value / argument / modifiers of a directive attribute *)
Record dparts := { dp_value : option node; dp_arg : option node; dp_mods : list str }.

Definition spec_directive_parts (d : dname) (value : node) : dparts :=
  let name_arg := match dn_arg d with Some a => Some (Str a nnull) | None => None end in
  match value with
  | JExprC JEmpty => {| dp_value := None; dp_arg := name_arg; dp_mods := dn_mods d |}
  | JExprC (Arr es) =>
      let v := nth_plain es 0 in
      match nth_plain es 1 with
      | Some a =>
          match plain_elems a with
          | Some ms => {| dp_value := v; dp_arg := name_arg; dp_mods := str_lits ms |}
          | None =>
              {| dp_value := v;
                 dp_arg := match name_arg with Some _ => name_arg | None => Some a end;
                 dp_mods := match nth_plain es 2 with
                            | Some x => match plain_elems x with Some ms => str_lits ms | None => [] end
                            | None => []
                            end |}
          end
      | None => {| dp_value := v; dp_arg := name_arg; dp_mods := dn_mods d |}
      end
  | JExprC e => {| dp_value := Some e; dp_arg := name_arg; dp_mods := dn_mods d |}
  | _ => {| dp_value := None; dp_arg := name_arg; dp_mods := dn_mods d |}
  end.

(* the model directive of a form element *)
Definition static_type_attr (attrs : list node) : option node :=
  fold_right (fun a acc => match a with
                           | JAttr (IdName k) v => if sq "type" k && negb (is_nnull v) then Some v else acc
                           | _ => acc
                           end) None attrs.

Definition spec_model_directive (tag : node) (attrs : list node) : String.string :=
  match tag with
  | Ident n _ _ =>
      if sq "select" n then "vModelSelect"%string
      else if sq "textarea" n then "vModelText"%string
      else match static_type_attr attrs with
           | Some (Str v _) => if sq "checkbox" v then "vModelCheckbox"%string
                               else if sq "radio" v then "vModelRadio"%string else "vModelText"%string
           | None => "vModelText"%string
           | Some _ => "vModelDynamic"%string
           end
  | _ => match static_type_attr attrs with
         | Some (Str v _) => if sq "checkbox" v then "vModelCheckbox"%string
                             else if sq "radio" v then "vModelRadio"%string else "vModelText"%string
         | None => "vModelText"%string
         | Some _ => "vModelDynamic"%string
         end
  end.

(* v-models: the same-order sequence of v-model attributes *)
Fixpoint expand_vmodels (rows : list node) : list node :=
  match rows with
  | Elem false (Arr row) :: r =>
      match nth_plain row 1 with
      | Some (Str a _) =>
          JAttr (JNs (IdName (s_ "v-model")) (IdName a))
                (JExprC (Arr (match row with x :: _ :: rest => x :: rest | _ => row end)))
          :: expand_vmodels r
      | _ => JAttr (IdName (s_ "v-model")) (JExprC (Arr row)) :: expand_vmodels r
      end
  | _ :: r => expand_vmodels r
  | [] => []
  end.

Fixpoint splice_vmodels (attrs : list node) (found : bool) : list node :=
  match attrs with
  | [] => []
  | (JAttr (IdName k) v) as a :: r =>
      if negb found && sq "v-models" k then
        match v with
        | JExprC (Arr rows) => expand_vmodels rows ++ splice_vmodels r true
        | _ => splice_vmodels r true
        end
      else a :: splice_vmodels r found
  | a :: r => a :: splice_vmodels r found
  end.

Definition sort_dedup (l : list str) : list str := fold_right set_insert [] l.

Definition user_prop_contrib (p : node) : contrib := view_prop p.

(* contributions and directives of one attribute *)
Definition attr_spec (is_comp : bool) (tag : node) (all_attrs : list node) (a : node)
  : list contrib * list adir * option (option node) :=
  match a with
  | Spread (Obj ps) => (map user_prop_contrib ps, [], None)
  | Spread e => ([CSpread e], [], None)
  | JAttr name value =>
      match spec_directive_name name with
      | Some d =>
          let parts := spec_directive_parts d value in
          let first_or_self := match value with
                               | Str v _ => Some (mk_str v)
                               | JExprC JEmpty => None
                               | JExprC (Arr (Elem false x :: _)) => Some x
                               | JExprC e => Some e
                               | _ => None
                               end in
          if sq "html" (dn_name d) then
            ([CKV (s_ "innerHTML") [match first_or_self with Some x => x | None => Bool true end]], [], None)
          else if sq "text" (dn_name d) then
            ([CKV (s_ "textContent") [match first_or_self with Some x => x | None => Bool true end]], [], None)
          else if sq "slots" (dn_name d) then
            ([], [], Some (match value with
                           | JExprC ((Ident _ _ _) as e) => Some e
                           | JExprC ((Obj _) as e) => Some e
                           | _ => None
                           end))
          else if sq "model" (dn_name d) then
            let target := match dp_value parts with Some t => t | None => empty_ident end in
            let mods := sort_dedup (dp_mods parts) in
            if is_comp then
              let mods_obj := Obj (map (fun m => KV (mk_str m) (Bool true)) mods) in
              match dp_arg parts with
              | None | Some Null =>
                  ([CKV (s_ "modelValue") [target]]
                   ++ (match mods with [] => [] | _ => [CKV (s_ "modelModifiers") [mods_obj]] end)
                   ++ [CKV (s_ "onUpdate:modelValue") [mk_listener target]], [], None)
              | Some (Str an _) =>
                  ([CKV an [target]]
                   ++ (match mods with [] => [] | _ => [CKV (an ++ s_ "Modifiers") [mods_obj]] end)
                   ++ [CKV (s_ "onUpdate:" ++ an) [mk_listener target]], [], None)
              | Some ae =>
                  ([CKVc ae target]
                   ++ (match mods with [] => [] | _ => [CKVc (Bin (s_ "+") ae (mk_strS "Modifiers")) mods_obj] end)
                   ++ [CListen (Computed (Bin (s_ "+") (mk_strS "onUpdate:") ae)) target], [], None)
              end
            else
              let lc := match dp_arg parts with
                        | None | Some Null => CKV (s_ "onUpdate:modelValue") [mk_listener target]
                        | Some (Str an _) => CKV (s_ "onUpdate:" ++ an) [mk_listener target]
                        | Some ae => CListen (Computed (Bin (s_ "+") (mk_strS "onUpdate:") ae)) target
                        end in
              ([lc],
               [ADir (mk_ident (s_ (String.append "_" (spec_model_directive tag all_attrs))) 0) target (dp_arg parts) mods],
               None)
          else
            let def := if sq "show" (dn_name d) then mk_ident (s_ "_vShow") 0
                       else mk_call (mk_ident (s_ "_resolveDirective") 0) [mk_str (dn_name d)] in
            ([], [ADir def (match dp_value parts with Some v => v | None => empty_ident end)
                       (dp_arg parts) (sort_dedup (dp_mods parts))], None)
      | None =>
          let k := match name with
                   | IdName s => s
                   | JNs (IdName ns) (IdName nm) => ns ++ [58] ++ nm
                   | _ => []
                   end in
          match value with
          | NScalar JNull => ([CKV k [Bool true]], [], None)
          | Str v _ =>
              ([CKV k [mk_str (jsx_clean v)]], [], None)
          | JExprC e =>
              if o_transform_on O && (sq "on" k || sq "nativeOn" k) then ([COn e], [], None)
              else ([CKV k [e]], [], None)
          | JsxE _ _ _ _ _ _ | JsxF _ => ([CElem k value], [], None)
          | _ => ([], [], None)
          end
      end
  | _ => ([], [], None)
  end.

(* all attributes: contributions (grouped inside runs of generated entries when mergeProps is on),
   directives, v-slots *)
Definition is_vmodel_attr (a : node) : bool :=
  match a with
  | JAttr name _ => match spec_directive_name name with Some d => sq "model" (dn_name d) | None => false end
  | _ => false
  end.

(* a run of written attributes forms one object (repeated class / style / listeners grouped when
   mergeProps is on); a spread under mergeProps and a transformOn object are arguments of their
   own; the arguments are joined by Vue's mergeProps *)
Definition close_run (run : list contrib) : list (list contrib) :=
  match run with
  | [] => []
  | _ => [if o_merge_props O then group_contribs run else run]
  end.

Fixpoint join_segments (segs : list (list contrib)) : list contrib :=
  match segs with
  | [] => []
  | [x] => x
  | x :: r => x ++ CBreak :: join_segments r
  end.

Definition spec_attrs (is_comp : bool) (tag : node) (attrs0 : list node)
  : list contrib * list adir * option node :=
  let attrs := splice_vmodels attrs0 false in
  let step (acc : list (list contrib) * list contrib * list adir * option node) (a : node) :=
    let '(segs, run, dirs, slots) := acc in
    let '(cs, ds, sl) := attr_spec is_comp tag attrs a in
    let slots := match sl with Some x => x | None => slots end in
    let own := match a with
               | Spread _ => o_merge_props O
               | _ => match cs with [COn _] => true | _ => false end
               end in
    if own then (segs ++ close_run run ++ [cs], [], dirs ++ ds, slots)
    else (segs, run ++ cs, dirs ++ ds, slots) in
  let '(segs, run, dirs, slots) := fold_left step attrs ([], [], [], None) in
  (map norm_contrib (join_segments (segs ++ close_run run)), dirs, slots).

End Spec.

(* ---- the output side --------------------------------------------------------------------- *)
Definition view_type (t : node) : atype :=
  match t with
  | Str s _ => TStr s
  | Call true _ f [Elem false (Str s _)] _ =>
      if is_helper "resolveComponent" f then TResolve s else TExpr t
  | _ => if is_helper "Fragment" t then TFragment else TExpr t
  end.

Definition view_arg (a : node) : list contrib :=
  match a with
  | Obj ps => map view_prop ps
  | Call true _ f [Elem false e] _ => if is_helper "transformOn" f then [COn e] else [CSpread a]
  | _ => [CSpread a]
  end.

Fixpoint join_views (segs : list (list contrib)) : list contrib :=
  match segs with
  | [] => []
  | [x] => x
  | x :: r => x ++ CBreak :: join_views r
  end.

Definition view_contribs (p : node) : list contrib :=
  map norm_contrib
      (match p with
       | Null => []
       | Call true _ f args _ =>
           if is_helper "mergeProps" f
           then join_views (map (fun a => match a with Elem false x => view_arg x | _ => [] end) args)
           else view_arg p
       | _ => view_arg p
       end).

Definition view_mods (m : node) : list str :=
  match m with
  | Obj ps => fold_right (fun p acc => match p with
                                       | KV (IdName k) (Bool true) => k :: acc
                                       | KV (Str k _) (Bool true) => k :: acc
                                       | _ => acc
                                       end) [] ps
  | _ => []
  end.

Definition is_void0 (n : node) : bool :=
  match n with Unary op (Num v _) => sq "void" op && sq "0.0" v | _ => false end.

Definition view_dir (d : node) : option adir :=
  match d with
  | Elem false (Arr (Elem false def :: Elem false v :: rest)) =>
      let def' := match def with
                  | Ident s _ _ => mk_ident s 0
                  | Call true _ (Ident s _ _) args _ => mk_call (mk_ident s 0) (fold_right (fun a acc => match a with Elem false x => x :: acc | _ => acc end) [] args)
                  | _ => def
                  end in
      match rest with
      | [] => Some (ADir def' v None [])
      | [Elem false a] => Some (ADir def' v (if is_void0 a then None else Some a) [])
      | Elem false a :: Elem false m :: _ => Some (ADir def' v (if is_void0 a then None else Some a) (view_mods m))
      | _ => None
      end
  | _ => None
  end.

Definition adir_eqb (a b : adir) : bool :=
  match a, b with
  | ADir d v g m, ADir d' v' g' m' =>
      node_eqb d d' && node_eqb v v'
      && match g, g' with Some x, Some y => node_eqb x y | None, None => true | _, _ => false end
      && Nat.eqb (List.length m) (List.length m') && forallb (fun '(x, y) => str_eqb x y) (combine m m')
  end.

Definition atype_eqb (a b : atype) : bool :=
  match a, b with
  | TStr x, TStr y | TResolve x, TResolve y => str_eqb x y
  | TFragment, TFragment => true
  | TExpr x, TExpr y => node_eqb x y
  | _, _ => false
  end.
