(* Tie between the grammar of Lemmas/InhabProofs.v and what SWC parses: [parse_ty] reads a parsed
   type node back into the grammar, [in_grammar] says that the node IS the encoding of a grammar
   term that meets the hypotheses of C17_accepts_every_inhabitant in the given registry state
   (decidable versions of wf / anyfree), and [grammar_cover] counts, over every property signature
   of a parsed module, how many annotations lie in the grammar.  Evaluated on every parsed input
   of the types stream; the counts go into the evidence. *)
From Coq Require Import List Bool NArith String.
From VJ Require Import Model.Str Model.Json Model.Ast Model.State Model.Util Model.Types
  Lemmas.NodeInd Lemmas.TypesProofs Lemmas.InhabProofs.
Import ListNotations.
Local Open Scope list_scope.

Definition obj_fields (n : node) : list node := match n with NObj (_ :: fs) => fs | _ => [] end.

Definition kw_of (k : str) : option ty :=
  if sq "string" k then Some (TKw KwString) else if sq "number" k then Some (TKw KwNumber)
  else if sq "boolean" k then Some (TKw KwBoolean) else if sq "object" k then Some (TKw KwObject)
  else if sq "null" k then Some (TKw KwNull) else if sq "bigint" k then Some (TKw KwBigint)
  else if sq "symbol" k then Some (TKw KwSymbol) else if sq "any" k then Some (TAny false)
  else if sq "unknown" k then Some (TAny true) else None.

Fixpoint parse_ty (fuel : nat) (s : st) (n : node) : option ty :=
  match fuel with
  | O => None
  | S f =>
      let all := fix all (l : list node) : option (list ty) :=
        match l with
        | [] => Some []
        | x :: r => match parse_ty f s x, all r with Some t, Some ts => Some (t :: ts) | _, _ => None end
        end in
      if is_ty "TsKeywordType" n then
        match tf "kind" n with NScalar (JStr k) => kw_of k | _ => None end
      else if is_ty "TsLiteralType" n then
        match tf "literal" n with
        | Str v w => Some (TLitStr v w) | Num v w => Some (TLitNum v w) | Bool b => Some (TLitBool b)
        | _ => None
        end
      else if is_ty "TsFunctionType" n then Some (TFn (obj_fields n))
      else if is_ty "TsConstructorType" n then Some (TCtor (obj_fields n))
      else if is_ty "TsArrayType" n then Some (TArray (obj_fields n))
      else if is_ty "TsTupleType" n then Some (TTuple (obj_fields n))
      else if is_ty "TsTypeLiteral" n then Some (TObjLit (tlist "members" n))
      else if is_ty "TsParenthesizedType" n then option_map TParen (parse_ty f s (tf "typeAnnotation" n))
      else if is_ty "TsOptionalType" n then option_map TOptional (parse_ty f s (tf "typeAnnotation" n))
      else if is_ty "TsUnionType" n then option_map TUnion (all (tlist "types" n))
      else if is_ty "TsTypeReference" n then
        match ref_ident n with
        | None => None
        | Some (sym, c) =>
            match reg_get sym c (aliases s) with
            | Some body => option_map (TAlias sym c (type_params n)) (parse_ty f s body)
            | None =>
                match reg_get sym c (interfaces s) with
                | Some i => Some (TIface sym c i)
                | None =>
                    if sq "Array" sym then Some (TArrayRef (type_params n))
                    else if sq "Function" sym then Some TFunctionRef
                    else if mem_str sym (map s_ class_names) then Some (TClass sym c (type_params n))
                    else if sq "NonNullable" sym then
                      match type_params n with
                      | [p] => option_map (TNonNull c) (parse_ty f s p)
                      | _ => None
                      end
                    else None
                end
            end
        end
      else None
  end.

Definition none_b (o : option node) : bool := match o with None => true | Some _ => false end.

(* decidable reading of [wf] *)
Fixpoint wf_b (s : st) (t : ty) : bool :=
  match t with
  | TArrayRef _ => none_b (reg_get (s_ "Array") 1 (aliases s)) && none_b (reg_get (s_ "Array") 1 (interfaces s))
  | TFunctionRef => none_b (reg_get (s_ "Function") 1 (aliases s)) && none_b (reg_get (s_ "Function") 1 (interfaces s))
  | TClass n c _ => none_b (reg_get n c (aliases s)) && none_b (reg_get n c (interfaces s))
                    && mem_str n (map s_ class_names)
  | TObjLit ms => match ms with [] => false | _ => true end
  | TIface sym c i =>
      none_b (reg_get sym c (aliases s))
      && match reg_get sym c (interfaces s) with Some i' => jv_eqb (enc i') (enc i) | None => false end
      && match iface_body i with [] => false | _ => true end
  | TParen t | TOptional t => wf_b s t
  | TAlias sym c _ t =>
      match reg_get sym c (aliases s) with Some b => jv_eqb (enc b) (enc (enc_ty t)) | None => false end && wf_b s t
  | TNonNull c t => none_b (reg_get (s_ "NonNullable") c (aliases s))
                    && none_b (reg_get (s_ "NonNullable") c (interfaces s)) && wf_b s t
  | TUnion ts => forallb (wf_b s) ts
  | _ => true
  end.

(* the node is (the encoding of) a term of the grammar that meets the theorem's hypotheses *)
Definition in_grammar (s : st) (n : node) : bool :=
  match parse_ty 40 s n with
  | Some t => jv_eqb (enc (enc_ty t)) (enc n) && wf_b s t && anyfree t
  | None => false
  end.

(* the theorem's conclusion, evaluated on the parsed node: every kind of a fixed sample that
   inhabits the type is accepted by the list the model's resolver computes for the REAL node *)
Definition sample_kinds : list vkind :=
  [KStr; KNum; KBool; KBig; KSym; KFun; KNull; KPlain; KArr; KInst (s_ "Date"); KInst (s_ "Map"); KInst (s_ "RegExp")].

Definition conclusion_holds (E : env) (s : st) (n : node) : bool :=
  match parse_ty 40 s n with
  | Some t => let cs := fst (irt E type_fuel n s) in
              forallb (fun k => implb (inh t k) (accepts cs k)) sample_kinds
  | None => true
  end.

Definition sig_types (m : node) : list node :=
  flat_map (fun n => if is_ty "TsPropertySignature" n then
                       match ann_type (tf "typeAnnotation" n) with Some t => [t] | None => [] end
                     else []) (subs m).

(* (annotations in the grammar, annotations in all, in-grammar annotations whose conclusion fails) *)
Definition grammar_cover (E : env) (m : node) : N * N * N :=
  let s := collect_ts_decls E subs m st0 in
  let ts := sig_types m in
  let ing := filter (in_grammar s) ts in
  (N.of_nat (List.length ing), N.of_nat (List.length ts),
   N.of_nat (List.length (filter (fun n => negb (conclusion_holds E s n)) ing))).
