(* C15: which identifier creates vnodes.  Written from the property text. *)
From VJ Require Import Model.Str Model.Json Model.Ast Model.State.

(* all suffixes of a string, longest first *)
Fixpoint tails (s : str) : list str :=
  match s with [] => [[]] | _ :: r => s :: tails r end.

Fixpoint drop_ws (s : str) : str :=
  match s with c :: r => if is_ws c then drop_ws r else s | [] => [] end.

Fixpoint take_word (s : str) : str :=
  match s with c :: r => if is_ws c then [] else c :: take_word r | [] => [] end.

(* a suffix that reads `@jsx`, at least one whitespace character, then a name *)
Definition annotation_at (t : str) : option str :=
  match strip_prefix (s_ "@jsx") t with
  | Some rest =>
      match rest with
      | c :: _ => if is_ws c then
                    match take_word (drop_ws rest) with [] => None | w => Some w end
                  else None          (* @jsxImportSource, @jsxRuntime, @jsxFrag, ... *)
      | [] => None                   (* a bare `@jsx` *)
      end
  | None => None
  end.

(* the annotation of a comment: the leftmost suffix that is one *)
Definition annotation_of (text : str) : option str :=
  fold_right (fun t acc => match annotation_at t with Some w => Some w | None => acc end)
             None (tails text).

(* the annotation among a group of leading comments: the first comment that has one *)
Definition group_annotation (cs : list str) : option str :=
  fold_right (fun c acc => match annotation_of c with Some w => Some w | None => acc end) None cs.

(* the factory of a module: the annotation of the last annotated group, else the option *)
Definition module_annotation (groups : list (list str)) : option str :=
  fold_left (fun acc g => match group_annotation g with Some w => Some w | None => acc end) groups None.

Definition expected_pragma (E : env) : option str :=
  match module_annotation (e_comments E) with
  | Some w => Some w
  | None => o_pragma (e_opts E)
  end.
