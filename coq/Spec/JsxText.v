(* The standard JSX text-cleaning rule, written from the rule itself (C02) and
   independently of how the transform implements it:
   - the text is cut into lines at CRLF, LF or a lone CR;
   - a tab counts as a space;
   - spaces adjacent to a line break are dropped: leading ones on every line but
     the first, trailing ones on every line but the last;
   - lines that are empty afterwards are dropped;
   - what remains is joined by exactly one space.
   Every other character (NBSP and other Unicode spaces included) is kept. *)
From VJ Require Import Model.Str.

Definition is_blank (c : N) : bool := N.eqb c 32 || N.eqb c 9.

(* single pass line breaker; CR LF is one break *)
Fixpoint break_lines (s : str) : list str :=
  match s with
  | [] => [[]]
  | 13 :: ((10 :: r') as r) =>
      (* CR of a CRLF: the break is produced when the LF is seen *)
      break_lines r
  | c :: r =>
      if N.eqb c 10 || N.eqb c 13 then [] :: break_lines r
      else match break_lines r with
           | [] => [[c]]
           | l :: ls => (c :: l) :: ls
           end
  end.

Definition drop_leading_blanks : str -> str :=
  fix go s := match s with c :: r => if is_blank c then go r else s | [] => [] end.

(* right-to-left: a blank is dropped iff everything after it was dropped *)
Definition drop_trailing_blanks (s : str) : str :=
  fold_right (fun c acc => match acc with
                           | [] => if is_blank c then [] else [c]
                           | _ => c :: acc
                           end) [] s.

Definition tab_to_space (s : str) : str := map (fun c => if N.eqb c 9 then 32 else c) s.

(* line number i (from 0) of n lines *)
Definition clean_nth (n i : nat) (l : str) : str :=
  let l := if Nat.eqb i 0 then l else drop_leading_blanks l in
  let l := if Nat.eqb (S i) n then l else drop_trailing_blanks l in
  tab_to_space l.

Fixpoint mapi_from {A B} (f : nat -> A -> B) (i : nat) (l : list A) : list B :=
  match l with [] => [] | x :: r => f i x :: mapi_from f (S i) r end.

Definition nonempty (s : str) : bool := match s with [] => false | _ => true end.

Definition jsx_clean (s : str) : str :=
  let ls := break_lines s in
  join [32] (filter nonempty (mapi_from (clean_nth (length ls)) 0 ls)).
