(* C13, last clause: which slots must be marked dynamic, read off the source element.
   A child `{x}` / `{...x}` whose expression is an identifier bound in the file makes the slot it
   sits in dynamic, and with it every enclosing slot reached by direct JSX nesting. *)
From VJ Require Import Model.Str Model.Json Model.Ast Model.State Model.Directive.

Section SlotFlag.
Variable E : env.

(* an identifier the resolver bound to a declaration of the file *)
Definition src_bound (e : node) : bool :=
  match e with Ident _ c _ => negb (N.eqb c (e_unres E)) | _ => false end.

(* the property's wording: children only *)
Fixpoint dyn_text (n : node) {struct n} : bool :=
  let dc := fix dc (l : list node) : bool :=
              match l with
              | [] => false
              | c :: r =>
                  (match c with
                   | JExprC e | JSpreadChild e => src_bound e
                   | JsxE _ _ _ _ _ _ | JsxF _ => dyn_text c
                   | _ => false
                   end) || dc r
              end in
  match n with
  | JsxE _ _ _ _ children _ => dc children
  | JsxF children => dc children
  | _ => false
  end.

(* what the code computes: elements written directly as attribute values are lowered while
   their host's flag is on the stack, so they count as nested too *)
Fixpoint dyn (n : node) {struct n} : bool :=
  let dc := fix dc (l : list node) : bool :=
              match l with
              | [] => false
              | c :: r =>
                  (match c with
                   | JExprC e | JSpreadChild e => src_bound e
                   | JsxE _ _ _ _ _ _ | JsxF _ => dyn c
                   | _ => false
                   end) || dc r
              end in
  let da := fix da (l : list node) : bool :=
              match l with
              | [] => false
              | a :: r =>
                  (match a with
                   | JAttr _ ((JsxE _ _ _ _ _ _) as v) => if is_directive a then false else dyn v
                   | JAttr _ ((JsxF _) as v) => if is_directive a then false else dyn v
                   | _ => false
                   end) || da r
              end in
  match n with
  | JsxE _ attrs _ _ children _ => da attrs || dc children
  | JsxF children => dc children
  | _ => false
  end.

Definition dyn_child (c : node) : bool :=
  match c with
  | JExprC e | JSpreadChild e => src_bound e
  | JsxE _ _ _ _ _ _ | JsxF _ => dyn c
  | _ => false
  end.
Definition dyn_attr (a : node) : bool :=
  match a with
  | JAttr _ ((JsxE _ _ _ _ _ _) as v) => if is_directive a then false else dyn v
  | JAttr _ ((JsxF _) as v) => if is_directive a then false else dyn v
  | _ => false
  end.

Lemma dyn_JsxE nm attrs sc ta ch cl :
  dyn (JsxE nm attrs sc ta ch cl) = existsb dyn_attr attrs || existsb dyn_child ch.
Proof. reflexivity. Qed.
Lemma dyn_JsxF ch : dyn (JsxF ch) = existsb dyn_child ch.
Proof. reflexivity. Qed.

End SlotFlag.
