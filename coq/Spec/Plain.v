(* C07: "the output contains no JSX syntax of any kind" as a predicate on trees. *)
From VJ Require Import Model.Str Model.Json Model.Ast Lemmas.NodeInd.

(* JSXMemberExpression in expression position prints as a plain member chain and is allowed;
   every other JSX node kind is not *)
Definition is_jsx_node (n : node) : bool :=
  match n with
  | JsxE _ _ _ _ _ _ | JsxF _ | JAttr _ _ | JNs _ _ | JExprC _ | JEmpty | JText _ _
  | JSpreadChild _ => true
  | NObj _ =>
      let t := ntype n in
      sq "JSXOpeningElement" t || sq "JSXClosingElement" t || sq "JSXOpeningFragment" t
      || sq "JSXClosingFragment" t || sq "JSXElement" t || sq "JSXFragment" t
      || sq "JSXAttribute" t || sq "JSXNamespacedName" t || sq "JSXExpressionContainer" t
      || sq "JSXEmptyExpression" t || sq "JSXText" t || sq "JSXSpreadChild" t
  | _ => false
  end.

Definition jsx_free (n : node) : bool := all_sub (fun x => negb (is_jsx_node x)) n.

(* an element all of whose embedded expressions are already JSX-free
   (the state of a JSX element when visit_mut_expr reaches it, after its children were visited) *)
Definition jsx_free_name (n : node) : bool :=
  match n with
  | Ident _ _ _ => true
  | JNs (IdName _) (IdName _) => true
  | NObj _ => sq "JSXMemberExpression" (ntype n) && jsx_free n
  | _ => false
  end.

Fixpoint ready (n : node) {struct n} : bool :=
  let rl := fix rl (l : list node) : bool :=
              match l with [] => true | x :: r => ready x && rl r end in
  match n with
  | JsxE nm attrs _ _ children _ => jsx_free_name nm && rl attrs && rl children
  | JsxF children => rl children
  | JAttr _ v =>
      match v with
      | NScalar JNull => true
      | Str _ w => jsx_free w
      | JExprC e => jsx_free e              (* `a={}` is rejected by the parser *)
      | JsxE _ _ _ _ _ _ | JsxF _ => ready v
      | _ => false
      end
  | Spread e => jsx_free e
  | JExprC JEmpty => true
  | JExprC e => jsx_free e
  | JSpreadChild e => jsx_free e
  | JText _ _ => true
  | _ => false
  end.
