(* C07: "the output contains no JSX syntax of any kind" as a predicate on trees. *)
From VJ Require Import Model.Str Model.Json Model.Ast Lemmas.NodeInd.

(* JSXMemberExpression in expression position prints as a plain member chain and is allowed;
   every other JSX node kind is not *)
Definition jsx_ty (t : str) : bool :=
  sq "JSXOpeningElement" t || sq "JSXClosingElement" t || sq "JSXOpeningFragment" t
  || sq "JSXClosingFragment" t || sq "JSXElement" t || sq "JSXFragment" t
  || sq "JSXAttribute" t || sq "JSXNamespacedName" t || sq "JSXExpressionContainer" t
  || sq "JSXEmptyExpression" t || sq "JSXText" t || sq "JSXSpreadChild" t.

Definition is_jsx_node (n : node) : bool :=
  match n with
  | JsxE _ _ _ _ _ _ | JsxF _ | JAttr _ _ | JNs _ _ | JExprC _ | JEmpty | JText _ _
  | JSpreadChild _ => true
  | NObj _ => jsx_ty (ntype n)
  | _ => false
  end.

Definition jsx_free (n : node) : bool := all_sub (fun x => negb (is_jsx_node x)) n.

(* an element all of whose embedded expressions are already JSX-free
   (the state of a JSX element when visit_mut_expr reaches it, after its children were visited) *)
Definition jsx_free_name (n : node) : bool :=
  match n with
  | Ident _ _ _ => true
  | JNs (IdName _) (IdName _) => true
  | NObj _ => sq "JSXMemberExpression" (ntype n) && jsx_free n
  | _ => false
  end.

Fixpoint ready (n : node) {struct n} : bool :=
  let rl := fix rl (l : list node) : bool :=
              match l with [] => true | x :: r => ready x && rl r end in
  let ral := fix ral (l : list node) : bool :=
               match l with
               | [] => true
               | x :: r => (match x with JAttr _ _ | Spread _ => ready x | _ => false end) && ral r
               end in
  match n with
  | JsxE nm attrs _ _ children _ => jsx_free_name nm && ral attrs && rl children
  | JsxF children => rl children
  | JAttr _ v =>
      match v with
      | NScalar JNull => true
      | Str _ w => jsx_free w
      | JExprC e => jsx_free e              (* `a={}` is rejected by the parser *)
      | JsxE _ _ _ _ _ _ | JsxF _ => ready v
      | _ => false
      end
  | Spread e => jsx_free e
  | JExprC JEmpty => true
  | JExprC e => jsx_free e
  | JSpreadChild e => jsx_free e
  | JText _ _ => true
  | _ => false
  end.

(* an attribute-list item: an attribute or a spread, ready *)
Definition ready_attr (x : node) : bool :=
  match x with JAttr _ _ | Spread _ => ready x | _ => false end.

(* ---- the grammar of a parsed module, as far as JSX is concerned ------------------------- *)
(* where a node sits: in an ordinary (expression / statement / field) position, in the attribute
   list of a JSX element, or in the child list of a JSX element or fragment *)
Inductive pos := PExpr | PAttr | PChild.
Definition isE (p : pos) : bool := match p with PExpr => true | _ => false end.
Definition isA (p : pos) : bool := match p with PAttr => true | _ => false end.
Definition isC (p : pos) : bool := match p with PChild => true | _ => false end.
Definition is_jempty (n : node) : bool := match n with JEmpty => true | _ => false end.

(* [gram p n]: JSX node kinds occur in [n] only where the JSX grammar puts them - attributes in
   attribute lists, text / containers / spread children in child lists, elements and fragments
   in expression or child position or as attribute values - and the positions the traversal
   does not enter (literal raws, type arguments, type parameters, return types, element names)
   hold no JSX at all.  Every tree the parser produces satisfies it; the correspondence run
   re-checks that on every input. *)
(* a generic object starts with its type tag (or has none), and the tag is not a JSX kind *)
Definition obj_head_ok (l : list node) : bool :=
  match l with
  | [] => true
  | Field kt v :: _ =>
      if sq "type" kt then match v with NScalar (JStr ty) => negb (jsx_ty ty) | _ => false end
      else true
  | _ :: _ => false
  end.

Fixpoint gram (p : pos) (n : node) {struct n} : bool :=
  let gl := fix gl (q : pos) (l : list node) : bool :=
              match l with [] => true | x :: r => gram q x && gl q r end in
  match n with
  | NScalar _ | Ident _ _ _ | IdName _ | Bool _ | Null | Hole => isE p
  | NArr l => isE p && gl PExpr l
  | NObj l => isE p && obj_head_ok l && gl PExpr l
  | Field _ v => isE p && gram PExpr v
  | BIdent _ _ _ t => isE p && gram PExpr t
  | Str _ w | Num _ w => isE p && jsx_free w
  | Arr l | Obj l | Block _ l => isE p && gl PExpr l
  | Elem _ e | Computed e | Paren e | Unary _ e => isE p && gram PExpr e
  | Spread e => negb (isC p) && gram PExpr e
  | KV a b | Assign _ a b | Bin _ a b | Member a b => isE p && gram PExpr a && gram PExpr b
  | Cond a b c => isE p && gram PExpr a && gram PExpr b && gram PExpr c
  | Call _ _ f a t => isE p && gram PExpr f && gl PExpr a && jsx_free t
  | Arrow _ ps b _ _ tp rt => isE p && gl PExpr ps && gram PExpr b && jsx_free tp && jsx_free rt
  | JsxE nm ats _ _ ch _ => negb (isA p) && jsx_free_name nm && gl PAttr ats && gl PChild ch
  | JsxF ch => negb (isA p) && gl PChild ch
  | JAttr _ v =>
      isA p &&
      match v with
      | NScalar JNull => true
      | Str _ w => jsx_free w
      | JExprC e => negb (is_jempty e) && gram PExpr e
      | JsxE _ _ _ _ _ _ | JsxF _ => gram PExpr v
      | _ => false
      end
  | JExprC e => isC p && (is_jempty e || gram PExpr e)
  | JSpreadChild e => isC p && gram PExpr e
  | JText _ _ => isC p
  | JEmpty | JNs _ _ => false
  end.

Lemma gram_list q l :
  (fix gl (q : pos) (l : list node) : bool :=
     match l with [] => true | x :: r => gram q x && gl q r end) q l
  = forallb (gram q) l.
Proof. induction l as [|x r IH]; [reflexivity|]. cbn [forallb]. rewrite <- IH. reflexivity. Qed.

(* a parsed module: { type, body: [...], interpreter } *)
Definition module_shape (m : node) : bool :=
  match m with
  | NObj [Field _ (NScalar _); Field _ (NArr _); Field _ (NScalar _)] => true
  | _ => false
  end.

