(* C10: comparing the lowering of one JSX statement inside a module with its lowering alone.
   Two output expressions are compared by what their identifiers denote, not by the local names
   the transform happened to pick: a binding imported from 'vue' is named by what it imports,
   a generated temporary by the order in which temporaries first occur, every other identifier
   by its name and the order in which its scope (syntax context) first occurs. *)
From VJ Require Import Model.Str Model.Json Model.Ast.

Definition jtype_is (t : String.string) (j : jv) : bool :=
  match jfield (s_ "type") j with Some (JStr x) => sq t x | _ => false end.
Arguments jtype_is _%string_scope _.

(* an identifier that carries a syntax context: (name, context) *)
Definition ident_of (j : jv) : option (str * N) :=
  if jtype_is "Identifier" j then
    match jfield (s_ "value") j, jfield (s_ "ctxt") j with
    | Some (JStr v), Some (JNum c) => match N_of_dec c with Some n => Some (v, n) | None => None end
    | _, _ => None
    end
  else None.

(* the syntax context a node carries (identifiers, and the scopes of functions / blocks / calls) *)
Definition ctxt_of (j : jv) : option N :=
  match jfield (s_ "ctxt") j with
  | Some (JNum c) => N_of_dec c
  | _ => None
  end.

(* occurrences of syntax contexts in document order; identifiers with their names, other
   nodes with the empty name *)
Fixpoint idents (j : jv) {struct j} : list (str * N) :=
  match j with
  | JArr l => (fix go (l : list jv) : list (str * N) :=
                 match l with [] => [] | x :: r => idents x ++ go r end) l
  | JObj fs =>
      match ident_of j with
      | Some i => [i]
      | None => (match ctxt_of j with Some c => [([], c)] | None => [] end)
                ++ (fix go (l : list (str * jv)) : list (str * N) :=
                      match l with [] => [] | (_, x) :: r => idents x ++ go r end) fs
      end
  | _ => []
  end.

(* the bindings a module imports from 'vue': (local name, local context) -> imported name *)
Definition vue_bindings (m : jv) : list (str * N * str) :=
  flat_map (fun st =>
              if jtype_is "ImportDeclaration" st
                 && match jfield (s_ "source") st with
                    | Some src => match jfield (s_ "value") src with Some (JStr v) => sq "vue" v | _ => false end
                    | None => false
                    end
              then flat_map (fun sp =>
                               if jtype_is "ImportSpecifier" sp then
                                 match jfield (s_ "local") sp with
                                 | Some loc =>
                                     match ident_of loc with
                                     | Some (v, c) =>
                                         let imported :=
                                           match jfield (s_ "imported") sp with
                                           | Some im => match jfield (s_ "value") im with Some (JStr x) => x | _ => v end
                                           | None => v
                                           end in
                                         [(v, c, imported)]
                                     | None => []
                                     end
                                 | None => []
                                 end
                               else []) (jarr (match jfield (s_ "specifiers") st with Some x => x | None => JNull end))
              else []) (jarr (match jfield (s_ "body") m with Some x => x | None => JNull end)).

Fixpoint index_of (c : N) (l : list N) (k : N) : N :=
  match l with
  | [] => k
  | x :: r => if N.eqb x c then k else index_of c r (k + 1)
  end.

Fixpoint dedup_N (l : list N) (seen : list N) : list N :=
  match l with
  | [] => []
  | x :: r => if existsb (N.eqb x) seen then dedup_N r seen else x :: dedup_N r (x :: seen)
  end.

Definition lookup_vue (v : str) (c : N) (tbl : list (str * N * str)) : option str :=
  match filter (fun '(v', c', _) => str_eqb v v' && N.eqb c c') tbl with
  | (_, _, im) :: _ => Some im
  | [] => None
  end.

Definition set_field (k : String.string) (v : jv) (fs : list (str * jv)) : list (str * jv) :=
  map (fun '(k', x) => if sq k k' then (k', v) else (k', x)) fs.
Arguments set_field _%string_scope _ _.

Section Canon.
Variable tbl : list (str * N * str).
Variable ctxs : list N.

Definition canon_ident (fs : list (str * jv)) (v : str) (c : N) : jv :=
  match lookup_vue v c tbl with
  | Some im => JObj (set_field "value" (JStr (s_ "vue:" ++ im)) (set_field "ctxt" (JNum (s_ "0")) fs))
  | None =>
      let k := index_of c ctxs 0 in
      let fs := set_field "ctxt" (JNum (dec_of_N k)) fs in
      if N.leb gen_base c then JObj (set_field "value" (JStr (s_ "$tmp")) fs) else JObj fs
  end.

Fixpoint canon_ids (j : jv) {struct j} : jv :=
  match j with
  | JArr l => JArr ((fix go (l : list jv) : list jv :=
                       match l with [] => [] | x :: r => canon_ids x :: go r end) l)
  | JObj fs =>
      match ident_of j with
      | Some (v, c) => canon_ident fs v c
      | None =>
          let fs' := (fix go (l : list (str * jv)) : list (str * jv) :=
                        match l with [] => [] | (k, x) :: r => (k, canon_ids x) :: go r end) fs in
          match ctxt_of j with
          | Some c => JObj (set_field "ctxt" (JNum (dec_of_N (index_of c ctxs 0))) fs')
          | None => JObj fs'
          end
      end
  | _ => j
  end.
End Canon.

(* the expression [e] of module [m], with its identifiers named by what they denote *)
Definition canon_in (m e : jv) : jv :=
  let tbl := vue_bindings m in
  let ids := filter (fun '(v, c) => match lookup_vue v c tbl with Some _ => false | None => true end) (idents e) in
  canon_ids tbl (dedup_N (map snd ids) []) e.
