(* Entry points of the correspondence check: one call per case record written by the
   harness.  Everything here is executable; nothing is proved in this file. *)
From VJ Require Import Model.Str Model.Json Model.Ast Model.State Model.Util Model.Text
  Model.Directive Model.Lower Model.Visitor Model.Types Model.Options Spec.Plain Spec.Pragma Spec.OutViews Spec.DcViews Spec.Site Spec.SiteCheck Spec.SlotFlag Spec.SlotFlagCheck Spec.Context Lemmas.NodeInd Spec.TyParse.
From VJ Require Import Gen.Tables.

Definition jfield_d (k : String.string) (j : jv) : jv :=
  match jfield (s_ k) j with Some v => v | None => JNull end.
Arguments jfield_d _%string_scope _.

Definition jbool_d (j : jv) : bool := match j with JBool b => b | _ => false end.
Definition jstrs (j : jv) : list str :=
  fold_right (fun x acc => match x with JStr s => s :: acc | _ => acc end) [] (jarr j).

Definition options_of (j : jv) : options :=
  {| o_transform_on := jbool_d (jfield_d "transformOn" j);
     o_optimize := jbool_d (jfield_d "optimize" j);
     o_merge_props := jbool_d (jfield_d "mergeProps" j);
     o_object_slots := jbool_d (jfield_d "enableObjectSlots" j);
     o_pragma := jstr (jfield_d "pragma" j);
     o_resolve_type := jbool_d (jfield_d "resolveType" j);
     o_npat := List.length (jarr (jfield_d "patterns" j)) |}.

Definition matches_of (j : jv) : list (str * list bool) :=
  fold_right (fun x acc =>
                match x with
                | JArr [JStr n; JArr bs] => (n, map jbool_d bs) :: acc
                | _ => acc
                end) [] (jarr j).

Definition env_of (c : jv) : env :=
  {| e_opts := options_of (jfield_d "options" c);
     e_unres := match jnat (jfield_d "unres" c) with Some n => n | None => 0 end;
     e_matches := matches_of (jfield_d "matches" c);
     e_html := html_tags;
     e_svg := svg_tags;
     e_comments := map jstrs (jarr (jfield_d "comments" c)) |}.

Definition model_run (c : jv) : jv * st :=
  let E := env_of c in
  let '(out, s) :=
    transform_module E (hook_call E) (hook_declarator E) (collect_ts_decls E subs)
                     (dec (jfield_d "input" c)) in
  (fst (canon (enc out) []), s).

Fixpoint strs_eqb (a b : list str) : bool :=
  match a, b with
  | [], [] => true
  | x :: a', y :: b' => str_eqb x y && strs_eqb a' b'
  | _, _ => false
  end.

(* diagnostics are compared as multisets *)
Fixpoint insert_sorted (x : str) (l : list str) : list str :=
  match l with
  | [] => [x]
  | y :: r => if str_ltb y x then y :: insert_sorted x r else x :: l
  end.
(* ... and as sets: SWC's Handler drops a diagnostic whose (message, span) was already
   emitted, and a value-less attribute has the dummy span *)
Fixpoint insert_sorted_set (x : str) (l : list str) : list str :=
  match l with
  | [] => [x]
  | y :: r => if str_eqb y x then l else if str_ltb y x then y :: insert_sorted_set x r else x :: l
  end.
Definition sort_strs (l : list str) : list str := fold_right insert_sorted_set [] l.

Record case_result := {
  cr_relevant : bool;          (* the real run produced an output to compare with *)
  cr_roundtrip : bool;         (* enc (dec input) = input *)
  cr_same_status : bool;
  cr_same_out : bool;
  cr_same_diag : bool;
  cr_model_out : jv;
  cr_model_diags : list str;
  cr_extra : list (str * str);  (* oracle results etc.: key=value *)
  cr_views : jv;                (* facts read off the real / model output, for judges that hold the ground truth *)
}.

Definition b2s (b : bool) : str := if b then [49] else [48].

(* per-property results on this case: o<id> = the property's predicate on the REAL output,
   v<id> = the property's view of the real output equals its view of the model's output *)
Definition is_ok_status (j : jv) : bool := match j with JStr st => sq "ok" st | _ => false end.

Definition module_items (m : node) : list node :=
  match m with
  | NObj [Field _ _; Field _ (NArr items); _] => items
  | _ => []
  end.

Fixpoint subseq_items (xs ys : list node) {struct ys} : bool :=
  match xs with
  | [] => true
  | x :: xr =>
      match ys with
      | [] => false
      | y :: yr => if jv_eqb (enc x) (enc y) then subseq_items xr yr else subseq_items xs yr
      end
  end.

(* C09: every JSX-free statement of the input, at any depth, is a statement of the output
   (as many times as it was written) *)
Definition ends_with (x : String.string) (s : str) : bool := starts_with (rev (s_ x)) (rev s).
Arguments ends_with _%string_scope _.
Definition is_stmt (n : node) : bool :=
  match n with
  | Block _ _ => true
  | NObj _ => ends_with "Statement" (ntype n) || ends_with "Declaration" (ntype n)
  | _ => false
  end.
Fixpoint remove_jv (x : jv) (l : list jv) : option (list jv) :=
  match l with
  | [] => None
  | y :: r => if jv_eqb x y then Some r
              else match remove_jv x r with Some r' => Some (y :: r') | None => None end
  end.
Fixpoint sub_multiset (xs ys : list jv) : bool :=
  match xs with
  | [] => true
  | x :: r => match remove_jv x ys with Some ys' => sub_multiset r ys' | None => false end
  end.
Definition stmts_kept (input output : node) : bool :=
  sub_multiset (map enc (filter (fun n => is_stmt n && jsx_free n) (Lemmas.NodeInd.subs input)))
               (map enc (filter is_stmt (Lemmas.NodeInd.subs output))).

Definition extras (c : jv) (model_out : jv) : list (str * str) :=
  let E := env_of c in
  let real_j := jfield_d "output" c in
  let real := dec real_j in
  let model := dec model_out in
  let input := dec (jfield_d "input" c) in
  let rdiags := jstrs (jfield_d "diags" c) in
  let alt := jfield_d "alt" c in
  let alt_ok := is_ok_status (jfield_d "status" alt) in
  [ (s_ "oC13", match oracle_C13_codes real with
                 | [] => [49]
                 | cs => if forallb (N.eqb 11) cs then s_ "known:class_on_builtin_host"
                         else s_ "fail:" ++ dec_of_N (hd 0 (filter (fun c => negb (N.eqb c 11)) cs))
                 end);
    (s_ "vC13", b2s (jv_eqb (view_C13 real) (view_C13 model)));
    (* C13, last clause: the probe element against the real / model output *)
    (s_ "site_flags", match find_site input, find_site real with
                      | Some el, Some o =>
                          match flags_site E 40 el o with [] => [49] | fs => join [44] fs end
                      | _, _ => s_ "none"
                      end);
    (s_ "site_flags_model", match find_site input, find_site model with
                            | Some el, Some o =>
                                match flags_site E 40 el o with [] => [49] | fs => join [44] fs end
                            | _, _ => s_ "none"
                            end);
    (* C07: the parsed input satisfies the grammar predicate the traversal theorems assume *)
    (s_ "gram_in", b2s (module_shape input && gram PExpr input));
    (* C07: no JSX node left, or a diagnostic was reported *)
    (s_ "oC07", b2s (jsx_free real || match rdiags with [] => false | _ => true end));
    (s_ "vC07", b2s (Bool.eqb (jsx_free real) (jsx_free model)));
    (* C15 *)
    (s_ "oC15", b2s (oracle_C15 (expected_pragma E) real));
    (s_ "vC15", b2s (jv_eqb (view_C15 real) (view_C15 model)));
    (* C09: a JSX-free module without resolveType comes back unchanged; second pass = first *)
    (s_ "oC09frame", b2s (if jsx_free input && negb (o_resolve_type (e_opts E))
                          then jv_eqb real_j (jfield_d "input" c) else true));
    (* C09: every JSX-free top-level statement of the input appears unchanged, in order, in the
       output (resolveType may touch defineComponent statements: only decided with it off) *)
    (s_ "oC09items", b2s (if o_resolve_type (e_opts E) then true
                          else subseq_items (filter jsx_free (module_items input)) (module_items real)));
    (s_ "oC09stmts", b2s (if o_resolve_type (e_opts E) then true else stmts_kept input real));
    (s_ "jsxfree_in", b2s (jsx_free input));
    (s_ "same_in", b2s (jv_eqb real_j (jfield_d "input" c)));
    (s_ "oC09idem", b2s (match rdiags with
                         | [] => jv_eqb (jfield_d "output2" c) real_j
                         | _ => true
                         end));
    (* paired runs: alt = the same source under the paired configuration *)
    (s_ "alt_same", b2s (if alt_ok then jv_eqb (jfield_d "output" alt) real_j
                                        && strs_eqb (sort_strs (jstrs (jfield_d "diags" alt))) (sort_strs rdiags)
                         else true));
    (* the probe site `const __site = <element>`: source description vs real / model output *)
    (s_ "site", match find_site input, find_site real with
                | Some el, Some o =>
                    match check_site E 40 el o ++ order_fail E el o with
                    | [] => [49]
                    | fs => join [44] fs
                    end
                | _, _ => s_ "none"
                end);
    (s_ "site_model", match find_site input, find_site model with
                      | Some el, Some o =>
                          match check_site E 40 el o ++ order_fail E el o with
                          | [] => [49]
                          | fs => join [44] fs
                          end
                      | _, _ => s_ "none"
                      end);
    (* C10: the probe statement inside the composed module (main run) and alone (alt run) *)
    (s_ "alt_site", if alt_ok then
                      match find_site real, find_site (dec (jfield_d "output" alt)) with
                      | Some a, Some b =>
                          b2s (jv_eqb (canon_in real_j (enc a)) (canon_in (jfield_d "output" alt) (enc b)))
                      | _, _ => s_ "none"
                      end
                    else s_ "none");
    (s_ "alt_strip", b2s (if alt_ok then
                            (* main run: optimize on; alt: optimize off *)
                            jv_eqb (enc (strip_hints real)) (jfield_d "output" alt)
                          else true));
    (* C17: how many parsed prop-type annotations lie in the grammar of C17_accepts_every_inhabitant
       (in / all / in-grammar annotations on which the theorem's conclusion fails when evaluated) *)
    (s_ "ty_grammar", if o_resolve_type (e_opts E) then
                        let '(a, b, bad) := grammar_cover E input in
                        dec_of_N a ++ [47] ++ dec_of_N b ++ [47] ++ dec_of_N bad
                      else s_ "0/0/0") ].

(* the model of serde's Options deserialisation against what serde_json really did *)
Definition regex_table (c : jv) : str -> bool :=
  fun p => existsb (fun x => match x with
                             | JArr [JStr q; JBool b] => str_eqb p q && b
                             | _ => false
                             end) (jarr (jfield_d "regex_valid" c)).

Definition opt_corr (c : jv) : bool :=
  let parsed := parse_options (regex_table c) (jfield_d "options_json" c) in
  match jfield_d "status" c with
  | JStr st =>
      if sq "bad-options" st then match parsed with None => true | Some _ => false end
      else
        match parsed with
        | None => false
        | Some r =>
            let h := jfield_d "options" c in
            Bool.eqb (ro_transform_on r) (jbool_d (jfield_d "transformOn" h))
            && Bool.eqb (ro_optimize r) (jbool_d (jfield_d "optimize" h))
            && Bool.eqb (ro_merge_props r) (jbool_d (jfield_d "mergeProps" h))
            && Bool.eqb (ro_object_slots r) (jbool_d (jfield_d "enableObjectSlots" h))
            && Bool.eqb (ro_resolve_type r) (jbool_d (jfield_d "resolveType" h))
            && match ro_pragma r, jstr (jfield_d "pragma" h) with
               | Some a, Some b => str_eqb a b
               | None, None => true
               | _, _ => false
               end
            && strs_eqb (ro_patterns r) (jstrs (jfield_d "patterns" h))
        end
  | _ => true
  end.

Definition run_case (c : jv) : case_result :=
  let status := jfield_d "status" c in
  let input := jfield_d "input" c in
  match status with
  | JStr st =>
      if sq "ok" st || sq "panic" st then
        let '(mo, s) := model_run c in
        let real_ok := sq "ok" st in
        {| cr_relevant := true;
           cr_roundtrip := jv_eqb (enc (dec input)) input;
           cr_same_status := Bool.eqb real_ok (negb (panicked s));
           cr_same_out := if real_ok then jv_eqb mo (jfield_d "output" c) else true;
           cr_same_diag := strs_eqb (sort_strs (diags s)) (sort_strs (jstrs (jfield_d "diags" c)));
           cr_model_out := mo;
           cr_model_diags := diags s;
           cr_extra := (s_ "optcorr", b2s (opt_corr c)) :: (if real_ok then extras c mo else []);
           cr_views := if real_ok then
                         JObj [(s_ "dc_real", view_dc (dec (jfield_d "output" c)));
                               (s_ "dc_input", view_dc (dec (jfield_d "input" c)));
                               (s_ "dc_same", JBool (jv_eqb (view_dc (dec (jfield_d "output" c))) (view_dc (dec mo))))]
                       else JNull |}
      else {| cr_relevant := false; cr_roundtrip := true; cr_same_status := true;
              cr_same_out := true; cr_same_diag := true; cr_model_out := JNull;
              cr_model_diags := []; cr_extra := [(s_ "optcorr", b2s (opt_corr c))]; cr_views := JNull |}
  | _ => {| cr_relevant := false; cr_roundtrip := true; cr_same_status := true;
            cr_same_out := true; cr_same_diag := true; cr_model_out := JNull;
            cr_model_diags := []; cr_extra := []; cr_views := JNull |}
  end.
