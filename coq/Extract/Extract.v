(* Extraction of the correspondence entry points; ExtrOcamlBasic only. *)
From Coq Require Extraction ExtrOcamlBasic.
From VJ Require Import Model.Str Model.Json Model.Text Spec.JsxText Corr.Run.
Extraction Language OCaml.
Separate Extraction run_case transform_text jsx_clean.
