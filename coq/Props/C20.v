(* C20 - resolveType augments only Vue's defineComponent and never overrides the user. Statements only. *)
From VJ Require Import Model.Str Model.Json Model.Ast Model.State Model.Util Model.Types Lemmas.TypesProofs.

(* a call whose callee is not the binding imported by name from 'vue' is untouched, and so is
   every call when resolveType is off *)
Theorem C20_only_vue : forall E n s sy c0 c f a t dc,
  (is_define_component_call n s = false -> hook_call E n s = (n, s))
  /\ (define_component s = Some dc -> N.eqb dc c = false ->
      is_define_component_call (Call sy c0 (Ident (s_ "defineComponent") c f) a t) s = false)
  /\ (o_resolve_type (e_opts E) = false -> hook_call E n s = (n, s) /\ hook_declarator E n s = (n, s)).
Proof.
  intros. split; [apply not_define_component_untouched|].
  split; [apply define_component_needs_the_binding|apply resolve_type_off_untouched].
Qed.
Print Assumptions C20_only_vue.

(* an option the user wrote - in any spelling - is kept and nothing is added for it; a spread
   argument list and an argument-less call are left alone *)
Theorem C20_user_option_wins : forall a0 props r name v e,
  (has_ident_key name props = true ->
   inject_option (a0 :: Elem false (Obj props) :: r) name v = a0 :: Elem false (Obj props) :: r)
  /\ inject_option (a0 :: Elem true e :: r) name v = a0 :: Elem true e :: r
  /\ inject_option [] name v = [].
Proof. intros. split; [apply inject_user_key_wins|]. split; reflexivity. Qed.
Print Assumptions C20_user_option_wins.

(* a derived option is inserted before the first spread of the user's object - every user
   entry is kept in order, and whatever the user spreads comes later and wins *)
Theorem C20_derived_before_spread : forall kv props,
  exists pre post, props = pre ++ post /\ insert_before_spread kv props = pre ++ kv :: post
                   /\ forallb (fun p => negb (is_spread p)) pre = true
                   /\ match post with [] => True | p :: _ => is_spread p = true end.
Proof. exact insert_keeps_entries. Qed.
Print Assumptions C20_derived_before_spread.

(* a call whose options argument is a spread is left alone entirely: neither the call nor the
   traversal state (helper imports, diagnostics) changes, so nothing is derived for it *)
Theorem C20_spread_arguments_untouched : forall E sy c f a0 e r t s,
  hook_call E (Call sy c f (a0 :: Elem true e :: r) t) s = (Call sy c f (a0 :: Elem true e :: r) t, s).
Proof.
  intros. unfold hook_call.
  destruct (negb (o_resolve_type (e_opts E))); [reflexivity|].
  destruct (negb (is_define_component_call _ s)); reflexivity.
Qed.
Print Assumptions C20_spread_arguments_untouched.
