(* C20 - placeholder statement file, replaced below *)
From VJ Require Import Model.Str.
Theorem C20_placeholder : True. Proof. exact I. Qed.
Print Assumptions C20_placeholder.
