(* C17 - inferred runtime prop types accept every value of the declared TS type. Statements only.
   `validation never rejects an inhabitant` is decided on real outputs against the generator's
   table of value kinds and a model of Vue's assertType (tools/props.py); the theorems tie the
   model's type tables to the source and give the composition laws. *)
From VJ Require Import Model.Str Model.Json Model.Ast Model.State Model.Util Model.Types Lemmas.TypesProofs.
From VJ Require Import Gen.Tables.

(* the keyword table and the built-in name table of the model are the ones regenerated from
   resolve_type.rs on this run *)
Theorem C17_keyword_table :
  forallb (fun '(kw, expected) => types_eqb (fst (irt E_dummy 5 (kw_type kw) st0)) [expected]) keyword_types = true
  /\ forallb (fun kw => types_eqb (fst (irt E_dummy 5 (kw_type (s_ kw)) st0)) [None])
             ["any"; "unknown"; "undefined"; "void"; "never"; "intrinsic"]%string = true.
Proof. split; [exact keyword_table_agrees|exact other_keywords_unchecked]. Qed.
Print Assumptions C17_keyword_table.

Theorem C17_builtin_names :
  forallb (fun '(name, tag) =>
             match expected_for name tag with
             | Some ts => types_eqb (fst (irt E_dummy 5 (tref name 1 []) st0)) ts
             | None => true
             end) runtime_type_names = true.
Proof. exact builtin_name_table_agrees. Qed.
Print Assumptions C17_builtin_names.

(* unions are the (ordered, duplicate-free) union of their parts; aliases and parentheses are
   transparent *)
Theorem C17_union_alias_paren : forall E f a b t sym c ps aliased s,
  irt E (S f) (gobj "TsUnionType" [fld "types" (NArr [a; b])]) s =
    (let '(x, s1) := irt E f a s in let '(y, s2) := irt E f b s1 in (oset_extend (oset_extend [] x) y, s2))
  /\ irt E (S f) (gobj "TsParenthesizedType" [fld "typeAnnotation" t]) s = irt E f t s
  /\ (reg_get sym c (aliases s) = Some aliased -> irt E (S f) (tref sym c ps) s = irt E f aliased s).
Proof. intros. split; [apply irt_union2|]. split; [apply irt_paren|apply irt_alias]. Qed.
Print Assumptions C17_union_alias_paren.

(* declaration order is kept: extending a set never reorders what is already in it *)
Theorem C17_order_kept : forall (l xs : list (option str)), exists rest, oset_extend l xs = l ++ rest.
Proof. exact oset_extend_keeps_order. Qed.
Print Assumptions C17_order_kept.
