(* C17 - inferred runtime prop types accept every value of the declared TS type. Statements only.
   `validation never rejects an inhabitant` is decided on real outputs against the generator's
   table of value kinds and a model of Vue's assertType (tools/props.py); the theorems tie the
   model's type tables to the source, give the composition laws and - C17_accepts_every_inhabitant -
   compose them over a grammar of types of any depth and width (Lemmas/InhabProofs.v: atoms of the
   property's table, object types, interfaces, unions, parentheses, optional wrappers, alias chains,
   NonNullable): the list the resolver computes accepts, under Vue's assertType, every value kind
   that inhabits the type.  [inh] and [accepts] are this framework's reading of the property's table
   and of runtime-core's validateProp; `any` / `unknown` beside other union members is excluded
   ([anyfree]) and refuted with the witness of the known finding union_with_any. *)
From VJ Require Import Model.Str Model.Json Model.Ast Model.State Model.Util Model.Types Lemmas.TypesProofs.
From VJ Require Import Gen.Tables Lemmas.InhabProofs.

(* the keyword table and the built-in name table of the model are the ones regenerated from
   resolve_type.rs on this run *)
Theorem C17_keyword_table :
  forallb (fun '(kw, expected) => types_eqb (fst (irt E_dummy 5 (kw_type kw) st0)) [expected]) keyword_types = true
  /\ forallb (fun kw => types_eqb (fst (irt E_dummy 5 (kw_type (s_ kw)) st0)) [None])
             ["any"; "unknown"; "undefined"; "void"; "never"; "intrinsic"]%string = true.
Proof. split; [exact keyword_table_agrees|exact other_keywords_unchecked]. Qed.
Print Assumptions C17_keyword_table.

Theorem C17_builtin_names :
  forallb (fun '(name, tag) =>
             match expected_for name tag with
             | Some ts => types_eqb (fst (irt E_dummy 5 (tref name 1 []) st0)) ts
             | None => true
             end) runtime_type_names = true.
Proof. exact builtin_name_table_agrees. Qed.
Print Assumptions C17_builtin_names.

(* unions are the (ordered, duplicate-free) union of their parts; aliases and parentheses are
   transparent *)
Theorem C17_union_alias_paren : forall E f a b t sym c ps aliased s,
  irt E (S f) (gobj "TsUnionType" [fld "types" (NArr [a; b])]) s =
    (let '(x, s1) := irt E f a s in let '(y, s2) := irt E f b s1 in (oset_extend (oset_extend [] x) y, s2))
  /\ irt E (S f) (gobj "TsParenthesizedType" [fld "typeAnnotation" t]) s = irt E f t s
  /\ (reg_get sym c (aliases s) = Some aliased -> irt E (S f) (tref sym c ps) s = irt E f aliased s).
Proof. intros. split; [apply irt_union2|]. split; [apply irt_paren|apply irt_alias]. Qed.
Print Assumptions C17_union_alias_paren.

(* declaration order is kept: extending a set never reorders what is already in it *)
Theorem C17_order_kept : forall (l xs : list (option str)), exists rest, oset_extend l xs = l ++ rest.
Proof. exact oset_extend_keeps_order. Qed.
Print Assumptions C17_order_kept.

(* FULL STATEMENT on the grammar [InhabProofs.ty]: for every type t of the grammar whose references
   are bound in the registry as written ([wf]: alias names to the encoding of their bodies,
   interface names to non-empty member lists, built-in names undeclared in the file) and which has
   no `any` / `unknown` inside ([anyfree]), and for every value kind k that inhabits t, the resolver
   - given fuel at least the nesting depth - returns a list cs without touching the state (no
   diagnostic, no panic flag) and Vue's check of `type: cs` accepts k. *)
Theorem C17_accepts_every_inhabitant : forall E s t k,
  wf s t -> anyfree t = true -> inh t k = true ->
  exists cs, irt E (depth t) (enc_ty t) s = (cs, s) /\ accepts cs k = true.
Proof. exact accepts_every_inhabitant. Qed.
Print Assumptions C17_accepts_every_inhabitant.

(* the same with any larger fuel (the code runs on the stack, the model on type_fuel = 200) *)
Theorem C17_accepts_with_any_fuel : forall E s t fuel,
  (depth t <= fuel)%nat -> wf s t -> anyfree t = true ->
  exists cs, irt E fuel (enc_ty t) s = (cs, s) /\ forall k, inh t k = true -> accepts cs k = true.
Proof.
  intros E s t fuel Hd Hw Ha. destruct (irt_sound E s t fuel Hd Hw Ha) as [cs [Hcs Hk]].
  exists cs. split; [exact Hcs|]. intros k Hi. apply strong_accepts. apply Hk. exact Hi.
Qed.
Print Assumptions C17_accepts_with_any_fuel.

(* `any` alone is no check at all; beside another member it is the known finding union_with_any:
   `string | any` admits a number, the emitted [String, null] rejects it *)
Theorem C17_union_with_any_refuted :
  (forall E s u f k, accepts (fst (irt E (S f) (enc_ty (TAny u)) s)) k = true)
  /\ inh any_witness KNum = true
  /\ accepts (fst (irt E_dummy 5 (enc_ty any_witness) st0)) KNum = false.
Proof. split; [exact any_alone|exact union_with_any_refuted]. Qed.
Print Assumptions C17_union_with_any_refuted.

(* non-vacuity: a nested union (parentheses, NonNullable, a class, an array, an object type) meets
   the hypotheses and has inhabitants *)
Theorem C17_hypotheses_satisfiable :
  wf st0 inhab_example /\ anyfree inhab_example = true
  /\ inh inhab_example (KInst (s_ "Date")) = true /\ inh inhab_example KNull = true.
Proof. exact inhab_example_ok. Qed.
Print Assumptions C17_hypotheses_satisfiable.
