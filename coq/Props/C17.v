(* C17 - placeholder statement file, replaced below *)
From VJ Require Import Model.Str.
Theorem C17_placeholder : True. Proof. exact I. Qed.
Print Assumptions C17_placeholder.
