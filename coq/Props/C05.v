(* C05 - placeholder statement file, replaced below *)
From VJ Require Import Model.Str.
Theorem C05_placeholder : True. Proof. exact I. Qed.
Print Assumptions C05_placeholder.
