(* C05 - v-model / v-models produce a working two-way binding. Statements only.

   FULL STATEMENT (decided on every generated probe by [check_site], tags "C05:"):
     forall E el s, no "C05:" entry in check_site E fuel el (fst (lower_el E el s)).
   It is FALSE for a computed argument (known finding, pinned by a fixture): see
   C05_computed_arg_refuted.  PROVED (partial), for absent / static arguments: the props a
   component receives, the directive + listener a form element receives, the choice of the
   model directive by host, that the listener assigns the bound target, and that v-models is the
   same-order sequence of v-model attributes. *)
From VJ Require Import Model.Str Model.Json Model.Ast Model.State Model.Util Model.Directive
  Model.Lower Model.Visitor Spec.JsxText Spec.OutViews Spec.Site Spec.SiteCheck Lemmas.SiteProofs
  Lemmas.AttrsProofs Lemmas.DirsProofs Lemmas.ContribsProofs Lemmas.ElementProofs.

Definition C05_full_statement : Prop :=
  forall E el s, filter (starts_with (s_ "C05:")) (check_site E 40 el (fst (lower_el E el s))) = [].

Theorem C05_component_partial : forall E tag all name value d a,
  spec_directive_name name = Some d ->
  sq "html" (dn_name d) = false -> sq "text" (dn_name d) = false -> sq "model" (dn_name d) = true ->
  static_arg (dp_arg (spec_directive_parts d value)) ->
  user_value (dflt_value (dp_value (spec_directive_parts d value))) = true ->
  let a' := step_directive true a name value in
  exists ps,
    a_props a' = a_props a ++ ps
    /\ map view_prop ps = fst (fst (attr_spec E true tag all (JAttr name value)))
    /\ a_dirs a' = a_dirs a /\ a_margs a' = a_margs a /\ a_slots a' = a_slots a.
Proof. exact vmodel_component_refines. Qed.
Print Assumptions C05_component_partial.

Theorem C05_element_partial : forall E tag attrs name value d a,
  spec_directive_name name = Some d ->
  sq "html" (dn_name d) = false -> sq "text" (dn_name d) = false -> sq "model" (dn_name d) = true ->
  static_arg (dp_arg (spec_directive_parts d value)) ->
  arg_not_void (dp_arg (spec_directive_parts d value)) ->
  let a' := step_directive false a name value in
  exists p dir,
    a_props a' = a_props a ++ [p] /\ a_dirs a' = a_dirs a ++ [dir]
    /\ map view_prop [p] = fst (fst (attr_spec E false tag attrs (JAttr name value)))
    /\ (forall s1, map view_dir (fst (build_directives [dir] tag attrs s1))
                   = map Some (snd (fst (attr_spec E false tag attrs (JAttr name value)))))
    /\ a_margs a' = a_margs a /\ a_slots a' = a_slots a.
Proof. exact vmodel_element_refines. Qed.
Print Assumptions C05_element_partial.

(* the model directive follows the host: select; textarea; input by static type; dynamic type *)
Theorem C05_host_directive_partial : forall tag attrs s,
  norm_def (fst (resolve_directive (s_ "model") tag attrs s))
  = mk_ident (s_ (String.append "_" (spec_model_directive tag attrs))) 0.
Proof. exact resolve_model. Qed.
Print Assumptions C05_host_directive_partial.

(* invoking the listener assigns the value to the bound target: `$event => (target) = $event` *)
Theorem C05_listener_assigns_target : forall t, is_listener (listener t) = Some t.
Proof. exact is_listener_listener. Qed.
Print Assumptions C05_listener_assigns_target.

(* v-models: replaced in place by the v-model attributes it lists, in order *)
Theorem C05_vmodels_sequence : forall attrs s,
  fst (decouple_attrs attrs s) = splice_vmodels attrs false.
Proof. exact decouple_attrs_spec. Qed.
Print Assumptions C05_vmodels_sequence.

(* v-model attributes compose with the rest of the element: they satisfy the per-attribute
   conditions of the element-level theorems C04_element_bindings / C01_element_props_no_merge *)
Theorem C05_composes_on_components : forall E tag attrs name value d,
  spec_directive_name name = Some d ->
  sq "html" (dn_name d) = false -> sq "text" (dn_name d) = false -> sq "model" (dn_name d) = true ->
  static_arg (dp_arg (spec_directive_parts d value)) ->
  user_value (dflt_value (dp_value (spec_directive_parts d value))) = true ->
  match name with IdName _ | JNs (IdName _) (IdName _) => True | _ => False end ->
  dir_ok E true tag attrs (JAttr name value) /\ contrib_ok E true tag attrs (JAttr name value).
Proof. intros. split; [eapply dir_ok_vmodel_component|eapply contrib_ok_vmodel_component]; eassumption. Qed.
Print Assumptions C05_composes_on_components.

Theorem C05_composes_on_elements : forall E tag attrs name value d,
  spec_directive_name name = Some d ->
  sq "html" (dn_name d) = false -> sq "text" (dn_name d) = false -> sq "model" (dn_name d) = true ->
  static_arg (dp_arg (spec_directive_parts d value)) ->
  arg_not_void (dp_arg (spec_directive_parts d value)) ->
  match name with IdName _ | JNs (IdName _) (IdName _) => True | _ => False end ->
  dir_ok E false tag attrs (JAttr name value) /\ contrib_ok E false tag attrs (JAttr name value).
Proof. intros. split; [eapply dir_ok_vmodel_element|eapply contrib_ok_vmodel_element]; eassumption. Qed.
Print Assumptions C05_composes_on_elements.

(* the known finding, with its witness `<C v-model={[m, dyn]} />`: the key lacks the colon *)
Theorem C05_computed_arg_refuted : forall E tag all s,
  let ps := a_props (step_directive true (w_acc s) w_name w_value) in
  map view_prop ps <> fst (fst (attr_spec E true tag all (JAttr w_name w_value)))
  /\ map view_prop ps = map pinned_listener_key (fst (fst (attr_spec E true tag all (JAttr w_name w_value)))).
Proof. exact vmodel_computed_arg_refuted. Qed.
Print Assumptions C05_computed_arg_refuted.

(* non-vacuity: `<C v-model:title_trim={foo.bar} />` *)
Example C05_nonvacuous :
  let name := JNs (IdName (s_ "v-model")) (IdName (s_ "title_trim")) in
  let value := JExprC (Member (Ident (s_ "foo") 2 false) (IdName (s_ "bar"))) in
  exists d, spec_directive_name name = Some d /\ sq "model" (dn_name d) = true
            /\ static_arg (dp_arg (spec_directive_parts d value))
            /\ user_value (dflt_value (dp_value (spec_directive_parts d value))) = true
            /\ sort_dedup (dp_mods (spec_directive_parts d value)) = [s_ "trim"].
Proof. eexists. vm_compute. repeat split. Qed.

(* the full statement on the fragment of Lemmas/ElementProofs.v (see Props/C01.v): no complaint of
   any kind, in particular none of this property *)
Theorem C05_full_statement_on_fragment : forall E,
  forall h el, good E h el -> forall f s, (h <= f)%nat -> assign_left s = None ->
  filter (starts_with (s_ "C05:")) (check_site E f el (fst (lower_el E el s))) = [].
Proof. intros E h el G f s LE Q. destruct (element_refines E h el G f s LE Q) as [H _]. rewrite H. reflexivity. Qed.
Print Assumptions C05_full_statement_on_fragment.
