(* C02 - children and JSX text follow the JSX whitespace and child-list rules.
   This file contains statements only; proofs live in Lemmas/.

   The text rule is proved for every string.  The child-list rule is proved for every child
   list of an element host, relative to the lowering [rec] / check [chk] of nested elements
   (which is the induction hypothesis of the recursive statement, discharged per case by the
   oracle): the children argument the transform builds is the one [check_children_with]
   describes.  Known finding excluded by hypothesis: an element whose ONLY child is a function or
   an object literal (C02_sole_special_refuted). *)
From VJ Require Import Model.Str Model.Json Model.Ast Model.State Model.Text Model.Lower
  Spec.JsxText Spec.OutViews Spec.Site Spec.SiteCheck Lemmas.TextProofs Lemmas.ChildProofs.

(* the text cleaning of the transform is the standard JSX rule, for every string *)
Theorem C02_text : forall s : str, transform_text s = jsx_clean s.
Proof. exact transform_text_is_jsx_clean. Qed.
Print Assumptions C02_text.
Check C02_text : forall s : str, transform_text s = jsx_clean s.

(* written children in order: cleaned text, expressions, spliced spreads, nested vnodes;
   empty expressions and text cleaning to "" contribute nothing *)
(* [P] is any property of the visitor state that the lowering of nested elements preserves
   (it lets the statement be used where nested elements are lowered only in states with no
   pending assignment target); take [fun _ => True] for the plain reading *)
Theorem C02_children_in_order : forall E rec chk fail (P : st -> Prop),
  (forall v s, P s -> P (snd (transform_jsx_text v s))) ->
  (forall e s, P s -> P (mark_dynamic E e s)) ->
  forall cs s, P s -> rec_ok rec chk P cs -> forallb child_ok cs = true ->
  check_items_with chk fail cs (view_items (fst (lower_children_with E rec cs s))) = []
  /\ P (snd (lower_children_with E rec cs s)).
Proof. exact children_items. Qed.
Print Assumptions C02_children_in_order.

(* the children argument of an element host: the array of those children, null when none remain *)
Theorem C02_children_argument : forall E rec chk (P : st -> Prop),
  (forall v s, P s -> P (snd (transform_jsx_text v s))) ->
  (forall e s, P s -> P (mark_dynamic E e s)) ->
  forall cs s s2 vslots,
  P s -> rec_ok rec chk P cs -> forallb child_ok cs = true ->
  assign_left s2 = None ->
  sole_special (live_children cs) = false ->
  check_children_with E chk false vslots cs
    (fst (finish_children E (fst (lower_children_with E rec cs s)) false vslots s2)) = [].
Proof. intros. eapply children_refine; eauto. Qed.
Print Assumptions C02_children_argument.

(* the known finding: `<div>{() => 1}</div>` receives a slots object, not a one-element array *)
Theorem C02_sole_special_refuted : forall E s,
  let fn := Arrow 0 [] (Num (s_ "1.0") nnull) false false nnull nnull in
  fst (finish_children E [Elem false fn] false None s)
  = Obj [KV (IdName (s_ "default")) fn]
  /\ fst (finish_children E [Elem false fn] false None s) <> Arr [Elem false fn].
Proof.
  intros E s. cbv zeta. split.
  - unfold finish_children. destruct (o_optimize (e_opts E)); [destruct (rev (slot_stack s))|]; reflexivity.
  - unfold finish_children. destruct (o_optimize (e_opts E)); [destruct (rev (slot_stack s))|]; discriminate.
Qed.
Print Assumptions C02_sole_special_refuted.
