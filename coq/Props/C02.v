(* C02 - children and JSX text follow the JSX whitespace and child-list rules.
   This file contains statements only; proofs live in Lemmas/. *)
From VJ Require Import Model.Str Model.Text Spec.JsxText Lemmas.TextProofs.

(* the text cleaning of the transform is the standard JSX rule, for every string *)
Theorem C02_text : forall s : str, transform_text s = jsx_clean s.
Proof. exact transform_text_is_jsx_clean. Qed.
Print Assumptions C02_text.
Check C02_text : forall s : str, transform_text s = jsx_clean s.
