(* C11 - placeholder statement file, replaced below *)
From VJ Require Import Model.Str.
Theorem C11_placeholder : True. Proof. exact I. Qed.
Print Assumptions C11_placeholder.
