(* C11 - embedded expressions are evaluated once, in source order, slot content lazily.
   Statements only.

   The property is about evaluation; it is stated here on the syntax of the output, where
   JavaScript fixes the evaluation order (object-literal entries and call arguments left to
   right, a function body only when called).
   FULL STATEMENT (decided on every generated probe by [order_fail] and the "C11:" tags of
   [check_site] on the REAL output): every non-trivial source expression occurs once among the
   evaluated-at-creation positions (attributes, element children) or once under a slot function
   (component children), in source order.
   PROVED (partial): without mergeProps the props object of a list of plain attributes and
   spreads holds their contributions in source order; children are lowered one to one in
   order (each expression once); slot content sits under an arrow function and nowhere else;
   a call child is evaluated once (C03_call_child_once); under mergeProps the arguments of the
   merge call, the keys inside each run and the values of a grouped class / style / listener
   keep source order (C11_source_order_merge).
   Known finding: v-slots on an element host is dropped with its expression. *)
From VJ Require Import Model.Str Model.Json Model.Ast Model.State Model.Util Model.Directive
  Model.Lower Spec.JsxText Spec.OutViews Spec.Site Spec.SiteCheck Lemmas.SiteProofs
  Lemmas.ChildProofs Lemmas.AttrsProofs Lemmas.ContribsProofs Lemmas.MergeProofs.

(* attribute and spread expressions in source order (the contributions list of Spec/Site.v is
   built by one left-to-right pass over the written attributes) *)
Theorem C11_source_order_partial : forall E ic tag attrs s,
  o_merge_props (e_opts E) = false ->
  Forall (simple_attr E) attrs -> attrs <> [] ->
  exists ps,
    view_contribs (Obj ps) = fst (fst (spec_attrs E ic tag attrs))
    /\ r_attrs (transform_attrs E attrs ic s)
       = match ps with [] => Null | [Spread e] => e | _ => Obj ps end
    /\ r_dirs (transform_attrs E attrs ic s) = []
    /\ r_slots (transform_attrs E attrs ic s) = None.
Proof. exact attrs_refine_no_merge. Qed.
Print Assumptions C11_source_order_partial.

(* with mergeProps (the default): the merge arguments are the runs and spreads in source order; inside
   a run the keys stand at their first occurrence and the values of a repeated class / style /
   listener follow each other in source order ([spec_attrs] builds exactly this by one
   left-to-right pass; [join_views] separates the arguments by a boundary) *)
Theorem C11_source_order_merge : forall E ic tag attrs,
  o_merge_props (e_opts E) = true -> forall s,
  splice_vmodels attrs false = attrs ->
  Forall (merge_ok E ic tag attrs) attrs ->
  (forall e, In (Spread e) attrs -> e <> Null) ->
  view_contribs (r_attrs (transform_attrs E attrs ic s)) = fst (fst (spec_attrs E ic tag attrs)).
Proof. exact contribs_refine_arg_merge. Qed.
Print Assumptions C11_source_order_merge.

(* children: one output element per live child, in order, each expression exactly once *)
Theorem C11_children_once_in_order : forall E rec chk fail (P : st -> Prop),
  (forall v s, P s -> P (snd (transform_jsx_text v s))) ->
  (forall e s, P s -> P (mark_dynamic E e s)) ->
  forall cs s, P s -> rec_ok rec chk P cs -> forallb child_ok cs = true ->
  check_items_with chk fail cs (view_items (fst (lower_children_with E rec cs s))) = []
  /\ P (snd (lower_children_with E rec cs s)).
Proof. exact children_items. Qed.
Print Assumptions C11_children_once_in_order.

(* slot content is evaluated only when the slot function runs: at vnode creation nothing below
   the `default` arrow is evaluated, whatever the children are *)
Theorem C11_slot_content_lazy : forall E elems flag,
  eager_subs (wrap_children E elems flag None)
  = wrap_children E elems flag None
    :: KV (IdName (s_ "default")) (mk_arrow [] (Arr elems))
    :: IdName (s_ "default")
    :: mk_arrow [] (Arr elems)
    :: flat_map eager_subs (hint_prop E flag).
Proof.
  intros E elems flag. unfold wrap_children, merge_slots, hint_prop.
  destruct (o_optimize (e_opts E)); reflexivity.
Qed.
Print Assumptions C11_slot_content_lazy.

(* attributes are evaluated before children: the vnode call is (type, props, children, ...) *)
Theorem C11_props_before_children : forall E name attrs sc ta children cl s,
  exists callee tag props ch rest inner,
    (fst (lower_el E (JsxE name attrs sc ta children cl) s) = inner
     \/ exists wd ds, fst (lower_el E (JsxE name attrs sc ta children cl) s) = mk_call wd [inner; ds])
    /\ inner = mk_call callee ([tag; props; ch] ++ rest).
Proof.
  intros. cbn [lower_el].
  repeat match goal with |- context [match ?X with pair _ _ => _ end] => destruct X end.
  match goal with |- context [match ?d with [] => _ | _ :: _ => _ end] => destruct d end.
  - do 6 eexists. split; [left; reflexivity|reflexivity].
  - repeat match goal with |- context [match ?X with pair _ _ => _ end] => destruct X end.
    do 6 eexists. split; [right; do 2 eexists; reflexivity|reflexivity].
Qed.
Print Assumptions C11_props_before_children.
