(* C19 - resolveType derives exactly the declared emitted events. Statements only.
   The event set received by the call is compared, on real outputs, with the set the generator
   encoded (function types, unions, call-signature literals, interfaces with extends, property
   syntax, literal-union aliases, declarations before/after). *)
From VJ Require Import Model.Str Model.Json Model.Ast Model.State Model.Util Model.Types
  Lemmas.NodeInd Lemmas.TypesProofs Lemmas.NamesProofs.

(* property syntax: the key is the event; getters declare nothing *)
Theorem C19_property_syntax : forall E key cm opt t s name k2 cm2 t2,
  (key = Ident name 0 false \/ (exists w, key = Str name w) -> emits_of E (RProp key cm opt t) s = ([name], s))
  /\ emits_of E (RGetter k2 cm2 t2) s = ([], s).
Proof. intros. split; [apply emits_of_property|apply emits_of_getter]. Qed.
Print Assumptions C19_property_syntax.

(* a string literal first-parameter type is the event name *)
Theorem C19_literal_event : forall E f v w s,
  rsus E (S f) (gobj "TsLiteralType" [fld "literal" (Str v w)]) s = ([v], s).
Proof. exact rsus_literal. Qed.
Print Assumptions C19_literal_event.

(* the event declarations share the registry of C16: every declaration of the module is seen *)
Theorem C19_registry_complete :
  forall E m s n sym c ty, o_resolve_type (e_opts E) = true -> In n (subs m) -> alias_decl n sym c ty ->
    reg_get sym c (aliases (collect_ts_decls E subs m s)) <> None.
Proof. exact collect_sees_every_alias. Qed.
Print Assumptions C19_registry_complete.

(* "unions and aliases of literals expanded", for every such type (Lemmas/NamesProofs.v): a name type
   built from string literal types by unions of any width and alias chains of any length, nested to
   any depth, resolves to exactly the names written, in order, without a diagnostic.  The same
   function resolves the key argument of Pick / Omit (C16). *)
Theorem C19_names_are_expanded : forall E s k fuel,
  (kdepth k <= fuel)%nat -> kwf s k -> rsus E fuel (enc_k k) s = (names k, s).
Proof. intros E s k. exact (rsus_exact E s k). Qed.
Print Assumptions C19_names_are_expanded.

Theorem C19_names_hypotheses_satisfiable :
  kwf st0 kenc_example /\ names kenc_example = [s_ "update:open"; s_ "before-close"; s_ "a"].
Proof. exact kenc_example_ok. Qed.
Print Assumptions C19_names_hypotheses_satisfiable.
