(* C19 - placeholder statement file, replaced below *)
From VJ Require Import Model.Str.
Theorem C19_placeholder : True. Proof. exact I. Qed.
Print Assumptions C19_placeholder.
