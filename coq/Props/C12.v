(* C12 - optimize changes hints only. Statements only.
   The module-level statement  strip_hints (out (optimize on)) = out (optimize off)  is decided
   on the REAL outputs of every generated case (paired runs); the theorems below cover the
   pieces of the lowering one by one. *)
From VJ Require Import Model.Str Model.Json Model.Ast Model.State Model.Lower Spec.OutViews
  Lemmas.OptimizeProofs.

(* the attribute lowering (props expression, merge order, directives, v-slots), the tag, the
   component decision and the factory do not read the option at all *)
Theorem C12_attrs_independent :
  forall E attrs ic s,
    transform_attrs (with_optimize true E) attrs ic s = transform_attrs (with_optimize false E) attrs ic s.
Proof. exact transform_attrs_optimize_indep. Qed.
Print Assumptions C12_attrs_independent.

Theorem C12_tag_independent :
  forall E name s,
    transform_tag (with_optimize true E) name s = transform_tag (with_optimize false E) name s
    /\ is_component (with_optimize true E) name = is_component (with_optimize false E) name
    /\ get_pragma (with_optimize true E) s = get_pragma (with_optimize false E) s.
Proof. intros. repeat split. Qed.
Print Assumptions C12_tag_independent.

(* no hint is emitted without the option; with it, erasing the `_` entry of a slots object
   gives exactly the object built without it *)
Theorem C12_hints_only_partial :
  forall E elems flag slots ar,
    vnode_hints (with_optimize false E) ar = []
    /\ hint_prop (with_optimize false E) flag = []
    /\ strip_slots (wrap_children (with_optimize true E) elems flag slots)
       = wrap_children (with_optimize false E) elems flag slots.
Proof.
  intros. split; [reflexivity|]. split; [reflexivity|]. apply wrap_children_strip.
Qed.
Print Assumptions C12_hints_only_partial.
