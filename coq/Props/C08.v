(* C08 - the transform is total and deterministic. Statements only.
   Determinism: the model is a Coq function of (module, environment); that the code is one too
   is checked by the lints (no clock / env / randomness / process-wide state / hash iteration)
   and by re-running every case in the same and in a fresh process.  Totality: every
   `unreachable!` / index / unwrap of the code is an explicit [panicked] flag in the model. *)
From VJ Require Import Model.Str Model.Json Model.Ast Model.State Model.Lower Lemmas.TotalProofs.

(* for every attribute list the parser can produce (no bound on its length) the attribute
   lowering - including every directive form and every malformed directive value, which is
   reported as a diagnostic - never reaches the `unreachable!` *)
Theorem C08_attrs_no_panic :
  forall (E : env) (attrs : list node) (ic : bool) (s : st),
    forallb attr_wf attrs = true -> panicked (r_st (transform_attrs E attrs ic s)) = panicked s.
Proof. exact transform_attrs_no_panic. Qed.
Print Assumptions C08_attrs_no_panic.
Check C08_attrs_no_panic :
  forall (E : env) (attrs : list node) (ic : bool) (s : st),
    forallb attr_wf attrs = true -> panicked (r_st (transform_attrs E attrs ic s)) = panicked s.

(* the panic site is real: a non-string literal as attribute value would reach it *)
Example C08_panic_site_reachable_only_by_illformed :
  let E := {| e_opts := {| o_transform_on := false; o_optimize := false; o_merge_props := true;
                           o_object_slots := true; o_pragma := None; o_resolve_type := false; o_npat := 0 |};
              e_unres := 1; e_matches := []; e_html := []; e_svg := []; e_comments := [] |} in
  panicked (r_st (transform_attrs E [JAttr (IdName (s_ "a")) (Num (s_ "1.0") nnull)] false st0)) = true.
Proof. reflexivity. Qed.

(* ---- whole elements and whole modules ----------------------------------------------------- *)
From VJ Require Import Model.Util Model.Visitor Model.Types Spec.Plain Lemmas.NodeInd Lemmas.NoPanic
  Lemmas.VisitPlain Lemmas.VisitNoPanic Lemmas.IdentityProofs.

(* lowering a JSX element of any nesting depth, in the state its visited attributes and
   children leave it in ([ready]: attribute lists hold attributes and spreads, embedded
   expressions hold no JSX), never reaches the `unreachable!` *)
Theorem C08_lowering_no_panic :
  forall (E : env) (n : node) (s : st),
    ready n = true -> panicked (snd (lower_el E n s)) = panicked s.
Proof. exact lower_el_no_panic. Qed.
Print Assumptions C08_lowering_no_panic.

(* the traversal of ANY grammatical module (Spec/Plain.gram, re-checked on every parsed input
   of the correspondence run) ends without the flag: every element is lowered in a ready
   state (Lemmas/VisitPlain.v), whatever the nesting of JSX in expressions in JSX.  The
   resolveType hooks are hypotheses (identity when the option is off). *)
Theorem C08_module_no_panic :
  forall (E : env) (hook_call hook_declarator : node -> st -> node * st) (collect : node -> st -> st),
    (forall n s, Sj s -> Sj (snd (hook_call n s))) ->
    (forall n s, Sj s -> Sj (snd (hook_declarator n s))) ->
    (forall n s, jsx_free n = true -> jsx_free (fst (hook_call n s)) = true) ->
    (forall n s, jsx_free n = true -> jsx_free (fst (hook_declarator n s)) = true) ->
    (forall n s, pn s (snd (hook_call n s))) ->
    (forall n s, pn s (snd (hook_declarator n s))) ->
    (forall n s, Sj s -> Sj (collect n s)) ->
    (forall n s, pn s (collect n s)) ->
    forall m : node,
      module_shape m = true -> gram PExpr m = true ->
      panicked (snd (transform_module E hook_call hook_declarator collect m)) = false.
Proof.
  intros E hc hd c H1 H2 H3 H4 H5 H6 H7 H8 m.
  exact (module_no_panic E hc hd H1 H2 H3 H4 H5 H6 c H7 H8 m).
Qed.
Print Assumptions C08_module_no_panic.

Theorem C08_module_no_panic_when_off :
  forall (E : env) (m : node),
    o_resolve_type (e_opts E) = false ->
    module_shape m = true -> gram PExpr m = true ->
    panicked (snd (transform_module E (hook_call E) (hook_declarator E) (collect_ts_decls E subs) m)) = false.
Proof.
  intros E m Hoff. apply C08_module_no_panic; intros n s; try intros H.
  - rewrite (hook_call_off E Hoff). exact H.
  - rewrite (hook_declarator_off E Hoff). exact H.
  - rewrite (hook_call_off E Hoff). exact H.
  - rewrite (hook_declarator_off E Hoff). exact H.
  - rewrite (hook_call_off E Hoff). reflexivity.
  - rewrite (hook_declarator_off E Hoff). reflexivity.
  - rewrite (collect_off E Hoff). exact H.
  - rewrite (collect_off E Hoff). reflexivity.
Qed.
Print Assumptions C08_module_no_panic_when_off.
Check C08_module_no_panic_when_off :
  forall (E : env) (m : node),
    o_resolve_type (e_opts E) = false ->
    module_shape m = true -> gram PExpr m = true ->
    panicked (snd (transform_module E (hook_call E) (hook_declarator E) (collect_ts_decls E subs) m)) = false.

(* non-vacuity: the module of C07_module_nonvacuous (JSX in an expression in JSX in an arrow body,
   an element-valued attribute) is grammatical and its transformation ends without the flag *)
Example C08_module_nonvacuous :
  let E := {| e_opts := {| o_transform_on := false; o_optimize := true; o_merge_props := true;
                           o_object_slots := true; o_pragma := None; o_resolve_type := false; o_npat := 0 |};
              e_unres := 1; e_matches := []; e_html := [s_ "div"]; e_svg := []; e_comments := [] |} in
  let x := Ident (s_ "x") 2 false in
  let inner := JsxE (Ident (s_ "b") 1 false) [] true nnull [] nnull in
  let comp := JsxE (Ident (s_ "A") 2 false) [] false nnull [JExprC (Call false 0 (Ident (s_ "f") 1 false) [] nnull)] nnull in
  let outer := JsxE (Ident (s_ "div") 1 false) [JAttr (IdName (s_ "icon")) inner; JAttr (IdName (s_ "title")) (Str (s_ "t") nnull)]
                    false nnull [JExprC (Cond x comp Null); JText (s_ "t") (s_ "t")] nnull in
  let stmt := gobj "ExpressionStatement" [fld "expression" (Arrow 3 [] outer false false nnull nnull)] in
  let m := NObj [Field (s_ "type") (NScalar (JStr (s_ "Module"))); Field (s_ "body") (NArr [stmt]);
                 Field (s_ "interpreter") (NScalar JNull)] in
  module_shape m = true /\ gram PExpr m = true
  /\ panicked (snd (transform_module E (hook_call E) (hook_declarator E) (collect_ts_decls E subs) m)) = false.
Proof. vm_compute. repeat split; reflexivity. Qed.
