(* C08 - the transform is total and deterministic. Statements only.
   Determinism: the model is a Coq function of (module, environment); that the code is one too
   is checked by the lints (no clock / env / randomness / process-wide state / hash iteration)
   and by re-running every case in the same and in a fresh process.  Totality: every
   `unreachable!` / index / unwrap of the code is an explicit [panicked] flag in the model. *)
From VJ Require Import Model.Str Model.Json Model.Ast Model.State Model.Lower Lemmas.TotalProofs.

(* for every attribute list the parser can produce (no bound on its length) the attribute
   lowering - including every directive form and every malformed directive value, which is
   reported as a diagnostic - never reaches the `unreachable!` *)
Theorem C08_attrs_no_panic :
  forall (E : env) (attrs : list node) (ic : bool) (s : st),
    forallb attr_wf attrs = true -> panicked (r_st (transform_attrs E attrs ic s)) = panicked s.
Proof. exact transform_attrs_no_panic. Qed.
Print Assumptions C08_attrs_no_panic.
Check C08_attrs_no_panic :
  forall (E : env) (attrs : list node) (ic : bool) (s : st),
    forallb attr_wf attrs = true -> panicked (r_st (transform_attrs E attrs ic s)) = panicked s.

(* the panic site is real: a non-string literal as attribute value would reach it *)
Example C08_panic_site_reachable_only_by_illformed :
  let E := {| e_opts := {| o_transform_on := false; o_optimize := false; o_merge_props := true;
                           o_object_slots := true; o_pragma := None; o_resolve_type := false; o_npat := 0 |};
              e_unres := 1; e_matches := []; e_html := []; e_svg := []; e_comments := [] |} in
  panicked (r_st (transform_attrs E [JAttr (IdName (s_ "a")) (Num (s_ "1.0") nnull)] false st0)) = true.
Proof. reflexivity. Qed.
