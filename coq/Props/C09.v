(* C09 - code that is not JSX is left exactly as written. Statements only. *)
From VJ Require Import Model.Str Model.Json Model.Ast Model.State Model.Visitor Model.Types
  Spec.Plain Lemmas.NodeInd Lemmas.IdentityProofs.

(* a module of any size without JSX, transformed without resolveType, is returned unchanged:
   same items, same order, no import, helper or declaration added - under every other option,
   every pragma comment, every pattern list *)
Theorem C09_identity :
  forall (E : env), o_resolve_type (e_opts E) = false ->
  forall m : node, jsx_free m = true ->
    fst (transform_module E (hook_call E) (hook_declarator E) (collect_ts_decls E subs) m) = m.
Proof. exact module_identity. Qed.
Print Assumptions C09_identity.
Check C09_identity :
  forall (E : env), o_resolve_type (e_opts E) = false ->
  forall m : node, jsx_free m = true ->
    fst (transform_module E (hook_call E) (hook_declarator E) (collect_ts_decls E subs) m) = m.

(* every JSX-free expression, statement or declaration is passed through by the traversal,
   in every traversal mode, and the visitor state is untouched except for the remembered
   `defineComponent` binding *)
Theorem C09_visit_identity :
  forall (E : env), o_resolve_type (e_opts E) = false ->
  forall (n : node), jsx_free n = true ->
  forall (m : mode) (s : st),
    exists s', visit E (hook_call E) (hook_declarator E) m n s = (n, s')
               /\ same_but_dc s s'.
Proof. intros E H n. exact (visit_identity E H n). Qed.
Print Assumptions C09_visit_identity.

(* ---- modules that do contain JSX ---------------------------------------------------------- *)
From VJ Require Import Lemmas.FrameItems.

(* every JSX-free top-level statement of a module comes back unchanged and in order; whatever the
   transform adds (imports, the slot helper, hoisted declarations) sits in front of them *)
Theorem C09_items_frame :
  forall (E : env), o_resolve_type (e_opts E) = false ->
  forall kt t kb items ki iv,
    let m := NObj [Field kt (NScalar t); Field kb (NArr items); Field ki (NScalar iv)] in
    exists pre items',
      fst (transform_module E (hook_call E) (hook_declarator E) (collect_ts_decls E subs) m)
      = NObj [Field kt (NScalar t); Field kb (NArr (pre ++ items')); Field ki (NScalar iv)]
      /\ Forall2 (fun x x' => jsx_free x = true -> x' = x) items items'.
Proof. exact module_items_frame. Qed.
Print Assumptions C09_items_frame.

(* a second pass over the output is the identity (the output is JSX-free by C07_module_is_jsx_free,
   and a JSX-free module comes back unchanged by C09_identity) *)
Theorem C09_idempotent :
  forall (E : env), o_resolve_type (e_opts E) = false ->
  forall m : node, module_shape m = true -> gram PExpr m = true ->
    let T := fun x => fst (transform_module E (hook_call E) (hook_declarator E) (collect_ts_decls E subs) x) in
    T (T m) = T m.
Proof. exact module_idempotent. Qed.
Print Assumptions C09_idempotent.
Check C09_idempotent :
  forall (E : env), o_resolve_type (e_opts E) = false ->
  forall m : node, module_shape m = true -> gram PExpr m = true ->
    let T := fun x => fst (transform_module E (hook_call E) (hook_declarator E) (collect_ts_decls E subs) x) in
    T (T m) = T m.
