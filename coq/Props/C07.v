(* C07 - the output is plain ECMAScript/TypeScript (or an error was reported). Statements only. *)
From VJ Require Import Model.Str Model.Json Model.Ast Model.State Model.Lower Spec.Plain
  Lemmas.PlainProofs.

(* Element level, no bound on nesting, attributes or children: lowering a JSX element /
   fragment whose embedded expressions are JSX-free (the state in which visit_mut_expr finds
   it, its children having been visited first) yields an expression without any JSX node -
   nested elements, element-valued attributes, namespaced tags, directive values included. *)
Theorem C07_lowering_is_jsx_free :
  forall (E : env) (n : node) (s : st),
    is_el n = true -> ready n = true -> jsx_free (fst (lower_el E n s)) = true.
Proof. exact lower_el_jsx_free. Qed.
Print Assumptions C07_lowering_is_jsx_free.
Check C07_lowering_is_jsx_free :
  forall (E : env) (n : node) (s : st),
    is_el n = true -> ready n = true -> jsx_free (fst (lower_el E n s)) = true.

(* non-vacuity: an element with an element-valued attribute, a namespaced tag child and a
   directive is [ready], and its lowering is checked JSX-free by computation as well *)
Example C07_nonvacuous :
  let E := {| e_opts := {| o_transform_on := false; o_optimize := true; o_merge_props := true;
                           o_object_slots := true; o_pragma := None; o_resolve_type := false; o_npat := 0 |};
              e_unres := 1; e_matches := []; e_html := [s_ "div"]; e_svg := []; e_comments := [] |} in
  let b := JsxE (Ident (s_ "b") 1 false) [] true nnull [] nnull in
  let ns := JsxE (JNs (IdName (s_ "svg")) (IdName (s_ "rect"))) [] true nnull [] nnull in
  let el := JsxE (Ident (s_ "div") 1 false)
                 [JAttr (IdName (s_ "icon")) b; JAttr (IdName (s_ "v-show")) (JExprC (Ident (s_ "x") 1 false))]
                 false nnull [ns; JText (s_ "t") (s_ "t")] nnull in
  ready el = true /\ jsx_free el = false /\ jsx_free (fst (lower_el E el st0)) = true.
Proof. vm_compute. repeat split; reflexivity. Qed.

(* ---- module level: the traversal reaches every JSX expression ----------------------------- *)
From VJ Require Import Model.Util Model.Visitor Model.Types Lemmas.VisitPlain Lemmas.IdentityProofs Lemmas.NodeInd.

(* Visiting ANY grammatical tree (Spec/Plain.gram: JSX node kinds only where the JSX grammar
   puts them - what the parser produces, re-checked on every input of the correspondence run)
   in an expression / statement position yields a tree without any JSX node, whatever the
   nesting of JSX inside expressions inside JSX, provided the resolveType hooks neither add
   JSX nor touch the pending declarations (they are the identity when the option is off:
   C07_hooks_plain_when_off).  The declarations the traversal injects at the head of statement
   lists and arrow bodies are JSX-free too ([Sj]). *)
Theorem C07_traversal_is_jsx_free :
  forall (E : env) (hook_call hook_declarator : node -> st -> node * st),
    (forall n s, Sj s -> Sj (snd (hook_call n s))) ->
    (forall n s, Sj s -> Sj (snd (hook_declarator n s))) ->
    (forall n s, jsx_free n = true -> jsx_free (fst (hook_call n s)) = true) ->
    (forall n s, jsx_free n = true -> jsx_free (fst (hook_declarator n s)) = true) ->
    forall (n : node) (m : mode) (s : st),
      Sj s -> gram PExpr n = true -> m <> MNoLower ->
      jsx_free (fst (visit E hook_call hook_declarator m n s)) = true
      /\ Sj (snd (visit E hook_call hook_declarator m n s)).
Proof.
  intros E hc hd H1 H2 H3 H4 n m s HS G Hm.
  destruct (visit_plain E hc hd H1 H2 H3 H4 n m s HS) as (A & B & _).
  split; [exact (B G Hm)|exact A].
Qed.
Print Assumptions C07_traversal_is_jsx_free.

(* the whole module, imports / helper / hoisted declarations included *)
Theorem C07_module_is_jsx_free :
  forall (E : env) (hook_call hook_declarator : node -> st -> node * st) (collect : node -> st -> st),
    (forall n s, Sj s -> Sj (snd (hook_call n s))) ->
    (forall n s, Sj s -> Sj (snd (hook_declarator n s))) ->
    (forall n s, jsx_free n = true -> jsx_free (fst (hook_call n s)) = true) ->
    (forall n s, jsx_free n = true -> jsx_free (fst (hook_declarator n s)) = true) ->
    (forall n s, Sj s -> Sj (collect n s)) ->
    forall m : node,
      module_shape m = true -> gram PExpr m = true ->
      jsx_free (fst (transform_module E hook_call hook_declarator collect m)) = true.
Proof. intros E hc hd c H1 H2 H3 H4 H5 m. exact (module_plain E hc hd H1 H2 H3 H4 c H5 m). Qed.
Print Assumptions C07_module_is_jsx_free.
Check C07_module_is_jsx_free :
  forall (E : env) (hook_call hook_declarator : node -> st -> node * st) (collect : node -> st -> st),
    (forall n s, Sj s -> Sj (snd (hook_call n s))) ->
    (forall n s, Sj s -> Sj (snd (hook_declarator n s))) ->
    (forall n s, jsx_free n = true -> jsx_free (fst (hook_call n s)) = true) ->
    (forall n s, jsx_free n = true -> jsx_free (fst (hook_declarator n s)) = true) ->
    (forall n s, Sj s -> Sj (collect n s)) ->
    forall m : node,
      module_shape m = true -> gram PExpr m = true ->
      jsx_free (fst (transform_module E hook_call hook_declarator collect m)) = true.

(* with resolveType off the real hooks satisfy the hypotheses outright, so the model's whole
   transform maps every grammatical module to a JSX-free one *)
Theorem C07_module_is_jsx_free_when_off :
  forall (E : env) (m : node),
    o_resolve_type (e_opts E) = false ->
    module_shape m = true -> gram PExpr m = true ->
    jsx_free (fst (transform_module E (hook_call E) (hook_declarator E) (collect_ts_decls E subs) m)) = true.
Proof.
  intros E m Hoff. apply C07_module_is_jsx_free; intros n s H.
  - rewrite (hook_call_off E Hoff). exact H.
  - rewrite (hook_declarator_off E Hoff). exact H.
  - rewrite (hook_call_off E Hoff). exact H.
  - rewrite (hook_declarator_off E Hoff). exact H.
  - rewrite (collect_off E Hoff). exact H.
Qed.
Print Assumptions C07_module_is_jsx_free_when_off.

(* non-vacuity: JSX inside an expression inside JSX inside an arrow body, an assignment that
   forces a hoisted capture, an object-slots temporary *)
Example C07_module_nonvacuous :
  let E := {| e_opts := {| o_transform_on := false; o_optimize := true; o_merge_props := true;
                           o_object_slots := true; o_pragma := None; o_resolve_type := false; o_npat := 0 |};
              e_unres := 1; e_matches := []; e_html := [s_ "div"]; e_svg := []; e_comments := [] |} in
  let x := Ident (s_ "x") 2 false in
  let inner := JsxE (Ident (s_ "b") 1 false) [] true nnull [] nnull in
  let comp := JsxE (Ident (s_ "A") 2 false) [] false nnull [JExprC (Call false 0 (Ident (s_ "f") 1 false) [] nnull)] nnull in
  let outer := JsxE (Ident (s_ "div") 1 false) [JAttr (IdName (s_ "icon")) inner] false nnull
                    [JExprC (Cond x comp Null); JText (s_ "t") (s_ "t")] nnull in
  let stmt := gobj "ExpressionStatement" [fld "expression" (Arrow 3 [] outer false false nnull nnull)] in
  let m := NObj [Field (s_ "type") (NScalar (JStr (s_ "Module"))); Field (s_ "body") (NArr [stmt]);
                 Field (s_ "interpreter") (NScalar JNull)] in
  module_shape m = true /\ gram PExpr m = true /\ jsx_free m = false
  /\ jsx_free (fst (transform_module E (hook_call E) (hook_declarator E) (collect_ts_decls E subs) m)) = true.
Proof. vm_compute. repeat split; reflexivity. Qed.
