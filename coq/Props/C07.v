(* C07 - the output is plain ECMAScript/TypeScript (or an error was reported). Statements only. *)
From VJ Require Import Model.Str Model.Json Model.Ast Model.State Model.Lower Spec.Plain
  Lemmas.PlainProofs.

(* Element level, no bound on nesting, attributes or children: lowering a JSX element /
   fragment whose embedded expressions are JSX-free (the state in which visit_mut_expr finds
   it, its children having been visited first) yields an expression without any JSX node -
   nested elements, element-valued attributes, namespaced tags, directive values included. *)
Theorem C07_lowering_is_jsx_free :
  forall (E : env) (n : node) (s : st),
    is_el n = true -> ready n = true -> jsx_free (fst (lower_el E n s)) = true.
Proof. exact lower_el_jsx_free. Qed.
Print Assumptions C07_lowering_is_jsx_free.
Check C07_lowering_is_jsx_free :
  forall (E : env) (n : node) (s : st),
    is_el n = true -> ready n = true -> jsx_free (fst (lower_el E n s)) = true.

(* non-vacuity: an element with an element-valued attribute, a namespaced tag child and a
   directive is [ready], and its lowering is checked JSX-free by computation as well *)
Example C07_nonvacuous :
  let E := {| e_opts := {| o_transform_on := false; o_optimize := true; o_merge_props := true;
                           o_object_slots := true; o_pragma := None; o_resolve_type := false; o_npat := 0 |};
              e_unres := 1; e_matches := []; e_html := [s_ "div"]; e_svg := []; e_comments := [] |} in
  let b := JsxE (Ident (s_ "b") 1 false) [] true nnull [] nnull in
  let ns := JsxE (JNs (IdName (s_ "svg")) (IdName (s_ "rect"))) [] true nnull [] nnull in
  let el := JsxE (Ident (s_ "div") 1 false)
                 [JAttr (IdName (s_ "icon")) b; JAttr (IdName (s_ "v-show")) (JExprC (Ident (s_ "x") 1 false))]
                 false nnull [ns; JText (s_ "t") (s_ "t")] nnull in
  ready el = true /\ jsx_free el = false /\ jsx_free (fst (lower_el E el st0)) = true.
Proof. vm_compute. repeat split; reflexivity. Qed.
