(* C03 - placeholder statement file, replaced below *)
From VJ Require Import Model.Str.
Theorem C03_placeholder : True. Proof. exact I. Qed.
Print Assumptions C03_placeholder.
