(* C03 - component children become the slots the source denotes. Statements only.

   Proved for every child list of a component host, every v-slots form and both settings of
   enableObjectSlots / optimize: the third argument of the vnode call is the slots value
   [check_children_with] describes - a lazily evaluated `default` slot returning the children in
   order, the function child itself, the object literal itself, v-slots entries beside
   `default`, and for a single identifier / call child the runtime decision
   `_isSlot(x) ? x : { default: () => [x] }` with a call evaluated once into a temporary.
   Relative to the lowering / check of nested elements ([rec_ok], the induction hypothesis of
   the recursive statement) and to a visitor state without a pending assignment target (the
   capture of a reassigned identifier belongs to C06/C10).  Whether `_isSlot` selects the right
   branch for each runtime value kind is Vue-runtime behaviour: the helper's text is compared
   with the Babel plugin's by the translator (tools/gen_tables.py), not proved. *)
From VJ Require Import Model.Str Model.Json Model.Ast Model.State Model.Text Model.Lower
  Spec.JsxText Spec.OutViews Spec.Site Spec.SiteCheck Lemmas.ChildProofs Lemmas.ElementProofs.

Theorem C03_slots : forall E rec chk (P : st -> Prop),
  (forall v s, P s -> P (snd (transform_jsx_text v s))) ->
  (forall e s, P s -> P (mark_dynamic E e s)) ->
  forall cs s s2 vslots,
  P s -> rec_ok rec chk P cs -> forallb child_ok cs = true ->
  assign_left s2 = None ->
  check_children_with E chk true vslots cs
    (fst (finish_children E (fst (lower_children_with E rec cs s)) true vslots s2)) = [].
Proof. intros. eapply children_refine; eauto. intros; discriminate. Qed.
Print Assumptions C03_slots.

(* the shapes, spelled out: what [check_children_with] accepted above *)
Theorem C03_call_child_once : forall E e_ctx f args t s,
  o_object_slots (e_opts E) = true -> assign_left s = None ->
  let e := Call false e_ctx f args t in
  exists tmp flag,
    fst (finish_children E [Elem false e] true None s)
    = Cond (mk_call slot_helper_ident [Assign (s_ "=") (Paren tmp) e]) tmp
           (wrap_children E [Elem false tmp] flag None)
    /\ (exists sym c, tmp = Ident sym c false /\ is_gen_ctx c = true).
Proof.
  intros E e_ctx f args t s OS AL. cbv zeta.
  rewrite finish_unfold. destruct (popped E s) as [flag s3] eqn:EP. rewrite OS.
  assert (AL3 : assign_left s3 = None).
  { rewrite <- AL, <- (popped_assign E s), EP. reflexivity. }
  pose proof (slot_ident_props s3) as SP.
  destruct (generate_unique_slot_ident s3) as [slot s4].
  destruct SP as [GEN AL4]. rewrite AL3 in AL4. rewrite (build_iife_none _ _ AL4).
  exists slot, flag. split; [reflexivity|exact GEN].
Qed.
Print Assumptions C03_call_child_once.

(* without enableObjectSlots a single identifier or call child is always wrapped *)
Theorem C03_always_wrapped_when_off : forall E e s,
  o_object_slots (e_opts E) = false -> assign_left s = None ->
  (match e with Ident _ _ _ | Call false _ _ _ _ => True | _ => False end) ->
  exists flag, fst (finish_children E [Elem false e] true None s) = wrap_children E [Elem false e] flag None.
Proof.
  intros E e s OS AL SH. rewrite finish_unfold. destruct (popped E s) as [flag s3] eqn:EP.
  assert (AL3 : assign_left s3 = None).
  { rewrite <- AL, <- (popped_assign E s), EP. reflexivity. }
  exists flag. destruct e; try contradiction SH.
  - rewrite (build_iife_none _ _ AL3), OS. reflexivity.
  - match goal with |- context [Call ?b _ _ _ _] => destruct b; [contradiction SH|] end.
    rewrite OS. reflexivity.
Qed.
Print Assumptions C03_always_wrapped_when_off.

(* the full statement on the fragment of Lemmas/ElementProofs.v (see Props/C01.v): no complaint of
   any kind, in particular none of this property *)
Theorem C03_full_statement_on_fragment : forall E,
  forall h el, good E h el -> forall f s, (h <= f)%nat -> assign_left s = None ->
  filter (starts_with (s_ "C03:")) (check_site E f el (fst (lower_el E el s))) = [].
Proof. intros E h el G f s LE Q. destruct (element_refines E h el G f s LE Q) as [H _]. rewrite H. reflexivity. Qed.
Print Assumptions C03_full_statement_on_fragment.
