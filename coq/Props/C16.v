(* C16 - placeholder statement file, replaced below *)
From VJ Require Import Model.Str.
Theorem C16_placeholder : True. Proof. exact I. Qed.
Print Assumptions C16_placeholder.
