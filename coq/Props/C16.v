(* C16 - resolveType derives exactly the declared props and their requiredness. Statements only.
   The end-to-end statement (the emitted `props` = the prop map the source encodes, for every
   encoding) is decided on the REAL output of generated cases against the generator's ground
   truth; the theorems are the laws of the resolver that make every encoding transparent. *)
From VJ Require Import Model.Str Model.Json Model.Ast Model.State Model.Util Model.Types
  Lemmas.NodeInd Lemmas.TypesProofs Lemmas.EncProofs.

(* every alias declared anywhere in the module - before or after the call, nested in a
   function, exported - is in the registry before the transformation starts *)
Theorem C16_registry_complete :
  forall E m s n sym c ty, o_resolve_type (e_opts E) = true -> In n (subs m) -> alias_decl n sym c ty ->
    reg_get sym c (aliases (collect_ts_decls E subs m s)) <> None.
Proof. exact collect_sees_every_alias. Qed.
Print Assumptions C16_registry_complete.

(* an inline literal contributes exactly its members *)
Theorem C16_literal : forall E f ms s,
  rte E (S f) (gobj "TsTypeLiteral" [fld "members" (NArr ms)]) s = (refine_members ms, s).
Proof. exact rte_literal. Qed.
Print Assumptions C16_literal.

(* aliases and parentheses are transparent; an intersection is the concatenation of its parts *)
Theorem C16_alias_paren_intersection : forall E f sym c ps aliased a b t s,
  (reg_get sym c (aliases s) = Some aliased -> rte E (S f) (tref sym c ps) s = rte E f aliased s)
  /\ rte E (S f) (gobj "TsParenthesizedType" [fld "typeAnnotation" t]) s = rte E f t s
  /\ rte E (S f) (gobj "TsIntersectionType" [fld "types" (NArr [a; b])]) s =
     (let '(x, s1) := rte E f a s in let '(y, s2) := rte E f b s1 in (x ++ y, s2)).
Proof.
  intros. split; [apply rte_alias|]. split; [apply rte_paren|apply rte_intersection2].
Qed.
Print Assumptions C16_alias_paren_intersection.

(* Partial / Required only flip the optional flag; Pick keeps exactly the listed keys *)
Theorem C16_partial_required_pick : forall E f p o k s,
  (reg_get (s_ "Partial") (e_unres E) (aliases s) = None -> reg_get (s_ "Partial") (e_unres E) (interfaces s) = None ->
   rte E (S f) (tref (s_ "Partial") (e_unres E) [p]) s =
   (let '(inner, s1) := rte E f p s in (map (set_optional true) inner, s1)))
  /\ (reg_get (s_ "Required") (e_unres E) (aliases s) = None -> reg_get (s_ "Required") (e_unres E) (interfaces s) = None ->
      rte E (S f) (tref (s_ "Required") (e_unres E) [p]) s =
      (let '(inner, s1) := rte E f p s in (map (set_optional false) inner, s1)))
  /\ (reg_get (s_ "Pick") (e_unres E) (aliases s) = None -> reg_get (s_ "Pick") (e_unres E) (interfaces s) = None ->
      rte E (S f) (tref (s_ "Pick") (e_unres E) [o; k]) s =
      (let '(keys, s1) := rsus E f k s in
       let '(inner, s2) := rte E f o s1 in (filter (fun x => key_in keys x false) inner, s2))).
Proof.
  intros. split; [apply rte_partial|]. split; [apply rte_required|apply rte_pick].
Qed.
Print Assumptions C16_partial_required_pick.

(* a first occurrence of a key becomes one entry, required unless declared optional *)
Theorem C16_required_unless_optional : forall E irs s key computed optional tann k s1 types s2,
  extract_prop_name key computed s = (k, s1) -> infer_ann E tann s1 = (types, s2) ->
  ir_update k (fun ir => ir) irs = None ->
  ir_step E (irs, s) (RProp key computed optional tann) =
  (irs ++ [mkIr k (oset_extend [] types) (negb optional)], s2).
Proof. exact ir_step_fresh_prop. Qed.
Print Assumptions C16_required_unless_optional.

(* a reference that resolves to nothing in the file is reported, never silently dropped *)
Theorem C16_unresolved_reported : forall E f sym c ps s,
  reg_get sym c (aliases s) = None -> reg_get sym c (interfaces s) = None -> N.eqb c (e_unres E) = false ->
  exists d, snd (rte E (S f) (tref sym c ps) s) = set_diags (diags s ++ [d]) s.
Proof. exact rte_unknown_reported. Qed.
Print Assumptions C16_unresolved_reported.

(* FULL STATEMENT of the resolution step on a grammar of encodings (Lemmas/EncProofs.v): however the
   prop map is written - inline literals wrapped in parentheses / optional wrappers, alias chains of
   any length, intersections and unions of any width, Partial / Required, Pick / Omit over key types
   that are unions / aliases of string literals (NamesProofs), nested to any depth -
   resolve_type_elements returns exactly the members the encoding denotes ([den]: the members of the
   literals in order, an alias transparent, Partial / Required flipping only the optional flag) and
   leaves the state alone (no diagnostic); a declared interface contributes its own members followed by
   those of every interface it extends, to any depth of `extends`.  Indexed accesses are outside
   the grammar: their laws are above, their composition is decided on real outputs. *)
Theorem C16_resolution_is_denotation : forall E s e fuel,
  (pdepth e <= fuel)%nat -> pwf E s e -> rte E fuel (enc_p E e) s = (den e, s).
Proof. intros E s e. exact (rte_exact E s e). Qed.
Print Assumptions C16_resolution_is_denotation.

Theorem C16_encoding_hypotheses_satisfiable :
  pwf E_dummy st0 penc_example /\ (pdepth penc_example <= type_fuel)%nat.
Proof. exact penc_example_ok. Qed.
Print Assumptions C16_encoding_hypotheses_satisfiable.

Theorem C16_interface_hypotheses_satisfiable :
  pwf E_dummy st_iface iface_example /\ List.length (den iface_example) = 2%nat.
Proof. exact iface_example_ok. Qed.
Print Assumptions C16_interface_hypotheses_satisfiable.
