(* C04 - placeholder statement file, replaced below *)
From VJ Require Import Model.Str.
Theorem C04_placeholder : True. Proof. exact I. Qed.
Print Assumptions C04_placeholder.
