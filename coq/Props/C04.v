(* C04 - directives reach the runtime with the right definition, value, arg and modifiers.
   Statements only.

   FULL STATEMENT (decided on every generated probe by [check_site], tags "C04:"):
     forall E el s, no "C04:" entry in check_site E fuel el (fst (lower_el E el s)).
   PROVED (partial): for every single directive attribute, in every spelling and value shape,
   the one binding the transform builds is the one the independent reading of the attribute
   ([attr_spec]) describes, and the attribute adds no prop, merge argument or slot; v-html /
   v-text add exactly the innerHTML / textContent prop.  Not proved: composition over the
   attribute list (a fold that appends) and the wrapping in withDirectives; both covered by
   the oracle. *)
From VJ Require Import Model.Str Model.Json Model.Ast Model.State Model.Util Model.Directive
  Model.Lower Spec.JsxText Spec.OutViews Spec.Site Spec.SiteCheck Lemmas.SiteProofs Lemmas.DirsProofs Lemmas.ElementProofs.

Definition C04_full_statement : Prop :=
  forall E el s, filter (starts_with (s_ "C04:")) (check_site E 40 el (fst (lower_el E el s))) = [].

(* the written name is read identically: prefix removed, first letter lower-cased, `:arg`,
   `_modifier` suffixes *)
Theorem C04_name_partial : forall name d,
  spec_directive_name name = Some d -> model_name_parts name = (dn_name d, dn_arg d, dn_mods d).
Proof. exact name_parts_spec. Qed.
Print Assumptions C04_name_partial.

(* exactly one binding, equal to the described one; nothing else is disturbed *)
Theorem C04_binding_partial : forall E ic tag attrs all name value d a,
  spec_directive_name name = Some d ->
  sq "html" (dn_name d) = false -> sq "text" (dn_name d) = false ->
  sq "model" (dn_name d) = false -> sq "slots" (dn_name d) = false ->
  arg_not_void (dp_arg (spec_directive_parts d value)) ->
  let a' := step_directive ic a name value in
  exists dir,
    a_dirs a' = a_dirs a ++ [dir]
    /\ a_props a' = a_props a /\ a_margs a' = a_margs a /\ a_dyn a' = a_dyn a
    /\ a_slots a' = a_slots a /\ a_st a' = a_st a
    /\ fst (fst (attr_spec E ic tag all (JAttr name value))) = []
    /\ forall s1, map view_dir (fst (build_directives [dir] tag attrs s1))
                  = map Some (snd (fst (attr_spec E ic tag all (JAttr name value)))).
Proof. exact normal_directive_refines. Qed.
Print Assumptions C04_binding_partial.

(* v-html / v-text *)
Theorem C04_html_text_partial : forall E ic tag all name value d a,
  spec_directive_name name = Some d ->
  (sq "html" (dn_name d) = true \/ (sq "html" (dn_name d) = false /\ sq "text" (dn_name d) = true)) ->
  user_value (html_text_value value) = true ->
  let a' := step_directive ic a name value in
  exists p,
    a_props a' = a_props a ++ [p]
    /\ map view_prop [p] = fst (fst (attr_spec E ic tag all (JAttr name value)))
    /\ snd (fst (attr_spec E ic tag all (JAttr name value))) = []
    /\ a_dirs a' = a_dirs a /\ a_margs a' = a_margs a /\ a_slots a' = a_slots a.
Proof. exact html_text_refines. Qed.
Print Assumptions C04_html_text_partial.

(* modifiers: every listed modifier, each `true`, nothing else *)
Theorem C04_modifiers_partial : forall ms q,
  view_mods (match transform_modifiers ms q with Some m => m | None => Null end) = ms.
Proof. exact view_mods_transform. Qed.
Print Assumptions C04_modifiers_partial.

(* the element as a whole: the bindings handed to withDirectives are, in order, exactly the
   bindings the attributes denote - for every attribute list (v-models already spliced, see
   C05_vmodels_sequence) whose attributes each satisfy their own refinement ([dir_ok]: proved for
   plain attributes, spreads, transformOn objects, runtime directives, v-html / v-text and
   v-model by the lemmas dir_ok_* of Lemmas/DirsProofs.v) *)
Theorem C04_element_bindings : forall E ic tag attrs s,
  splice_vmodels attrs false = attrs ->
  Forall (dir_ok E ic tag attrs) attrs ->
  forall s1,
    map view_dir (fst (build_directives (r_dirs (transform_attrs E attrs ic s)) tag attrs s1))
    = map Some (snd (fst (spec_attrs E ic tag attrs))).
Proof. exact directives_refine. Qed.
Print Assumptions C04_element_bindings.

Theorem C04_directive_attribute_ok : forall E ic tag attrs name value d,
  spec_directive_name name = Some d ->
  sq "html" (dn_name d) = false -> sq "text" (dn_name d) = false ->
  sq "model" (dn_name d) = false -> sq "slots" (dn_name d) = false ->
  arg_not_void (dp_arg (spec_directive_parts d value)) ->
  match name with IdName _ | JNs (IdName _) (IdName _) => True | _ => False end ->
  dir_ok E ic tag attrs (JAttr name value).
Proof. exact dir_ok_normal. Qed.
Print Assumptions C04_directive_attribute_ok.

(* non-vacuity: `v-xxx:foo={[x, y, ['a', 'b']]}` - the namespace argument wins, the list is read *)
Example C04_nonvacuous :
  let name := JNs (IdName (s_ "v-xxx")) (IdName (s_ "foo")) in
  let x := Ident (s_ "x") 2 false in let y := Ident (s_ "y") 2 false in
  let value := JExprC (Arr [Elem false x; Elem false y;
                            Elem false (Arr [Elem false (mk_str (s_ "b")); Elem false (mk_str (s_ "a"))])]) in
  exists d, spec_directive_name name = Some d
            /\ dn_name d = s_ "xxx"
            /\ dp_arg (spec_directive_parts d value) = Some (mk_str (s_ "foo"))
            /\ sort_dedup (dp_mods (spec_directive_parts d value)) = [s_ "a"; s_ "b"]
            /\ arg_not_void (dp_arg (spec_directive_parts d value)).
Proof. eexists. vm_compute. repeat split. Qed.

(* the full statement on the fragment of Lemmas/ElementProofs.v (see Props/C01.v): no complaint of
   any kind, in particular none of this property *)
Theorem C04_full_statement_on_fragment : forall E,
  forall h el, good E h el -> forall f s, (h <= f)%nat -> assign_left s = None ->
  filter (starts_with (s_ "C04:")) (check_site E f el (fst (lower_el E el s))) = [].
Proof. intros E h el G f s LE Q. destruct (element_refines E h el G f s LE Q) as [H _]. rewrite H. reflexivity. Qed.
Print Assumptions C04_full_statement_on_fragment.
