(* C14 - options have their documented defaults and only their documented effect. Statements only. *)
From VJ Require Import Model.Str Model.Json Model.Ast Model.State Model.Lower Model.Options
  Lemmas.OptionsProofs.

Theorem C14_empty_is_default :
  forall valid, parse_options valid (JObj []) = Some default_raw /\ parse_options valid (JArr []) = Some default_raw.
Proof. intros; split; reflexivity. Qed.
Print Assumptions C14_empty_is_default.

(* the values come from `impl Default for Options`, re-read from options.rs on every run *)
Theorem C14_default_values :
  default_raw = {| ro_transform_on := false; ro_optimize := false; ro_patterns := [];
                   ro_merge_props := true; ro_object_slots := true; ro_pragma := None;
                   ro_resolve_type := false |}.
Proof. exact default_values. Qed.
Print Assumptions C14_default_values.

Theorem C14_unknown_key_ignored :
  forall valid l1 k v l2, is_known_key k = false ->
    parse_options valid (JObj (l1 ++ (k, v) :: l2)) = parse_options valid (JObj (l1 ++ l2)).
Proof. exact unknown_key_ignored. Qed.
Print Assumptions C14_unknown_key_ignored.

Theorem C14_absent_key_is_default :
  forall valid k l o', forallb (fun kv => negb (str_eqb k (fst kv))) l = true ->
    parse_options valid (JObj l) = Some o' -> field_untouched k default_raw o'.
Proof. intros valid k l o' H Hp. eapply absent_key_default; [exact H|exact Hp]. Qed.
Print Assumptions C14_absent_key_is_default.

Theorem C14_invalid_pattern_rejected :
  forall valid l1 ps l2 p, In (JStr p) ps -> valid p = false ->
    parse_options valid (JObj (l1 ++ (s_ "customElementPatterns", JArr ps) :: l2)) = None.
Proof. exact invalid_pattern_rejected. Qed.
Print Assumptions C14_invalid_pattern_rejected.

(* non-interference, one element's attributes / children / tag at a time (the module-level
   statement is decided on paired runs of the real visitor) *)
Theorem C14_transformOn_only_on :
  forall E attrs ic s, existsb is_on_attr attrs = false ->
    transform_attrs (with_transform_on true E) attrs ic s = transform_attrs (with_transform_on false E) attrs ic s.
Proof. exact transform_attrs_ton_indep. Qed.
Print Assumptions C14_transformOn_only_on.

Theorem C14_objectSlots_only_sole_ident_or_call :
  forall E elems ic slots s, (ic && sole_ident_or_call elems) = false ->
    finish_children (with_object_slots true E) elems ic slots s
    = finish_children (with_object_slots false E) elems ic slots s.
Proof. exact finish_children_slots_indep. Qed.
Print Assumptions C14_objectSlots_only_sole_ident_or_call.

Theorem C14_patterns_only_matching_tags :
  forall E name s, pat_any E (tag_name_str name) = false ->
    transform_tag E name s = transform_tag (without_patterns E) name s
    /\ is_component E name = is_component (without_patterns E) name.
Proof. exact tag_patterns_indep. Qed.
Print Assumptions C14_patterns_only_matching_tags.

(* ---- mergeProps ------------------------------------------------------------------------------ *)
From VJ Require Import Model.Util Model.Directive Lemmas.MergeIndep.

(* an attribute list without a spread, without an `on` / `nativeOn` object under transformOn, and in
   which no class / style / listener key is produced twice is lowered identically - props
   expression, flags, dynamic-prop list, directives, slots, resulting state - with mergeProps on
   and off: the option only reaches elements that use the feature it governs *)
Theorem C14_mergeProps_only_spread_or_repeat :
  forall (E : env) (attrs : list node) (ic : bool) (s : st),
    forallb (merge_free E) attrs = true ->
    nodup_keys [] (a_props (fold_left (attr_step (with_merge false E) ic) attrs
                                      (mkAcc [] [] [] [] None false false false false false s))) = true ->
    transform_attrs (with_merge true E) attrs ic s = transform_attrs (with_merge false E) attrs ic s.
Proof. exact transform_attrs_merge_indep. Qed.
Print Assumptions C14_mergeProps_only_spread_or_repeat.

(* non-vacuity: `<div class={a} id="i" onClick={fn} />` meets the hypotheses; with a repeated class it does not *)
Example C14_mergeProps_nonvacuous :
  let E := {| e_opts := {| o_transform_on := true; o_optimize := true; o_merge_props := true;
                           o_object_slots := true; o_pragma := None; o_resolve_type := false; o_npat := 0 |};
              e_unres := 1; e_matches := []; e_html := [s_ "div"]; e_svg := []; e_comments := [] |} in
  let idn := fun (n : String.string) => Ident (s_ n) 2 false in
  let attrs := [JAttr (IdName (s_ "class")) (JExprC (idn "a"%string)); JAttr (IdName (s_ "id")) (Str (s_ "i") nnull);
                JAttr (IdName (s_ "onClick")) (JExprC (idn "fn"%string))] in
  let twice := attrs ++ [JAttr (IdName (s_ "class")) (JExprC (idn "b"%string))] in
  let props := fun l => a_props (fold_left (attr_step (with_merge false E) false) l
                                           (mkAcc [] [] [] [] None false false false false false st0)) in
  forallb (merge_free E) attrs = true /\ nodup_keys [] (props attrs) = true
  /\ nodup_keys [] (props twice) = false
  /\ forallb (merge_free E) [JAttr (IdName (s_ "on")) (JExprC (idn "o"%string))] = false.
Proof. vm_compute. repeat split; reflexivity. Qed.
