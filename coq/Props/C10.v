(* C10 - a JSX expression's lowering does not depend on unrelated code around it.
   Statements only.

   The visitor threads one mutable state through the whole module.  The theorem says which
   part of that state the lowering of an element can see: the module's pragma (module-wide by
   C15), the pending assignment target (set on entering `x = ...`, restored on leaving it), the
   slot-flag stack (pushed and popped by the element itself) and two counters that only choose
   the NAMES of generated temporaries.  Helper imports already requested, pending
   declarations of other statements, diagnostics, the Fragment / transformOn / slot-helper
   flags, the defineComponent binding and the type registries - everything else earlier or
   later code leaves behind - cannot change the result.
   FULL STATEMENT (decided on paired REAL runs of every generated (prefix, statement, suffix)
   triple, Spec/Context.v): the statement's lowering inside the module equals its lowering
   alone once identifiers are named by what they denote.  The step from the theorem to the
   full statement - the two counters differ between the runs, which renames temporaries
   consistently - is covered by that comparison, not by a theorem. *)
From VJ Require Import Model.Str Model.Json Model.Ast Model.State Model.Lower Model.Visitor Model.Types
  Lemmas.IndepProofs Lemmas.BalProofs Lemmas.VisitBal Lemmas.IdentityProofs.

Theorem C10_reads_only_five_fields : forall E n s1 s2,
  pragma s1 = pragma s2 -> assign_left s1 = assign_left s2 ->
  slot_counter s1 = slot_counter s2 -> fresh s1 = fresh s2 -> slot_stack s1 = slot_stack s2 ->
  fst (lower_el E n s1) = fst (lower_el E n s2).
Proof.
  intros E n s1 s2 H1 H2 H3 H4 H5.
  apply (lower_el_indep E n s1 s2). repeat split; assumption.
Qed.
Print Assumptions C10_reads_only_five_fields.

(* and the five fields evolve alike, so the statement extends to every later element of the
   same traversal *)
Theorem C10_reads_stay_equal : forall E n s1 s2,
  R s1 s2 -> R (snd (lower_el E n s1)) (snd (lower_el E n s2)).
Proof. intros E n s1 s2 H. apply (lower_el_indep E n s1 s2 H). Qed.
Print Assumptions C10_reads_stay_equal.

(* the attribute lowering does not read the state at all *)
Theorem C10_attributes_stateless : forall E attrs ic s1 s2,
  R s1 s2 ->
  r_attrs (transform_attrs E attrs ic s1) = r_attrs (transform_attrs E attrs ic s2)
  /\ r_flags (transform_attrs E attrs ic s1) = r_flags (transform_attrs E attrs ic s2)
  /\ r_dyn (transform_attrs E attrs ic s1) = r_dyn (transform_attrs E attrs ic s2)
  /\ r_slots (transform_attrs E attrs ic s1) = r_slots (transform_attrs E attrs ic s2)
  /\ r_dirs (transform_attrs E attrs ic s1) = r_dirs (transform_attrs E attrs ic s2).
Proof.
  intros E attrs ic s1 s2 H.
  destruct (Ind_transform_attrs E attrs ic s1 s2 H) as (A & B & C & D & F & _).
  repeat split; assumption.
Qed.
Print Assumptions C10_attributes_stateless.

(* of the five fields, two are scoped to the traversal: visiting ANY node - a statement, a
   function, a class, other JSX - leaves no pending assignment target behind and the slot-flag
   stack as long as before *)
Theorem C10_traversal_restores_scoped_state : forall E hc hd,
  (forall n s, bal s (snd (hc n s))) -> (forall n s, bal s (snd (hd n s))) ->
  forall n m s, bal s (snd (visit E hc hd m n s)).
Proof. intros E hc hd H1 H2 n. apply (visit_bal E hc hd H1 H2 n). Qed.
Print Assumptions C10_traversal_restores_scoped_state.

(* hence every statement of a statement list is visited in a quiet state (no pending target,
   empty flag stack), whatever precedes it; and what follows it cannot reach back: the
   statement's result is computed before the rest of the list is looked at *)
Theorem C10_statements_start_quiet : forall E hc hd,
  (forall n s, bal s (snd (hc n s))) -> (forall n s, bal s (snd (hd n s))) ->
  forall pre x post m s,
    quiet s ->
    let V := visit E hc hd in
    quiet (snd (visit_list_with V m pre s))
    /\ fst (visit_list_with V m (pre ++ x :: post) s)
       = fst (visit_list_with V m pre s)
         ++ fst (V m x (snd (visit_list_with V m pre s)))
         :: fst (visit_list_with V m post (snd (V m x (snd (visit_list_with V m pre s))))).
Proof. intros E hc hd H1 H2 pre x post m s Q. apply (statements_start_quiet E hc hd H1 H2); exact Q. Qed.
Print Assumptions C10_statements_start_quiet.

(* the hypotheses on the resolveType hooks hold outright when the option is off (the hooks are
   the identity); with the option on they write imports, diagnostics and the type registries
   only - that part is covered by the correspondence, not proved *)
Theorem C10_hooks_quiet_when_off : forall E,
  o_resolve_type (e_opts E) = false ->
  (forall n s, bal s (snd (hook_call E n s))) /\ (forall n s, bal s (snd (hook_declarator E n s))).
Proof.
  intros E H. split; intros n s.
  - rewrite (hook_call_off E H). apply bal_refl.
  - rewrite (hook_declarator_off E H). apply bal_refl.
Qed.
Print Assumptions C10_hooks_quiet_when_off.

(* non-vacuity: two states that differ in everything the theorem ignores *)
Example C10_nonvacuous :
  let s1 := st0 in
  let s2 := mkSt [s_ "Fragment"; s_ "createVNode"] true (Some 7) [] [] None true
                 [mk_ident (s_ "_slot") 9] 1 [] None [mk_ident (s_ "_a") 8] 0 [s_ "earlier diagnostic"] false in
  R s1 s2 /\ s1 <> s2.
Proof. cbv zeta. split; [repeat split|discriminate]. Qed.
