(* C01 - placeholder statement file, replaced below *)
From VJ Require Import Model.Str.
Theorem C01_placeholder : True. Proof. exact I. Qed.
Print Assumptions C01_placeholder.
