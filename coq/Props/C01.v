(* C01 - every JSX element renders the vnode type and props its source denotes. Statements only.

   FULL STATEMENT (kept visible; decided on every generated probe by evaluating [check_site]
   on the REAL output and on the model's output, see Corr/Run.v):
     forall E el s, the lowering of el contains no "C01:" entry in
       check_site E fuel el (fst (lower_el E el s)).
   PROVED below (partial): the vnode type for every tag form, and - attribute by attribute - that
   what the transform adds to the props object / merge arguments is exactly what the
   independent reading of the attribute in Spec/Site.v ([attr_spec]) says, and nothing else of
   the element changes; whole attribute lists with mergeProps off ([C01_element_props_no_merge])
   and on ([C01_element_props_merge]: runs grouped by [dedupe_props], spreads as arguments of
   their own, joined by mergeProps); the full statement on a fragment of the language.
   Not proved: element-valued attributes and transformOn objects inside a list; they are covered
   by the oracle on real outputs. *)
From VJ Require Import Model.Str Model.Json Model.Ast Model.State Model.Util Model.Directive
  Model.Lower Spec.JsxText Spec.OutViews Spec.Site Spec.SiteCheck Lemmas.SiteProofs Lemmas.AttrsProofs Lemmas.ContribsProofs
  Lemmas.MergeProofs Lemmas.ElementProofs.

Definition C01_full_statement : Prop :=
  forall E el s, filter (starts_with (s_ "C01:")) (check_site E 40 el (fst (lower_el E el s))) = [].

(* HTML/SVG and custom-element tags: the tag string; bound identifier or member expression:
   that value; unbound component name: runtime resolution by name; Fragment: Vue's Fragment *)
Theorem C01_type_partial : forall E name s,
  user_name name = true -> view_type (fst (transform_tag E name s)) = spec_type E name.
Proof. exact transform_tag_type. Qed.
Print Assumptions C01_type_partial.

(* a plain attribute: written name (colon kept), true / whitespace-normalised string / expression *)
Theorem C01_plain_attribute_partial : forall E ic tag all name value x a,
  wf_attr_name name ->
  spec_directive_name name = None ->
  plain_value value = Some x -> user_value x = true ->
  is_ton E name = false ->
  let a' := attr_step E ic a (JAttr name value) in
  a_props a' = a_props a ++ [KV (mk_str (attr_name_str name)) x]
  /\ fst (fst (attr_spec E ic tag all (JAttr name value))) = [CKV (attr_name_str name) [x]]
  /\ view_prop (KV (mk_str (attr_name_str name)) x) = CKV (attr_name_str name) [x]
  /\ snd (fst (attr_spec E ic tag all (JAttr name value))) = []
  /\ a_dirs a' = a_dirs a /\ a_margs a' = a_margs a /\ a_slots a' = a_slots a.
Proof. exact plain_attr_refines. Qed.
Print Assumptions C01_plain_attribute_partial.

(* spreads: object-literal continuation without mergeProps, one mergeProps argument with it *)
Theorem C01_spread_plain_partial : forall E ic tag all e a,
  o_merge_props (e_opts E) = false ->
  let a' := attr_step E ic a (Spread e) in
  exists ps,
    a_props a' = a_props a ++ ps /\ a_margs a' = a_margs a
    /\ map view_prop ps = fst (fst (attr_spec E ic tag all (Spread e)))
    /\ a_dirs a' = a_dirs a /\ a_slots a' = a_slots a.
Proof. exact spread_refines_plain. Qed.
Print Assumptions C01_spread_plain_partial.

Theorem C01_spread_merge_partial : forall E ic tag all e a,
  o_merge_props (e_opts E) = true ->
  user_value e = true ->
  let a' := attr_step E ic a (Spread e) in
  a_props a' = []
  /\ a_margs a' = a_margs a ++ (match a_props a with [] => [] | ps => [Obj (dedupe_props ps)] end) ++ [e]
  /\ view_arg e = fst (fst (attr_spec E ic tag all (Spread e)))
  /\ a_dirs a' = a_dirs a /\ a_slots a' = a_slots a.
Proof. exact spread_refines_merge. Qed.
Print Assumptions C01_spread_merge_partial.

(* transformOn: an `on` / `nativeOn` object is converted to onXxx listeners by the runtime helper *)
Theorem C01_transform_on_partial : forall E ic tag all name e a,
  wf_attr_name name ->
  spec_directive_name name = None ->
  is_ton E name = true ->
  let a' := attr_step E ic a (JAttr name (JExprC e)) in
  exists flushed arg,
    a_props a' = [] /\ a_margs a' = a_margs a ++ flushed ++ [arg]
    /\ flushed = match a_props a with [] => [] | ps => [flush_obj E ps] end
    /\ view_arg arg = fst (fst (attr_spec E ic tag all (JAttr name (JExprC e))))
    /\ a_dirs a' = a_dirs a /\ a_slots a' = a_slots a.
Proof. exact transform_on_refines. Qed.
Print Assumptions C01_transform_on_partial.

(* the element as a whole, without mergeProps: for every attribute list (v-models already
   spliced) whose attributes each satisfy their own refinement ([contrib_ok]: proved for plain
   attributes, spreads, runtime directives, v-html / v-text and v-model by the lemmas
   contrib_ok_* of Lemmas/ContribsProofs.v) the props argument is the object of exactly the
   denoted contributions, in source order ({} collapses to null, {...e} to e) *)
Theorem C01_element_props_no_merge : forall E ic tag attrs s,
  o_merge_props (e_opts E) = false ->
  splice_vmodels attrs false = attrs ->
  Forall (contrib_ok E ic tag attrs) attrs -> attrs <> [] ->
  exists ps,
    view_contribs (Obj ps) = fst (fst (spec_attrs E ic tag attrs))
    /\ r_attrs (transform_attrs E attrs ic s)
       = match ps with [] => Null | [Spread e] => e | _ => Obj ps end.
Proof. exact contribs_refine. Qed.
Print Assumptions C01_element_props_no_merge.

(* the same under mergeProps (the default): each run of written attributes is one object whose
   repeated class / style / listeners are grouped at their first occurrence ([dedupe_props] =
   the spec's [group_contribs] up to flattening of nested arrays), each spread is an argument of
   its own, the arguments are joined by Vue's mergeProps; a single argument is passed as is.
   [merge_ok]: an attribute with a per-attribute refinement that denotes neither an element nor
   a spread, or a written spread of a user expression. *)
Theorem C01_element_props_merge : forall E ic tag attrs,
  o_merge_props (e_opts E) = true -> forall s,
  splice_vmodels attrs false = attrs ->
  Forall (merge_ok E ic tag attrs) attrs -> attrs <> [] ->
  exists args,
    join_views (map nv args) = fst (fst (spec_attrs E ic tag attrs))
    /\ Forall (arg_origin attrs) args
    /\ r_attrs (transform_attrs E attrs ic s)
       = match args with
         | [] => Null
         | [e] => e
         | _ => mk_call (fst (import_from_vue "mergeProps" st0)) args
         end.
Proof. exact contribs_refine_merge. Qed.
Print Assumptions C01_element_props_merge.

(* one run: what dedupe_props leaves is the grouping the spec describes *)
Theorem C01_dedupe_is_grouping : forall ps,
  Forall no_elem_prop ps ->
  map norm_contrib (map view_prop (dedupe_props ps)) = map norm_contrib (group_contribs (map view_prop ps)).
Proof. exact dedupe_group. Qed.
Print Assumptions C01_dedupe_is_grouping.

(* non-vacuity: the hypotheses are met by ordinary attributes *)
Example C01_nonvacuous :
  let name := JNs (IdName (s_ "xlink")) (IdName (s_ "href")) in
  wf_attr_name name /\ spec_directive_name name = None
  /\ plain_value (Str (s_ " a  b ") nnull) = Some (mk_str (s_ " a  b "))
  /\ user_value (mk_str (s_ " a  b ")) = true
  /\ attr_name_str name = s_ "xlink:href".
Proof. vm_compute. repeat split. Qed.

(* THE FULL STATEMENT, proved for a fragment of the language.  With mergeProps on or off: an element
   (of any nesting depth h) whose tag is an identifier / namespaced name / member expression,
   whose attributes each satisfy their per-attribute refinement ([attr_good]: plain attributes,
   spreads, runtime directives, v-html / v-text, v-model with a static argument, v-slots), has
   no element-valued attribute, whose expression children are source expressions and whose
   nested elements are of the same kind, is lowered - in any visitor state without a pending
   assignment target - to an expression on which the independent reading of Spec/SiteCheck.v
   has NO complaint at all: type, props in order, merge boundaries, directive bindings,
   children / slots (C01, C02, C03, C04, C05 and the order tag of C11 together).
   Outside the fragment (element-valued attributes, transformOn objects, a
   computed v-model argument, a sole function / object child of an element host) the statement
   is decided by running the same [check_site] on the real output of every probe. *)
Theorem C01_full_statement_on_fragment : forall E,
  forall h el, good E h el -> forall f s, (h <= f)%nat -> assign_left s = None ->
  check_site E f el (fst (lower_el E el s)) = [].
Proof. intros E h el G f s LE Q. apply (element_refines E h el G f s LE Q). Qed.
Print Assumptions C01_full_statement_on_fragment.
