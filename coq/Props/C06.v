(* C06 - every name the transform introduces is bound, in scope, and initialised.
   Statements only.

   FULL STATEMENT (decided on the REAL output of every generated module by the binding analysis
   tools/scope.py): every generated identifier of the output is declared exactly once, in a
   statement list or function that encloses every use and earlier than every use evaluated as
   that list runs; every generated declaration is used; no new free variable.
   PROVED (partial) - the mechanism, piece by piece:
     * a helper identifier only comes from [import_from_vue], which records the import;
     * a lowering never drops a recorded import or a pending declaration, and the counter behind
       the contexts of temporaries only increases (distinct temporaries, distinct contexts,
       all different from every source identifier and helper);
     * a slot temporary / a captured copy is put on the pending list when it is created;
     * a statement list emits everything pending at its end at its head, starts with nothing
       pending and gives the enclosing list's pending declarations back unchanged;
     * the module imports every recorded helper from 'vue' in one declaration at the top.
   Not proved: that these pieces compose over the whole traversal (arrow bodies, parameters,
   class members) - the binding analysis decides that per case.
   Known finding (pinned by a fixture): the captured copy `const _a = (function () { return a })()`
   is hoisted above the user's `let a` (hoisted_capture_tdz). *)
From Coq Require Import Lia.
From VJ Require Import Model.Str Model.Json Model.Ast Model.State Model.Util Model.Lower
  Model.Visitor Spec.OutViews Lemmas.GrowProofs Lemmas.ScopeProofs.

Theorem C06_helper_recorded : forall name s,
  fst (import_from_vue name s) = mk_ident (95 :: s_ name) (helper_ctx (s_ name))
  /\ mem_str (s_ name) (imports (snd (import_from_vue name s))) = true.
Proof. exact import_records. Qed.
Print Assumptions C06_helper_recorded.

Theorem C06_nothing_dropped : forall E n s, grow s (snd (lower_el E n s)).
Proof. exact lower_el_grow. Qed.
Print Assumptions C06_nothing_dropped.

Theorem C06_slot_temporary_declared : forall s,
  let '(id, s') := generate_unique_slot_ident s in
  exists sym, id = mk_ident sym (temp_ctx (fresh s))
              /\ In (mk_declarator (mk_bident sym (temp_ctx (fresh s))) nnull) (inj_vars s')
              /\ fresh s' = (fresh s + 1)%N.
Proof. exact slot_ident_declared. Qed.
Print Assumptions C06_slot_temporary_declared.

Theorem C06_capture_declared : forall lft elems s,
  let '(elems', s') := build_iife_elems lft elems s in
  Forall2 (fun x x' => x' = x
                       \/ exists sym c o ctx, x = Elem false (Ident sym c o)
                                             /\ x' = Elem false (mk_ident (95 :: sym) ctx)
                                             /\ In (mk_capture (Ident sym c o) ctx sym) (inj_consts s'))
          elems elems'.
Proof. exact capture_declared. Qed.
Print Assumptions C06_capture_declared.

Theorem C06_declared_at_list_head : forall rec stmts s,
  let '(out, s') := visit_stmts_with rec stmts s in
  exists stmts' s_end,
    visit_list_with rec MExpr stmts (enter_scope s) = (stmts', s_end)
    /\ out = pending_decls s_end ++ stmts'
    /\ inj_vars (enter_scope s) = [] /\ inj_consts (enter_scope s) = []
    /\ inj_vars s' = inj_vars s /\ inj_consts s' = inj_consts s /\ slot_counter s' = slot_counter s.
Proof. exact stmts_drain. Qed.
Print Assumptions C06_declared_at_list_head.

Theorem C06_pending_all_emitted : forall s d,
  In d (inj_vars s) \/ In d (inj_consts s) ->
  exists decl kind ds, In decl (pending_decls s) /\ decl = mk_var_decl kind ds /\ In d ds.
Proof. exact pending_all. Qed.
Print Assumptions C06_pending_all_emitted.

Theorem C06_module_imports : forall items s,
  let '(items', s') := finish_module items s in
  (forall x, mem_str x (imports s) = true -> mem_str x (imports s') = true)
  /\ match imports s' with
     | [] => True
     | names => exists rest, items' = mk_import (map mk_import_spec names) "vue"%string :: rest
     end.
Proof. exact module_imports. Qed.
Print Assumptions C06_module_imports.

(* generated contexts: temporaries are pairwise distinct, distinct from helpers, and no source
   identifier carries one (the harness renumbers generated contexts from gen_base upwards) *)
Theorem C06_contexts_distinct : forall k1 k2 name,
  (temp_ctx k1 = temp_ctx k2 -> k1 = k2)
  /\ is_gen_ctx (temp_ctx k1) = true
  /\ is_gen_ctx (helper_ctx name) = true
  /\ (helper_index name helper_names 0 < 1000 -> temp_ctx k1 <> helper_ctx name)%N.
Proof.
  intros k1 k2 name. unfold temp_ctx, helper_ctx, is_gen_ctx. repeat split.
  - intros H. lia.
  - apply N.leb_le. lia.
  - apply N.leb_le. lia.
  - intros H1 H2. lia.
Qed.
Print Assumptions C06_contexts_distinct.
