(* C13 - patch flags and dynamic-prop lists are sound update hints. Statements only. *)
From VJ Require Import Model.Str Model.Json Model.Ast Model.State Model.Util Model.Directive
  Model.Lower Spec.PatchFlags Lemmas.FlagsProofs.
From VJ Require Import Gen.Tables.

(* for every attribute list (no bound on length or kinds), element or component host,
   every option set and every visitor state: the flags / dynamic-prop list computed by the
   attribute lowering satisfy Vue's contract *)
Theorem C13_flags_sound :
  forall (E : env) (is_comp : bool) (attrs : list node) (s : st),
    flags_ok is_comp attrs (transform_attrs E attrs is_comp s) = true.
Proof. exact flags_sound. Qed.
Print Assumptions C13_flags_sound.
Check C13_flags_sound :
  forall (E : env) (is_comp : bool) (attrs : list node) (s : st),
    flags_ok is_comp attrs (transform_attrs E attrs is_comp s) = true.

(* slot objects carry `_` = 1 or 2 *)
Theorem C13_slot_hint_values :
  forall (E : env) (flag : bool),
    hint_prop E flag = [] \/ hint_prop E flag = [KV (IdName (s_ "_")) (mk_num 1)]
    \/ hint_prop E flag = [KV (IdName (s_ "_")) (mk_num 2)].
Proof.
  intros E flag. unfold hint_prop. destruct (o_optimize (e_opts E)); [|left; reflexivity].
  right. destruct flag; [right|left]; reflexivity.
Qed.
Print Assumptions C13_slot_hint_values.

(* non-vacuity: a positive flag without FULL_PROPS is really produced and checked *)
Example C13_nonvacuous :
  let E := {| e_opts := {| o_transform_on := false; o_optimize := true; o_merge_props := true;
                           o_object_slots := true; o_pragma := None; o_resolve_type := false; o_npat := 0 |};
              e_unres := 1; e_matches := []; e_html := [s_ "div"]; e_svg := []; e_comments := [] |} in
  let x := Ident (s_ "x") 2 false in
  let attrs := [JAttr (IdName (s_ "id")) (JExprC x); JAttr (IdName (s_ "class")) (JExprC x);
                JAttr (IdName (s_ "title")) (Str (s_ "t") nnull)] in
  r_flags (transform_attrs E attrs false st0) = 10 /\
  r_dyn (transform_attrs E attrs false st0) = Some [s_ "id"].
Proof. vm_compute. split; reflexivity. Qed.
