(* C13 - patch flags and dynamic-prop lists are sound update hints. Statements only. *)
From VJ Require Import Model.Str Model.Json Model.Ast Model.State Model.Util Model.Directive
  Model.Lower Spec.PatchFlags Lemmas.FlagsProofs.
From VJ Require Import Gen.Tables.

(* for every attribute list (no bound on length or kinds), element or component host,
   every option set and every visitor state: the flags / dynamic-prop list computed by the
   attribute lowering satisfy Vue's contract *)
Theorem C13_flags_sound :
  forall (E : env) (is_comp : bool) (attrs : list node) (s : st),
    flags_ok is_comp attrs (transform_attrs E attrs is_comp s) = true.
Proof. exact flags_sound. Qed.
Print Assumptions C13_flags_sound.
Check C13_flags_sound :
  forall (E : env) (is_comp : bool) (attrs : list node) (s : st),
    flags_ok is_comp attrs (transform_attrs E attrs is_comp s) = true.

(* slot objects carry `_` = 1 or 2 *)
Theorem C13_slot_hint_values :
  forall (E : env) (flag : bool),
    hint_prop E flag = [] \/ hint_prop E flag = [KV (IdName (s_ "_")) (mk_num 1)]
    \/ hint_prop E flag = [KV (IdName (s_ "_")) (mk_num 2)].
Proof.
  intros E flag. unfold hint_prop. destruct (o_optimize (e_opts E)); [|left; reflexivity].
  right. destruct flag; [right|left]; reflexivity.
Qed.
Print Assumptions C13_slot_hint_values.

(* non-vacuity: a positive flag without FULL_PROPS is really produced and checked *)
Example C13_nonvacuous :
  let E := {| e_opts := {| o_transform_on := false; o_optimize := true; o_merge_props := true;
                           o_object_slots := true; o_pragma := None; o_resolve_type := false; o_npat := 0 |};
              e_unres := 1; e_matches := []; e_html := [s_ "div"]; e_svg := []; e_comments := [] |} in
  let x := Ident (s_ "x") 2 false in
  let attrs := [JAttr (IdName (s_ "id")) (JExprC x); JAttr (IdName (s_ "class")) (JExprC x);
                JAttr (IdName (s_ "title")) (Str (s_ "t") nnull)] in
  r_flags (transform_attrs E attrs false st0) = 10 /\
  r_dyn (transform_attrs E attrs false st0) = Some [s_ "id"].
Proof. vm_compute. split; reflexivity. Qed.

(* ---- the slot hint is computed from the source (last clause of C13) ------------------------ *)
From VJ Require Import Spec.SlotFlag Lemmas.SlotFlagProofs.

(* Lowering an element ORs [dyn el] into every slot flag on the stack - its own (pushed as
   Stable) and those of the enclosing elements - where [dyn el] says that a file-bound identifier
   is a child of [el] or of an element nested in [el] by direct JSX nesting.  Nothing else in
   the lowering writes the stack.  No bound on nesting, attributes or children. *)
Theorem C13_slot_flags_propagate :
  forall (E : env) (n : node) (s : st),
    slot_stack (snd (lower_el E n s))
    = map (fun b => b || (o_optimize (e_opts E) && dyn E n)) (slot_stack s).
Proof. exact lower_el_stack. Qed.
Print Assumptions C13_slot_flags_propagate.
Check C13_slot_flags_propagate :
  forall (E : env) (n : node) (s : st),
    slot_stack (snd (lower_el E n s))
    = map (fun b => b || (o_optimize (e_opts E) && dyn E n)) (slot_stack s).

(* the flag an element's children argument is built with is [dyn el] ... *)
Theorem C13_slot_flag_is_dyn :
  forall (E : env) (n : node) (s : st),
    is_elem n = true ->
    fst (pop_flag E (at_children E n s)) = o_optimize (e_opts E) && dyn E n.
Proof. exact flag_is_dyn. Qed.
Print Assumptions C13_slot_flag_is_dyn.

(* ... and the output of [lower_el] carries that children argument: [build_children] is the body
   of transform_children after the pop, with the popped flag as a parameter; every `_` it emits
   is [hint_prop flag] *)
Theorem C13_children_argument_uses_dyn :
  forall (E : env) nm ats sc ta ch cl (s : st),
    let n := JsxE nm ats sc ta ch cl in
    exists callee tag attrs elems slots hints s',
      let call := mk_call callee
                    ([tag; attrs;
                      fst (build_children E (o_optimize (e_opts E) && dyn E n) elems (is_component E nm) slots s')]
                     ++ hints) in
      fst (lower_el E n s) = call
      \/ exists wd ds, fst (lower_el E n s) = mk_call wd [call; Arr ds].
Proof. exact lower_el_children_arg. Qed.
Print Assumptions C13_children_argument_uses_dyn.

Theorem C13_finish_children_is_pop_then_build :
  forall (E : env) elems ic slots s,
    finish_children E elems ic slots s
    = build_children E (fst (pop_flag E s)) elems ic slots (snd (pop_flag E s)).
Proof. exact finish_children_split. Qed.
Print Assumptions C13_finish_children_is_pop_then_build.

(* the property's wording - a bound identifier among the direct children, or among those of
   elements nested by direct JSX nesting - implies the computed flag: such a slot carries 2 *)
Theorem C13_bound_child_makes_slot_dynamic :
  forall (E : env) (n : node),
    o_optimize (e_opts E) = true -> dyn_text E n = true ->
    hint_prop E (o_optimize (e_opts E) && dyn E n) = [KV (IdName (s_ "_")) (mk_num 2)].
Proof.
  intros E n Ho Hd. rewrite Ho, (dyn_text_dyn E n Hd). unfold hint_prop. rewrite Ho. reflexivity.
Qed.
Print Assumptions C13_bound_child_makes_slot_dynamic.

(* non-vacuity: <A><div><B>{item}</B></div>{x}</A> with item bound: B, and A through the native
   element between them, are dynamic; the lowering really emits `_: 2` twice *)
Example C13_slot_flag_nonvacuous :
  let E := {| e_opts := {| o_transform_on := false; o_optimize := true; o_merge_props := true;
                           o_object_slots := false; o_pragma := None; o_resolve_type := false; o_npat := 0 |};
              e_unres := 1; e_matches := []; e_html := [s_ "div"]; e_svg := []; e_comments := [] |} in
  let item := Ident (s_ "item") 2 false in
  let b := JsxE (Ident (s_ "B") 2 false) [] false nnull [JExprC item] nnull in
  let d := JsxE (Ident (s_ "div") 1 false) [] false nnull [b] nnull in
  let a := JsxE (Ident (s_ "A") 2 false) [] false nnull [d; JExprC (Ident (s_ "x") 1 false)] nnull in
  dyn_text E a = true /\ dyn E a = true
  /\ slot_stack (snd (lower_el E a (set_slot_stack [false] st0))) = [true].
Proof. vm_compute. repeat split; reflexivity. Qed.
