(* C18 - parameter defaults become runtime prop defaults without changing them. Statements only. *)
From VJ Require Import Model.Str Model.Json Model.Ast Model.State Model.Util Model.Types Lemmas.TypesProofs.

(* literals are emitted as written; any other expression through a factory `() => e`;
   a shorthand `{ x }` through `() => x` *)
Theorem C18_static_forms : forall key value k sy c o,
  (lit_prop_name key = Some k -> is_lit value = true -> static_default (KV key value) = Some (k, value))
  /\ (lit_prop_name key = Some k -> is_lit value = false -> static_default (KV key value) = Some (k, mk_arrow [] value))
  /\ static_default (Ident sy c o) = Some (IdName sy, mk_arrow [] (Ident sy c o)).
Proof.
  intros. split; [apply static_default_literal|]. split; [apply static_default_expr|apply static_default_shorthand].
Qed.
Print Assumptions C18_static_forms.

(* a Function-typed prop receives the written value itself, every other type keeps the factory *)
Theorem C18_function_prop : forall v t d,
  unwrap_function_default [Some (s_ "Function")] (mk_arrow [] v) = match v with Block _ _ => mk_arrow [] v | _ => v end
  /\ (sq "Function" t = false -> unwrap_function_default [Some t] d = d).
Proof. intros. split; [apply function_prop_gets_written_value|apply other_prop_keeps_factory]. Qed.
Print Assumptions C18_function_prop.

(* quoted and unquoted spellings of a key match in both directions *)
Theorem C18_key_spellings : forall a w,
  default_matches (IdName a) (Str a w) = true /\ default_matches (Str a w) (IdName a) = true.
Proof. exact default_matches_quoted. Qed.
Print Assumptions C18_key_spellings.

(* a computed identifier key or a spread makes the whole default object dynamic (mergeDefaults) *)
Theorem C18_dynamic_forms : forall sy c o v e ps,
  static_default (KV (Computed (Ident sy c o)) v) = None /\ static_defaults (Spread e :: ps) = None.
Proof. intros. split; reflexivity. Qed.
Print Assumptions C18_dynamic_forms.
