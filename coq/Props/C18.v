(* C18 - placeholder statement file, replaced below *)
From VJ Require Import Model.Str.
Theorem C18_placeholder : True. Proof. exact I. Qed.
Print Assumptions C18_placeholder.
