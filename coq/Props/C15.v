(* C15 - the vnode factory is createVNode unless a pragma names another. Statements only. *)
From VJ Require Import Model.Str Model.Json Model.Ast Model.State Model.Lower Model.Visitor
  Spec.Pragma Spec.OutViews Lemmas.PragmaProofs Lemmas.FrameProofs.

(* the comment scan of the transform recognises exactly the annotation grammar:
   `@jsx`, at least one whitespace character, a non-empty name - for every comment text *)
Theorem C15_annotation_grammar : forall t : str, pragma_of_comment t = annotation_of t.
Proof. exact pragma_of_comment_spec. Qed.
Print Assumptions C15_annotation_grammar.
Check C15_annotation_grammar : forall t : str, pragma_of_comment t = annotation_of t.

(* the pragma in force after the leading comments of the module were read *)
Theorem C15_module_pragma :
  forall E : env, pragma (search_pragmas (e_comments E) st0) = module_annotation (e_comments E).
Proof. exact module_pragma_spec. Qed.
Print Assumptions C15_module_pragma.

(* lowering an element (of any size) never changes it ... *)
Theorem C15_pragma_stable :
  forall (E : env) (n : node) (s : st), pragma (snd (lower_el E n s)) = pragma s.
Proof. intros E n s. destruct (lower_el_frame E n s) as [H _]. exact H. Qed.
Print Assumptions C15_pragma_stable.

(* ... and the callee of every vnode call is obtained from it: the annotated name, else the
   configured pragma, else the imported createVNode *)
Theorem C15_factory :
  forall (E : env) (s : st), pragma s = module_annotation (e_comments E) ->
    callee_ok (expected_pragma E) (fst (get_pragma E s)) = true.
Proof. exact get_pragma_expected. Qed.
Print Assumptions C15_factory.

Theorem C15_no_createVNode_import :
  forall (E : env) (s : st), expected_pragma E <> None -> pragma s = module_annotation (e_comments E) ->
    imports (snd (get_pragma E s)) = imports s.
Proof. exact get_pragma_import. Qed.
Print Assumptions C15_no_createVNode_import.

Example C15_examples :
  annotation_of (s_ " @jsx h ") = Some (s_ "h")
  /\ annotation_of (s_ "* @jsxImportSource vue ") = None
  /\ annotation_of (s_ "@jsxRuntime classic @jsx  custom more") = Some (s_ "custom")
  /\ annotation_of (s_ "@jsx") = None /\ annotation_of (s_ "@jsxFrag F") = None.
Proof. vm_compute. repeat split; reflexivity. Qed.

(* ---- the whole traversal ---------------------------------------------------------------- *)
From VJ Require Import Model.Types Lemmas.NodeInd Lemmas.VisitPragma Lemmas.IdentityProofs.

(* visiting ANY node - a statement, a function, a class, other JSX, nested to any depth - leaves the
   pragma as the annotation scan set it (the resolveType hooks as hypotheses): every element of the
   module is therefore lowered in a state with the module's pragma, and C15_factory names its callee *)
Theorem C15_pragma_module_wide :
  forall (E : env) (hook_call hook_declarator : node -> st -> node * st),
    (forall n s, pragma (snd (hook_call n s)) = pragma s) ->
    (forall n s, pragma (snd (hook_declarator n s)) = pragma s) ->
    forall (n : node) (m : mode) (s : st),
      pragma (snd (visit E hook_call hook_declarator m n s)) = pragma s.
Proof. intros E hc hd H1 H2 n m s. exact (visit_pragma E hc hd H1 H2 n m s). Qed.
Print Assumptions C15_pragma_module_wide.

Theorem C15_pragma_module_wide_when_off :
  forall (E : env), o_resolve_type (e_opts E) = false ->
    forall (n : node) (m : mode) (s : st),
      pragma (snd (visit E (hook_call E) (hook_declarator E) m n s)) = pragma s.
Proof.
  intros E Hoff. apply C15_pragma_module_wide; intros n s.
  - rewrite (hook_call_off E Hoff). reflexivity.
  - rewrite (hook_declarator_off E Hoff). reflexivity.
Qed.
Print Assumptions C15_pragma_module_wide_when_off.
