(* Whole attribute lists, without mergeProps: the props object lists what the attributes denote,
   in source order (C01, C11). *)
From VJ Require Import Model.Str Model.Json Model.Ast Model.State Model.Util Model.Text
  Model.Directive Model.Lower Spec.JsxText Spec.OutViews Spec.Site Spec.SiteCheck Lemmas.StrLemmas
  Lemmas.TextProofs Lemmas.SiteProofs.

Section Attrs.
Variable E : env.
Variable ic : bool.
Variable tag : node.
Variable all : list node.

(* attributes whose lowering only appends props: plain attributes and spreads *)
Definition simple_attr (x : node) : Prop :=
  match x with
  | JAttr name value =>
      wf_attr_name name /\ spec_directive_name name = None
      /\ (exists v, plain_value value = Some v /\ user_value v = true)
      /\ is_ton E name = false
  | Spread _ => True
  | _ => False
  end.

Definition contribs_of (x : node) : list contrib := fst (fst (attr_spec E ic tag all x)).

Lemma simple_step x a :
  o_merge_props (e_opts E) = false -> simple_attr x ->
  exists ps, a_props (attr_step E ic a x) = a_props a ++ ps
             /\ a_margs (attr_step E ic a x) = a_margs a
             /\ a_dirs (attr_step E ic a x) = a_dirs a
             /\ a_slots (attr_step E ic a x) = a_slots a
             /\ map view_prop ps = contribs_of x.
Proof.
  intros MP SA. destruct x; try contradiction SA.
  - (* Spread *)
    destruct (spread_refines_plain E ic tag all x a MP) as [ps [H1 [H2 [H3 [H4 H5]]]]].
    exists ps. repeat split; assumption.
  - (* JAttr *)
    destruct SA as [WF [HN [[v [PV UV]] TON]]].
    destruct (plain_attr_refines E ic tag all x1 x2 v a WF HN PV UV TON) as [H1 [H2 [H3 [_ [H5 [H6 H7]]]]]].
    eexists. split; [exact H1|]. split; [exact H6|]. split; [exact H5|]. split; [exact H7|].
    unfold contribs_of. rewrite H2. cbn [map]. rewrite H3. reflexivity.
Qed.

Lemma simple_fold attrs : forall a,
  o_merge_props (e_opts E) = false -> Forall simple_attr attrs ->
  exists ps, a_props (fold_left (attr_step E ic) attrs a) = a_props a ++ ps
             /\ a_margs (fold_left (attr_step E ic) attrs a) = a_margs a
             /\ a_dirs (fold_left (attr_step E ic) attrs a) = a_dirs a
             /\ a_slots (fold_left (attr_step E ic) attrs a) = a_slots a
             /\ map view_prop ps = flat_map contribs_of attrs.
Proof.
  induction attrs as [|x r IH]; intros a MP FA.
  - exists []. cbn. rewrite app_nil_r. repeat split.
  - inversion FA as [|x' r' SX FR]; subst.
    destruct (simple_step x a MP SX) as [p1 [H1 [H2 [H3 [H4 H5]]]]].
    destruct (IH (attr_step E ic a x) MP FR) as [p2 [G1 [G2 [G3 [G4 G5]]]]].
    cbn [fold_left]. exists (p1 ++ p2).
    rewrite G1, H1, G2, H2, G3, H3, G4, H4. rewrite <- app_assoc.
    repeat split. rewrite map_app, H5, G5. reflexivity.
Qed.

(* the same list read by the property: contributions in source order *)
Lemma simple_no_vmodels attrs : Forall simple_attr attrs -> splice_vmodels attrs false = attrs.
Proof.
  induction attrs as [|x r IH]; intros FA; [reflexivity|].
  inversion FA as [|x' r' SX FR]; subst. cbn [splice_vmodels].
  destruct x; try contradiction SX; try (rewrite (IH FR); reflexivity).
  destruct SX as [WF [HN _]].
  match goal with |- context [match ?n with IdName _ => _ | _ => _ end] => destruct n end;
    try (rewrite (IH FR); reflexivity).
  cbn [negb andb].
  match goal with |- context [sq "v-models" ?k] => destruct (sq "v-models" k) eqn:EK end;
    [|rewrite (IH FR); reflexivity].
  apply str_eqb_eq in EK. subst. vm_compute in HN. discriminate HN.
Qed.

Lemma spec_fold_plain (step : list (list contrib) * list contrib * list adir * option node -> node ->
                              list (list contrib) * list contrib * list adir * option node) attrs :
  Forall (fun a => forall segs run dirs slots,
            exists dirs' slots', step (segs, run, dirs, slots) a = (segs, run ++ contribs_of a, dirs', slots')) attrs ->
  forall segs run dirs slots,
    let '(segs', r', _, _) := fold_left step attrs (segs, run, dirs, slots) in
    segs' = segs /\ r' = run ++ flat_map contribs_of attrs.
Proof.
  induction 1 as [|x r HS Hr IH]; intros segs run dirs slots.
  - cbn. rewrite app_nil_r. split; reflexivity.
  - cbn [fold_left flat_map].
    destruct (HS segs run dirs slots) as [dirs' [slots' EQ]]; rewrite EQ.
    specialize (IH segs (run ++ contribs_of x) dirs' slots').
    destruct (fold_left step r _) as [[[d' r'] ?] ?]. destruct IH as [-> ->].
    rewrite <- app_assoc. split; reflexivity.
Qed.

End Attrs.

(* C01 / C11, without mergeProps: for a list of plain attributes and spreads the props object
   holds exactly what the attributes denote, in source order *)
Theorem attrs_refine_no_merge E ic tag attrs s :
  o_merge_props (e_opts E) = false ->
  Forall (simple_attr E) attrs -> attrs <> [] ->
  exists ps,
    view_contribs (Obj ps) = fst (fst (spec_attrs E ic tag attrs))
    /\ r_attrs (transform_attrs E attrs ic s)
       = match ps with [] => Null | [Spread e] => e | _ => Obj ps end
    /\ r_dirs (transform_attrs E attrs ic s) = []
    /\ r_slots (transform_attrs E attrs ic s) = None.
Proof.
  intros MP FA NE.
  destruct (simple_fold E ic tag attrs attrs (mkAcc [] [] [] [] None false false false false false s) MP FA)
    as [ps [H1 [H2 [H3 [H4 H5]]]]].
  cbn [a_props a_margs a_dirs a_slots app] in *.
  exists ps. split; [|split; [|split]].
  - unfold view_contribs, view_arg. rewrite H5.
    unfold spec_attrs. rewrite (simple_no_vmodels E attrs FA). rewrite MP.
    match goal with |- context [fold_left ?st attrs ?acc] =>
      pose proof (spec_fold_plain E ic tag attrs st attrs) as SF end.
    match type of SF with ?P -> _ => assert (HP : P) end.
    { rewrite Forall_forall. intros a Hin segs run dirs slots. cbv beta iota zeta.
      assert (SA : simple_attr E a) by (rewrite Forall_forall in FA; apply FA; exact Hin).
      unfold contribs_of.
      destruct a; try contradiction SA.
      - (* a spread: inlined without mergeProps *)
        destruct (attr_spec E ic tag attrs (Spread a)) as [[cs ds] sl]. cbn [fst].
        eexists. eexists. reflexivity.
      - (* a plain attribute contributes one key/value entry *)
        destruct SA as [WF [HN [[v [PV UV]] TON]]].
        match goal with |- context [attr_spec E ic tag attrs (JAttr ?n1 ?n2)] =>
          destruct (plain_attr_refines E ic tag attrs n1 n2 v (mkAcc [] [] [] [] None false false false false false s)
                      WF HN PV UV TON) as [_ [H2' _]];
          destruct (attr_spec E ic tag attrs (JAttr n1 n2)) as [[cs ds] sl] end.
        cbn [fst] in *. subst cs. eexists. eexists. reflexivity. }
    specialize (SF HP [] [] [] None).
    match type of SF with context [fold_left ?st attrs ?acc] =>
      destruct (fold_left st attrs acc) as [[[d' r'] dirs'] slots'] end.
    destruct SF as [-> ->]. cbn [fst app].
    unfold close_run. rewrite MP. cbn [app].
    destruct (flat_map (contribs_of E ic tag attrs) attrs); reflexivity.
  - unfold transform_attrs. destruct attrs as [|x r]; [contradiction NE; reflexivity|].
    set (a := fold_left _ _ _) in *.
    unfold final_attrs_expr. rewrite H2, H1.
    destruct ps as [|p [|q r']]; try reflexivity.
    + destruct p; try reflexivity; unfold flush_obj; rewrite MP; reflexivity.
    + unfold flush_obj. rewrite MP. destruct p; reflexivity.
  - unfold transform_attrs. destruct attrs as [|x r]; [contradiction NE; reflexivity|].
    set (a := fold_left _ _ _) in *.
    destruct (final_attrs_expr E a). cbn [r_dirs]. exact H3.
  - unfold transform_attrs. destruct attrs as [|x r]; [contradiction NE; reflexivity|].
    set (a := fold_left _ _ _) in *.
    destruct (final_attrs_expr E a). cbn [r_slots]. exact H4.
Qed.
