(* C17, composition: a grammar of TypeScript types (atoms of the property's table, unions,
   parentheses, optional wrappers, alias chains, interfaces, NonNullable), the JavaScript value
   kinds each denotes ([inh], this framework's reading of the table in the property text), Vue's
   assertType on a list of constructors ([accepts], after runtime-core's validateProp), and the
   theorem that the list the resolver computes for ANY type of the grammar - any nesting depth,
   any width of union, any length of alias chain - accepts every inhabitant.  `any` / `unknown`
   beside other union members is the known finding union_with_any: the theorem excludes it
   ([anyfree]) and [union_with_any_refuted] carries the witness. *)
From Coq Require Import List Bool NArith Lia String.
From VJ Require Import Model.Str Model.Json Model.Ast Model.State Model.Util Model.Types
  Lemmas.StrLemmas Lemmas.TypesProofs.
Import ListNotations.
Local Open Scope list_scope.

(* ---- value kinds and Vue's assertType ---------------------------------------------------- *)
Inductive vkind :=
| KStr | KNum | KBool | KBig | KSym | KFun | KNull | KPlain | KArr | KInst (cls : str).

Definition objlike (k : vkind) : bool :=
  match k with KPlain | KArr | KInst _ => true | _ => false end.

(* one entry of a `type` list: null only matches null; the simple constructors compare
   `typeof`; Object is isObject; Array is isArray; anything else is `instanceof` *)
Definition accept1 (k : vkind) (t : option str) : bool :=
  match t with
  | None => match k with KNull => true | _ => false end
  | Some c =>
      if sq "String" c then match k with KStr => true | _ => false end
      else if sq "Number" c then match k with KNum => true | _ => false end
      else if sq "Boolean" c then match k with KBool => true | _ => false end
      else if sq "BigInt" c then match k with KBig => true | _ => false end
      else if sq "Symbol" c then match k with KSym => true | _ => false end
      else if sq "Function" c then match k with KFun => true | _ => false end
      else if sq "Object" c then objlike k
      else if sq "Array" c then match k with KArr => true | _ => false end
      else match k with KInst n => str_eqb c n | _ => false end
  end.

(* the emitted option: an empty list and the single `null` are `type: null` (no check) *)
Definition accepts (ts : list (option str)) (k : vkind) : bool :=
  match ts with
  | [] => true
  | [None] => true
  | _ => existsb (accept1 k) ts
  end.

Lemma strong_accepts ts k : existsb (accept1 k) ts = true -> accepts ts k = true.
Proof.
  destruct ts as [|[c|] [|y r]]; cbn [accepts]; intros H; try exact H; reflexivity.
Qed.

(* ---- the grammar -------------------------------------------------------------------------- *)
Inductive kw := KwString | KwNumber | KwBoolean | KwObject | KwNull | KwBigint | KwSymbol.

Definition kw_name (k : kw) : String.string :=
  match k with
  | KwString => "string" | KwNumber => "number" | KwBoolean => "boolean" | KwObject => "object"
  | KwNull => "null" | KwBigint => "bigint" | KwSymbol => "symbol"
  end%string.

(* built-in classes whose reference is emitted as the class itself *)
Definition class_names : list String.string :=
  ["Set"; "Map"; "WeakSet"; "WeakMap"; "Date"; "Promise"; "Error"; "RegExp"]%string.

Inductive ty :=
| TKw (k : kw)
| TAny (unknown : bool)                       (* `any` / `unknown` *)
| TLitStr (v : str) (raw : node)
| TLitNum (v : str) (raw : node)
| TLitBool (b : bool)
| TFn (fields : list node)                    (* function type: whatever fields the parser gives it *)
| TCtor (fields : list node)                  (* constructor type *)
| TArray (fields : list node)                 (* T[] *)
| TTuple (fields : list node)
| TArrayRef (params : list node)              (* Array<T> *)
| TFunctionRef                                (* Function *)
| TClass (name : str) (c : N) (params : list node)
| TObjLit (ms : list node)                    (* object literal type *)
| TIface (sym : str) (c : N) (i : node)       (* reference to a declared interface *)
| TParen (t : ty)
| TOptional (t : ty)
| TAlias (sym : str) (c : N) (ps : list node) (t : ty)
| TNonNull (c : N) (t : ty)
| TUnion (ts : list ty).

Definition kwn (s : String.string) : node := kw_type (s_ s).

Fixpoint enc_ty (t : ty) : node :=
  match t with
  | TKw k => kwn (kw_name k)
  | TAny u => kwn (if u then "unknown" else "any")
  | TLitStr v w => gobj "TsLiteralType" [fld "literal" (Str v w)]
  | TLitNum v w => gobj "TsLiteralType" [fld "literal" (Num v w)]
  | TLitBool b => gobj "TsLiteralType" [fld "literal" (Bool b)]
  | TFn fs => gobj "TsFunctionType" fs
  | TCtor fs => gobj "TsConstructorType" fs
  | TArray fs => gobj "TsArrayType" fs
  | TTuple fs => gobj "TsTupleType" fs
  | TArrayRef ps => tref (s_ "Array") 1 ps
  | TFunctionRef => tref (s_ "Function") 1 []
  | TClass n c ps => tref n c ps
  | TObjLit ms => gobj "TsTypeLiteral" [fld "members" (NArr ms)]
  | TIface sym c _ => tref sym c []
  | TParen t => gobj "TsParenthesizedType" [fld "typeAnnotation" (enc_ty t)]
  | TOptional t => gobj "TsOptionalType" [fld "typeAnnotation" (enc_ty t)]
  | TAlias sym c ps _ => tref sym c ps
  | TNonNull c t => tref (s_ "NonNullable") c [enc_ty t]
  | TUnion ts => gobj "TsUnionType" [fld "types" (NArr (map enc_ty ts))]
  end.

(* members of an object type: a call / construct signature makes it callable, anything else
   makes it an object *)
Definition is_callsig (m : node) : bool :=
  is_ty "TsCallSignatureDeclaration" m || is_ty "TsConstructSignatureDeclaration" m.

Definition members_inh (ms : list node) (k : vkind) : bool :=
  (existsb is_callsig ms && match k with KFun => true | _ => false end)
  || (existsb (fun m => negb (is_callsig m)) ms && objlike k).

(* which kinds of value inhabit a type - the table of the property text *)
Fixpoint inh (t : ty) (k : vkind) : bool :=
  match t with
  | TKw KwString => match k with KStr => true | _ => false end
  | TKw KwNumber => match k with KNum => true | _ => false end
  | TKw KwBoolean => match k with KBool => true | _ => false end
  | TKw KwObject => objlike k
  | TKw KwNull => match k with KNull => true | _ => false end
  | TKw KwBigint => match k with KBig => true | _ => false end
  | TKw KwSymbol => match k with KSym => true | _ => false end
  | TAny _ => true
  | TLitStr _ _ => match k with KStr => true | _ => false end
  | TLitNum _ _ => match k with KNum => true | _ => false end
  | TLitBool _ => match k with KBool => true | _ => false end
  | TFn _ | TCtor _ | TFunctionRef => match k with KFun => true | _ => false end
  | TArray _ | TTuple _ | TArrayRef _ => match k with KArr => true | _ => false end
  | TClass n _ _ => match k with KInst m => str_eqb n m | _ => false end
  | TObjLit ms => members_inh ms k
  | TIface _ _ i => members_inh (iface_body i) k
  | TParen t | TOptional t | TAlias _ _ _ t => inh t k
  | TNonNull _ t => inh t k && match k with KNull => false | _ => true end
  | TUnion ts => existsb (fun t => inh t k) ts
  end.

Fixpoint anyfree (t : ty) : bool :=
  match t with
  | TAny _ => false
  | TParen t | TOptional t | TAlias _ _ _ t | TNonNull _ t => anyfree t
  | TUnion ts => forallb anyfree ts
  | _ => true
  end.

Fixpoint depth (t : ty) : nat :=
  match t with
  | TParen t | TOptional t | TAlias _ _ _ t | TNonNull _ t => S (depth t)
  | TUnion ts => S (fold_right (fun t acc => Nat.max (depth t) acc) 0%nat ts)
  | _ => 1
  end.

(* the declarations the type refers to are the ones in the registry: an alias name is bound
   to the encoding of its body, an interface name to its members and is not an alias, a
   built-in name is not declared in the file *)
Section Wf.
Variable E : env.
Variable s : st.

Definition undeclared (n : str) (c : N) : Prop :=
  reg_get n c (aliases s) = None /\ reg_get n c (interfaces s) = None.

Fixpoint wf (t : ty) : Prop :=
  match t with
  | TArrayRef _ => undeclared (s_ "Array") 1
  | TFunctionRef => undeclared (s_ "Function") 1
  | TClass n c _ => undeclared n c /\ mem_str n (map s_ class_names) = true
  | TObjLit ms => ms <> []
  | TIface sym c i =>
      reg_get sym c (aliases s) = None /\ reg_get sym c (interfaces s) = Some i /\ iface_body i <> []
  | TParen t | TOptional t => wf t
  | TAlias sym c _ t => reg_get sym c (aliases s) = Some (enc_ty t) /\ wf t
  | TNonNull c t => undeclared (s_ "NonNullable") c /\ wf t
  | TUnion ts => (fix all (l : list ty) : Prop := match l with [] => True | x :: r => wf x /\ all r end) ts
  | _ => True
  end.

Definition wf_all (l : list ty) : Prop :=
  (fix all (l : list ty) : Prop := match l with [] => True | x :: r => wf x /\ all r end) l.

(* ---- induction principle for the nested grammar ------------------------------------------ *)
Section Ind.
Variable P : ty -> Prop.
Hypothesis Hatom : forall t, (match t with
                              | TParen _ | TOptional _ | TAlias _ _ _ _ | TNonNull _ _ | TUnion _ => False
                              | _ => True end) -> P t.
Hypothesis Hparen : forall t, P t -> P (TParen t).
Hypothesis Hopt : forall t, P t -> P (TOptional t).
Hypothesis Halias : forall sym c ps t, P t -> P (TAlias sym c ps t).
Hypothesis Hnn : forall c t, P t -> P (TNonNull c t).
Hypothesis Hunion : forall ts, Forall P ts -> P (TUnion ts).

Fixpoint ty_ind' (t : ty) : P t :=
  match t with
  | TParen t => Hparen t (ty_ind' t)
  | TOptional t => Hopt t (ty_ind' t)
  | TAlias sym c ps t => Halias sym c ps t (ty_ind' t)
  | TNonNull c t => Hnn c t (ty_ind' t)
  | TUnion ts =>
      Hunion ts ((fix go (l : list ty) : Forall P l :=
                    match l with
                    | [] => Forall_nil P
                    | x :: r => Forall_cons x (ty_ind' x) (go r)
                    end) ts)
  | TKw k => Hatom (TKw k) I
  | TAny u => Hatom (TAny u) I
  | TLitStr v w => Hatom (TLitStr v w) I
  | TLitNum v w => Hatom (TLitNum v w) I
  | TLitBool b => Hatom (TLitBool b) I
  | TFn p => Hatom (TFn p) I
  | TCtor p => Hatom (TCtor p) I
  | TArray e => Hatom (TArray e) I
  | TTuple e => Hatom (TTuple e) I
  | TArrayRef ps => Hatom (TArrayRef ps) I
  | TFunctionRef => Hatom TFunctionRef I
  | TClass n c ps => Hatom (TClass n c ps) I
  | TObjLit ms => Hatom (TObjLit ms) I
  | TIface sym c i => Hatom (TIface sym c i) I
  end.
End Ind.

(* ---- ordered sets ---------------------------------------------------------------------------- *)
Lemma existsb_oset_insert (P : option str -> bool) x l :
  existsb P (oset_insert x l) = existsb P l || (P x).
Proof.
  unfold oset_insert.
  destruct (existsb _ l) eqn:Hex.
  - apply existsb_exists in Hex. destruct Hex as [y [Hin Hy]].
    assert (x = y) as ->.
    { destruct x as [a|], y as [b|]; try discriminate; [|reflexivity].
      apply str_eqb_eq in Hy. subst. reflexivity. }
    destruct (P y) eqn:HP; [|rewrite orb_false_r; reflexivity].
    rewrite orb_true_r. apply existsb_exists. exists y. split; assumption.
  - rewrite existsb_app. cbn [existsb]. rewrite orb_false_r. reflexivity.
Qed.

Lemma existsb_oset_extend (P : option str -> bool) xs l :
  existsb P (oset_extend l xs) = existsb P l || existsb P xs.
Proof.
  revert l. induction xs as [|x r IH]; intros l.
  - cbn. rewrite orb_false_r. reflexivity.
  - unfold oset_extend. cbn [fold_left]. fold (oset_extend (oset_insert x l) r).
    rewrite IH, existsb_oset_insert. cbn [existsb]. rewrite orb_assoc. reflexivity.
Qed.

(* ---- members ------------------------------------------------------------------------------------ *)
Lemma members_runtime_gen (P : option str -> bool) ms acc :
  existsb P (fold_left (fun acc m => if is_callsig m then oset_insert (Some (s_ "Function")) acc
                                     else oset_insert (Some (s_ "Object")) acc) ms acc)
  = existsb P acc
    || (existsb is_callsig ms && P (Some (s_ "Function")))
    || (existsb (fun m => negb (is_callsig m)) ms && P (Some (s_ "Object"))).
Proof.
  revert acc. induction ms as [|m r IH]; intros acc.
  - cbn. rewrite !orb_false_r. reflexivity.
  - cbn [fold_left existsb]. rewrite IH.
    destruct (is_callsig m); rewrite existsb_oset_insert; cbn [negb orb andb];
      destruct (existsb P acc), (P (Some (s_ "Function"))), (P (Some (s_ "Object"))),
               (existsb is_callsig r), (existsb (fun m0 => negb (is_callsig m0)) r); reflexivity.
Qed.

Lemma members_accept ms k :
  members_inh ms k = true -> existsb (accept1 k) (members_runtime ms) = true.
Proof.
  intros H.
  change (members_runtime ms) with
    (fold_left (fun acc m => if is_callsig m then oset_insert (Some (s_ "Function")) acc
                             else oset_insert (Some (s_ "Object")) acc) ms []).
  rewrite (members_runtime_gen (accept1 k) ms []). cbn [existsb orb].
  unfold members_inh in H.
  apply orb_true_iff in H. destruct H as [H|H]; apply andb_true_iff in H; destruct H as [H1 H2].
  - rewrite H1. destruct k; try discriminate. reflexivity.
  - rewrite H1. destruct k; try discriminate; cbn; rewrite orb_true_r; reflexivity.
Qed.

(* ---- the theorem ------------------------------------------------------------------------------------ *)
Definition sound_at (t : ty) : Prop :=
  forall fuel, (depth t <= fuel)%nat -> wf t -> anyfree t = true ->
  exists cs, irt E fuel (enc_ty t) s = (cs, s) /\
             forall k, inh t k = true -> existsb (accept1 k) cs = true.

Definition self_names : list String.string :=
  ["Array"; "Function"; "Object"; "Set"; "Map"; "WeakSet"; "WeakMap"; "Date"; "Promise"; "Error"; "RegExp"]%string.

Lemma self_ref_irt n c ps f :
  undeclared n c -> mem_str n (map s_ self_names) = true ->
  irt E (S f) (tref n c ps) s = ([Some n], s).
Proof.
  intros [Ha Hi] Hm. cbn -[reg_get mem_str]. rewrite Ha, Hi.
  match goal with |- (if mem_str n ?l then _ else _) = _ =>
    assert (Hl : mem_str n l = true); [|rewrite Hl; reflexivity] end.
  apply mem_str_In. apply mem_str_In in Hm. cbn in Hm |- *. tauto.
Qed.

Lemma class_ref_irt n c ps f :
  undeclared n c -> mem_str n (map s_ class_names) = true ->
  irt E (S f) (tref n c ps) s = ([Some n], s).
Proof.
  intros Hu Hm. apply self_ref_irt; [exact Hu|].
  apply mem_str_In. apply mem_str_In in Hm. cbn in Hm |- *. tauto.
Qed.

Lemma nonnull_irt c p f :
  undeclared (s_ "NonNullable") c ->
  irt E (S f) (tref (s_ "NonNullable") c [p]) s =
  let '(ts, s') := irt E f p s in
  (filter (fun t => match t with Some _ => true | None => false end) ts, s').
Proof.
  intros [Ha Hi]. cbn -[reg_get] in Ha, Hi |- *. rewrite Ha, Hi. reflexivity.
Qed.

Lemma class_accepts n m :
  mem_str n (map s_ class_names) = true -> str_eqb n m = true -> accept1 (KInst m) (Some n) = true.
Proof.
  intros Hm He. apply mem_str_In in Hm. cbn in Hm.
  destruct Hm as [<-|[<-|[<-|[<-|[<-|[<-|[<-|[<-|[]]]]]]]]]; cbn -[str_eqb]; exact He.
Qed.

Lemma union_fold (ts : list ty) :
  Forall sound_at ts ->
  forall f acc, (fold_right (fun t a => Nat.max (depth t) a) 0%nat ts <= f)%nat -> wf_all ts -> forallb anyfree ts = true ->
  exists cs, fold_left (fun '(acc, s) t => let '(x, s) := irt E f t s in (oset_extend acc x, s))
                       (map enc_ty ts) (acc, s) = (cs, s) /\
             forall k, (existsb (accept1 k) acc = true \/ existsb (fun t => inh t k) ts = true) ->
                       existsb (accept1 k) cs = true.
Proof.
  induction 1 as [|t r Ht Hr IH]; intros f acc Hd Hw Ha.
  - exists acc. split; [reflexivity|]. intros k [H|H]; [exact H|discriminate].
  - cbn [fold_right] in Hd. destruct Hw as [Hwt Hwr]. cbn [forallb] in Ha.
    apply andb_true_iff in Ha. destruct Ha as [Hat Har].
    destruct (Ht f) as [x [Hx Hacc]]; [lia|exact Hwt|exact Hat|].
    cbn [map fold_left]. rewrite Hx.
    destruct (IH f (oset_extend acc x)) as [cs [Hcs Hk]]; [lia|exact Hwr|exact Har|].
    exists cs. split; [exact Hcs|]. intros k Hor. apply Hk.
    cbn [existsb] in Hor. rewrite existsb_oset_extend.
    destruct Hor as [H|H]; [left; rewrite H; reflexivity|].
    apply orb_true_iff in H. destruct H as [H|H]; [left|right; exact H].
    rewrite (Hacc k H). apply orb_true_r.
Qed.

Theorem irt_sound : forall t, sound_at t.
Proof.
  induction t using ty_ind'; unfold sound_at.
  - (* atoms *)
    intros [|f] Hd Hw Ha; [destruct t; cbn in Hd; try lia; contradiction|].
    destruct t; try contradiction; cbn [anyfree] in Ha; try discriminate.
    + destruct k; (eexists; split; [reflexivity|]); intros [] Hk; try discriminate; reflexivity.
    + eexists; split; [reflexivity|]; intros [] Hk; try discriminate; reflexivity.
    + eexists; split; [reflexivity|]; intros [] Hk; try discriminate; reflexivity.
    + destruct b; (eexists; split; [reflexivity|]); intros [] Hk; try discriminate; reflexivity.
    + eexists; split; [reflexivity|]; intros [] Hk; try discriminate; reflexivity.
    + eexists; split; [reflexivity|]; intros [] Hk; try discriminate; reflexivity.
    + eexists; split; [reflexivity|]; intros [] Hk; try discriminate; reflexivity.
    + eexists; split; [reflexivity|]; intros [] Hk; try discriminate; reflexivity.
    + cbn [wf] in Hw. eexists. split.
      * cbn [enc_ty]. apply self_ref_irt; [exact Hw|reflexivity].
      * intros [] Hk; try discriminate; reflexivity.
    + cbn [wf] in Hw. eexists. split.
      * cbn [enc_ty]. apply self_ref_irt; [exact Hw|reflexivity].
      * intros [] Hk; try discriminate; reflexivity.
    + cbn [wf] in Hw. destruct Hw as [Hu Hm]. exists [Some name]. split.
      * cbn [enc_ty]. apply class_ref_irt; assumption.
      * intros k Hk. cbn [inh] in Hk. destruct k; try discriminate. cbn [existsb].
        rewrite (class_accepts name cls Hm Hk). reflexivity.
    + exists (members_runtime ms). split; [reflexivity|].
      intros k Hk. apply members_accept. exact Hk.
    + cbn [wf] in Hw. destruct Hw as [Hwa [Hwi _]]. exists (members_runtime (iface_body i)). split.
      * cbn [enc_ty]. cbn -[reg_get]. rewrite Hwa, Hwi. reflexivity.
      * intros k Hk. apply members_accept. exact Hk.
  - (* parentheses *)
    intros [|f] Hd Hw Ha; [cbn in Hd; lia|]. cbn [depth] in Hd.
    destruct (IHt f) as [cs [Hcs Hk]]; [lia|exact Hw|exact Ha|].
    exists cs. split; [exact Hcs|exact Hk].
  - (* optional *)
    intros [|f] Hd Hw Ha; [cbn in Hd; lia|]. cbn [depth] in Hd.
    destruct (IHt f) as [cs [Hcs Hk]]; [lia|exact Hw|exact Ha|].
    exists cs. split; [exact Hcs|exact Hk].
  - (* alias *)
    intros [|f] Hd Hw Ha; [cbn in Hd; lia|]. cbn [depth] in Hd. destruct Hw as [Hreg Hw].
    destruct (IHt f) as [cs [Hcs Hk]]; [lia|exact Hw|exact Ha|].
    exists cs. split; [|exact Hk].
    cbn [enc_ty]. rewrite (irt_alias E f sym c ps (enc_ty t) s Hreg). exact Hcs.
  - (* NonNullable *)
    intros [|f] Hd Hw Ha; [cbn in Hd; lia|]. cbn [depth] in Hd. destruct Hw as [[Hua Hui] Hw].
    destruct (IHt f) as [cs [Hcs Hk]]; [lia|exact Hw|exact Ha|].
    exists (filter (fun t => match t with Some _ => true | None => false end) cs). split.
    + cbn [enc_ty]. rewrite (nonnull_irt c (enc_ty t) f (conj Hua Hui)). rewrite Hcs. reflexivity.
    + intros k Hi. cbn [inh] in Hi. apply andb_true_iff in Hi. destruct Hi as [Hi Hnn].
      specialize (Hk k Hi). apply existsb_exists in Hk. destruct Hk as [x [Hin Hx]].
      apply existsb_exists. exists x. split; [|exact Hx].
      apply filter_In. split; [exact Hin|]. destruct x; [reflexivity|].
      destruct k; discriminate.
  - (* union *)
    intros [|f] Hd Hw Ha; [cbn in Hd; lia|]. cbn [depth] in Hd. cbn [anyfree] in Ha.
    destruct (union_fold ts H f [] ltac:(lia) Hw Ha) as [cs [Hcs Hk]].
    exists cs. split.
    + cbn [enc_ty]. cbn -[irt fold_left map]. exact Hcs.
    + intros k Hi. apply Hk. right. exact Hi.
Qed.

Corollary accepts_every_inhabitant t k :
  wf t -> anyfree t = true -> inh t k = true ->
  exists cs, irt E (depth t) (enc_ty t) s = (cs, s) /\ accepts cs k = true.
Proof.
  intros Hw Ha Hi. destruct (irt_sound t (depth t) (le_n _) Hw Ha) as [cs [Hcs Hk]].
  exists cs. split; [exact Hcs|]. apply strong_accepts. apply Hk. exact Hi.
Qed.

End Wf.

(* `any` alone (through any chain of parentheses) is `type: null`: no check at all *)
Lemma any_alone E s u f k : accepts (fst (irt E (S f) (enc_ty (TAny u)) s)) k = true.
Proof. destruct u; reflexivity. Qed.

(* the known finding: `string | any` admits a number, the emitted [String, null] rejects it *)
Definition any_witness : ty := TUnion [TKw KwString; TAny false].
Lemma union_with_any_refuted :
  inh any_witness KNum = true /\
  accepts (fst (irt E_dummy 5 (enc_ty any_witness) st0)) KNum = false.
Proof. split; vm_compute; reflexivity. Qed.

(* non-vacuity: a nested type that meets every hypothesis *)
Definition inhab_example : ty :=
  TUnion [TParen (TUnion [TKw KwString; TKw KwNull]); TNonNull 1 (TUnion [TKw KwNumber; TKw KwNull]);
          TClass (s_ "Date") 1 []; TArray [fld "elemType" nnull]; TObjLit [gobj "TsPropertySignature" []]].
Lemma inhab_example_ok :
  wf st0 inhab_example /\ anyfree inhab_example = true /\ inh inhab_example (KInst (s_ "Date")) = true
  /\ inh inhab_example KNull = true.
Proof. repeat split; try discriminate; vm_compute; reflexivity. Qed.
