(* C09: a module without JSX (and without resolveType) is returned unchanged, nothing added. *)
From Coq Require Import Lia.
From VJ Require Import Model.Str Model.Json Model.Ast Model.State Model.Util Model.Lower
  Model.Visitor Model.Types Spec.Plain Lemmas.NodeInd.

Section Identity.
Variable E : env.
Hypothesis Hrt : o_resolve_type (e_opts E) = false.

Local Notation V := (visit E (hook_call E) (hook_declarator E)).

(* the state is untouched except for the recorded defineComponent binding *)
Definition same_but_dc (s s' : st) : Prop := set_define_component None s = set_define_component None s'.

Lemma same_refl s : same_but_dc s s. Proof. reflexivity. Qed.
Lemma same_trans a b c : same_but_dc a b -> same_but_dc b c -> same_but_dc a c.
Proof. unfold same_but_dc. congruence. Qed.

Lemma same_set_assign v s s' : same_but_dc s s' -> same_but_dc (set_assign_left v s) (set_assign_left v s').
Proof. unfold same_but_dc. destruct s, s'. cbn. intros H. inversion H. reflexivity. Qed.

Lemma same_assign_left s s' : same_but_dc s s' -> assign_left s = assign_left s'.
Proof. unfold same_but_dc. destruct s, s'. cbn. intros H. inversion H. reflexivity. Qed.

Lemma set_assign_back s : same_but_dc s (set_assign_left (assign_left s) s).
Proof. unfold same_but_dc. destruct s. reflexivity. Qed.

Lemma hook_call_off n s : hook_call E n s = (n, s).
Proof. unfold hook_call. rewrite Hrt. reflexivity. Qed.
Lemma hook_declarator_off n s : hook_declarator E n s = (n, s).
Proof. unfold hook_declarator. rewrite Hrt. reflexivity. Qed.
Lemma collect_off m s : collect_ts_decls E subs m s = s.
Proof. unfold collect_ts_decls. rewrite Hrt. reflexivity. Qed.

Lemma post_import_same n s : same_but_dc s (post_import n s).
Proof.
  unfold post_import.
  repeat match goal with
         | |- context [match ?x with _ => _ end] => destruct x
         end; try apply same_refl; unfold same_but_dc; destruct s; reflexivity.
Qed.

Lemma leave_enter_same s s1 : same_but_dc (enter_scope s) s1 -> same_but_dc s (leave_scope s s1).
Proof.
  unfold same_but_dc, enter_scope, leave_scope. destruct s, s1. cbn. intros H. inversion H. reflexivity.
Qed.

Lemma pending_nil s s1 : same_but_dc (enter_scope s) s1 -> pending_decls s1 = [] /\ arrow_decls s1 = [].
Proof.
  unfold same_but_dc, enter_scope, pending_decls, arrow_decls. destruct s, s1. cbn.
  intros H. inversion H. subst. split; reflexivity.
Qed.

(* the claim for one node: in every mode *)
Definition Idn (n : node) : Prop :=
  jsx_free n = true -> forall m s, exists s', V m n s = (n, s') /\ same_but_dc s s'.

Lemma visit_list_id l :
  Forall Idn l -> forallb jsx_free l = true ->
  forall m s, exists s', visit_list_with V m l s = (l, s') /\ same_but_dc s s'.
Proof.
  induction 1 as [|x r Hx Hr IH]; intros Hf m s; [exists s; split; reflexivity|].
  cbn [forallb] in Hf. apply andb_true_iff in Hf. destruct Hf as [Hfx Hfr].
  destruct (Hx Hfx m s) as [s1 [E1 S1]]. destruct (IH Hfr m s1) as [s2 [E2 S2]].
  exists s2. cbn [visit_list_with]. rewrite E1, E2. split; [reflexivity|eapply same_trans; eassumption].
Qed.

Lemma visit_stmts_id l :
  Forall Idn l -> forallb jsx_free l = true ->
  forall s, exists s', visit_stmts_with V l s = (l, s') /\ same_but_dc s s'.
Proof.
  intros Hl Hf s. unfold visit_stmts_with.
  destruct (visit_list_id l Hl Hf MExpr (enter_scope s)) as [s1 [E1 S1]].
  rewrite E1. destruct (pending_nil _ _ S1) as [Hp _]. rewrite Hp.
  exists (leave_scope s s1). split; [reflexivity|apply leave_enter_same; exact S1].
Qed.

Ltac jfree H :=
  unfold jsx_free in H; cbn [all_sub is_jsx_node negb andb] in H; rewrite ?all_sub_list in H;
  fold jsx_free in H;
  repeat match type of H with
         | (_ && _) = true => let H1 := fresh H in apply andb_true_iff in H; destruct H as [H H1]
         end.

(* one child [x], any mode; the freeness hypothesis is found by shape *)
Ltac child Hc x m s :=
  let s1 := fresh "s" in let E1 := fresh "E" in let S1 := fresh "S" in
  match goal with
  | Hf : all_sub _ x = true |- _ => destruct (Hc Hf m s) as [s1 [E1 S1]]; rewrite E1
  | Hf : jsx_free x = true |- _ => destruct (Hc Hf m s) as [s1 [E1 S1]]; rewrite E1
  end.
Ltac lst Hl l m s :=
  let s1 := fresh "s" in let E1 := fresh "E" in let S1 := fresh "S" in
  match goal with
  | Hf : forallb _ l = true |- _ => destruct (visit_list_id l Hl Hf m s) as [s1 [E1 S1]]; rewrite E1
  end.
Ltac fin := eexists; split; [reflexivity|repeat (first [eassumption|eapply same_trans; [eassumption|]])].

Theorem visit_identity : forall n, Idn n.
Proof.
  apply node_ind'; unfold Idn;
    try (intros; eexists; split; [reflexivity|apply same_refl]).
  - (* NArr *)
    intros l Hl Hf m s. jfree Hf.
    destruct m;
      try (destruct (visit_list_id l Hl Hf MExpr s) as [s' [E1 S1]]; exists s'; cbn [visit]; rewrite E1;
           split; [reflexivity|exact S1]).
    destruct (visit_stmts_id l Hl Hf s) as [s' [E1 S1]]. exists s'. cbn [visit]. rewrite E1.
    split; [reflexivity|exact S1].
  - (* NObj *)
    intros l Hl Hf m s.
    assert (Hk : forallb jsx_free l = true).
    { unfold jsx_free in Hf. cbn [all_sub] in Hf. rewrite all_sub_list in Hf.
      apply andb_true_iff in Hf. destruct Hf as [_ Hf]. exact Hf. }
    cbn [visit].
    destruct (sq "SwitchCase" (ntype (NObj l))).
    + destruct (visit_list_id l Hl Hk MSwitch s) as [s' [E1 S1]]. exists s'. rewrite E1.
      split; [reflexivity|exact S1].
    + destruct (visit_list_id l Hl Hk MExpr s) as [s' [E1 S1]]. rewrite E1.
      destruct (sq "ImportDeclaration" (ntype (NObj l))).
      { eexists. split; [reflexivity|]. eapply same_trans; [exact S1|apply post_import_same]. }
      destruct (sq "VariableDeclarator" (ntype (NObj l))).
      { rewrite hook_declarator_off. exists s'. split; [reflexivity|exact S1]. }
      exists s'. split; [reflexivity|exact S1].
  - (* Field *)
    intros k v Hv Hf m s. jfree Hf. cbn [visit].
    child Hv v (match m with MSwitch => if sq "consequent" k then MStmts else MExpr | _ => MExpr end) s. fin.
  - (* BIdent *)
    intros sy c o t Ht Hf m s. jfree Hf. cbn [visit]. child Ht t MExpr s. fin.
  - (* Arr *)
    intros l Hl Hf m s. jfree Hf. cbn [visit]. lst Hl l MExpr s. fin.
  - (* Elem *)
    intros sp e He Hf m s. jfree Hf. cbn [visit]. child He e MExpr s. fin.
  - (* Obj *)
    intros l Hl Hf m s. jfree Hf. cbn [visit]. lst Hl l MExpr s. fin.
  - (* KV *)
    intros k v Hk Hv Hf m s. jfree Hf. cbn [visit]. child Hk k MExpr s. child Hv v MExpr s0. fin.
  - (* Computed *)
    intros e He Hf m s. jfree Hf. cbn [visit]. child He e MExpr s. fin.
  - (* Spread *)
    intros e He Hf m s. jfree Hf. cbn [visit]. child He e MExpr s. fin.
  - (* Call *)
    intros sy c f a t Hf0 Ha Ht Hf m s. jfree Hf. cbn [visit]. child Hf0 f MExpr s. lst Ha a MExpr s0.
    rewrite hook_call_off. fin.
  - (* Arrow *)
    intros c ps b a g tp rt Hps Hb Htp Hrt' Hf m s. jfree Hf. cbn [visit].
    lst Hps ps MExpr s.
    match goal with
    | Hfb : all_sub _ b = true |- _ => destruct (Hb Hfb MExpr (enter_scope s0)) as [s2 [E2 S2]]; rewrite E2
    end.
    destruct (pending_nil _ _ S2) as [_ Hp]. rewrite Hp.
    eexists. split; [reflexivity|].
    eapply same_trans; [eassumption|apply leave_enter_same; exact S2].
  - (* Assign *)
    intros o l r Hl Hr Hf m s. jfree Hf. cbn [visit].
    assert (Hdef : exists s', (let '(l', s0) := V MExpr l s in
                               let '(r', s1) := V MExpr r s0 in (Assign o l' r', s1)) = (Assign o l r, s')
                              /\ same_but_dc s s').
    { child Hl l MExpr s. child Hr r MExpr s0. fin. }
    destruct l; try exact Hdef.
    (* the assignment target is recorded while the operands are visited, then restored *)
    match goal with
    | Hfl : all_sub _ (BIdent ?sy ?c ?oo ?t) = true |- _ =>
        destruct (Hl Hfl MExpr (set_assign_left (Some sy) s)) as [s1 [E1 S1]]; rewrite E1
    end.
    child Hr r MExpr s1.
    eexists. split; [reflexivity|].
    match goal with S2 : same_but_dc s1 ?s2 |- _ =>
      pose proof (same_trans _ _ _ S1 S2) as S12;
      pose proof (same_set_assign (assign_left s) _ _ S12) as S3 end.
    eapply same_trans; [|exact S3].
    unfold same_but_dc. destruct s. reflexivity.
  - (* Paren *)
    intros e He Hf m s. jfree Hf. cbn [visit]. child He e MExpr s. fin.
  - (* Cond *)
    intros t c a Ht Hc Ha Hf m s. jfree Hf. cbn [visit].
    child Ht t MExpr s. child Hc c MExpr s0. child Ha a MExpr s1. fin.
  - (* Bin *)
    intros o l r Hl Hr Hf m s. jfree Hf. cbn [visit]. child Hl l MExpr s. child Hr r MExpr s0. fin.
  - (* Unary *)
    intros o a Ha Hf m s. jfree Hf. cbn [visit]. child Ha a MExpr s. fin.
  - (* Member *)
    intros o p Ho Hp Hf m s. jfree Hf. cbn [visit]. child Ho o MExpr s. child Hp p MExpr s0. fin.
  - (* Block *)
    intros c l Hl Hf m s. jfree Hf. cbn [visit].
    match goal with Hfl : forallb _ l = true |- _ => destruct (visit_stmts_id l Hl Hfl s) as [s' [E1 S1]] end.
    rewrite E1. exists s'. split; [reflexivity|exact S1].
  - (* JsxE *) intros. discriminate.
  - (* JsxF *) intros. discriminate.
  - (* JAttr *) intros. discriminate.
  - (* JExprC *) intros. discriminate.
  - (* JSpreadChild *) intros. discriminate.
Qed.

(* the whole module *)
Lemma module_items_free kt ty kb items interp :
  jsx_free (NObj [Field kt ty; Field kb (NArr items); interp]) = true -> forallb jsx_free items = true.
Proof.
  intros Hf. unfold jsx_free in *. cbn [all_sub is_jsx_node negb andb] in Hf. rewrite ?all_sub_list in Hf.
  repeat match type of Hf with (_ && _) = true => apply andb_true_iff in Hf; destruct Hf as [? Hf] end.
  repeat match goal with H : (_ && _) = true |- _ => apply andb_true_iff in H; destruct H end.
  assumption.
Qed.

Lemma search_pragmas_clean g s :
  imports s = [] /\ ton_helper s = false /\ slot_helper s = false /\ inj_vars s = [] /\ inj_consts s = [] ->
  let s' := search_pragmas g s in
  imports s' = [] /\ ton_helper s' = false /\ slot_helper s' = false /\ inj_vars s' = [] /\ inj_consts s' = [].
Proof.
  unfold search_pragmas. revert s. induction g as [|x r IH]; intros s H; [exact H|].
  cbn [fold_left]. apply IH. destruct (pragma_of_group x); [destruct s; exact H|exact H].
Qed.

Lemma finish_module_clean items s :
  imports s = [] -> ton_helper s = false -> slot_helper s = false -> inj_vars s = [] -> inj_consts s = [] ->
  fst (finish_module items s) = items.
Proof.
  intros Hi Ht Hsl Hv Hc. unfold finish_module.
  destruct s; cbn in *; subst. reflexivity.
Qed.

Theorem module_identity m :
  jsx_free m = true ->
  fst (transform_module E (hook_call E) (hook_declarator E) (collect_ts_decls E subs) m) = m.
Proof.
  intros Hf. unfold transform_module.
  repeat match goal with
         | |- fst (match ?x with _ => _ end) = _ => is_var x; destruct x; try reflexivity
         end.
  rewrite collect_off.
  match goal with |- context [visit_list_with _ _ ?l ?s0] =>
    pose proof (module_items_free _ _ _ _ _ Hf) as Hitems;
    assert (Hl : Forall Idn l) by (apply Forall_forall; intros x _; apply visit_identity);
    destruct (visit_list_id l Hl Hitems MExpr s0) as [s1 [E1 S1]]; rewrite E1;
    pose proof (search_pragmas_clean (e_comments E) st0) as Hs0;
    cbv zeta in Hs0;
    assert (Hc0 : imports st0 = [] /\ ton_helper st0 = false /\ slot_helper st0 = false
                  /\ inj_vars st0 = [] /\ inj_consts st0 = []) by (repeat split; reflexivity);
    specialize (Hs0 Hc0);
    assert (Hs1 : imports s1 = [] /\ ton_helper s1 = false /\ slot_helper s1 = false
                  /\ inj_vars s1 = [] /\ inj_consts s1 = [])
      by (unfold same_but_dc in S1; destruct (search_pragmas (e_comments E) st0), s1; cbn in *;
          inversion S1; subst; exact Hs0);
    destruct Hs1 as [Hi [Ht [Hsl [Hv Hc]]]];
    pose proof (finish_module_clean l s1 Hi Ht Hsl Hv Hc) as Hfin;
    destruct (finish_module l s1) as [items' s2]; cbn [fst] in *; subst items'; reflexivity
  end.
Qed.

End Identity.
