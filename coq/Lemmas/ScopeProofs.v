(* C06: where the names the transform introduces are recorded and where they are declared. *)
From Coq Require Import Lia.
From VJ Require Import Model.Str Model.Json Model.Ast Model.State Model.Util Model.Text
  Model.Directive Model.Lower Model.Visitor Lemmas.NodeInd Lemmas.StrLemmas Lemmas.GrowProofs.

(* a helper identifier is only ever produced by [import_from_vue], which records the import *)
Lemma import_records name s :
  fst (import_from_vue name s) = mk_ident (95 :: s_ name) (helper_ctx (s_ name))
  /\ mem_str (s_ name) (imports (snd (import_from_vue name s))) = true.
Proof. split; [reflexivity|]. destruct s; cbn. apply mem_set_insert_same. Qed.
Arguments import_records _%string_scope _.

(* a temporary for a slot value is declared (`let`) in the pending list, under a context no
   other identifier has *)
Lemma slot_ident_declared s :
  let '(id, s') := generate_unique_slot_ident s in
  exists sym, id = mk_ident sym (temp_ctx (fresh s))
              /\ In (mk_declarator (mk_bident sym (temp_ctx (fresh s))) nnull) (inj_vars s')
              /\ fresh s' = (fresh s + 1)%N.
Proof.
  unfold generate_unique_slot_ident, fresh_ident.
  eexists. split; [reflexivity|]. split; [|destruct s; reflexivity].
  destruct s; cbn -[N.add]. apply in_or_app. right. left. reflexivity.
Qed.

(* a captured copy of a reassigned identifier is declared (`const`) with an initialiser that
   reads the original *)
Lemma capture_declared lft elems : forall s,
  let '(elems', s') := build_iife_elems lft elems s in
  Forall2 (fun x x' => x' = x
                       \/ exists sym c o ctx, x = Elem false (Ident sym c o)
                                             /\ x' = Elem false (mk_ident (95 :: sym) ctx)
                                             /\ In (mk_capture (Ident sym c o) ctx sym) (inj_consts s'))
          elems elems'.
Proof.
  induction elems as [|x r IH]; intros s; [constructor|].
  assert (Hdef : forall s0,
            let '(elems', s') := (let '(r', s1) := build_iife_elems lft r s0 in (x :: r', s1)) in
            Forall2 (fun x x' => x' = x
                       \/ exists sym c o ctx, x = Elem false (Ident sym c o)
                                             /\ x' = Elem false (mk_ident (95 :: sym) ctx)
                                             /\ In (mk_capture (Ident sym c o) ctx sym) (inj_consts s'))
                    (x :: r) elems').
  { intros s0. specialize (IH s0). destruct (build_iife_elems lft r s0) as [r' s1].
    constructor; [left; reflexivity|exact IH]. }
  cbn [build_iife_elems]. destruct x; try apply Hdef.
  match goal with |- context [Elem ?b ?e] => destruct b; [apply Hdef|destruct e; try apply Hdef] end.
  match goal with |- context [if ?c then _ else _] => destruct c end; [|apply Hdef].
  match goal with |- context [fresh_ident ?sy s] => destruct (fresh_ident sy s) as [[nm0 ctx0] s1] eqn:EF end.
  match goal with |- context [build_iife_elems lft r ?s2] =>
    specialize (IH s2); pose proof (grow_build_iife_elems lft r s2) as G;
    destruct (build_iife_elems lft r s2) as [r' s3] eqn:EB end.
  cbn [snd] in G. destruct G as (_ & _ & [l [GC _]] & _).
  constructor; [|exact IH].
  right. unfold fresh_ident in EF. injection EF as <- <- <-.
  do 4 eexists. split; [reflexivity|]. split; [reflexivity|].
  rewrite GC. destruct s; cbn. apply in_or_app. left. apply in_or_app. right. left. reflexivity.
Qed.

Section Drain.
Variable E : env.
Variable hook_call hook_declarator : node -> st -> node * st.
Variable rec : mode -> node -> st -> node * st.

(* a statement list: what is pending when its last statement has been visited is declared at
   its head; it starts with nothing pending and leaves the enclosing lists' pending
   declarations (and slot counter) as it found them *)
Lemma stmts_drain stmts s :
  let '(out, s') := visit_stmts_with rec stmts s in
  exists stmts' s_end,
    visit_list_with rec MExpr stmts (enter_scope s) = (stmts', s_end)
    /\ out = pending_decls s_end ++ stmts'
    /\ inj_vars (enter_scope s) = [] /\ inj_consts (enter_scope s) = []
    /\ inj_vars s' = inj_vars s /\ inj_consts s' = inj_consts s /\ slot_counter s' = slot_counter s.
Proof.
  unfold visit_stmts_with.
  destruct (visit_list_with rec MExpr stmts (enter_scope s)) as [stmts' s_end] eqn:EV.
  exists stmts', s_end. split; [reflexivity|]. split; [reflexivity|].
  destruct s, s_end; cbn. repeat split.
Qed.

(* every pending `let` / `const` is emitted by [pending_decls] *)
Lemma pending_all s d :
  In d (inj_vars s) \/ In d (inj_consts s) ->
  exists decl kind ds, In decl (pending_decls s) /\ decl = mk_var_decl kind ds /\ In d ds.
Proof.
  unfold pending_decls. intros [H|H].
  - destruct (inj_vars s) as [|v vs] eqn:EV; [contradiction|].
    exists (mk_var_decl "let" (v :: vs)), "let"%string, (v :: vs).
    split; [apply in_or_app; left; left; reflexivity|]. split; [reflexivity|exact H].
  - destruct (inj_consts s) as [|v vs] eqn:EV; [contradiction|].
    exists (mk_var_decl "const" (v :: vs)), "const"%string, (v :: vs).
    split; [apply in_or_app; right; left; reflexivity|]. split; [reflexivity|exact H].
Qed.

End Drain.

(* the module: every requested helper is imported from 'vue', once, at the top *)
Lemma module_imports items s :
  let '(items', s') := finish_module items s in
  (forall x, mem_str x (imports s) = true -> mem_str x (imports s') = true)
  /\ match imports s' with
     | [] => True
     | names => exists rest, items' = mk_import (map mk_import_spec names) "vue"%string :: rest
     end.
Proof.
  unfold finish_module.
  set (items1 := match inj_consts s with [] => items | cs => mk_var_decl "const" cs :: items end).
  set (s1 := set_inj_consts [] s).
  assert (I1 : imports s1 = imports s) by (destruct s; reflexivity).
  destruct (match inj_vars s1 with
            | [] => (items1, s1)
            | vs => (mk_var_decl "let" vs :: items1, set_slot_counter 1 (set_inj_vars [] s1))
            end) as [items2 s2] eqn:E2.
  assert (I2 : imports s2 = imports s).
  { destruct (inj_vars s1); injection E2 as <- <-; [exact I1|]. rewrite <- I1. destruct s1; reflexivity. }
  assert (SH : slot_helper s2 = slot_helper s2) by reflexivity.
  destruct (slot_helper s2).
  - destruct (import_from_vue "isVNode" s2) as [isv s3] eqn:E3.
    destruct (fresh_ident (s_ "s") s3) as [[x ctx] s4] eqn:E4.
    assert (I3 : forall y, mem_str y (imports s) = true -> mem_str y (imports s4) = true).
    { intros y Hy. unfold fresh_ident in E4. injection E4 as _ _ <-.
      unfold import_from_vue in E3. injection E3 as _ <-.
      destruct s2; cbn in *. subst. apply mem_set_insert_keep. exact Hy. }
    assert (T : ton_helper s4 = ton_helper s4) by reflexivity.
    split; [exact I3|].
    destruct (imports s4) eqn:EI; [exact I|].
    destruct (ton_helper s4); eexists; reflexivity.
  - split; [intros y Hy; rewrite I2; exact Hy|].
    destruct (imports s2) eqn:EI; [exact I|].
    destruct (ton_helper s2); eexists; reflexivity.
Qed.
