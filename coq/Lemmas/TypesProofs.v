(* C16-C20: laws of the type resolver and of the option injection. *)
From Coq Require Import Lia.
From VJ Require Import Model.Str Model.Json Model.Ast Model.State Model.Util Model.Types
  Lemmas.StrLemmas Lemmas.NodeInd.

Section Laws.
Variable E : env.

(* ---- the registry sees every declaration of the module, wherever it stands ------------ *)
Lemma reg_update_get sym c f l : reg_get sym c (reg_update sym c f l) = Some (f (reg_get sym c l)).
Proof.
  induction l as [|[[k c'] v] r IH]; cbn.
  - rewrite str_eqb_refl, N.eqb_refl. reflexivity.
  - destruct (str_eqb k sym && N.eqb c c') eqn:Ek; cbn; rewrite Ek; [reflexivity|exact IH].
Qed.

Lemma reg_update_other sym c f l sym' c' :
  (str_eqb sym sym' && N.eqb c c') = false ->
  reg_get sym' c' (reg_update sym c f l) = reg_get sym' c' l.
Proof.
  intros Hne. induction l as [|[[k c0] v] r IH]; cbn.
  - assert (H : (str_eqb sym sym' && N.eqb c' c) = false).
    { rewrite N.eqb_sym. exact Hne. }
    rewrite H. reflexivity.
  - destruct (str_eqb k sym && N.eqb c c0) eqn:Ek; cbn.
    + apply andb_true_iff in Ek. destruct Ek as [E1 E2]. apply str_eqb_eq in E1. apply N.eqb_eq in E2. subst.
      assert (H : (str_eqb sym sym' && N.eqb c' c0) = false) by (rewrite N.eqb_sym; exact Hne).
      rewrite H. reflexivity.
    + destruct (str_eqb k sym' && N.eqb c' c0); [reflexivity|exact IH].
Qed.

Definition alias_decl (n : node) (sym : str) (c : N) (ty : node) : Prop :=
  is_ty "TsTypeAliasDeclaration"%string n = true /\ is_ty "TsInterfaceDeclaration"%string n = false
  /\ tf "id"%string n = Ident sym c false /\ tf "typeAnnotation"%string n = ty.

Lemma register_alias n sym c ty s :
  alias_decl n sym c ty -> reg_get sym c (aliases (register_ts_decl n s)) = Some ty.
Proof.
  intros [H1 [H2 [H3 H4]]]. unfold register_ts_decl. rewrite H2, H1, H3. 
  destruct s; cbn. rewrite reg_update_get. rewrite H4. reflexivity.
Qed.

Lemma register_keeps_alias n s sym c :
  reg_get sym c (aliases s) <> None -> reg_get sym c (aliases (register_ts_decl n s)) <> None.
Proof.
  intros H. unfold register_ts_decl.
  destruct (is_ty "TsInterfaceDeclaration"%string n).
  { destruct (tf "id"%string n); try exact H; destruct s; exact H. }
  destruct (is_ty "TsTypeAliasDeclaration"%string n); [|exact H].
  destruct (tf "id"%string n) eqn:Eid; try exact H.
  destruct s; cbn in *.
  destruct (str_eqb sym0 sym && N.eqb ctx c) eqn:Ek.
  - apply andb_true_iff in Ek. destruct Ek as [E1 E2]. apply str_eqb_eq in E1. apply N.eqb_eq in E2. subst.
    rewrite reg_update_get. discriminate.
  - rewrite reg_update_other; [exact H|exact Ek].
Qed.

(* every alias declared anywhere in the module is registered before the transformation starts:
   declarations after the call, inside functions, exported - all of them *)
Theorem collect_sees_every_alias m s n sym c ty :
  o_resolve_type (e_opts E) = true -> In n (subs m) -> alias_decl n sym c ty ->
  reg_get sym c (aliases (collect_ts_decls E subs m s)) <> None.
Proof.
  intros Hrt Hin Hd. unfold collect_ts_decls. rewrite Hrt.
  revert s. induction (subs m) as [|x r IH]; intros s; [contradiction|].
  cbn [fold_left]. destruct Hin as [Hx|Hr].
  - subst x.
    assert (G : forall l s0, reg_get sym c (aliases s0) <> None ->
                reg_get sym c (aliases (fold_left (fun s1 n0 => register_ts_decl n0 s1) l s0)) <> None).
    { induction l as [|y l IHl]; intros s0 H0; [exact H0|]. cbn [fold_left]. apply IHl.
      apply register_keeps_alias. exact H0. }
    apply G. rewrite (register_alias n sym c ty s Hd). discriminate.
  - apply IH. exact Hr.
Qed.

(* ---- laws of resolve_type_elements ------------------------------------------------------ *)
Lemma rte_literal f ms s :
  rte E (S f) (gobj "TsTypeLiteral" [fld "members" (NArr ms)]) s = (refine_members ms, s).
Proof. reflexivity. Qed.

Lemma rte_paren f t s :
  rte E (S f) (gobj "TsParenthesizedType" [fld "typeAnnotation" t]) s = rte E f t s.
Proof. reflexivity. Qed.

Lemma rte_intersection2 f a b s :
  rte E (S f) (gobj "TsIntersectionType" [fld "types" (NArr [a; b])]) s =
  let '(x, s1) := rte E f a s in let '(y, s2) := rte E f b s1 in (x ++ y, s2).
Proof.
  cbn. destruct (rte E f a s) as [x s1]. destruct (rte E f b s1) as [y s2]. reflexivity.
Qed.

Definition tref (sym : str) (c : N) (params : list node) : node :=
  gobj "TsTypeReference"
       [fld "typeName" (Ident sym c false);
        fld "typeParams" (match params with
                          | [] => nnull
                          | _ => gobj "TsTypeParameterInstantiation" [fld "params" (NArr params)]
                          end)].

Lemma rte_alias f sym c ps aliased s :
  reg_get sym c (aliases s) = Some aliased ->
  rte E (S f) (tref sym c ps) s = rte E f aliased s.
Proof. intros H. cbn -[reg_get]. rewrite H. reflexivity. Qed.

Definition set_optional (b : bool) (x : relem) : relem :=
  match x with
  | RProp k cm _ t => RProp k cm b t
  | RMethod k cm _ => RMethod k cm b
  | _ => x
  end.

Lemma rte_partial f p s :
  reg_get (s_ "Partial") (e_unres E) (aliases s) = None ->
  reg_get (s_ "Partial") (e_unres E) (interfaces s) = None ->
  rte E (S f) (tref (s_ "Partial") (e_unres E) [p]) s =
  let '(inner, s1) := rte E f p s in (map (set_optional true) inner, s1).
Proof.
  intros H1 H2. cbn -[reg_get] in *. rewrite H1, H2. rewrite N.eqb_refl.
  destruct (rte E f p s) as [inner s1]; try reflexivity; f_equal; apply map_ext; intros x; destruct x; reflexivity.
Qed.

Lemma rte_required f p s :
  reg_get (s_ "Required") (e_unres E) (aliases s) = None ->
  reg_get (s_ "Required") (e_unres E) (interfaces s) = None ->
  rte E (S f) (tref (s_ "Required") (e_unres E) [p]) s =
  let '(inner, s1) := rte E f p s in (map (set_optional false) inner, s1).
Proof.
  intros H1 H2. cbn -[reg_get] in *. rewrite H1, H2. rewrite N.eqb_refl.
  destruct (rte E f p s) as [inner s1]; try reflexivity; f_equal; apply map_ext; intros x; destruct x; reflexivity.
Qed.

Lemma rte_pick f o k s :
  reg_get (s_ "Pick") (e_unres E) (aliases s) = None ->
  reg_get (s_ "Pick") (e_unres E) (interfaces s) = None ->
  rte E (S f) (tref (s_ "Pick") (e_unres E) [o; k]) s =
  let '(keys, s1) := rsus E f k s in
  let '(inner, s2) := rte E f o s1 in (filter (fun x => key_in keys x false) inner, s2).
Proof. intros H1 H2. cbn -[reg_get] in *. rewrite H1, H2. rewrite N.eqb_refl. reflexivity. Qed.

(* an unresolvable reference is reported, never silently dropped *)
Lemma rte_unknown_reported f sym c ps s :
  reg_get sym c (aliases s) = None -> reg_get sym c (interfaces s) = None ->
  N.eqb c (e_unres E) = false ->
  exists d, snd (rte E (S f) (tref sym c ps) s) = set_diags (diags s ++ [d]) s.
Proof. intros H1 H2 H3. cbn -[reg_get]. rewrite H1, H2, H3. eexists. reflexivity. Qed.

(* ---- requiredness: one member, one entry -------------------------------------------------- *)
Lemma ir_step_fresh_prop irs s key computed optional tann k s1 types s2 :
  extract_prop_name key computed s = (k, s1) -> infer_ann E tann s1 = (types, s2) ->
  ir_update k (fun ir => ir) irs = None ->
  ir_step E (irs, s) (RProp key computed optional tann) =
  (irs ++ [mkIr k (oset_extend [] types) (negb optional)], s2).
Proof.
  intros H1 H2 H3. unfold ir_step. rewrite H1, H2.
  assert (G : forall f, ir_update k f irs = None).
  { clear -H3. induction irs as [|x r IH]; intros f; [reflexivity|].
    cbn in *. destruct (pname_eqb k (ir_key x)); [discriminate|].
    destruct (ir_update k (fun ir => ir) r) eqn:Er; [discriminate|]. rewrite (IH eq_refl f). reflexivity. }
  rewrite G. reflexivity.
Qed.

(* ---- defaults (C18) ------------------------------------------------------------------------ *)
Lemma static_default_literal key value k :
  lit_prop_name key = Some k -> is_lit value = true -> static_default (KV key value) = Some (k, value).
Proof. intros H1 H2. cbn. rewrite H1, H2. reflexivity. Qed.

Lemma static_default_expr key value k :
  lit_prop_name key = Some k -> is_lit value = false ->
  static_default (KV key value) = Some (k, mk_arrow [] value).
Proof. intros H1 H2. cbn. rewrite H1, H2. reflexivity. Qed.

Lemma static_default_shorthand sy c o :
  static_default (Ident sy c o) = Some (IdName sy, mk_arrow [] (Ident sy c o)).
Proof. reflexivity. Qed.

Lemma function_prop_gets_written_value v :
  unwrap_function_default [Some (s_ "Function")] (mk_arrow [] v) =
  match v with Block _ _ => mk_arrow [] v | _ => v end.
Proof. reflexivity. Qed.

Lemma other_prop_keeps_factory t d : sq "Function" t = false -> unwrap_function_default [Some t] d = d.
Proof. intros H. unfold unwrap_function_default. rewrite H. reflexivity. Qed.

Lemma default_matches_quoted a w : default_matches (IdName a) (Str a w) = true /\ default_matches (Str a w) (IdName a) = true.
Proof. cbn. rewrite str_eqb_refl. split; reflexivity. Qed.

Lemma computed_ident_is_dynamic sy c o v : static_default (KV (Computed (Ident sy c o)) v) = None.
Proof. reflexivity. Qed.

Lemma spread_is_dynamic e ps : static_defaults (Spread e :: ps) = None.
Proof. reflexivity. Qed.

(* ---- option injection (C20) ------------------------------------------------------------------ *)
Lemma inject_spread_args_untouched a0 e r name v :
  inject_option (a0 :: Elem true e :: r) name v = a0 :: Elem true e :: r.
Proof. reflexivity. Qed.

Lemma inject_user_key_wins a0 props r name v :
  has_ident_key name props = true ->
  inject_option (a0 :: Elem false (Obj props) :: r) name v = a0 :: Elem false (Obj props) :: r.
Proof. intros H. cbn. rewrite H. reflexivity. Qed.

Lemma inject_no_first_argument name v : inject_option [] name v = [].
Proof. reflexivity. Qed.

(* the user's entries are all kept, in order *)
Definition is_spread (p : node) : bool := match p with Spread _ => true | _ => false end.

Lemma insert_cons_nonspread kv p r :
  is_spread p = false -> insert_before_spread kv (p :: r) = p :: insert_before_spread kv r.
Proof. destruct p; try reflexivity. discriminate. Qed.

Lemma insert_cons_spread kv p r : is_spread p = true -> insert_before_spread kv (p :: r) = kv :: p :: r.
Proof. destruct p; try discriminate. reflexivity. Qed.

Lemma insert_keeps_entries kv props :
  exists pre post, props = pre ++ post /\ insert_before_spread kv props = pre ++ kv :: post
                   /\ forallb (fun p => negb (is_spread p)) pre = true
                   /\ match post with [] => True | p :: _ => is_spread p = true end.
Proof.
  induction props as [|p r IH].
  - exists [], []. repeat split.
  - destruct IH as [pre [post [H1 [H2 [H3 H4]]]]].
    destruct (is_spread p) eqn:Esp.
    + exists [], (p :: r). rewrite (insert_cons_spread _ _ _ Esp). repeat split. exact Esp.
    + exists (p :: pre), post. rewrite (insert_cons_nonspread _ _ _ Esp), H2. subst r.
      repeat split; [cbn; rewrite Esp; exact H3|exact H4].
Qed.

(* only Vue's defineComponent: the callee must be that very binding *)
Lemma not_define_component_untouched n s :
  is_define_component_call n s = false -> hook_call E n s = (n, s).
Proof. intros H. unfold hook_call. destruct (o_resolve_type (e_opts E)); [rewrite H|]; reflexivity. Qed.

Lemma resolve_type_off_untouched n s :
  o_resolve_type (e_opts E) = false -> hook_call E n s = (n, s) /\ hook_declarator E n s = (n, s).
Proof. intros H. unfold hook_call, hook_declarator. rewrite H. split; reflexivity. Qed.

Lemma define_component_needs_the_binding sy c0 c f a t s dc :
  define_component s = Some dc -> N.eqb dc c = false ->
  is_define_component_call (Call sy c0 (Ident (s_ "defineComponent") c f) a t) s = false.
Proof. intros H1 H2. cbn. rewrite H1, H2. reflexivity. Qed.

End Laws.

(* ---- runtime types (C17): the model's tables are the ones regenerated from the source --- *)
From VJ Require Import Gen.Tables.

Definition kw_type (k : str) : node := gobj "TsKeywordType" [fld "kind" (NScalar (JStr k))].

Definition E_dummy : env :=
  {| e_opts := {| o_transform_on := false; o_optimize := false; o_merge_props := true; o_object_slots := true;
                  o_pragma := None; o_resolve_type := true; o_npat := 0 |};
     e_unres := 1; e_matches := []; e_html := []; e_svg := []; e_comments := [] |}.

Definition opt_str_eqb (a b : option str) : bool :=
  match a, b with Some x, Some y => str_eqb x y | None, None => true | _, _ => false end.

Definition types_eqb (a b : list (option str)) : bool :=
  Nat.eqb (List.length a) (List.length b) && forallb (fun '(x, y) => opt_str_eqb x y) (combine a b).

(* every keyword of the source table maps, in the model, to the constructor the source names;
   every other keyword (any, unknown, undefined, void, never, intrinsic) means "no check" *)
Lemma keyword_table_agrees :
  forallb (fun '(kw, expected) => types_eqb (fst (irt E_dummy 5 (kw_type kw) st0)) [expected]) keyword_types = true.
Proof. vm_compute. reflexivity. Qed.

Lemma other_keywords_unchecked :
  forallb (fun kw => types_eqb (fst (irt E_dummy 5 (kw_type (s_ kw)) st0)) [None])
          ["any"; "unknown"; "undefined"; "void"; "never"; "intrinsic"]%string = true.
Proof. vm_compute. reflexivity. Qed.

(* every built-in name of the source's match arms: itself / Object / String / Array *)
Definition expected_for (name tag : str) : option (list (option str)) :=
  if sq "self" tag then Some [Some name]
  else if sq "Object" tag then Some [Some (s_ "Object")]
  else if sq "String" tag then Some [Some (s_ "String")]
  else if sq "Array" tag then Some [Some (s_ "Array")]
  else None.       (* NonNullable / Exclude / Extract: parametric, covered by the laws below *)

Lemma builtin_name_table_agrees :
  forallb (fun '(name, tag) =>
             match expected_for name tag with
             | Some ts => types_eqb (fst (irt E_dummy 5 (tref name 1 []) st0)) ts
             | None => true
             end) runtime_type_names = true.
Proof. vm_compute. reflexivity. Qed.

Section Laws2.
Variable E : env.

Lemma irt_union2 f a b s :
  irt E (S f) (gobj "TsUnionType" [fld "types" (NArr [a; b])]) s =
  let '(x, s1) := irt E f a s in let '(y, s2) := irt E f b s1 in (oset_extend (oset_extend [] x) y, s2).
Proof. cbn. destruct (irt E f a s) as [x s1]. destruct (irt E f b s1) as [y s2]. reflexivity. Qed.

Lemma irt_paren f t s :
  irt E (S f) (gobj "TsParenthesizedType" [fld "typeAnnotation" t]) s = irt E f t s.
Proof. reflexivity. Qed.

Lemma irt_alias f sym c ps aliased s :
  reg_get sym c (aliases s) = Some aliased -> irt E (S f) (tref sym c ps) s = irt E f aliased s.
Proof. intros H. cbn -[reg_get]. rewrite H. reflexivity. Qed.

(* Boolean and String keep their declaration order: the set is insertion-ordered *)
Lemma oset_extend_keeps_order (l xs : list (option str)) :
  exists rest, oset_extend l xs = l ++ rest.
Proof.
  revert l. induction xs as [|x r IH]; intros l; [exists []; rewrite app_nil_r; reflexivity|].
  unfold oset_extend. cbn [fold_left]. fold (oset_extend (oset_insert x l) r). unfold oset_insert.
  match goal with |- context [if ?c then _ else _] => destruct c end.
  - apply IH.
  - destruct (IH (l ++ [x])) as [rest Hr]. exists (x :: rest).
    rewrite Hr. rewrite <- app_assoc. reflexivity.
Qed.

(* ---- emits (C19) ------------------------------------------------------------------------- *)
Lemma emits_of_property key cm opt t s name :
  key = Ident name 0 false \/ (exists w, key = Str name w) ->
  emits_of E (RProp key cm opt t) s = ([name], s).
Proof. intros [->|[w ->]]; reflexivity. Qed.

Lemma emits_of_getter k cm t s : emits_of E (RGetter k cm t) s = ([], s).
Proof. reflexivity. Qed.

Lemma rsus_literal f v w s :
  rsus E (S f) (gobj "TsLiteralType" [fld "literal" (Str v w)]) s = ([v], s).
Proof. reflexivity. Qed.

End Laws2.
