(* C08: the lowering of a JSX element whose attribute values are as the parser builds them never
   reaches the `unreachable!` (the [panicked] flag of the model), whatever its nesting; and so
   for the traversal of any grammatical module.  The neutral part (nothing but the attribute
   fold can set the flag) follows the skeleton of Lemmas/FrameProofs.v. *)
From VJ Require Import Model.Str Model.Json Model.Ast Model.State Model.Util Model.Text
  Model.Directive Model.Lower Spec.Plain Lemmas.NodeInd Lemmas.TotalProofs Lemmas.PlainProofs.

(* the flag is left as it was *)
Definition pn (s s' : st) : Prop := panicked s' = panicked s.

Lemma pn_refl s : pn s s. Proof. reflexivity. Qed.
Lemma pn_trans a b c : pn a b -> pn b c -> pn a c.
Proof. unfold pn. congruence. Qed.

Ltac fr := repeat first [apply pn_refl | eapply pn_trans; [eassumption|] | eassumption].

Lemma pn_set_imports v s : pn s (set_imports v s). Proof. destruct s; reflexivity. Qed.
Lemma pn_set_ton v s : pn s (set_ton v s). Proof. destruct s; reflexivity. Qed.
Lemma pn_set_slot_helper v s : pn s (set_slot_helper v s). Proof. destruct s; reflexivity. Qed.
Lemma pn_set_inj_vars v s : pn s (set_inj_vars v s). Proof. destruct s; reflexivity. Qed.
Lemma pn_set_slot_counter v s : pn s (set_slot_counter v s). Proof. destruct s; reflexivity. Qed.
Lemma pn_set_slot_stack v s : pn s (set_slot_stack v s). Proof. destruct s; reflexivity. Qed.
Lemma pn_set_assign_left v s : pn s (set_assign_left v s). Proof. destruct s; reflexivity. Qed.
Lemma pn_set_inj_consts v s : pn s (set_inj_consts v s). Proof. destruct s; reflexivity. Qed.
Lemma pn_set_fresh v s : pn s (set_fresh v s). Proof. destruct s; reflexivity. Qed.
Lemma pn_set_diags v s : pn s (set_diags v s). Proof. destruct s; reflexivity. Qed.
Lemma pn_add_diag m s : pn s (add_diag m s). Proof. destruct s; reflexivity. Qed.

Lemma pn_import name s : pn s (snd (import_from_vue name s)).
Proof. destruct s; reflexivity. Qed.
Lemma pn_fresh sy s : pn s (snd (fresh_ident sy s)).
Proof. destruct s; reflexivity. Qed.

Section NoPanic.
Variable E : env.

Lemma pn_transform_tag name s : pn s (snd (transform_tag E name s)).
Proof.
  unfold transform_tag, import_from_vue.
  repeat match goal with
         | |- context [if ?c then _ else _] => destruct c
         | |- context [match ?x with _ => _ end] => destruct x
         end; try apply pn_refl; try apply pn_set_imports; try apply pn_add_diag.
Qed.

Lemma pn_get_pragma s : pn s (snd (get_pragma E s)).
Proof.
  unfold get_pragma. destruct (pragma s); [apply pn_refl|].
  destruct (o_pragma (e_opts E)); [apply pn_refl|apply pn_import].
Qed.

Lemma pn_build_iife_elems lft elems s : pn s (snd (build_iife_elems lft elems s)).
Proof.
  revert s. induction elems as [|x r IH]; intros s; [apply pn_refl|].
  assert (Hdef : forall s0, pn s0 (snd (let '(r', s1) := build_iife_elems lft r s0 in (x :: r', s1)))).
  { intros s0. pose proof (IH s0) as H. destruct (build_iife_elems lft r s0). exact H. }
  cbn [build_iife_elems]. destruct x; try apply Hdef.
  match goal with |- context [Elem ?b ?e] => destruct b; [apply Hdef|destruct e; try apply Hdef] end.
  match goal with |- context [if ?c then _ else _] => destruct c end; [|apply Hdef].
  match goal with |- context [fresh_ident ?sy ?st0] =>
    pose proof (pn_fresh sy st0) as Hf; destruct (fresh_ident sy st0) as [[nm0 ctx0] s1] end.
  cbn [snd] in Hf.
  match goal with |- context [build_iife_elems lft r ?s2] =>
    pose proof (IH s2) as H; destruct (build_iife_elems lft r s2) end.
  cbn [snd] in *. eapply pn_trans; [exact Hf|]. eapply pn_trans; [apply pn_set_inj_consts|exact H].
Qed.

Lemma pn_build_iife elems s : pn s (snd (build_iife elems s)).
Proof.
  unfold build_iife. destruct (assign_left s); [|apply pn_refl].
  eapply pn_trans; [apply pn_set_assign_left|apply pn_build_iife_elems].
Qed.

Lemma pn_slot_ident s : pn s (snd (generate_unique_slot_ident s)).
Proof.
  unfold generate_unique_slot_ident.
  match goal with |- context [fresh_ident ?sy ?st0] =>
    pose proof (pn_fresh sy st0) as Hf; destruct (fresh_ident sy st0) as [[id ctx0] s1] end.
  cbn [snd] in *. eapply pn_trans; [exact Hf|].
  eapply pn_trans; [apply pn_set_inj_vars|apply pn_set_slot_counter].
Qed.

Lemma pn_finish_children elems ic slots s : pn s (snd (finish_children E elems ic slots s)).
Proof.
  unfold finish_children.
  assert (H0 : pn s (snd (if o_optimize (e_opts E)
                             then match rev (slot_stack s) with
                                  | top :: rest => (top, set_slot_stack (rev rest) s)
                                  | [] => (false, s)
                                  end else (false, s)))).
  { destruct (o_optimize (e_opts E)); [|apply pn_refl].
    destruct (rev (slot_stack s)); [apply pn_refl|apply pn_set_slot_stack]. }
  match goal with |- context [match ?X with pair _ _ => _ end] => destruct X as [flag s0] end.
  cbn [snd] in H0.
  assert (Hdef : pn s (snd (if ic then (wrap_children E elems flag slots, s0) else (Arr elems, s0))))
    by (destruct ic; exact H0).
  destruct elems as [|x [|y r]].
  - exact H0.
  - destruct x; try exact Hdef.
    match goal with |- context [Elem ?b ?e] => destruct b; [exact Hdef|destruct e] end;
      try exact Hdef; try (destruct (is_fn_like _); [exact H0|exact Hdef]); try exact H0.
    + (* identifier *)
      destruct ic; [|exact H0].
      match goal with |- context [build_iife ?es ?st0] =>
        pose proof (pn_build_iife es st0) as Hb; destruct (build_iife es st0) as [elems' s1] end.
      cbn [snd] in Hb.
      destruct (o_object_slots (e_opts E)); cbn [snd]; fr. apply pn_set_slot_helper.
    + (* call *)
      match goal with |- context [Call ?sy _ _ _ _] => destruct sy; [exact Hdef|] end.
      destruct ic; [|exact H0].
      destruct (o_object_slots (e_opts E)); [|exact H0].
      pose proof (pn_slot_ident s0) as Hs.
      destruct (generate_unique_slot_ident s0) as [slot s1]. cbn [snd] in Hs.
      match goal with |- context [build_iife ?es ?st0] =>
        pose proof (pn_build_iife es st0) as Hb; destruct (build_iife es st0) as [elems' s2] end.
      cbn [snd] in *. eapply pn_trans; [exact H0|]. eapply pn_trans; [exact Hs|].
      eapply pn_trans; [apply pn_set_slot_helper|exact Hb].
  - destruct x; try exact Hdef.
    match goal with |- context [Elem ?b ?e] => destruct b; [exact Hdef|destruct e; exact Hdef] end.
Qed.

Lemma pn_resolve_directive dn tag attrs s : pn s (snd (resolve_directive dn tag attrs s)).
Proof.
  unfold resolve_directive, import_from_vue.
  repeat match goal with
         | |- context [if ?c then _ else _] => destruct c
         | |- context [match ?x with _ => _ end] => destruct x
         end; apply pn_set_imports.
Qed.

Lemma pn_build_directives dirs tag attrs s : pn s (snd (build_directives dirs tag attrs s)).
Proof.
  revert s. induction dirs as [|d r IH]; intros s; [apply pn_refl|].
  cbn [build_directives]. destruct d; try apply IH.
  pose proof (pn_resolve_directive name tag attrs s) as H1.
  destruct (resolve_directive name tag attrs s) as [dd s1]. cbn [snd] in H1.
  pose proof (IH s1) as H2. destruct (build_directives r tag attrs s1). cbn [snd] in *. fr.
Qed.

Lemma pn_push s : pn s (push_slot_flag E s).
Proof. unfold push_slot_flag. destruct (o_optimize (e_opts E)); [apply pn_set_slot_stack|apply pn_refl]. Qed.

Lemma pn_mark e s : pn s (mark_dynamic E e s).
Proof. unfold mark_dynamic. destruct (_ && _); [apply pn_set_slot_stack|apply pn_refl]. Qed.


(* ---- elements whose embedded expressions have been visited ([ready]) ------------------------ *)
Definition Np (n : node) : Prop := forall s, ready n = true -> pn s (snd (lower_el E n s)).

Lemma np_children cs : Forall Np cs -> forallb ready cs = true ->
  forall s, pn s (snd (lower_children_with E (lower_el E) cs s)).
Proof.
  induction 1 as [|c r Hc Hr IH]; intros Hrd s; [apply pn_refl|].
  cbn [forallb] in Hrd. apply andb_true_iff in Hrd. destruct Hrd as [Hc1 Hr1].
  cbn [lower_children_with].
  assert (Hrest : forall (o : list node) s0 s1, pn s0 s1 ->
            pn s0 (snd (let '(r', s2) := lower_children_with E (lower_el E) r s1 in (o ++ r', s2)))).
  { intros o s0 s1 H. pose proof (IH Hr1 s1) as H2. destruct (lower_children_with E (lower_el E) r s1).
    cbn [snd] in *. fr. }
  destruct c; try (apply Hrest; apply pn_refl).
  - pose proof (Hc s Hc1) as H. destruct (lower_el E _ s). apply Hrest. exact H.
  - pose proof (Hc s Hc1) as H. destruct (lower_el E _ s). apply Hrest. exact H.
  - match goal with |- context [mark_dynamic E ?e _] => destruct e end;
      try (apply Hrest; apply pn_mark). apply Hrest. apply pn_refl.
  - unfold transform_jsx_text. destruct (transform_text v); [apply Hrest; apply pn_refl|].
    match goal with |- context [import_from_vue ?n ?st0] =>
      pose proof (pn_import n st0) as Hi; destruct (import_from_vue n st0) end.
    apply Hrest. exact Hi.
  - apply Hrest. apply pn_mark.
Qed.

Definition NpA (n : node) : Prop := Np n /\ (forall nm v, n = JAttr nm v -> Np v).

(* element values become expression containers: the list handed to the attribute fold is as
   the parser builds attribute lists *)
Lemma np_attr_values attrs : Forall NpA attrs -> forallb ready_attr attrs = true ->
  forall s, pn s (snd (lower_attr_values_with (lower_el E) attrs s))
            /\ forallb attr_wf (fst (lower_attr_values_with (lower_el E) attrs s)) = true.
Proof.
  induction 1 as [|a r Ha Hr IH]; intros Hrd s; [split; [apply pn_refl|reflexivity]|].
  cbn [forallb] in Hrd. apply andb_true_iff in Hrd. destruct Hrd as [Ha1 Hr1].
  cbn [lower_attr_values_with].
  assert (Hrest : forall (a' : node) s0 s1, pn s0 s1 -> attr_wf a' = true ->
            pn s0 (snd (let '(r', s2) := lower_attr_values_with (lower_el E) r s1 in (a' :: r', s2)))
            /\ forallb attr_wf (fst (let '(r', s2) := lower_attr_values_with (lower_el E) r s1 in (a' :: r', s2))) = true).
  { intros a' s0 s1 H W. destruct (IH Hr1 s1) as [H2 W2]. destruct (lower_attr_values_with (lower_el E) r s1).
    cbn [fst snd forallb] in *. split; [fr|rewrite W, W2; reflexivity]. }
  destruct Ha as [_ Hv].
  destruct a; try discriminate Ha1.
  - (* spread *) apply Hrest; [apply pn_refl|reflexivity].
  - (* attribute *)
    cbn [ready_attr ready] in Ha1.
    assert (WF : forall nm v, value_wf v = true ->
                 match v with JsxE _ _ _ _ _ _ | JsxF _ => false | _ => true end = true -> attr_wf (JAttr nm v) = true).
    { intros nm v H1 H2. cbn [attr_wf]. rewrite H1, H2, orb_true_r. reflexivity. }
    match goal with |- context [JAttr ?nm ?v] => destruct v end; try discriminate Ha1;
      try (apply Hrest; [apply pn_refl|apply WF; reflexivity]).
    + (* no value: null only *)
      match goal with |- context [NScalar ?j] => destruct j end; try discriminate Ha1.
      apply Hrest; [apply pn_refl|apply WF; reflexivity].
    + match goal with |- context [is_directive ?x] => destruct (is_directive x) eqn:ED end.
      * apply Hrest; [apply pn_refl|]. cbn [attr_wf value_wf]. rewrite ED. reflexivity.
      * pose proof (Hv _ _ eq_refl s Ha1) as H. destruct (lower_el E _ s). apply Hrest; [exact H|apply WF; reflexivity].
    + match goal with |- context [is_directive ?x] => destruct (is_directive x) eqn:ED end.
      * apply Hrest; [apply pn_refl|]. cbn [attr_wf value_wf]. rewrite ED. reflexivity.
      * pose proof (Hv _ _ eq_refl s Ha1) as H. destruct (lower_el E _ s). apply Hrest; [exact H|apply WF; reflexivity].
Qed.

Theorem lower_el_np_A : forall n, NpA n.
Proof.
  apply node_ind'; intros; split; try (let x := fresh "sx" in intros x _; apply pn_refl); try (intros ? ? Heq; discriminate Heq).
  - (* JsxE *)
    intros sx Hrd. cbn [ready] in Hrd. rewrite ready_list, ready_attrs_list in Hrd.
    apply andb_true_iff in Hrd. destruct Hrd as [Hrd Hch1]. apply andb_true_iff in Hrd. destruct Hrd as [_ Hat1].
    cbn [lower_el].
    assert (Hats : Forall NpA ats) by assumption.
    destruct (np_attr_values _ Hats Hat1 (push_slot_flag E sx)) as [G1 W1].
    destruct (lower_attr_values_with (lower_el E) ats (push_slot_flag E sx)) as [attrs s1]. cbn [fst snd] in G1, W1.
    pose proof (transform_attrs_no_panic E attrs (is_component E nm) s1 W1) as G2. fold (pn s1 (r_st (transform_attrs E attrs (is_component E nm) s1))) in G2.
    set (ar := transform_attrs E attrs (is_component E nm) s1) in *.
    pose proof (pn_transform_tag nm (r_st ar)) as G3.
    destruct (transform_tag E nm (r_st ar)) as [tag s2]. cbn [snd] in G3.
    assert (Hch : Forall Np ch).
    { match goal with H : Forall NpA ch |- _ => eapply Forall_impl; [|exact H] end. intros x [Hx _]. exact Hx. }
    pose proof (np_children _ Hch Hch1 s2) as G4.
    destruct (lower_children_with E (lower_el E) ch s2) as [elems s3]. cbn [snd] in G4.
    pose proof (pn_finish_children elems (is_component E nm) (r_slots ar) s3) as G5.
    destruct (finish_children E elems (is_component E nm) (r_slots ar) s3) as [chx s4]. cbn [snd] in G5.
    pose proof (pn_get_pragma s4) as G6. destruct (get_pragma E s4) as [callee s5]. cbn [snd] in G6.
    pose proof (pn_push sx) as G0.
    destruct (r_dirs ar) as [|d0 dr].
    + cbn [snd]. fr.
    + match goal with |- context [import_from_vue ?n ?st0] =>
        pose proof (pn_import n st0) as G7; destruct (import_from_vue n st0) as [wd s6] end.
      cbn [snd] in G7.
      pose proof (pn_build_directives (d0 :: dr) nm attrs s6) as G8.
      destruct (build_directives (d0 :: dr) nm attrs s6) as [ds s7]. cbn [snd] in *. fr.
  - (* JsxF *)
    intros sx Hrd. cbn [ready] in Hrd. rewrite ready_list in Hrd. cbn [lower_el].
    pose proof (pn_push sx) as G0.
    pose proof (pn_get_pragma (push_slot_flag E sx)) as G1.
    destruct (get_pragma E (push_slot_flag E sx)) as [callee s1]. cbn [snd] in G1.
    match goal with |- context [import_from_vue ?n ?st0] =>
      pose proof (pn_import n st0) as G2; destruct (import_from_vue n st0) as [frag s2] end.
    cbn [snd] in G2.
    assert (Hch : Forall Np ch).
    { match goal with H : Forall NpA ch |- _ => eapply Forall_impl; [|exact H] end. intros x [Hx _]. exact Hx. }
    pose proof (np_children _ Hch Hrd s2) as G3.
    destruct (lower_children_with E (lower_el E) ch s2) as [elems s3]. cbn [snd] in G3.
    pose proof (pn_finish_children elems false None s3) as G4.
    destruct (finish_children E elems false None s3) as [chx s4]. cbn [snd] in *. fr.
  - (* JAttr: element values *)
    intros nm0 v0 Heq. inversion Heq; subst.
    match goal with H : NpA v0 |- _ => destruct H as [H _]; exact H end.
Qed.

Theorem lower_el_no_panic n s : ready n = true -> panicked (snd (lower_el E n s)) = panicked s.
Proof. destruct (lower_el_np_A n) as [H _]. apply H. Qed.

End NoPanic.
