(* Whole attribute lists without mergeProps: the props object is, in order, what the attributes
   denote - plain attributes, spreads, v-html / v-text, v-model, runtime directives (C01, C04,
   C05, C11).  Generalises Lemmas/AttrsProofs.v from plain attributes and spreads to every
   attribute kind that has a per-attribute refinement. *)
From VJ Require Import Model.Str Model.Json Model.Ast Model.State Model.Util Model.Text
  Model.Directive Model.Lower Spec.JsxText Spec.OutViews Spec.Site Spec.SiteCheck Lemmas.StrLemmas
  Lemmas.TextProofs Lemmas.SiteProofs Lemmas.AttrsProofs Lemmas.DirsProofs.

Section Contribs.
Variable E : env.
Variable ic : bool.
Variable tag : node.
Variable attrs : list node.     (* v-models already spliced *)

Definition contrib_ok (x : node) : Prop :=
  (forall e, contribs_of E ic tag attrs x <> [COn e])
  /\ forall a, exists ps,
       a_props (attr_step E ic a x) = a_props a ++ ps
       /\ a_margs (attr_step E ic a x) = a_margs a
       /\ map view_prop ps = contribs_of E ic tag attrs x.

Lemma contribs_fold xs : forall a,
  Forall contrib_ok xs ->
  exists ps, a_props (fold_left (attr_step E ic) xs a) = a_props a ++ ps
             /\ a_margs (fold_left (attr_step E ic) xs a) = a_margs a
             /\ map view_prop ps = flat_map (contribs_of E ic tag attrs) xs.
Proof.
  induction xs as [|x r IH]; intros a FA.
  - exists []. cbn. rewrite app_nil_r. repeat split.
  - inversion FA as [|x' r' [_ SX] FR]; subst.
    destruct (SX a) as [p1 [H1 [H2 H3]]].
    destruct (IH (attr_step E ic a x) FR) as [p2 [G1 [G2 G3]]].
    cbn [fold_left]. exists (p1 ++ p2). rewrite G1, H1, G2, H2, <- app_assoc.
    repeat split. rewrite map_app, H3, G3. reflexivity.
Qed.

Theorem contribs_refine s :
  o_merge_props (e_opts E) = false ->
  splice_vmodels attrs false = attrs ->
  Forall contrib_ok attrs -> attrs <> [] ->
  exists ps,
    view_contribs (Obj ps) = fst (fst (spec_attrs E ic tag attrs))
    /\ r_attrs (transform_attrs E attrs ic s)
       = match ps with [] => Null | [Spread e] => e | _ => Obj ps end.
Proof.
  intros MP SP FA NE.
  destruct (contribs_fold attrs (mkAcc [] [] [] [] None false false false false false s) FA) as [ps [H1 [H2 H5]]].
  cbn [a_props a_margs app] in *.
  exists ps. split.
  - unfold view_contribs, view_arg. rewrite H5.
    unfold spec_attrs. rewrite SP, MP.
    match goal with |- context [fold_left ?st attrs ?acc] =>
      pose proof (spec_fold_plain E ic tag attrs st attrs) as SF end.
    match type of SF with ?P -> _ => assert (HP : P) end.
    { rewrite Forall_forall. intros a Hin segs run dirs slots. cbv beta iota zeta.
      assert (CA : contrib_ok a) by (rewrite Forall_forall in FA; apply FA; exact Hin).
      destruct CA as [NC _]. unfold contribs_of in *.
      destruct (attr_spec E ic tag attrs a) as [[cs ds] sl]. cbn [fst] in *.
      assert (OWN : match a with
                    | Spread _ => false
                    | _ => match cs with [COn _] => true | _ => false end
                    end = false).
      { destruct a; try (destruct cs as [|c0 [|c1 cr]]; try reflexivity; destruct c0; try reflexivity;
                         exfalso; eapply NC; reflexivity). }
      rewrite OWN. eexists. eexists. reflexivity. }
    specialize (SF HP [] [] [] None).
    match type of SF with context [fold_left ?st attrs ?acc] =>
      destruct (fold_left st attrs acc) as [[[d' r'] dirs'] slots'] end.
    destruct SF as [-> ->]. cbn [fst app].
    unfold close_run. rewrite MP. cbn [app].
    destruct (flat_map (contribs_of E ic tag attrs) attrs); reflexivity.
  - unfold transform_attrs. destruct attrs as [|x r]; [contradiction NE; reflexivity|].
    set (a := fold_left _ _ _) in *.
    unfold final_attrs_expr. rewrite H2, H1.
    destruct ps as [|p [|q r']]; try reflexivity.
    + destruct p; try reflexivity; unfold flush_obj; rewrite MP; reflexivity.
    + unfold flush_obj. rewrite MP. destruct p; reflexivity.
Qed.

End Contribs.

(* ---- each kind of attribute satisfies [contrib_ok] under the hypotheses of its refinement --- *)
Lemma contrib_ok_plain E ic tag attrs name value x :
  wf_attr_name name -> spec_directive_name name = None ->
  plain_value value = Some x -> user_value x = true -> is_ton E name = false ->
  contrib_ok E ic tag attrs (JAttr name value).
Proof.
  intros WF HN PV UV TON. split.
  - intros e. unfold contribs_of.
    destruct (plain_attr_refines E ic tag attrs name value x (mkAcc [] [] [] [] None false false false false false st0)
                WF HN PV UV TON) as (_ & H2 & _).
    rewrite H2. discriminate.
  - intros a.
    destruct (plain_attr_refines E ic tag attrs name value x a WF HN PV UV TON) as (H1 & H2 & H3 & _ & _ & H6 & _).
    eexists. split; [exact H1|]. split; [exact H6|]. unfold contribs_of. rewrite H2. cbn [map]. rewrite H3. reflexivity.
Qed.

Lemma contrib_ok_spread E ic tag attrs e :
  o_merge_props (e_opts E) = false -> contrib_ok E ic tag attrs (Spread e).
Proof.
  intros MP. split.
  - intros x. unfold contribs_of. destruct e; cbn [attr_spec fst]; try discriminate.
    match goal with |- map _ ?ps <> _ => destruct ps as [|p0 [|p1 pr]]; cbn [map]; try discriminate end.
    unfold user_prop_contrib, view_prop.
    repeat match goal with |- context [match ?y with _ => _ end] => destruct y; try discriminate end.
  - intros a. destruct (spread_refines_plain E ic tag attrs e a MP) as [ps [H1 [H2 [H3 _]]]].
    exists ps. repeat split; assumption.
Qed.

Lemma contrib_ok_normal E ic tag attrs name value d :
  spec_directive_name name = Some d ->
  sq "html" (dn_name d) = false -> sq "text" (dn_name d) = false ->
  sq "model" (dn_name d) = false -> sq "slots" (dn_name d) = false ->
  arg_not_void (dp_arg (spec_directive_parts d value)) ->
  match name with IdName _ | JNs (IdName _) (IdName _) => True | _ => False end ->
  contrib_ok E ic tag attrs (JAttr name value).
Proof.
  intros HN Hh Ht Hm Hs NV WF.
  assert (C0 : forall a, contribs_of E ic tag attrs (JAttr name value) = []
                         /\ a_props (attr_step E ic a (JAttr name value)) = a_props a
                         /\ a_margs (attr_step E ic a (JAttr name value)) = a_margs a).
  { intros a.
    destruct (normal_directive_refines E ic tag attrs attrs name value d a HN Hh Ht Hm Hs NV)
      as (dir & _ & HP & HM & _ & _ & _ & HC & _).
    cbn [attr_step]. rewrite (directive_iff name value WF), HN. repeat split; assumption. }
  split.
  - intros e. destruct (C0 (mkAcc [] [] [] [] None false false false false false st0)) as [H _]. rewrite H. discriminate.
  - intros a. destruct (C0 a) as [H1 [H2 H3]]. exists []. rewrite app_nil_r, H1. repeat split; assumption.
Qed.

Lemma contrib_ok_html_text E ic tag attrs name value d :
  spec_directive_name name = Some d ->
  (sq "html" (dn_name d) = true \/ (sq "html" (dn_name d) = false /\ sq "text" (dn_name d) = true)) ->
  user_value (html_text_value value) = true ->
  match name with IdName _ | JNs (IdName _) (IdName _) => True | _ => False end ->
  contrib_ok E ic tag attrs (JAttr name value).
Proof.
  intros HN HK UV WF.
  assert (C0 : forall a, exists p, a_props (attr_step E ic a (JAttr name value)) = a_props a ++ [p]
                                   /\ a_margs (attr_step E ic a (JAttr name value)) = a_margs a
                                   /\ map view_prop [p] = contribs_of E ic tag attrs (JAttr name value)).
  { intros a. destruct (html_text_refines E ic tag attrs name value d a HN HK UV) as (p & H1 & H2 & _ & _ & H5 & _).
    exists p. cbn [attr_step]. rewrite (directive_iff name value WF), HN. repeat split; assumption. }
  split.
  - intros e. destruct (C0 (mkAcc [] [] [] [] None false false false false false st0)) as [p [_ [_ H]]].
    rewrite <- H. cbn [map]. unfold view_prop.
    repeat match goal with |- context [match ?y with _ => _ end] => destruct y; try discriminate end.
  - intros a. destruct (C0 a) as [p [H1 [H2 H3]]]. exists [p]. repeat split; assumption.
Qed.

Lemma view_prop_not_on p e : view_prop p <> COn e.
Proof.
  unfold view_prop.
  repeat match goal with |- context [match ?y with _ => _ end] => destruct y; try discriminate end.
Qed.

Lemma map_view_prop_not_on ps e : map view_prop ps <> [COn e].
Proof.
  destruct ps as [|p [|q r]]; cbn [map]; try discriminate.
  intros H. injection H as H. exact (view_prop_not_on p e H).
Qed.

Lemma contrib_ok_vmodel_component E tag attrs name value d :
  spec_directive_name name = Some d ->
  sq "html" (dn_name d) = false -> sq "text" (dn_name d) = false -> sq "model" (dn_name d) = true ->
  static_arg (dp_arg (spec_directive_parts d value)) ->
  user_value (dflt_value (dp_value (spec_directive_parts d value))) = true ->
  match name with IdName _ | JNs (IdName _) (IdName _) => True | _ => False end ->
  contrib_ok E true tag attrs (JAttr name value).
Proof.
  intros HN Hh Ht Hm SA UV WF.
  assert (C0 : forall a, exists ps, a_props (attr_step E true a (JAttr name value)) = a_props a ++ ps
                                    /\ a_margs (attr_step E true a (JAttr name value)) = a_margs a
                                    /\ map view_prop ps = contribs_of E true tag attrs (JAttr name value)).
  { intros a. destruct (vmodel_component_refines E tag attrs name value d a HN Hh Ht Hm SA UV) as (ps & H1 & H2 & _ & H4 & _).
    exists ps. cbn [attr_step]. rewrite (directive_iff name value WF), HN. repeat split; assumption. }
  split.
  - intros e. destruct (C0 (mkAcc [] [] [] [] None false false false false false st0)) as [ps [_ [_ H]]].
    rewrite <- H. apply map_view_prop_not_on.
  - exact C0.
Qed.

Lemma contrib_ok_vmodel_element E tag attrs name value d :
  spec_directive_name name = Some d ->
  sq "html" (dn_name d) = false -> sq "text" (dn_name d) = false -> sq "model" (dn_name d) = true ->
  static_arg (dp_arg (spec_directive_parts d value)) ->
  arg_not_void (dp_arg (spec_directive_parts d value)) ->
  match name with IdName _ | JNs (IdName _) (IdName _) => True | _ => False end ->
  contrib_ok E false tag attrs (JAttr name value).
Proof.
  intros HN Hh Ht Hm SA NV WF.
  assert (C0 : forall a, exists ps, a_props (attr_step E false a (JAttr name value)) = a_props a ++ ps
                                    /\ a_margs (attr_step E false a (JAttr name value)) = a_margs a
                                    /\ map view_prop ps = contribs_of E false tag attrs (JAttr name value)).
  { intros a. destruct (vmodel_element_refines E tag attrs name value d a HN Hh Ht Hm SA NV)
      as (p & dir & H1 & _ & H3 & _ & H5 & _).
    exists [p]. cbn [attr_step]. rewrite (directive_iff name value WF), HN. repeat split; assumption. }
  split.
  - intros e. destruct (C0 (mkAcc [] [] [] [] None false false false false false st0)) as [ps [_ [_ H]]].
    rewrite <- H. apply map_view_prop_not_on.
  - exact C0.
Qed.

(* the props ARGUMENT itself (after `{}` -> null and `{...e}` -> e) reads back as the denoted
   contributions, provided a spread that ends up alone is not itself an object literal, `null`
   or a generated call (it would be read as something else than a spread) *)
Lemma flat_map_singleton {A B} (f : A -> list B) l y :
  flat_map f l = [y] -> exists x, In x l /\ f x = [y].
Proof.
  induction l as [|a r IH]; cbn; [discriminate|]. intros H.
  destruct (f a) as [|b [|c t]] eqn:EF.
  - cbn in H. destruct (IH H) as [x [Hin Hx]]. exists x. split; [right; exact Hin|exact Hx].
  - cbn in H. injection H as -> H. exists a. split; [left; reflexivity|exact EF].
  - cbn in H. discriminate H.
Qed.

Theorem contribs_refine_arg E ic tag attrs s :
  o_merge_props (e_opts E) = false ->
  splice_vmodels attrs false = attrs ->
  Forall (contrib_ok E ic tag attrs) attrs ->
  (forall x e, In x attrs -> contribs_of E ic tag attrs x = [CSpread e] ->
     view_arg e = [CSpread e] /\ e <> Null /\ match e with Call true _ _ _ _ => False | _ => True end) ->
  view_contribs (r_attrs (transform_attrs E attrs ic s)) = fst (fst (spec_attrs E ic tag attrs)).
Proof.
  intros MP SP FA LONE.
  destruct attrs as [|x0 xs] eqn:EA.
  { reflexivity. }
  rewrite <- EA in *.
  assert (NE : attrs <> []) by (rewrite EA; discriminate).
  destruct (contribs_fold E ic tag attrs attrs (mkAcc [] [] [] [] None false false false false false s) FA)
    as [ps0 [P1 [P2 P3]]].
  destruct (contribs_refine E ic tag attrs s MP SP FA NE) as [ps [H1 H2]].
  rewrite H2, <- H1.
  destruct ps as [|p [|q r]]; [reflexivity| |destruct p; reflexivity].
  destruct p; try reflexivity.
  (* a lone spread *)
  assert (HC : fst (fst (spec_attrs E ic tag attrs)) = [CSpread p]).
  { rewrite <- H1. reflexivity. }
  (* which attribute it came from *)
  clear P1 P2 P3 ps0.
  assert (FM : exists x, In x attrs /\ contribs_of E ic tag attrs x = [CSpread p]).
  { (* the contributions of the list are the concatenation of those of its attributes *)
    unfold spec_attrs in HC. rewrite SP, MP in HC.
    match type of HC with context [fold_left ?st attrs ?acc] =>
      pose proof (spec_fold_plain E ic tag attrs st attrs) as SF end.
    match type of SF with ?P -> _ => assert (HP : P) end.
    { rewrite Forall_forall. intros a Hin segs run dirs slots. cbv beta iota zeta.
      assert (CA : contrib_ok E ic tag attrs a) by (rewrite Forall_forall in FA; apply FA; exact Hin).
      destruct CA as [NC _]. unfold contribs_of in *.
      destruct (attr_spec E ic tag attrs a) as [[cs ds] sl]. cbn [fst] in *.
      assert (OWN : match a with
                    | Spread _ => false
                    | _ => match cs with [COn _] => true | _ => false end
                    end = false).
      { destruct a; try (destruct cs as [|c0 [|c1 cr]]; try reflexivity; destruct c0; try reflexivity;
                         exfalso; eapply NC; reflexivity). }
      rewrite OWN. eexists. eexists. reflexivity. }
    specialize (SF HP [] [] [] None).
    match type of SF with context [fold_left ?st attrs ?acc] =>
      destruct (fold_left st attrs acc) as [[[d' r'] dirs'] slots'] end.
    destruct SF as [-> ->]. cbn [fst app] in HC.
    unfold close_run in HC. rewrite MP in HC. cbn [app] in HC.
    destruct (flat_map (contribs_of E ic tag attrs) attrs) as [|c0 cr] eqn:EF; [discriminate HC|].
    cbn [join_segments map] in HC.
    assert (EQ : c0 :: cr = [CSpread p]).
    { destruct cr as [|c1 cr']; cbn in HC.
      - destruct c0; cbn in HC; try discriminate HC.
        + match type of HC with context [if ?b then _ else _] => destruct b end; discriminate HC.
        + exact HC.
      - discriminate HC. }
    apply flat_map_singleton. rewrite EF. exact EQ. }
  destruct FM as [x [Hin Hx]]. destruct (LONE x p Hin Hx) as [HV [HN HG]].
  unfold view_contribs. cbn [view_arg map view_prop].
  destruct p; try (rewrite HV; reflexivity); try (exfalso; apply HN; reflexivity).
  match goal with |- context [Call ?b _ _ _ _] => destruct b; [contradiction HG|] end.
  rewrite HV. reflexivity.
Qed.
