From Coq Require Import Lia.
From VJ Require Import Model.Str.

Lemma str_eqb_refl s : str_eqb s s = true.
Proof. induction s as [|c r IH]; [reflexivity|]. cbn. rewrite N.eqb_refl, IH. reflexivity. Qed.

Lemma str_eqb_eq a b : str_eqb a b = true <-> a = b.
Proof.
  revert b; induction a as [|x a IH]; intros [|y b]; cbn; split; intros H;
    try reflexivity; try discriminate.
  - apply andb_true_iff in H. destruct H as [H1 H2].
    apply N.eqb_eq in H1. apply IH in H2. subst. reflexivity.
  - inversion H; subst. rewrite N.eqb_refl. cbn. apply IH. reflexivity.
Qed.

Lemma str_eqb_sym a b : str_eqb a b = str_eqb b a.
Proof.
  destruct (str_eqb a b) eqn:E.
  - apply str_eqb_eq in E. subst. symmetry. apply str_eqb_refl.
  - destruct (str_eqb b a) eqn:E2; [|reflexivity].
    apply str_eqb_eq in E2. subst. rewrite str_eqb_refl in E. discriminate.
Qed.

Lemma mem_str_app k l1 l2 : mem_str k (l1 ++ l2) = mem_str k l1 || mem_str k l2.
Proof. induction l1 as [|x l IH]; [reflexivity|]. cbn. rewrite IH. apply orb_assoc. Qed.

Lemma mem_str_iset_insert k x l : mem_str k (iset_insert x l) = mem_str k l || str_eqb k x.
Proof.
  unfold iset_insert. destruct (mem_str x l) eqn:E.
  - destruct (str_eqb k x) eqn:E2; [|rewrite orb_false_r; reflexivity].
    apply str_eqb_eq in E2. subst. rewrite E. reflexivity.
  - rewrite mem_str_app. cbn. rewrite orb_false_r. reflexivity.
Qed.

Lemma mem_str_In k l : mem_str k l = true <-> In k l.
Proof.
  induction l as [|x l IH]; cbn; [split; [discriminate|tauto]|].
  rewrite orb_true_iff, IH, str_eqb_eq. split; intros [H|H]; auto.
Qed.
