(* C07, element level: lowering a JSX element whose embedded expressions are JSX-free yields
   a JSX-free expression. *)
From Coq Require Import Lia Btauto.
From VJ Require Import Model.Str Model.Json Model.Ast Model.State Model.Util Model.Text
  Model.Directive Model.Lower Spec.Plain Lemmas.NodeInd Lemmas.StrLemmas.

Local Notation jf := jsx_free.

Lemma jf_unfold n : jf n = all_sub (fun x => negb (is_jsx_node x)) n.
Proof. reflexivity. Qed.

Ltac jfs := unfold jsx_free in *; cbn [all_sub is_jsx_node negb andb] in *; rewrite ?all_sub_list in *;
            fold jsx_free in *.

Lemma jf_Arr l : jf (Arr l) = forallb jf l.
Proof. unfold jsx_free. cbn [all_sub is_jsx_node negb andb]. rewrite all_sub_list. reflexivity. Qed.
Lemma jf_Obj l : jf (Obj l) = forallb jf l.
Proof. unfold jsx_free. cbn [all_sub is_jsx_node negb andb]. rewrite all_sub_list. reflexivity. Qed.
Lemma jf_NArr l : jf (NArr l) = forallb jf l.
Proof. unfold jsx_free. cbn [all_sub is_jsx_node negb andb]. rewrite all_sub_list. reflexivity. Qed.
Lemma jf_Block c l : jf (Block c l) = forallb jf l.
Proof. unfold jsx_free. cbn [all_sub is_jsx_node negb andb]. rewrite all_sub_list. reflexivity. Qed.
Lemma jf_Elem b e : jf (Elem b e) = jf e.
Proof. reflexivity. Qed.
Lemma jf_KV k v : jf (KV k v) = jf k && jf v.
Proof. reflexivity. Qed.
Lemma jf_Spread e : jf (Spread e) = jf e.
Proof. reflexivity. Qed.
Lemma jf_Computed e : jf (Computed e) = jf e.
Proof. reflexivity. Qed.
Lemma jf_Paren e : jf (Paren e) = jf e.
Proof. reflexivity. Qed.
Lemma jf_Unary o e : jf (Unary o e) = jf e.
Proof. reflexivity. Qed.
Lemma jf_Bin o a b : jf (Bin o a b) = jf a && jf b.
Proof. reflexivity. Qed.
Lemma jf_Assign o a b : jf (Assign o a b) = jf a && jf b.
Proof. reflexivity. Qed.
Lemma jf_Cond a b c : jf (Cond a b c) = jf a && jf b && jf c.
Proof. reflexivity. Qed.
Lemma jf_Call sy c f a t : jf (Call sy c f a t) = jf f && forallb jf a && jf t.
Proof. unfold jsx_free. cbn [all_sub is_jsx_node negb andb]. rewrite all_sub_list. reflexivity. Qed.
Lemma jf_Arrow c ps b a g tp rt : jf (Arrow c ps b a g tp rt) = forallb jf ps && jf b && jf tp && jf rt.
Proof. unfold jsx_free. cbn [all_sub is_jsx_node negb andb]. rewrite all_sub_list. reflexivity. Qed.
Lemma jf_Str v w : jf (Str v w) = jf w.
Proof. reflexivity. Qed.

Lemma jf_mk_str v : jf (mk_str v) = true. Proof. reflexivity. Qed.
Lemma jf_mk_num n : jf (mk_num n) = true. Proof. reflexivity. Qed.
Lemma jf_mk_ident s c : jf (mk_ident s c) = true. Proof. reflexivity. Qed.
Lemma jf_mk_bident s c : jf (mk_bident s c) = true. Proof. reflexivity. Qed.

Lemma forallb_map_Elem l : forallb jf (map (Elem false) l) = forallb jf l.
Proof. induction l as [|x r IH]; [reflexivity|]. cbn [map forallb]. rewrite IH, jf_Elem. reflexivity. Qed.

Lemma jf_mk_call f args : jf f = true -> forallb jf args = true -> jf (mk_call f args) = true.
Proof. intros Hf Ha. unfold mk_call. rewrite jf_Call, Hf, forallb_map_Elem, Ha. reflexivity. Qed.

Lemma jf_mk_arrow ps b : forallb jf ps = true -> jf b = true -> jf (mk_arrow ps b) = true.
Proof. intros Hp Hb. unfold mk_arrow. rewrite jf_Arrow, Hp, Hb. reflexivity. Qed.

Lemma jf_import name s : jf (fst (import_from_vue name s)) = true.
Proof. reflexivity. Qed.

Lemma forallb_app_true (l1 l2 : list node) :
  forallb jf l1 = true -> forallb jf l2 = true -> forallb jf (l1 ++ l2) = true.
Proof. intros H1 H2. rewrite forallb_app, H1, H2. reflexivity. Qed.

Lemma forallb_In (l : list node) x : forallb jf l = true -> In x l -> jf x = true.
Proof. intros H Hin. eapply forallb_forall in H; [exact H|exact Hin]. Qed.

(* ---- dedupe -------------------------------------------------------------------------- *)
Lemma jf_merge_into v old : jf v = true -> jf old = true -> jf (merge_into v old) = true.
Proof.
  intros Hv Ho. unfold merge_into.
  assert (G : jf (Arr [Elem false old; Elem false v]) = true).
  { rewrite jf_Arr. cbn [forallb]. rewrite !jf_Elem, Ho, Hv. reflexivity. }
  destruct old; try exact G.
  rewrite jf_Arr in *. rewrite forallb_app, Ho. cbn [forallb]. rewrite jf_Elem, Hv. reflexivity.
Qed.

Lemma jf_update_first name f d d' :
  (forall x, jf x = true -> jf (f x) = true) ->
  forallb jf d = true -> update_first name f d = Some d' -> forallb jf d' = true.
Proof.
  intros Hf. revert d'. induction d as [|p r IH]; intros d' Hd Hu; [discriminate|].
  cbn [forallb] in Hd. apply andb_true_iff in Hd. destruct Hd as [Hp Hr].
  assert (Hrec : forall r', update_first name f r = Some r' -> forallb jf (p :: r') = true).
  { intros r' Hr'. cbn [forallb]. rewrite Hp. apply (IH _ Hr Hr'). }
  cbn [update_first] in Hu.
  destruct p; try (destruct (update_first name f r) eqn:Er; [inversion Hu; subst; apply Hrec; reflexivity|discriminate]).
  match type of Hu with context [match ?k with _ => _ end] => destruct k end;
    try (destruct (update_first name f r) eqn:Er; [inversion Hu; subst; apply Hrec; reflexivity|discriminate]).
  match type of Hu with context [if ?c then _ else _] => destruct c end.
  - inversion Hu; subst. cbn [forallb]. rewrite Hr, andb_true_r.
    rewrite jf_KV in *. apply andb_true_iff in Hp. destruct Hp as [Hk Hv].
    rewrite Hk. cbn [andb]. apply Hf. exact Hv.
  - destruct (update_first name f r) eqn:Er; [inversion Hu; subst; apply Hrec; reflexivity|discriminate].
Qed.

Lemma jf_dedupe_step d p : forallb jf d = true -> jf p = true -> forallb jf (dedupe_step d p) = true.
Proof.
  intros Hd Hp.
  assert (Happ : forallb jf (d ++ [p]) = true).
  { rewrite forallb_app, Hd. cbn [forallb]. rewrite Hp. reflexivity. }
  unfold dedupe_step. destruct p; try exact Happ.
  match goal with |- context [match ?k with _ => _ end] => destruct k end; try exact Happ.
  match goal with |- context [if ?c then _ else _] => destruct c end; [|exact Happ].
  match goal with |- context [update_first ?n ?f ?dd] => destruct (update_first n f dd) eqn:Eu end; [|exact Happ].
  eapply jf_update_first; [|exact Hd|exact Eu].
  intros x Hx. apply jf_merge_into; [|exact Hx].
  rewrite jf_KV in Hp. apply andb_true_iff in Hp. destruct Hp as [_ Hv]. exact Hv.
Qed.

Lemma jf_dedupe ps : forallb jf ps = true -> forallb jf (dedupe_props ps) = true.
Proof.
  unfold dedupe_props.
  assert (G : forall ps d, forallb jf d = true -> forallb jf ps = true ->
                           forallb jf (fold_left dedupe_step ps d) = true).
  { induction ps0 as [|p r IH]; intros d Hd Hps; [exact Hd|].
    cbn [fold_left]. cbn [forallb] in Hps. apply andb_true_iff in Hps. destruct Hps as [Hp Hr].
    apply IH; [apply jf_dedupe_step; assumption|exact Hr]. }
  intros H. apply G; [reflexivity|exact H].
Qed.

(* ---- directives ------------------------------------------------------------------------ *)
Definition optb (o : option node) : bool := match o with Some x => jf x | None => true end.

Definition dir_free (d : directive) : bool :=
  match d with
  | DNormal _ a m v => optb a && optb m && jf v
  | DText e | DHtml e => jf e
  | DVModel a t m v => optb a && optb t && optb m && jf v
  | DSlots e => optb e
  end.

(* what the attribute fold may assume about an attribute value *)
Definition val_ok (v : node) : bool :=
  match v with
  | Str _ w => jf w
  | JExprC e => jf e
  | _ => true
  end.

Lemma jf_elem_at elems i e : forallb jf elems = true -> elem_at elems i = Some e -> jf e = true.
Proof.
  unfold elem_at. intros H. destruct (nth_error elems i) as [x|] eqn:En; [|discriminate].
  apply nth_error_In in En. pose proof (forallb_In _ _ H En) as Hx.
  destruct x; try discriminate.
  match type of Hx with jf (Elem ?b _) = true => destruct b end; [discriminate|].
  intros Heq. inversion Heq; subst. exact Hx.
Qed.

Lemma jf_first elems :
  forallb jf elems = true -> jf (match elems with Elem false e :: _ => e | _ => empty_ident end) = true.
Proof.
  intros H. destruct elems as [|x r]; [reflexivity|].
  cbn [forallb] in H. apply andb_true_iff in H. destruct H as [Hx _].
  destruct x; try reflexivity.
  match type of Hx with jf (Elem ?b _) = true => destruct b end; [reflexivity|exact Hx].
Qed.

Lemma jf_first_or_self e : jf e = true -> jf (first_or_self e) = true.
Proof.
  intros H. unfold first_or_self. destruct e; try exact H.
  match goal with |- context [match ?l with _ => _ end] => destruct l as [|x r] end; [exact H|].
  pose proof H as H0. rewrite jf_Arr in H0. cbn [forallb] in H0.
  apply andb_true_iff in H0. destruct H0 as [Hx _].
  destruct x; try exact H.
  match type of Hx with jf (Elem ?b _) = true => destruct b end; [exact H|exact Hx].
Qed.

Lemma jf_transform_modifiers ms q : optb (transform_modifiers ms q) = true.
Proof.
  unfold transform_modifiers. destruct ms as [|m r]; [reflexivity|]. unfold optb.
  rewrite jf_Obj. apply forallb_forall. intros x Hx. apply in_map_iff in Hx.
  destruct Hx as [y [<- _]]. destruct (q || negb (is_simple_ident y)); reflexivity.
Qed.

Lemma optb_mods (mo : option (list str)) q :
  optb (match mo with Some m => transform_modifiers m q | None => None end) = true.
Proof. destruct mo; [apply jf_transform_modifiers|reflexivity]. Qed.

Lemma optb_or_void0 a : optb a = true -> optb (or_void0 a) = true.
Proof. destruct a; [auto|reflexivity]. Qed.

Lemma jf_parse_html_text which value s :
  val_ok value = true -> jf (fst (parse_html_text which value s)) = true.
Proof.
  intros H. unfold parse_html_text. destruct value; try reflexivity.
  cbn [val_ok] in H.
  match type of H with jf ?e = true => destruct e end; try (apply jf_first_or_self; exact H).
  reflexivity.
Qed.

Lemma array_form_free dflt argument splitted elems :
  optb argument = true -> forallb jf elems = true ->
  let '(v, a, m) := array_form dflt argument splitted elems in jf v = true /\ optb a = true.
Proof.
  intros Ha He. unfold array_form.
  assert (Hd : optb (if dflt then match argument with None => Some Null | _ => argument end else argument) = true).
  { destruct dflt; [destruct argument; [exact Ha|reflexivity]|exact Ha]. }
  destruct (elem_at elems 1) as [e1|] eqn:E1.
  - pose proof (jf_elem_at _ _ _ He E1) as H1.
    destruct e1; split; try (apply jf_first; exact He); try exact Hd;
      destruct argument; try exact Ha; exact H1.
  - split; [apply jf_first; exact He|exact Hd].
Qed.

Lemma vmodel_attr_value_free value s : val_ok value = true -> jf (fst (vmodel_attr_value value s)) = true.
Proof.
  intros Hv. unfold vmodel_attr_value. destruct value; try reflexivity.
  cbn [val_ok] in Hv. match type of Hv with jf ?e = true => destruct e end; try exact Hv. reflexivity.
Qed.

Lemma vmodel_parts_free av ic argument splitted :
  jf av = true -> optb argument = true ->
  let '(v, a, m) := vmodel_parts av ic argument splitted in jf v = true /\ optb a = true.
Proof.
  intros Hav Ha. unfold vmodel_parts.
  destruct av; try (split; [exact Hav|exact Ha]).
  apply array_form_free; [exact Ha|]. rewrite jf_Arr in Hav. exact Hav.
Qed.

Lemma normal_parts_free value argument splitted :
  val_ok value = true -> optb argument = true ->
  let '(v, a, m) := normal_parts value argument splitted in jf v = true /\ optb a = true.
Proof.
  intros Hv Ha. unfold normal_parts. destruct value; try (split; [reflexivity|exact Ha]).
  cbn [val_ok] in Hv.
  match type of Hv with jf ?e = true => destruct e end;
    try (split; [exact Hv|exact Ha]); try (split; [reflexivity|exact Ha]).
  apply array_form_free; [exact Ha|]. rewrite jf_Arr in Hv. exact Hv.
Qed.

Lemma parse_directive_free name value ic s :
  val_ok value = true -> dir_free (fst (parse_directive name value ic s)) = true.
Proof.
  intros Hv. unfold parse_directive.
  match goal with |- context [match ?X with pair _ _ => _ end] => destruct X as [[dname argument0] splitted] end.
  set (argument := match argument0 with Some a => Some (mk_str a) | None => None end).
  assert (Harg : optb argument = true) by (unfold argument; destruct argument0; reflexivity).
  destruct (sq "html" dname).
  { pose proof (jf_parse_html_text "v-html"%string value s Hv) as H.
    destruct (parse_html_text "v-html"%string value s). exact H. }
  destruct (sq "text" dname).
  { pose proof (jf_parse_html_text "v-text"%string value s Hv) as H.
    destruct (parse_html_text "v-text"%string value s). exact H. }
  destruct (sq "model" dname).
  { unfold parse_v_model.
    pose proof (vmodel_attr_value_free value s Hv) as Hav.
    destruct (vmodel_attr_value value s) as [av s1]. cbn [fst] in Hav.
    pose proof (vmodel_parts_free av ic argument splitted Hav Harg) as Hp.
    destruct (vmodel_parts av ic argument splitted) as [[v a] m]. destruct Hp as [Hv' Ha'].
    cbn [fst dir_free]. rewrite Ha', optb_mods, Hv'.
    destruct (negb ic && nonempty_mods m); [rewrite (optb_or_void0 _ Ha')|rewrite Ha']; reflexivity. }
  destruct (sq "slots" dname).
  { unfold parse_v_slots. destruct value; try reflexivity.
    cbn [val_ok] in Hv. match type of Hv with jf ?e = true => destruct e end; try reflexivity; exact Hv. }
  pose proof (normal_parts_free value argument splitted Hv Harg) as Hp.
  destruct (normal_parts value argument splitted) as [[v a] m]. destruct Hp as [Hv' Ha'].
  cbn [fst dir_free]. rewrite optb_mods, Hv'.
  destruct (nonempty_mods m); [rewrite (optb_or_void0 _ Ha')|rewrite Ha']; reflexivity.
Qed.

(* ---- the attribute fold ----------------------------------------------------------------- *)
Section Fold.
Variable E : env.

Definition acc_free (a : acc) : bool :=
  forallb jf (a_props a) && forallb jf (a_margs a) && forallb dir_free (a_dirs a) && optb (a_slots a).

Definition attr_ok (a : node) : bool :=
  match a with
  | JAttr _ v => val_ok v
  | Spread e => jf e
  | _ => true
  end.

Lemma acc_free_intro ps ms dy di sl r c s h dk st' :
  forallb jf ps = true -> forallb jf ms = true -> forallb dir_free di = true -> optb sl = true ->
  acc_free (mkAcc ps ms dy di sl r c s h dk st') = true.
Proof. intros H1 H2 H3 H4. unfold acc_free. cbn. rewrite H1, H2, H3, H4. reflexivity. Qed.

Lemma acc_free_elim a :
  acc_free a = true ->
  forallb jf (a_props a) = true /\ forallb jf (a_margs a) = true
  /\ forallb dir_free (a_dirs a) = true /\ optb (a_slots a) = true.
Proof.
  unfold acc_free. intros H. repeat (apply andb_true_iff in H; destruct H as [H ?]). auto.
Qed.

Lemma jf_flush_obj ps : forallb jf ps = true -> jf (flush_obj E ps) = true.
Proof.
  intros H. unfold flush_obj. rewrite jf_Obj. destruct (o_merge_props (e_opts E)); [apply jf_dedupe|]; exact H.
Qed.

Lemma jf_listener v : jf v = true -> jf (listener v) = true.
Proof. intros H. unfold listener. apply jf_mk_arrow; [reflexivity|]. rewrite jf_Assign, jf_Paren, H. reflexivity. Qed.

Lemma forallb_snoc (f : node -> bool) l x : forallb f l = true -> f x = true -> forallb f (l ++ [x]) = true.
Proof. intros H1 H2. rewrite forallb_app, H1. cbn. rewrite H2. reflexivity. Qed.

Lemma forallb_snoc_dir l x : forallb dir_free l = true -> dir_free x = true -> forallb dir_free (l ++ [x]) = true.
Proof. intros H1 H2. rewrite forallb_app, H1. cbn. rewrite H2. reflexivity. Qed.

Lemma step_vmodel_free ic a argument targ modifiers value :
  acc_free a = true -> optb argument = true -> optb targ = true -> optb modifiers = true -> jf value = true ->
  acc_free (step_vmodel ic a argument targ modifiers value) = true.
Proof.
  intros Ha Harg Htarg Hmods Hval.
  destruct (acc_free_elim _ Ha) as [Hp [Hm [Hd Hs]]].
  unfold step_vmodel.
  (* the first block: props / dirs *)
  set (blk := if ic then _ else _).
  assert (Hblk : forallb jf (fst (fst blk)) = true /\ forallb dir_free (snd blk) = true).
  { unfold blk. destruct ic.
    - set (kd := match argument with Some Null | None => _ | Some (Str v _) => _ | Some e => _ end).
      assert (Hk : jf (fst kd) = true).
      { unfold kd. destruct argument as [x|]; [|reflexivity]. destruct x; try exact Harg; reflexivity. }
      destruct kd as [key dyn]. cbn [fst] in Hk.
      destruct modifiers as [m|]; cbn [fst snd]; split; try exact Hd.
      + apply forallb_snoc; [apply forallb_snoc; [exact Hp|rewrite jf_KV, Hk, Hval; reflexivity]|].
        rewrite jf_KV. cbn [optb] in Hmods. rewrite Hmods, andb_true_r.
        destruct argument as [x|]; [|reflexivity]. destruct x; try (cbn [optb] in Harg; rewrite jf_Computed, jf_Bin, Harg; reflexivity); reflexivity.
      + apply forallb_snoc; [exact Hp|rewrite jf_KV, Hk, Hval; reflexivity].
    - cbn [fst snd]. split; [exact Hp|].
      apply forallb_snoc_dir; [exact Hd|]. cbn [dir_free]. rewrite Htarg, Hmods, Hval. reflexivity. }
  destruct blk as [[props dyn] dirs]. cbn [fst snd] in Hblk. destruct Hblk as [Hp' Hd'].
  set (kd := match argument with Some Null | None => _ | Some (Str v _) => _ | Some e => _ end).
  assert (Hk : jf (fst (fst kd)) = true).
  { unfold kd. destruct argument as [x|]; [|reflexivity].
    destruct x; try (cbn [optb] in Harg; cbn [fst]; rewrite jf_Computed, jf_Bin, Harg; reflexivity); reflexivity. }
  destruct kd as [[key dyn'] dk]. cbn [fst] in Hk.
  apply acc_free_intro; [|exact Hm|exact Hd'|exact Hs].
  apply forallb_snoc; [exact Hp'|]. rewrite jf_KV, Hk. apply jf_listener. exact Hval.
Qed.

Lemma step_directive_free ic a name value :
  acc_free a = true -> val_ok value = true -> acc_free (step_directive ic a name value) = true.
Proof.
  intros Ha Hv. destruct (acc_free_elim _ Ha) as [Hp [Hm [Hd Hs]]].
  unfold step_directive.
  pose proof (parse_directive_free name value ic (a_st a) Hv) as Hdir.
  destruct (parse_directive name value ic (a_st a)) as [d s]. cbn [fst] in Hdir.
  destruct d as [dn darg dmods dv | e | e | arg targ mods v | e].
  - apply acc_free_intro; [exact Hp|exact Hm| |exact Hs]. apply forallb_snoc_dir; [exact Hd|exact Hdir].
  - apply acc_free_intro; [|exact Hm|exact Hd|exact Hs].
    apply forallb_snoc; [exact Hp|]. unfold kv_str. rewrite jf_KV. exact Hdir.
  - apply acc_free_intro; [|exact Hm|exact Hd|exact Hs].
    apply forallb_snoc; [exact Hp|]. unfold kv_str. rewrite jf_KV. exact Hdir.
  - cbn [dir_free] in Hdir. repeat (apply andb_true_iff in Hdir; destruct Hdir as [Hdir ?]).
    apply step_vmodel_free; assumption.
  - apply acc_free_intro; [exact Hp|exact Hm|exact Hd|exact Hdir].
Qed.

Lemma step_plain_free ic a name value :
  acc_free a = true -> val_ok value = true -> acc_free (step_plain E ic a name value) = true.
Proof.
  intros Ha Hv. destruct (acc_free_elim _ Ha) as [Hp [Hm [Hd Hs]]].
  unfold step_plain.
  assert (Hav : jf (fst (match plain_attr_value value with
                         | Some v => (v, a_st a) | None => (Null, panic (a_st a)) end)) = true).
  { unfold plain_attr_value. destruct value; try reflexivity; try exact Hv.
    match goal with j : jv |- _ => destruct j; reflexivity end. }
  destruct (match plain_attr_value value with Some v => (v, a_st a) | None => (Null, panic (a_st a)) end) as [av s1].
  cbn [fst] in Hav.
  match goal with |- context [if ?c then _ else _] => destruct c end.
  - destruct (a_props a) as [|p0 ps] eqn:Ep.
    + apply acc_free_intro; [reflexivity| |exact Hd|exact Hs].
      apply forallb_snoc; [exact Hm|]. apply jf_mk_call; [reflexivity|]. cbn [forallb]. rewrite Hav. reflexivity.
    + apply acc_free_intro; [reflexivity| |exact Hd|exact Hs].
      apply forallb_snoc; [apply forallb_snoc; [exact Hm|apply jf_flush_obj; exact Hp]|].
      apply jf_mk_call; [reflexivity|]. cbn [forallb]. rewrite Hav. reflexivity.
  - apply acc_free_intro; [|exact Hm|exact Hd|exact Hs].
    apply forallb_snoc; [exact Hp|]. unfold kv_str. rewrite jf_KV. exact Hav.
Qed.

Lemma step_spread_free a e : acc_free a = true -> jf e = true -> acc_free (step_spread E a e) = true.
Proof.
  intros Ha He. destruct (acc_free_elim _ Ha) as [Hp [Hm [Hd Hs]]].
  unfold step_spread.
  set (pm := match a_props a with [] => _ | ps => _ end).
  assert (Hpm : forallb jf (fst pm) = true /\ forallb jf (snd pm) = true).
  { unfold pm. destruct (a_props a) as [|p0 ps] eqn:Ep; [split; [reflexivity|exact Hm]|].
    destruct (o_merge_props (e_opts E)); cbn [fst snd]; split; try reflexivity; try exact Hp; try exact Hm.
    apply forallb_snoc; [exact Hm|]. rewrite jf_Obj. apply jf_dedupe. exact Hp. }
  destruct pm as [props margs]. cbn [fst snd] in Hpm. destruct Hpm as [Hp' Hm'].
  set (pm2 := match e with Obj ps => _ | _ => _ end).
  assert (Hpm2 : forallb jf (fst pm2) = true /\ forallb jf (snd pm2) = true).
  { unfold pm2.
    assert (G1 : forallb jf (margs ++ [e]) = true) by (apply forallb_snoc; assumption).
    assert (G2 : forallb jf (props ++ [Spread e]) = true) by (apply forallb_snoc; [exact Hp'|exact He]).
    destruct e; destruct (o_merge_props (e_opts E)); cbn [fst snd]; split;
      try exact Hp'; try exact Hm'; try exact G1; try exact G2.
    rewrite jf_Obj in He. apply forallb_app_true; assumption. }
  destruct pm2 as [props2 margs2]. cbn [fst snd] in Hpm2. destruct Hpm2 as [Hp2 Hm2].
  apply acc_free_intro; assumption.
Qed.

Lemma attr_step_free ic a x : acc_free a = true -> attr_ok x = true -> acc_free (attr_step E ic a x) = true.
Proof.
  intros Ha Hx. unfold attr_step. destruct x; try exact Ha.
  - apply step_spread_free; assumption.
  - match goal with |- context [is_directive ?y] => destruct (is_directive y) end;
      [apply step_directive_free|apply step_plain_free]; assumption.
Qed.

Lemma fold_free ic attrs a :
  acc_free a = true -> forallb attr_ok attrs = true ->
  acc_free (fold_left (attr_step E ic) attrs a) = true.
Proof.
  revert a. induction attrs as [|x r IH]; intros a Ha Hx; [exact Ha|].
  cbn [fold_left]. cbn [forallb] in Hx. apply andb_true_iff in Hx. destruct Hx as [Hx Hr].
  apply IH; [apply attr_step_free; assumption|exact Hr].
Qed.

Lemma final_attrs_free a : acc_free a = true -> jf (fst (final_attrs_expr E a)) = true.
Proof.
  intros Ha. destruct (acc_free_elim _ Ha) as [Hp [Hm [Hd Hs]]].
  unfold final_attrs_expr.
  destruct (a_margs a) as [|m0 mr] eqn:Em.
  - destruct (a_props a) as [|p [|q r]] eqn:Ep; [reflexivity| |].
    + assert (G : jf (flush_obj E [p]) = true) by (apply jf_flush_obj; exact Hp).
      destruct p; try exact G. cbn [forallb] in Hp. rewrite andb_true_r in Hp. exact Hp.
    + assert (G : jf (flush_obj E (p :: q :: r)) = true) by (apply jf_flush_obj; exact Hp).
      destruct p; exact G.
  - set (margs := match a_props a with [] => m0 :: mr | ps => (m0 :: mr) ++ [flush_obj E ps] end).
    assert (Hmargs : forallb jf margs = true).
    { unfold margs. destruct (a_props a) as [|p ps] eqn:Ep; [exact Hm|].
      apply forallb_snoc; [exact Hm|apply jf_flush_obj; exact Hp]. }
    destruct margs as [|e0 [|e1 er]]; cbn [fst].
    + reflexivity.
    + cbn [forallb] in Hmargs. rewrite andb_true_r in Hmargs. exact Hmargs.
    + apply jf_mk_call; [reflexivity|exact Hmargs].
Qed.

Lemma transform_attrs_free attrs ic s :
  forallb attr_ok attrs = true ->
  let r := transform_attrs E attrs ic s in
  jf (r_attrs r) = true /\ forallb dir_free (r_dirs r) = true /\ optb (r_slots r) = true.
Proof.
  intros Hattrs. unfold transform_attrs. destruct attrs as [|x0 xs]; [repeat split|].
  set (a := fold_left (attr_step E ic) (x0 :: xs) _).
  assert (Ha : acc_free a = true) by (apply fold_free; [reflexivity|exact Hattrs]).
  pose proof (final_attrs_free a Ha) as Hf.
  destruct (final_attrs_expr E a) as [expr s']. cbn [fst] in Hf.
  destruct (acc_free_elim _ Ha) as [_ [_ [Hd Hs]]].
  cbn [r_attrs r_dirs r_slots]. auto.
Qed.

End Fold.

(* ---- children, directives, the element ------------------------------------------------- *)
Section Element.
Variable E : env.

Lemma jf_merge_slots props slots :
  forallb jf props = true -> optb slots = true -> forallb jf (merge_slots props slots) = true.
Proof.
  intros Hp Hs. unfold merge_slots. destruct slots as [e|]; [|exact Hp].
  cbn [optb] in Hs.
  assert (G : forallb jf (props ++ [Spread e]) = true) by (apply forallb_snoc; [exact Hp|exact Hs]).
  destruct e; try exact G. rewrite jf_Obj in Hs. apply forallb_app_true; assumption.
Qed.

Lemma jf_hint_prop flag : forallb jf (hint_prop E flag) = true.
Proof. unfold hint_prop. destruct (o_optimize (e_opts E)); reflexivity. Qed.

Lemma jf_wrap_children elems flag slots :
  forallb jf elems = true -> optb slots = true -> jf (wrap_children E elems flag slots) = true.
Proof.
  intros He Hs. unfold wrap_children. rewrite jf_Obj.
  apply forallb_app_true; [|apply jf_hint_prop].
  apply jf_merge_slots; [|exact Hs]. cbn [forallb]. rewrite jf_KV.
  rewrite (jf_mk_arrow [] (Arr elems) eq_refl); [reflexivity|]. rewrite jf_Arr. exact He.
Qed.

Lemma build_iife_elems_free lft elems s :
  forallb jf elems = true -> forallb jf (fst (build_iife_elems lft elems s)) = true.
Proof.
  revert s. induction elems as [|x r IH]; intros s H; [reflexivity|].
  cbn [forallb] in H. apply andb_true_iff in H. destruct H as [Hx Hr].
  assert (Hdef : forall s0, forallb jf (fst (let '(r', s1) := build_iife_elems lft r s0 in (x :: r', s1))) = true).
  { intros s0. pose proof (IH s0 Hr) as H. destruct (build_iife_elems lft r s0). cbn [fst forallb] in *.
    rewrite Hx, H. reflexivity. }
  cbn [build_iife_elems].
  destruct x; try apply Hdef.
  match goal with |- context [Elem ?b ?e] => destruct b; [apply Hdef|destruct e; try apply Hdef] end.
  match goal with |- context [if ?c then _ else _] => destruct c end; [|apply Hdef].
  match goal with |- context [fresh_ident ?sy ?st0] => destruct (fresh_ident sy st0) as [[nm0 ctx0] s1] eqn:Ef end.
  match goal with |- context [build_iife_elems lft r ?s2] =>
    pose proof (IH s2 Hr) as H; destruct (build_iife_elems lft r s2) end.
  cbn [fst forallb] in *. rewrite H.
  unfold fresh_ident in Ef. inversion Ef; subst. reflexivity.
Qed.

Lemma build_iife_free elems s :
  forallb jf elems = true -> forallb jf (fst (build_iife elems s)) = true.
Proof.
  intros H. unfold build_iife. destruct (assign_left s); [apply build_iife_elems_free|]; exact H.
Qed.

Lemma fn_like_case e slots (s0 : st) (dflt : node * st) :
  jf e = true -> optb slots = true -> jf (fst dflt) = true ->
  jf (fst (if is_fn_like e then (Obj (merge_slots [KV (IdName (s_ "default")) e] slots), s0) else dflt)) = true.
Proof.
  intros He Hs Hd. destruct (is_fn_like e); [|exact Hd].
  cbn [fst]. rewrite jf_Obj. apply jf_merge_slots; [|exact Hs]. cbn [forallb]. rewrite jf_KV, He. reflexivity.
Qed.

Lemma finish_children_free elems ic slots s :
  forallb jf elems = true -> optb slots = true ->
  jf (fst (finish_children E elems ic slots s)) = true.
Proof.
  intros He Hs. unfold finish_children.
  match goal with |- context [match ?X with pair _ _ => _ end] => destruct X as [flag s0] end.
  assert (Hdef : jf (fst (if ic then (wrap_children E elems flag slots, s0) else (Arr elems, s0))) = true).
  { destruct ic; cbn [fst]; [apply jf_wrap_children; assumption|rewrite jf_Arr; exact He]. }
  destruct elems as [|x [|y r]]; try exact Hdef.
  - destruct slots; [exact Hs|reflexivity].
  - destruct x; try exact Hdef.
    match goal with |- context [Elem ?b ?e] => destruct b; [exact Hdef|] end.
    cbn [forallb] in He. rewrite andb_true_r, jf_Elem in He.
    match goal with |- context [Elem false ?e] => destruct e end;
      try (apply fn_like_case; [exact He|exact Hs|exact Hdef]).
    + (* identifier *)
      destruct ic; [|exact Hdef].
      match goal with |- context [build_iife ?es ?st0] =>
        pose proof (build_iife_free es st0) as Hb; destruct (build_iife es st0) as [elems' s1] end.
      cbn [fst] in Hb.
      assert (Hb' : forallb jf elems' = true) by (apply Hb; cbn [forallb]; rewrite jf_Elem; reflexivity).
      destruct (o_object_slots (e_opts E)); cbn [fst].
      * rewrite jf_Cond. rewrite (jf_wrap_children _ _ _ Hb' Hs). rewrite andb_true_r.
        rewrite jf_mk_call; reflexivity.
      * apply jf_wrap_children; assumption.
    + (* object literal child *)
      cbn [fst]. rewrite jf_Obj. apply forallb_app_true; [|apply jf_hint_prop].
      apply jf_merge_slots; [|exact Hs]. rewrite jf_Obj in He. exact He.
    + (* call *)
      match goal with |- context [Call ?sy _ _ _ _] => destruct sy; [exact Hdef|] end.
      destruct ic; [|exact Hdef].
      destruct (o_object_slots (e_opts E)).
      * unfold generate_unique_slot_ident.
        match goal with |- context [fresh_ident ?sy ?st0] => destruct (fresh_ident sy st0) as [[id ctx0] s1] eqn:Ef end.
        assert (Hid : jf id = true) by (unfold fresh_ident in Ef; inversion Ef; reflexivity).
        match goal with |- context [build_iife ?es ?st0] =>
          pose proof (build_iife_free es st0) as Hb; destruct (build_iife es st0) as [elems' s2] end.
        cbn [fst] in Hb.
        assert (Hb' : forallb jf elems' = true) by (apply Hb; cbn [forallb]; rewrite jf_Elem, Hid; reflexivity).
        cbn [fst]. rewrite jf_Cond, Hid, (jf_wrap_children _ _ _ Hb' Hs), andb_true_r, andb_true_r.
        apply jf_mk_call; [reflexivity|]. cbn [forallb]. rewrite jf_Assign, jf_Paren, Hid, He. reflexivity.
      * cbn [fst]. apply jf_wrap_children; [cbn [forallb]; rewrite jf_Elem, He; reflexivity|exact Hs].
  - destruct x; try exact Hdef.
    match goal with |- context [Elem ?b ?e] => destruct b; [exact Hdef|destruct e; exact Hdef] end.
Qed.

Lemma resolve_directive_free dn tag attrs s : jf (fst (resolve_directive dn tag attrs s)) = true.
Proof.
  unfold resolve_directive, import_from_vue.
  repeat match goal with
         | |- context [if ?c then _ else _] => destruct c
         | |- context [match ?x with _ => _ end] => destruct x
         end; reflexivity.
Qed.

Lemma build_directives_free dirs tag attrs s :
  forallb dir_free dirs = true -> forallb jf (fst (build_directives dirs tag attrs s)) = true.
Proof.
  revert s. induction dirs as [|d r IH]; intros s H; [reflexivity|].
  cbn [forallb] in H. apply andb_true_iff in H. destruct H as [Hd Hr].
  cbn [build_directives]. destruct d; try (apply IH; exact Hr).
  pose proof (resolve_directive_free name tag attrs s) as Hrd.
  destruct (resolve_directive name tag attrs s) as [dd s1]. cbn [fst] in Hrd.
  pose proof (IH s1 Hr) as Hrest. destruct (build_directives r tag attrs s1) as [r' s2].
  cbn [fst forallb] in *. rewrite Hrest, andb_true_r.
  rewrite jf_Elem, jf_Arr, forallb_map_Elem.
  cbn [dir_free] in Hd. repeat (apply andb_true_iff in Hd; destruct Hd as [Hd ?]).
  cbn [app forallb]. rewrite Hrd.
  match goal with H : jf value = true |- _ => rewrite H end. cbn [andb].
  apply forallb_app_true; [destruct argument|destruct modifiers]; cbn [opt_list forallb optb] in *;
    rewrite ?andb_true_r; try assumption; reflexivity.
Qed.

Lemma transform_tag_free name s : jsx_free_name name = true -> jf (fst (transform_tag E name s)) = true.
Proof.
  intros Hn. unfold transform_tag, import_from_vue. destruct name; try discriminate.
  - (* member tag: a JSXMemberExpression prints as a member chain and is not counted as JSX *)
    cbn [fst]. unfold jsx_free_name in Hn. apply andb_true_iff in Hn. destruct Hn as [_ Hn]. exact Hn.
  - repeat match goal with |- context [if ?c then _ else _] => destruct c end; reflexivity.
  - cbn [jsx_free_name] in Hn.
    match goal with |- context [JNs ?a ?b] => destruct a; try discriminate; destruct b; try discriminate end.
    reflexivity.
Qed.

Lemma get_pragma_free s : jf (fst (get_pragma E s)) = true.
Proof. unfold get_pragma. destruct (pragma s); [reflexivity|]. destruct (o_pragma (e_opts E)); reflexivity. Qed.

Lemma vnode_hints_free ar : forallb jf (vnode_hints E ar) = true.
Proof.
  unfold vnode_hints. destruct (o_optimize (e_opts E)); [|reflexivity].
  apply forallb_app_true.
  - destruct (N.eqb (r_flags ar) 0); reflexivity.
  - destruct (r_dyn ar) as [[|d ds]|]; try reflexivity.
    cbn [forallb]. rewrite andb_true_r, jf_Arr.
    apply forallb_forall. intros x Hx. apply in_map_iff in Hx. destruct Hx as [y [<- _]]. reflexivity.
Qed.

(* the claim for one node, and for element values of attributes *)
Definition is_el (n : node) : bool := match n with JsxE _ _ _ _ _ _ | JsxF _ => true | _ => false end.
Definition Q (n : node) : Prop := forall s, ready n = true -> jf (fst (lower_el E n s)) = true.
Definition P (n : node) : Prop :=
  (is_el n = true -> Q n) /\ (forall nm v, n = JAttr nm v -> is_el v = true -> Q v).

Lemma ready_list l :
  (fix rl (l : list node) : bool := match l with [] => true | x :: r => ready x && rl r end) l
  = forallb ready l.
Proof. induction l as [|x r IH]; [reflexivity|]. cbn [forallb]. rewrite <- IH. reflexivity. Qed.

Lemma ready_attrs_list l :
  (fix ral (l : list node) : bool :=
     match l with
     | [] => true
     | x :: r => (match x with JAttr _ _ | Spread _ => ready x | _ => false end) && ral r
     end) l
  = forallb ready_attr l.
Proof. induction l as [|x r IH]; [reflexivity|]. cbn [forallb]. rewrite <- IH. reflexivity. Qed.

Lemma ready_attr_ready l : forallb ready_attr l = true -> forallb ready l = true.
Proof.
  induction l as [|x r IH]; [reflexivity|]. cbn [forallb]. intros H. apply andb_true_iff in H.
  destruct H as [Hx Hr]. rewrite (IH Hr), andb_true_r. destruct x; try discriminate Hx; exact Hx.
Qed.

Lemma lower_children_free cs :
  Forall P cs -> forall s, forallb ready cs = true ->
  forallb jf (fst (lower_children_with E (lower_el E) cs s)) = true.
Proof.
  induction 1 as [|c r Hc Hr IH]; intros s Hrd; [reflexivity|].
  cbn [forallb] in Hrd. apply andb_true_iff in Hrd. destruct Hrd as [Hc1 Hr1].
  cbn [lower_children_with].
  assert (Hrest : forall o s0, forallb jf o = true ->
            forallb jf (fst (let '(r', s1) := lower_children_with E (lower_el E) r s0 in (o ++ r', s1))) = true).
  { intros o s0 Ho. pose proof (IH s0 Hr1) as H. destruct (lower_children_with E (lower_el E) r s0).
    cbn [fst] in *. apply forallb_app_true; assumption. }
  destruct Hc as [Hel _].
  destruct c; try (apply Hrest; reflexivity).
  - (* nested element *)
    pose proof (Hel eq_refl s Hc1) as H. destruct (lower_el E _ s) as [x s1]. cbn [fst] in H.
    apply Hrest. cbn [forallb]. rewrite jf_Elem, H. reflexivity.
  - pose proof (Hel eq_refl s Hc1) as H. destruct (lower_el E _ s) as [x s1]. cbn [fst] in H.
    apply Hrest. cbn [forallb]. rewrite jf_Elem, H. reflexivity.
  - (* expression container *)
    cbn [ready] in Hc1.
    match type of Hc1 with context [match ?e with _ => _ end] => destruct e end;
      try (apply Hrest; cbn [forallb]; rewrite jf_Elem, Hc1; reflexivity).
    apply Hrest. reflexivity.
  - (* text *)
    unfold transform_jsx_text. destruct (transform_text v); [apply Hrest; reflexivity|].
    match goal with |- context [import_from_vue ?n ?st0] => destruct (import_from_vue n st0) eqn:Ei end.
    apply Hrest. cbn [forallb]. rewrite jf_Elem, andb_true_r. apply jf_mk_call; [|reflexivity].
    unfold import_from_vue in Ei. inversion Ei; subst. reflexivity.
  - (* spread child *)
    cbn [ready] in Hc1. apply Hrest. cbn [forallb]. rewrite jf_Elem, Hc1. reflexivity.
Qed.

Lemma lower_attr_values_free attrs :
  Forall P attrs -> forall s, forallb ready attrs = true ->
  forallb attr_ok (fst (lower_attr_values_with (lower_el E) attrs s)) = true.
Proof.
  induction 1 as [|a r Ha Hr IH]; intros s Hrd; [reflexivity|].
  cbn [forallb] in Hrd. apply andb_true_iff in Hrd. destruct Hrd as [Ha1 Hr1].
  cbn [lower_attr_values_with].
  assert (Hrest : forall a' s0, attr_ok a' = true ->
            forallb attr_ok (fst (let '(r', s1) := lower_attr_values_with (lower_el E) r s0 in (a' :: r', s1))) = true).
  { intros a' s0 Ho. pose proof (IH s0 Hr1) as H. destruct (lower_attr_values_with (lower_el E) r s0).
    cbn [fst forallb] in *. rewrite Ho, H. reflexivity. }
  destruct Ha as [_ Hval].
  destruct a; try (apply Hrest; reflexivity).
  - (* spread attribute *) apply Hrest. exact Ha1.
  - (* attribute *)
    cbn [ready] in Ha1.
    match goal with |- context [JAttr ?nm ?v] => destruct v end;
      try (apply Hrest; cbn [attr_ok val_ok]; try exact Ha1; reflexivity);
      try discriminate.
    + match goal with |- context [is_directive ?x] => destruct (is_directive x) end;
        [apply Hrest; reflexivity|].
      pose proof (Hval _ _ eq_refl eq_refl s Ha1) as H. destruct (lower_el E _ s) as [x s1]. cbn [fst] in H.
      apply Hrest. exact H.
    + match goal with |- context [is_directive ?x] => destruct (is_directive x) end;
        [apply Hrest; reflexivity|].
      pose proof (Hval _ _ eq_refl eq_refl s Ha1) as H. destruct (lower_el E _ s) as [x s1]. cbn [fst] in H.
      apply Hrest. exact H.
Qed.

Theorem lower_el_free_P : forall n, P n.
Proof.
  apply node_ind'; intros; split; try discriminate; try (intros ? ? Heq; discriminate Heq).
  - (* JsxE *)
    intros _ s Hrd. cbn [ready] in Hrd. rewrite ready_list, ready_attrs_list in Hrd.
    apply andb_true_iff in Hrd. destruct Hrd as [Hrd Hch]. apply andb_true_iff in Hrd. destruct Hrd as [Hnm Hat].
    apply ready_attr_ready in Hat.
    cbn [lower_el].
    match goal with H : Forall P ats |- _ => pose proof (lower_attr_values_free _ H (push_slot_flag E s) Hat) as Hav end.
    destruct (lower_attr_values_with (lower_el E) ats (push_slot_flag E s)) as [attrs s1]. cbn [fst] in Hav.
    pose proof (transform_attrs_free E attrs (is_component E nm) s1 Hav) as Hta. cbv zeta in Hta.
    set (ar := transform_attrs E attrs (is_component E nm) s1) in *.
    destruct Hta as [Hattrs [Hdirs Hslots]].
    pose proof (transform_tag_free nm (r_st ar) Hnm) as Htag.
    destruct (transform_tag E nm (r_st ar)) as [tag s2]. cbn [fst] in Htag.
    match goal with H : Forall P ch |- _ => pose proof (lower_children_free _ H s2 Hch) as Hel end.
    destruct (lower_children_with E (lower_el E) ch s2) as [elems s3]. cbn [fst] in Hel.
    pose proof (finish_children_free elems (is_component E nm) (r_slots ar) s3 Hel Hslots) as Hfc.
    destruct (finish_children E elems (is_component E nm) (r_slots ar) s3) as [chx s4]. cbn [fst] in Hfc.
    pose proof (get_pragma_free s4) as Hpr. destruct (get_pragma E s4) as [callee s5]. cbn [fst] in Hpr.
    assert (Hcall : jf (mk_call callee ([tag; r_attrs ar; chx] ++ vnode_hints E ar)) = true).
    { apply jf_mk_call; [exact Hpr|]. apply forallb_app_true; [|apply vnode_hints_free].
      cbn [forallb]. rewrite Htag, Hattrs, Hfc. reflexivity. }
    destruct (r_dirs ar) as [|d0 dr] eqn:Edirs; [exact Hcall|].
    match goal with |- context [import_from_vue ?n ?st0] => destruct (import_from_vue n st0) as [wd s6] eqn:Ei end.
    pose proof (build_directives_free (d0 :: dr) nm attrs s6 Hdirs) as Hbd.
    destruct (build_directives (d0 :: dr) nm attrs s6) as [ds s7]. cbn [fst] in *.
    apply jf_mk_call; [unfold import_from_vue in Ei; inversion Ei; reflexivity|].
    cbn [forallb]. rewrite Hcall, jf_Arr, Hbd. reflexivity.
  - (* JsxF *)
    intros _ s Hrd. cbn [ready] in Hrd. rewrite ready_list in Hrd.
    cbn [lower_el].
    pose proof (get_pragma_free (push_slot_flag E s)) as Hpr.
    destruct (get_pragma E (push_slot_flag E s)) as [callee s1]. cbn [fst] in Hpr.
    match goal with |- context [import_from_vue ?n ?st0] => destruct (import_from_vue n st0) as [frag s2] eqn:Ei end.
    match goal with H : Forall P ch |- _ => pose proof (lower_children_free _ H s2 Hrd) as Hel end.
    destruct (lower_children_with E (lower_el E) ch s2) as [elems s3]. cbn [fst] in Hel.
    pose proof (finish_children_free elems false None s3 Hel eq_refl) as Hfc.
    destruct (finish_children E elems false None s3) as [chx s4]. cbn [fst] in *.
    apply jf_mk_call; [exact Hpr|]. cbn [forallb]. rewrite Hfc.
    unfold import_from_vue in Ei. inversion Ei; subst. reflexivity.
  - (* JAttr: the element value claim comes from the induction hypothesis on the value *)
    intros nm0 v0 Heq Hel. inversion Heq; subst.
    match goal with H : P v0 |- _ => destruct H as [H _]; exact (H Hel) end.
Qed.

Theorem lower_el_jsx_free n s :
  is_el n = true -> ready n = true -> jsx_free (fst (lower_el E n s)) = true.
Proof. intros Hel Hr. destruct (lower_el_free_P n) as [H _]. exact (H Hel s Hr). Qed.

End Element.
