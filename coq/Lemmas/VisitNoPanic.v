(* C08 at the level of the traversal: visiting any grammatical tree never sets the [panicked]
   flag (the model's `unreachable!`).  Each JSX element is lowered in the state its visited
   attributes and children left it in; Lemmas/VisitPlain.v shows that state is [ready], and
   Lemmas/NoPanic.v that lowering a ready element does not panic. *)
From VJ Require Import Model.Str Model.Json Model.Ast Model.State Model.Util Model.Text
  Model.Directive Model.Lower Model.Visitor Spec.Plain Lemmas.NodeInd Lemmas.PlainProofs
  Lemmas.NoPanic Lemmas.VisitPlain.

Lemma pn_enter s : pn s (enter_scope s). Proof. destruct s; reflexivity. Qed.
Lemma pn_leave outer s : pn s (leave_scope outer s). Proof. destruct s; reflexivity. Qed.
Lemma pn_set_assign v s : pn s (set_assign_left v s). Proof. destruct s; reflexivity. Qed.
Lemma pn_post_import n s : pn s (post_import n s).
Proof.
  unfold post_import.
  repeat match goal with |- context [match ?x with _ => _ end] => destruct x end;
    try apply pn_refl; destruct s; reflexivity.
Qed.
Lemma pn_decouple attrs s : pn s (snd (decouple_attrs attrs s)).
Proof.
  unfold decouple_attrs. destruct (split_at_vmodels attrs) as [[[pre v] post]|]; [|apply pn_refl].
  destruct v; try apply pn_set_diags.
  match goal with |- context [match ?e with JEmpty => _ | _ => _ end] => destruct e end;
    try apply pn_set_diags; apply pn_refl.
Qed.

Section VisitNoPanic.
Variable E : env.
Variable hook_call hook_declarator : node -> st -> node * st.
Hypothesis Hhc_S : forall n s, Sj s -> Sj (snd (hook_call n s)).
Hypothesis Hhd_S : forall n s, Sj s -> Sj (snd (hook_declarator n s)).
Hypothesis Hhc_j : forall n s, jsx_free n = true -> jsx_free (fst (hook_call n s)) = true.
Hypothesis Hhd_j : forall n s, jsx_free n = true -> jsx_free (fst (hook_declarator n s)) = true.
Hypothesis Hhc_p : forall n s, pn s (snd (hook_call n s)).
Hypothesis Hhd_p : forall n s, pn s (snd (hook_declarator n s)).

Let V := visit E hook_call hook_declarator.
Let VP := visit_plain E hook_call hook_declarator Hhc_S Hhd_S Hhc_j Hhd_j.

Lemma SV n m s : Sj s -> Sj (snd (V m n s)).
Proof. intros HS. exact (Pv_S E hook_call hook_declarator n m s (VP n) HS). Qed.

Definition NpV (n : node) : Prop :=
  forall m s, Sj s ->
    (gram PExpr n = true -> m <> MNoLower -> pn s (snd (V m n s)))
    /\ (gram PExpr n = true -> is_el n = true -> m = MNoLower -> pn s (snd (V m n s)))
    /\ (gram PAttr n = true -> m = MExpr -> pn s (snd (V m n s)))
    /\ (gram PChild n = true -> m = jsx_item_mode n -> pn s (snd (V m n s))).

Lemma NpV_A n m s : NpV n -> Sj s -> gram PExpr n = true -> m <> MNoLower -> pn s (snd (V m n s)).
Proof. intros H HS. destruct (H m s HS) as (A & _). exact A. Qed.

Lemma ne_expr : MExpr <> MNoLower. Proof. discriminate. Qed.
Lemma ne_switch : MSwitch <> MNoLower. Proof. discriminate. Qed.

Lemma SV_list l : forall m s, Sj s -> Sj (snd (visit_list_with V m l s)).
Proof.
  induction l as [|x r IH]; intros m s HS; [exact HS|].
  cbn [visit_list_with]. pose proof (SV x m s HS) as S1. destruct (V m x s) as [x' s1]. cbn [snd] in S1.
  specialize (IH m s1 S1). destruct (visit_list_with V m r s1). exact IH.
Qed.

Lemma SV_jsx_list l : forall s, Sj s -> Sj (snd (visit_jsx_list_with V l s)).
Proof.
  induction l as [|x r IH]; intros s HS; [exact HS|].
  cbn [visit_jsx_list_with]. pose proof (SV x (jsx_item_mode x) s HS) as S1.
  destruct (V (jsx_item_mode x) x s) as [x' s1]. cbn [snd] in S1.
  specialize (IH s1 S1). destruct (visit_jsx_list_with V r s1). exact IH.
Qed.

Lemma np_visit_list l : Forall NpV l -> forall m s, Sj s -> m <> MNoLower ->
  forallb (gram PExpr) l = true -> pn s (snd (visit_list_with V m l s)).
Proof.
  induction 1 as [|x r Hx Hr IH]; intros m s HS Hm G; [apply pn_refl|].
  cbn [forallb] in G. apply andb_true_iff in G. destruct G as [G1 G2].
  cbn [visit_list_with].
  pose proof (NpV_A x m s Hx HS G1 Hm) as P1. pose proof (SV x m s HS) as S1.
  destruct (V m x s) as [x' s1]. cbn [snd] in P1, S1.
  pose proof (IH m s1 S1 Hm G2) as P2. destruct (visit_list_with V m r s1) as [r' s2]. cbn [snd] in *.
  eapply pn_trans; eassumption.
Qed.

Lemma np_visit_stmts l : Forall NpV l -> forall s, Sj s ->
  forallb (gram PExpr) l = true -> pn s (snd (visit_stmts_with V l s)).
Proof.
  intros Hl s HS G. unfold visit_stmts_with.
  pose proof (np_visit_list l Hl MExpr (enter_scope s) (Sj_enter s) ne_expr G) as P1.
  destruct (visit_list_with V MExpr l (enter_scope s)) as [l' s1]. cbn [snd] in *.
  eapply pn_trans; [apply pn_enter|]. eapply pn_trans; [exact P1|apply pn_leave].
Qed.

Lemma np_visit_jsx_list q l : (q = PAttr \/ q = PChild) -> Forall NpV l -> forall s, Sj s ->
  forallb (gram q) l = true -> pn s (snd (visit_jsx_list_with V l s)).
Proof.
  intros Hq. induction 1 as [|x r Hx Hr IH]; intros s HS G; [apply pn_refl|].
  cbn [forallb] in G. apply andb_true_iff in G. destruct G as [G1 G2].
  cbn [visit_jsx_list_with].
  destruct (Hx (jsx_item_mode x) s HS) as (_ & _ & C1 & D1).
  pose proof (SV x (jsx_item_mode x) s HS) as S1.
  assert (P1 : pn s (snd (V (jsx_item_mode x) x s))).
  { destruct Hq as [-> | ->]; [|apply D1; [exact G1|reflexivity]].
    apply C1; [exact G1|]. destruct x; try discriminate G1; reflexivity. }
  destruct (V (jsx_item_mode x) x s) as [x' s1]. cbn [snd] in P1, S1.
  pose proof (IH s1 S1 G2) as P2. destruct (visit_jsx_list_with V r s1) as [r' s2]. cbn [snd] in *.
  eapply pn_trans; eassumption.
Qed.

Ltac vac := repeat split; try (cbn; intros; discriminate).
Ltac gsplit G := cbn [gram isE isA isC negb andb] in G; rewrite ?gram_list in G;
  repeat match type of G with (_ && _) = true => let G2 := fresh "G" in
           apply andb_true_iff in G; destruct G as [G G2] end.
Ltac opening := unfold V; cbn [visit]; fold V.
(* one child visited in expression position *)
Ltac nstep H x mm s HS Hm :=
  let P1 := fresh "P" in let S1 := fresh "S" in let s1 := fresh "s" in let x' := fresh "x" in
  pose proof (NpV_A x mm s H HS ltac:(assumption) Hm) as P1; pose proof (SV x mm s HS) as S1;
  destruct (V mm x s) as [x' s1]; cbn [snd] in P1, S1.
Ltac nstepE H x s HS := nstep H x MExpr s HS ne_expr.
Ltac nlist H l mm s HS Hm :=
  let P1 := fresh "P" in let S1 := fresh "S" in let s1 := fresh "s" in let l' := fresh "l" in
  pose proof (np_visit_list l H mm s HS Hm ltac:(assumption)) as P1; pose proof (SV_list l mm s HS) as S1;
  destruct (visit_list_with V mm l s) as [l' s1]; cbn [snd] in P1, S1.
Ltac chain := cbn [snd]; repeat first [eassumption | apply pn_refl | eapply pn_trans; [eassumption|]].

Theorem visit_np : forall n, NpV n.
Proof.
  apply node_ind'; unfold NpV.
  - (* NScalar *) intros j m s HS. split; [intros; apply pn_refl|vac].
  - (* NArr *)
    intros l Hl m s HS. split; [|vac]. intros G _. gsplit G. opening.
    destruct m; try (nlist Hl l MExpr s HS ne_expr; exact P).
    pose proof (np_visit_stmts l Hl s HS ltac:(assumption)) as P1.
    destruct (visit_stmts_with V l s). exact P1.
  - (* NObj *)
    intros l Hl m s HS. split; [|vac]. intros G _. gsplit G. opening.
    destruct (sq "SwitchCase" (ntype (NObj l))).
    + nlist Hl l MSwitch s HS ne_switch. exact P.
    + nlist Hl l MExpr s HS ne_expr.
      destruct (sq "ImportDeclaration" (ntype (NObj l))).
      { cbn [snd]. eapply pn_trans; [exact P|apply pn_post_import]. }
      destruct (sq "VariableDeclarator" (ntype (NObj l))).
      { eapply pn_trans; [exact P|apply Hhd_p]. }
      exact P.
  - (* Field *)
    intros k v Hv m s HS. split; [|vac]. intros G _. gsplit G. opening.
    match goal with |- context [V ?m' v s] => set (mm := m') end.
    assert (Hm : mm <> MNoLower).
    { subst mm. destruct m; try discriminate. destruct (sq "consequent" k); discriminate. }
    nstep Hv v mm s HS Hm. chain.
  - (* Ident *) intros sy c o m s HS. split; [intros; apply pn_refl|vac].
  - (* BIdent *)
    intros sy c o t Ht m s HS. split; [|vac]. intros G _. gsplit G. opening. nstepE Ht t s HS. chain.
  - (* IdName *) intros sy m s HS. split; [intros; apply pn_refl|vac].
  - (* Str *) intros v w Hw m s HS. split; [intros; apply pn_refl|vac].
  - (* Num *) intros v w Hw m s HS. split; [intros; apply pn_refl|vac].
  - (* Bool *) intros b m s HS. split; [intros; apply pn_refl|vac].
  - (* Null *) intros m s HS. split; [intros; apply pn_refl|vac].
  - (* Arr *)
    intros l Hl m s HS. split; [|vac]. intros G _. gsplit G. opening. nlist Hl l MExpr s HS ne_expr. exact P.
  - (* Elem *)
    intros sp e He m s HS. split; [|vac]. intros G _. gsplit G. opening. nstepE He e s HS. chain.
  - (* Hole *) intros m s HS. split; [intros; apply pn_refl|vac].
  - (* Obj *)
    intros l Hl m s HS. split; [|vac]. intros G _. gsplit G. opening. nlist Hl l MExpr s HS ne_expr. exact P.
  - (* KV *)
    intros k v Hk Hv m s HS. split; [|vac]. intros G _. gsplit G. opening.
    nstepE Hk k s HS. nstepE Hv v s0 S. chain.
  - (* Computed *)
    intros e He m s HS. split; [|vac]. intros G _. gsplit G. opening. nstepE He e s HS. chain.
  - (* Spread *)
    intros e He m s HS.
    assert (HX : gram PExpr e = true -> pn s (snd (V m (Spread e) s))).
    { intros G. opening. nstepE He e s HS. chain. }
    split; [intros G _; gsplit G; auto|]. split; [vac|]. split; [|vac].
    intros G _. gsplit G. auto.
  - (* Call *)
    intros sy c f a t Hf Ha Ht m s HS. split; [|vac]. intros G _. gsplit G. opening.
    nstepE Hf f s HS. nlist Ha a MExpr s0 S ne_expr.
    eapply pn_trans; [eassumption|]. eapply pn_trans; [eassumption|apply Hhc_p].
  - (* Arrow *)
    intros c ps b a g tp rt Hps Hb Htp Hrt m s HS. split; [|vac]. intros G _. gsplit G. opening.
    nlist Hps ps MExpr s HS ne_expr. nstepE Hb b (enter_scope s0) (Sj_enter s0).
    cbn [snd]. eapply pn_trans; [eassumption|]. eapply pn_trans; [apply pn_enter|].
    eapply pn_trans; [eassumption|apply pn_leave].
  - (* Assign *)
    intros o l r Hl Hr m s HS. split; [|vac]. intros G _. gsplit G. opening.
    assert (Hdef : pn s (snd (let '(l', s0) := V MExpr l s in
                              let '(r', s1) := V MExpr r s0 in (Assign o l' r', s1)))).
    { nstepE Hl l s HS. nstepE Hr r s0 S. chain. }
    destruct l; try exact Hdef. clear Hdef.
    match goal with |- context [V MExpr (BIdent ?sy ?cc ?oo ?tt) ?s0] =>
      pose proof (NpV_A _ MExpr s0 Hl (Sj_set_assign_left _ _ HS) ltac:(assumption) ne_expr) as P1;
      pose proof (SV (BIdent sy cc oo tt) MExpr s0 (Sj_set_assign_left _ _ HS)) as S1;
      destruct (V MExpr (BIdent sy cc oo tt) s0) as [l' s1] end.
    cbn [snd] in *. nstepE Hr r s1 S1. cbn [snd].
    eapply pn_trans; [apply pn_set_assign|]. eapply pn_trans; [exact P1|].
    eapply pn_trans; [eassumption|apply pn_set_assign].
  - (* Paren *)
    intros e He m s HS. split; [|vac]. intros G _. gsplit G. opening. nstepE He e s HS. chain.
  - (* Cond *)
    intros t c a Ht Hc Ha m s HS. split; [|vac]. intros G _. gsplit G. opening.
    nstepE Ht t s HS. nstepE Hc c s0 S. nstepE Ha a s1 S0. chain.
  - (* Bin *)
    intros o l r Hl Hr m s HS. split; [|vac]. intros G _. gsplit G. opening.
    nstepE Hl l s HS. nstepE Hr r s0 S. chain.
  - (* Unary *)
    intros o a Ha m s HS. split; [|vac]. intros G _. gsplit G. opening. nstepE Ha a s HS. chain.
  - (* Member *)
    intros o p Ho Hp m s HS. split; [|vac]. intros G _. gsplit G. opening.
    nstepE Ho o s HS. nstepE Hp p s0 S. chain.
  - (* Block *)
    intros c l Hl m s HS. split; [|vac]. intros G _. gsplit G. opening.
    pose proof (np_visit_stmts l Hl s HS ltac:(assumption)) as P1.
    destruct (visit_stmts_with V l s). exact P1.
  - (* JsxE *)
    intros nm ats sc ta ch cl Hnm Hats Hta Hch Hcl m s HS.
    assert (HG : gram PExpr (JsxE nm ats sc ta ch cl) = true -> pn s (snd (V m (JsxE nm ats sc ta ch cl) s))).
    { intros G.
      (* the element as its visited attributes and children leave it is ready *)
      destruct (VP (JsxE nm ats sc ta ch cl) MNoLower s HS) as (_ & _ & B & _).
      destruct (B G eq_refl eq_refl) as [RDY _]. clear B.
      gsplit G. revert RDY. opening.
      pose proof (np_visit_jsx_list PAttr ats (or_introl eq_refl) Hats s HS ltac:(assumption)) as P1.
      pose proof (SV_jsx_list ats s HS) as S1.
      destruct (visit_jsx_list_with V ats s) as [ats' s1]. cbn [snd] in P1, S1.
      pose proof (pn_decouple ats' s1) as P2. pose proof (Sj_decouple ats' s1 S1) as S2.
      destruct (decouple_attrs ats' s1) as [ats'' s2]. cbn [snd] in P2, S2.
      pose proof (np_visit_jsx_list PChild ch (or_intror eq_refl) Hch s2 S2 ltac:(assumption)) as P3.
      destruct (visit_jsx_list_with V ch s2) as [ch' s3]. cbn [fst snd] in *.
      intros RDY.
      assert (P03 : pn s s3) by (eapply pn_trans; [exact P1|]; eapply pn_trans; [exact P2|exact P3]).
      destruct m; try (eapply pn_trans; [exact P03|]; apply (lower_el_no_panic E _ s3 RDY)).
      exact P03. }
    split; [intros G _; exact (HG G)|]. split; [intros G _ _; exact (HG G)|]. split; [vac|].
    intros G _. apply HG. exact G.
  - (* JsxF *)
    intros ch Hch m s HS.
    assert (HG : gram PExpr (JsxF ch) = true -> pn s (snd (V m (JsxF ch) s))).
    { intros G.
      destruct (VP (JsxF ch) MNoLower s HS) as (_ & _ & B & _).
      destruct (B G eq_refl eq_refl) as [RDY _]. clear B.
      gsplit G. revert RDY. opening.
      pose proof (np_visit_jsx_list PChild ch (or_intror eq_refl) Hch s HS ltac:(assumption)) as P3.
      destruct (visit_jsx_list_with V ch s) as [ch' s3]. cbn [fst snd] in *.
      intros RDY.
      destruct m; try (eapply pn_trans; [exact P3|]; apply (lower_el_no_panic E _ s3 RDY)).
      exact P3. }
    split; [intros G _; exact (HG G)|]. split; [intros G _ _; exact (HG G)|]. split; [vac|].
    intros G _. apply HG. exact G.
  - (* JAttr *)
    intros nm v Hnm Hv m s HS. split; [vac|]. split; [vac|]. split; [|vac].
    intros G _. cbn [gram isA andb] in G. opening.
    destruct (Hv (jsx_item_mode v) s HS) as (A1 & B1 & _ & _).
    assert (P1 : pn s (snd (V (jsx_item_mode v) v s))).
    { destruct v; try discriminate G; try (unfold V; cbn [visit jsx_item_mode snd]; apply pn_refl).
      - apply B1; [exact G|reflexivity|reflexivity].
      - apply B1; [exact G|reflexivity|reflexivity].
      - (* container: the expression inside is visited in expression position *)
        apply andb_true_iff in G. destruct G as [_ G].
        destruct (Hv MExpr s HS) as (_ & _ & _ & D1). apply D1; [|reflexivity].
        cbn [gram isC andb]. rewrite G. apply orb_true_r. }
    destruct (V (jsx_item_mode v) v s) as [v' s1]. exact P1.
  - (* JNs *) intros a b Ha Hb m s HS. vac.
  - (* JExprC *)
    intros e He m s HS. split; [vac|]. split; [vac|]. split; [vac|].
    intros G _. cbn [gram isC andb] in G. opening.
    destruct (is_jempty e) eqn:Ej.
    + destruct e; try discriminate Ej. unfold V. cbn [visit snd]. apply pn_refl.
    + cbn [orb] in G. nstepE He e s HS. chain.
  - (* JEmpty *) intros m s HS. vac.
  - (* JText *) intros v w m s HS. split; [vac|]. split; [vac|]. split; [vac|]. intros _ _. apply pn_refl.
  - (* JSpreadChild *)
    intros e He m s HS. split; [vac|]. split; [vac|]. split; [vac|].
    intros G _. gsplit G. opening. nstepE He e s HS. chain.
Qed.


(* ---- the module ------------------------------------------------------------------------- *)
Variable collect_ts_decls : node -> st -> st.
Hypothesis Hct_S : forall n s, Sj s -> Sj (collect_ts_decls n s).
Hypothesis Hct_p : forall n s, pn s (collect_ts_decls n s).

Lemma pn_search_pragmas gs s : pn s (search_pragmas gs s).
Proof.
  unfold search_pragmas. revert s. induction gs as [|g r IH]; intros s; [apply pn_refl|].
  cbn [fold_left]. eapply pn_trans; [|apply IH]. destruct (pragma_of_group g); [|apply pn_refl]. destruct s; reflexivity.
Qed.

Lemma pn_finish_module items s : pn s (snd (finish_module items s)).
Proof.
  unfold finish_module.
  set (items1 := match inj_consts s with [] => items | cs => mk_var_decl "const" cs :: items end).
  set (s1 := set_inj_consts [] s).
  assert (P1 : pn s s1) by (subst s1; destruct s; reflexivity).
  destruct (match inj_vars s1 with
            | [] => (items1, s1)
            | vs => (mk_var_decl "let" vs :: items1, set_slot_counter 1 (set_inj_vars [] s1))
            end) as [items2 s2] eqn:E2.
  assert (P2 : pn s s2).
  { destruct (inj_vars s1); injection E2 as _ <-; [exact P1|]. eapply pn_trans; [exact P1|]. destruct s1; reflexivity. }
  destruct (slot_helper s2).
  - pose proof (pn_import "isVNode"%string s2) as P3.
    destruct (import_from_vue "isVNode"%string s2) as [isv s3]. cbn [snd] in P3.
    pose proof (pn_fresh (s_ "s") s3) as P4.
    destruct (fresh_ident (s_ "s") s3) as [[x ctx] s4]. cbn [snd] in *.
    eapply pn_trans; [exact P2|]. eapply pn_trans; [exact P3|exact P4].
  - exact P2.
Qed.

Theorem module_no_panic m :
  module_shape m = true -> gram PExpr m = true ->
  panicked (snd (transform_module E hook_call hook_declarator collect_ts_decls m)) = false.
Proof.
  intros Hs. unfold module_shape in Hs.
  repeat (match type of Hs with context [match ?x with _ => _ end] => is_var x; destruct x end;
          try discriminate Hs).
  intros G. unfold transform_module. fold V.
  cbn [gram isE andb] in G. rewrite ?gram_list in G.
  apply andb_true_iff in G. destruct G as [_ G]. rewrite ?andb_true_r in G.
  match goal with |- context [visit_list_with V MExpr ?items ?s] => set (s0 := s); set (its := items) in * end.
  assert (S0 : Sj s0) by (apply Hct_S, Sj_search_pragmas, Sj_st0).
  assert (P0 : panicked s0 = false).
  { subst s0. rewrite Hct_p, pn_search_pragmas. reflexivity. }
  pose proof (np_visit_list its (proj2 (Forall_forall NpV its) (fun x _ => visit_np x)) MExpr s0 S0 ne_expr G) as P1.
  destruct (visit_list_with V MExpr its s0) as [items' s1]. cbn [snd] in P1.
  pose proof (pn_finish_module items' s1) as P2.
  destruct (finish_module items' s1) as [items'' s2]. cbn [snd] in *.
  unfold pn in *. congruence.
Qed.

End VisitNoPanic.
