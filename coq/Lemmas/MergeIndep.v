(* C14, mergeProps: the option only matters for an element with a spread attribute, a transformOn
   `on` object or a class / style / listener key produced twice.  For every other attribute list
   the attribute lowering is the same with the option on and off. *)
From VJ Require Import Model.Str Model.Json Model.Ast Model.State Model.Util Model.Text
  Model.Directive Model.Lower Lemmas.StrLemmas.

Definition with_merge (b : bool) (E : env) : env :=
  {| e_opts := {| o_transform_on := o_transform_on (e_opts E); o_optimize := o_optimize (e_opts E);
                  o_merge_props := b; o_object_slots := o_object_slots (e_opts E);
                  o_pragma := o_pragma (e_opts E); o_resolve_type := o_resolve_type (e_opts E);
                  o_npat := o_npat (e_opts E) |};
     e_unres := e_unres E; e_matches := e_matches E; e_html := e_html E; e_svg := e_svg E;
     e_comments := e_comments E |}.

Section MergeIndep.
Variable E : env.
Let E1 := with_merge true E.
Let E2 := with_merge false E.

(* an attribute the option cannot reach: not a spread, and not an `on` / `nativeOn` object under
   transformOn (those become merge arguments of their own) *)
Definition merge_free (x : node) : bool :=
  match x with
  | Spread _ => false
  | JAttr name _ =>
      is_directive x
      || negb (o_transform_on (e_opts E) && (sq "on" (attr_name_str name) || sq "nativeOn" (attr_name_str name)))
  | _ => true
  end.

Lemma attr_step_merge ic a x :
  merge_free x = true -> attr_step E1 ic a x = attr_step E2 ic a x.
Proof.
  intros H. destruct x; try reflexivity; try discriminate H.
  cbn [attr_step merge_free] in *.
  match goal with |- context [is_directive ?x0] => destruct (is_directive x0) end; [reflexivity|].
  cbn [orb] in H. apply negb_true_iff in H.
  unfold step_plain. cbn [e_opts E1 E2 with_merge o_transform_on].
  rewrite H. reflexivity.
Qed.

Lemma fold_merge ic attrs : forall a,
  forallb merge_free attrs = true ->
  fold_left (attr_step E1 ic) attrs a = fold_left (attr_step E2 ic) attrs a.
Proof.
  induction attrs as [|x r IH]; intros a H; [reflexivity|].
  cbn [forallb] in H. apply andb_true_iff in H. destruct H as [Hx Hr].
  cbn [fold_left]. rewrite (attr_step_merge ic a x Hx). apply IH. exact Hr.
Qed.

(* such attributes never create a merge argument *)
Lemma margs_step ic a x : merge_free x = true -> a_margs (attr_step E2 ic a x) = a_margs a.
Proof.
  intros H. destruct x; try reflexivity; try discriminate H.
  cbn [attr_step merge_free] in *.
  match goal with |- context [is_directive ?x0] => destruct (is_directive x0) end.
  - unfold step_directive.
    match goal with |- context [parse_directive ?n ?v ?c ?s0] => destruct (parse_directive n v c s0) as [d s1] end.
    destruct d; try reflexivity.
    unfold step_vmodel.
    repeat match goal with |- context [match ?X with pair _ _ => _ end] => destruct X end.
    reflexivity.
  - cbn [orb] in H. apply negb_true_iff in H.
    unfold step_plain. cbn [e_opts E2 with_merge o_transform_on]. rewrite H.
    match goal with |- context [plain_attr_value ?v] => destruct (plain_attr_value v) end; reflexivity.
Qed.

Lemma margs_fold ic attrs : forall a,
  forallb merge_free attrs = true -> a_margs (fold_left (attr_step E2 ic) attrs a) = a_margs a.
Proof.
  induction attrs as [|x r IH]; intros a H; [reflexivity|].
  cbn [forallb] in H. apply andb_true_iff in H. destruct H as [Hx Hr].
  cbn [fold_left]. rewrite (IH _ Hr). apply margs_step. exact Hx.
Qed.

(* no class / style / listener key twice: dedupe_props leaves the list alone *)
Definition mkey (p : node) : option str :=
  match p with KV (Str k _) _ => if dedupe_mergeable k then Some k else None | _ => None end.

Fixpoint nodup_keys (seen : list str) (ps : list node) : bool :=
  match ps with
  | [] => true
  | p :: r => match mkey p with
              | Some k => negb (mem_str k seen) && nodup_keys (k :: seen) r
              | None => nodup_keys seen r
              end
  end.

Lemma update_first_none name f d :
  (forall p, In p d -> mkey p <> Some name) -> dedupe_mergeable name = true ->
  update_first name f d = None.
Proof.
  intros H MK. induction d as [|p r IH]; [reflexivity|].
  assert (Hr : update_first name f r = None) by (apply IH; intros q Hq; apply H; right; exact Hq).
  pose proof (H p (or_introl eq_refl)) as Hp.
  cbn [update_first]. destruct p; try (rewrite Hr; reflexivity).
  match goal with |- context [KV ?k ?v] => destruct k; try (rewrite Hr; reflexivity) end.
  destruct (str_eqb v name) eqn:EK; [|rewrite Hr; reflexivity].
  apply str_eqb_eq in EK. subst. exfalso. apply Hp. cbn [mkey]. rewrite MK. reflexivity.
Qed.

Lemma dedupe_fold_id ps : forall d seen,
  (forall p k, In p d -> mkey p = Some k -> mem_str k seen = true) ->
  nodup_keys seen ps = true -> fold_left dedupe_step ps d = d ++ ps.
Proof.
  induction ps as [|p r IH]; intros d seen HS ND; [symmetry; apply app_nil_r|].
  cbn [fold_left nodup_keys] in *.
  assert (STEP : dedupe_step d p = d ++ [p]).
  { unfold dedupe_step. destruct p; try reflexivity.
    match goal with |- context [KV ?k ?v] => destruct k; try reflexivity end.
    destruct (dedupe_mergeable v) eqn:MK; [|reflexivity].
    cbn [mkey] in ND. rewrite MK in ND. apply andb_true_iff in ND. destruct ND as [NM _].
    rewrite update_first_none; [reflexivity| |exact MK].
    intros q Hq Hk. apply negb_true_iff in NM. rewrite (HS q v Hq Hk) in NM. discriminate NM. }
  rewrite STEP.
  destruct (mkey p) as [k|] eqn:EK.
  - apply andb_true_iff in ND. destruct ND as [_ ND].
    rewrite (IH (d ++ [p]) (k :: seen)); [rewrite <- app_assoc; reflexivity| |exact ND].
    intros q k' Hq Hk. apply in_app_or in Hq. destruct Hq as [Hq|[<-|[]]].
    + cbn [mem_str]. rewrite (HS q k' Hq Hk). apply orb_true_r.
    + rewrite EK in Hk. inversion Hk; subst. cbn [mem_str]. rewrite str_eqb_refl. reflexivity.
  - rewrite (IH (d ++ [p]) seen); [rewrite <- app_assoc; reflexivity| |exact ND].
    intros q k' Hq Hk. apply in_app_or in Hq. destruct Hq as [Hq|[<-|[]]]; [exact (HS q k' Hq Hk)|].
    rewrite EK in Hk. discriminate Hk.
Qed.

Lemma dedupe_id ps : nodup_keys [] ps = true -> dedupe_props ps = ps.
Proof. intros H. unfold dedupe_props. apply (dedupe_fold_id ps [] []); [intros p k []|exact H]. Qed.

(* the whole attribute lowering *)
Theorem transform_attrs_merge_indep attrs ic s :
  forallb merge_free attrs = true ->
  nodup_keys [] (a_props (fold_left (attr_step E2 ic) attrs
                                    (mkAcc [] [] [] [] None false false false false false s))) = true ->
  transform_attrs E1 attrs ic s = transform_attrs E2 attrs ic s.
Proof.
  intros MF ND. unfold transform_attrs. destruct attrs as [|x0 xs]; [reflexivity|].
  rewrite (fold_merge ic (x0 :: xs) _ MF).
  set (a := fold_left (attr_step E2 ic) (x0 :: xs) _) in *.
  assert (MA : a_margs a = []) by (subst a; rewrite (margs_fold ic (x0 :: xs) _ MF); reflexivity).
  assert (FE : final_attrs_expr E1 a = final_attrs_expr E2 a).
  { unfold final_attrs_expr. rewrite MA. pose proof (dedupe_id _ ND) as DI.
    destruct (a_props a) as [|p l] eqn:EP; [reflexivity|].
    assert (FO : flush_obj E1 (p :: l) = flush_obj E2 (p :: l)).
    { unfold flush_obj. subst E1 E2. cbn [e_opts with_merge o_merge_props]. rewrite DI. reflexivity. }
    destruct p; try destruct l; rewrite ?FO; reflexivity. }
  rewrite FE. reflexivity.
Qed.

End MergeIndep.
