(* C16, composition: a grammar of ENCODINGS of a prop map (inline literal, parentheses, optional
   wrapper, alias chains, intersections and unions of any width, Partial / Required), the member
   list each denotes ([den]: concatenation, transparency, flipping of the optional flag), and the
   theorem that resolve_type_elements computes exactly that list - without touching the state -
   for every encoding of any depth.  Pick / Omit / interfaces with extends / indexed accesses stay
   outside the grammar (laws in TypesProofs + generator truth). *)
From Coq Require Import List Bool NArith Lia String.
From VJ Require Import Model.Str Model.Json Model.Ast Model.State Model.Util Model.Types
  Lemmas.StrLemmas Lemmas.TypesProofs Lemmas.NamesProofs.
Import ListNotations.
Local Open Scope list_scope.

Inductive penc :=
| ELit (ms : list node)
| EParen (e : penc)
| EOptional (e : penc)
| EAlias (sym : str) (c : N) (ps : list node) (e : penc)
| EPartial (e : penc)
| ERequired (e : penc)
| EPick (e : penc) (k : kenc)
| EOmit (e : penc) (k : kenc)
| EIface (sym : str) (c : N) (i : node) (parents : list penc)
| EInter (es : list penc)
| EUnion (es : list penc).

Section Enc.
Variable E : env.
Variable s : st.

Fixpoint enc_p (e : penc) : node :=
  match e with
  | ELit ms => gobj "TsTypeLiteral" [fld "members" (NArr ms)]
  | EParen e => gobj "TsParenthesizedType" [fld "typeAnnotation" (enc_p e)]
  | EOptional e => gobj "TsOptionalType" [fld "typeAnnotation" (enc_p e)]
  | EAlias sym c ps _ => tref sym c ps
  | EPartial e => tref (s_ "Partial") (e_unres E) [enc_p e]
  | ERequired e => tref (s_ "Required") (e_unres E) [enc_p e]
  | EPick e k => tref (s_ "Pick") (e_unres E) [enc_p e; enc_k k]
  | EOmit e k => tref (s_ "Omit") (e_unres E) [enc_p e; enc_k k]
  | EIface sym c _ _ => tref sym c []
  | EInter es => gobj "TsIntersectionType" [fld "types" (NArr (map enc_p es))]
  | EUnion es => gobj "TsUnionType" [fld "types" (NArr (map enc_p es))]
  end.

Fixpoint den (e : penc) : list relem :=
  match e with
  | ELit ms => refine_members ms
  | EParen e | EOptional e | EAlias _ _ _ e => den e
  | EPartial e => map (set_optional true) (den e)
  | ERequired e => map (set_optional false) (den e)
  | EPick e k => filter (fun x => key_in (names k) x false) (den e)
  | EOmit e k => filter (fun x => negb (key_in (names k) x false)) (den e)
  | EIface _ _ i ps => refine_members (iface_body i) ++ flat_map den ps
  | EInter es | EUnion es => flat_map den es
  end.

Fixpoint pdepth (e : penc) : nat :=
  match e with
  | ELit _ => 1
  | EParen e | EOptional e | EAlias _ _ _ e | EPartial e | ERequired e => S (pdepth e)
  | EPick e k | EOmit e k => S (Nat.max (pdepth e) (kdepth k))
  | EIface _ _ _ es | EInter es | EUnion es => S (fold_right (fun e a => Nat.max (pdepth e) a) 0%nat es)
  end.

Definition undecl (n : str) : Prop :=
  reg_get n (e_unres E) (aliases s) = None /\ reg_get n (e_unres E) (interfaces s) = None.

(* the references resolve_type_elements builds for the `extends` clauses of a stored interface *)
Definition parent_refs (i : node) : list node :=
  fold_right (fun p acc => match tf "expression" p with
                           | Ident ps pc po =>
                               gobj "TsTypeReference"
                                    [fld "typeName" (Ident ps pc po); fld "typeParams" nnull] :: acc
                           | _ => acc
                           end) [] (iface_extends i).

Fixpoint pwf (e : penc) : Prop :=
  match e with
  | ELit _ => True
  | EParen e | EOptional e => pwf e
  | EAlias sym c _ e => reg_get sym c (aliases s) = Some (enc_p e) /\ pwf e
  | EPartial e => undecl (s_ "Partial") /\ pwf e
  | ERequired e => undecl (s_ "Required") /\ pwf e
  | EPick e k => undecl (s_ "Pick") /\ pwf e /\ kwf s k
  | EOmit e k => undecl (s_ "Omit") /\ pwf e /\ kwf s k
  | EIface sym c i ps =>
      reg_get sym c (aliases s) = None /\ reg_get sym c (interfaces s) = Some i /\
      parent_refs i = map enc_p ps /\
      (fix all (l : list penc) : Prop := match l with [] => True | x :: r => pwf x /\ all r end) ps
  | EInter es | EUnion es =>
      (fix all (l : list penc) : Prop := match l with [] => True | x :: r => pwf x /\ all r end) es
  end.
Definition pwf_all (l : list penc) : Prop :=
  (fix all (l : list penc) : Prop := match l with [] => True | x :: r => pwf x /\ all r end) l.

Section Ind.
Variable P : penc -> Prop.
Hypothesis Hlit : forall ms, P (ELit ms).
Hypothesis Hparen : forall e, P e -> P (EParen e).
Hypothesis Hopt : forall e, P e -> P (EOptional e).
Hypothesis Halias : forall sym c ps e, P e -> P (EAlias sym c ps e).
Hypothesis Hpartial : forall e, P e -> P (EPartial e).
Hypothesis Hrequired : forall e, P e -> P (ERequired e).
Hypothesis Hpick : forall e k, P e -> P (EPick e k).
Hypothesis Homit : forall e k, P e -> P (EOmit e k).
Hypothesis Hiface : forall sym c i ps, Forall P ps -> P (EIface sym c i ps).
Hypothesis Hinter : forall es, Forall P es -> P (EInter es).
Hypothesis Hunion : forall es, Forall P es -> P (EUnion es).
Fixpoint penc_ind' (e : penc) : P e :=
  let go := fix go (l : list penc) : Forall P l :=
    match l with [] => Forall_nil P | x :: r => Forall_cons x (penc_ind' x) (go r) end in
  match e with
  | ELit ms => Hlit ms
  | EParen e => Hparen e (penc_ind' e)
  | EOptional e => Hopt e (penc_ind' e)
  | EAlias sym c ps e => Halias sym c ps e (penc_ind' e)
  | EPartial e => Hpartial e (penc_ind' e)
  | ERequired e => Hrequired e (penc_ind' e)
  | EPick e k => Hpick e k (penc_ind' e)
  | EOmit e k => Homit e k (penc_ind' e)
  | EIface sym c i ps => Hiface sym c i ps (go ps)
  | EInter es => Hinter es (go es)
  | EUnion es => Hunion es (go es)
  end.
End Ind.

Definition exact_at (e : penc) : Prop :=
  forall fuel, (pdepth e <= fuel)%nat -> pwf e -> rte E fuel (enc_p e) s = (den e, s).

Lemma list_fold (es : list penc) :
  Forall exact_at es ->
  forall f acc, (fold_right (fun e a => Nat.max (pdepth e) a) 0%nat es <= f)%nat -> pwf_all es ->
  fold_left (fun '(acc, s) t => let '(x, s) := rte E f t s in (acc ++ x, s)) (map enc_p es) (acc, s)
  = (acc ++ flat_map den es, s).
Proof.
  induction 1 as [|e r He Hr IH]; intros f acc Hd Hw.
  - cbn. rewrite app_nil_r. reflexivity.
  - cbn [fold_right] in Hd. destruct Hw as [Hwe Hwr].
    cbn [map fold_left flat_map]. rewrite (He f ltac:(lia) Hwe).
    rewrite (IH f (acc ++ den e) ltac:(lia) Hwr). rewrite app_assoc. reflexivity.
Qed.

Lemma rte_omit f o k :
  undecl (s_ "Omit") ->
  rte E (S f) (tref (s_ "Omit") (e_unres E) [o; k]) s =
  let '(keys, s1) := rsus E f k s in
  let '(inner, s2) := rte E f o s1 in (filter (fun x => negb (key_in keys x false)) inner, s2).
Proof.
  intros [H1 H2]. cbn -[reg_get] in *. rewrite H1, H2. rewrite N.eqb_refl.
  destruct (rsus E f k s) as [keys s1]. destruct (rte E f o s1) as [inner s2]. f_equal.
  apply filter_ext. intros x. unfold key_in. destruct (relem_key x) as [[]|]; reflexivity.
Qed.

Lemma rte_iface f sym c i :
  reg_get sym c (aliases s) = None -> reg_get sym c (interfaces s) = Some i ->
  rte E (S f) (tref sym c []) s =
  let '(inh, s') := fold_left (fun '(acc, s) t => let '(x, s) := rte E f t s in (acc ++ x, s))
                              (parent_refs i) ([], s) in
  (refine_members (iface_body i) ++ inh, s').
Proof. intros Ha Hi. cbn -[reg_get]. rewrite Ha, Hi. reflexivity. Qed.

Theorem rte_exact : forall e, exact_at e.
Proof.
  induction e using penc_ind'; unfold exact_at; intros [|f] Hd Hw; try (cbn in Hd; lia); cbn [pdepth] in Hd.
  - reflexivity.
  - cbn [enc_p den]. rewrite rte_paren. apply IHe; [lia|exact Hw].
  - cbn [enc_p den]. change (rte E (S f) (gobj "TsOptionalType" [fld "typeAnnotation" (enc_p e)]) s)
      with (rte E f (enc_p e) s). apply IHe; [lia|exact Hw].
  - destruct Hw as [Hreg Hw]. cbn [enc_p den]. rewrite (rte_alias E f sym c ps (enc_p e) s Hreg).
    apply IHe; [lia|exact Hw].
  - destruct Hw as [[Ha Hi] Hw]. cbn [enc_p den]. rewrite (rte_partial E f (enc_p e) s Ha Hi).
    rewrite (IHe f ltac:(lia) Hw). reflexivity.
  - destruct Hw as [[Ha Hi] Hw]. cbn [enc_p den]. rewrite (rte_required E f (enc_p e) s Ha Hi).
    rewrite (IHe f ltac:(lia) Hw). reflexivity.
  - destruct Hw as [[Ha Hi] [Hw Hk]]. cbn [enc_p den]. rewrite (rte_pick E f (enc_p e) (enc_k k) s Ha Hi).
    rewrite (rsus_exact E s k f ltac:(lia) Hk). rewrite (IHe f ltac:(lia) Hw). reflexivity.
  - destruct Hw as [Hu [Hw Hk]]. cbn [enc_p den]. rewrite (rte_omit f (enc_p e) (enc_k k) Hu).
    rewrite (rsus_exact E s k f ltac:(lia) Hk). rewrite (IHe f ltac:(lia) Hw). reflexivity.
  - destruct Hw as [Ha [Hi [Hp Hw]]]. cbn [enc_p den]. rewrite (rte_iface f sym c i Ha Hi). rewrite Hp.
    rewrite (list_fold ps H f [] ltac:(lia) Hw). reflexivity.
  - cbn [enc_p den]. cbn -[rte fold_left map]. apply (list_fold es H f [] ltac:(lia) Hw).
  - cbn [enc_p den]. cbn -[rte fold_left map]. apply (list_fold es H f [] ltac:(lia) Hw).
Qed.

End Enc.

(* non-vacuity: an alias-free nested encoding meets the hypotheses in the initial state *)
Definition penc_example : penc :=
  EInter [EParen (ELit [gobj "TsPropertySignature" []]); EUnion [ELit []; EOptional (ELit [])];
          EPick (ELit [gobj "TsPropertySignature" [fld "key" (Ident (s_ "a") 0 false)]]) (KUnion [KLit (s_ "a") nnull])].
Lemma penc_example_ok : pwf E_dummy st0 penc_example /\ (pdepth penc_example <= type_fuel)%nat.
Proof. split; [cbn; repeat split|vm_compute; repeat constructor]. Qed.

(* non-vacuity for interfaces: `interface B { a } interface J extends B { b }` *)
Definition iB : node := NArr [NArr []; NArr [gobj "TsPropertySignature" [fld "key" (Ident (s_ "a") 0 false)]]].
Definition iJ : node :=
  NArr [NArr [gobj "TsExpressionWithTypeArguments" [fld "expression" (Ident (s_ "B") 5 false)]];
        NArr [gobj "TsPropertySignature" [fld "key" (Ident (s_ "b") 0 false)]]].
Definition st_iface : st := set_interfaces [(s_ "B", 5%N, iB); (s_ "J", 5%N, iJ)] st0.
Definition iface_example : penc := EIface (s_ "J") 5 iJ [EIface (s_ "B") 5 iB []].
Lemma iface_example_ok :
  pwf E_dummy st_iface iface_example /\ List.length (den iface_example) = 2%nat.
Proof. split; [vm_compute; repeat split|vm_compute; reflexivity]. Qed.
