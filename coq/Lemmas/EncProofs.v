(* C16, composition: a grammar of ENCODINGS of a prop map (inline literal, parentheses, optional
   wrapper, alias chains, intersections and unions of any width, Partial / Required), the member
   list each denotes ([den]: concatenation, transparency, flipping of the optional flag), and the
   theorem that resolve_type_elements computes exactly that list - without touching the state -
   for every encoding of any depth.  Pick / Omit / interfaces with extends / indexed accesses stay
   outside the grammar (laws in TypesProofs + generator truth). *)
From Coq Require Import List Bool NArith Lia String.
From VJ Require Import Model.Str Model.Json Model.Ast Model.State Model.Util Model.Types
  Lemmas.StrLemmas Lemmas.TypesProofs.
Import ListNotations.
Local Open Scope list_scope.

Inductive penc :=
| ELit (ms : list node)
| EParen (e : penc)
| EOptional (e : penc)
| EAlias (sym : str) (c : N) (ps : list node) (e : penc)
| EPartial (e : penc)
| ERequired (e : penc)
| EInter (es : list penc)
| EUnion (es : list penc).

Section Enc.
Variable E : env.
Variable s : st.

Fixpoint enc_p (e : penc) : node :=
  match e with
  | ELit ms => gobj "TsTypeLiteral" [fld "members" (NArr ms)]
  | EParen e => gobj "TsParenthesizedType" [fld "typeAnnotation" (enc_p e)]
  | EOptional e => gobj "TsOptionalType" [fld "typeAnnotation" (enc_p e)]
  | EAlias sym c ps _ => tref sym c ps
  | EPartial e => tref (s_ "Partial") (e_unres E) [enc_p e]
  | ERequired e => tref (s_ "Required") (e_unres E) [enc_p e]
  | EInter es => gobj "TsIntersectionType" [fld "types" (NArr (map enc_p es))]
  | EUnion es => gobj "TsUnionType" [fld "types" (NArr (map enc_p es))]
  end.

Fixpoint den (e : penc) : list relem :=
  match e with
  | ELit ms => refine_members ms
  | EParen e | EOptional e | EAlias _ _ _ e => den e
  | EPartial e => map (set_optional true) (den e)
  | ERequired e => map (set_optional false) (den e)
  | EInter es | EUnion es => flat_map den es
  end.

Fixpoint pdepth (e : penc) : nat :=
  match e with
  | ELit _ => 1
  | EParen e | EOptional e | EAlias _ _ _ e | EPartial e | ERequired e => S (pdepth e)
  | EInter es | EUnion es => S (fold_right (fun e a => Nat.max (pdepth e) a) 0%nat es)
  end.

Definition undecl (n : str) : Prop :=
  reg_get n (e_unres E) (aliases s) = None /\ reg_get n (e_unres E) (interfaces s) = None.

Fixpoint pwf (e : penc) : Prop :=
  match e with
  | ELit _ => True
  | EParen e | EOptional e => pwf e
  | EAlias sym c _ e => reg_get sym c (aliases s) = Some (enc_p e) /\ pwf e
  | EPartial e => undecl (s_ "Partial") /\ pwf e
  | ERequired e => undecl (s_ "Required") /\ pwf e
  | EInter es | EUnion es =>
      (fix all (l : list penc) : Prop := match l with [] => True | x :: r => pwf x /\ all r end) es
  end.
Definition pwf_all (l : list penc) : Prop :=
  (fix all (l : list penc) : Prop := match l with [] => True | x :: r => pwf x /\ all r end) l.

Section Ind.
Variable P : penc -> Prop.
Hypothesis Hlit : forall ms, P (ELit ms).
Hypothesis Hparen : forall e, P e -> P (EParen e).
Hypothesis Hopt : forall e, P e -> P (EOptional e).
Hypothesis Halias : forall sym c ps e, P e -> P (EAlias sym c ps e).
Hypothesis Hpartial : forall e, P e -> P (EPartial e).
Hypothesis Hrequired : forall e, P e -> P (ERequired e).
Hypothesis Hinter : forall es, Forall P es -> P (EInter es).
Hypothesis Hunion : forall es, Forall P es -> P (EUnion es).
Fixpoint penc_ind' (e : penc) : P e :=
  let go := fix go (l : list penc) : Forall P l :=
    match l with [] => Forall_nil P | x :: r => Forall_cons x (penc_ind' x) (go r) end in
  match e with
  | ELit ms => Hlit ms
  | EParen e => Hparen e (penc_ind' e)
  | EOptional e => Hopt e (penc_ind' e)
  | EAlias sym c ps e => Halias sym c ps e (penc_ind' e)
  | EPartial e => Hpartial e (penc_ind' e)
  | ERequired e => Hrequired e (penc_ind' e)
  | EInter es => Hinter es (go es)
  | EUnion es => Hunion es (go es)
  end.
End Ind.

Definition exact_at (e : penc) : Prop :=
  forall fuel, (pdepth e <= fuel)%nat -> pwf e -> rte E fuel (enc_p e) s = (den e, s).

Lemma list_fold (es : list penc) :
  Forall exact_at es ->
  forall f acc, (fold_right (fun e a => Nat.max (pdepth e) a) 0%nat es <= f)%nat -> pwf_all es ->
  fold_left (fun '(acc, s) t => let '(x, s) := rte E f t s in (acc ++ x, s)) (map enc_p es) (acc, s)
  = (acc ++ flat_map den es, s).
Proof.
  induction 1 as [|e r He Hr IH]; intros f acc Hd Hw.
  - cbn. rewrite app_nil_r. reflexivity.
  - cbn [fold_right] in Hd. destruct Hw as [Hwe Hwr].
    cbn [map fold_left flat_map]. rewrite (He f ltac:(lia) Hwe).
    rewrite (IH f (acc ++ den e) ltac:(lia) Hwr). rewrite app_assoc. reflexivity.
Qed.

Theorem rte_exact : forall e, exact_at e.
Proof.
  induction e using penc_ind'; unfold exact_at; intros [|f] Hd Hw; try (cbn in Hd; lia); cbn [pdepth] in Hd.
  - reflexivity.
  - cbn [enc_p den]. rewrite rte_paren. apply IHe; [lia|exact Hw].
  - cbn [enc_p den]. change (rte E (S f) (gobj "TsOptionalType" [fld "typeAnnotation" (enc_p e)]) s)
      with (rte E f (enc_p e) s). apply IHe; [lia|exact Hw].
  - destruct Hw as [Hreg Hw]. cbn [enc_p den]. rewrite (rte_alias E f sym c ps (enc_p e) s Hreg).
    apply IHe; [lia|exact Hw].
  - destruct Hw as [[Ha Hi] Hw]. cbn [enc_p den]. rewrite (rte_partial E f (enc_p e) s Ha Hi).
    rewrite (IHe f ltac:(lia) Hw). reflexivity.
  - destruct Hw as [[Ha Hi] Hw]. cbn [enc_p den]. rewrite (rte_required E f (enc_p e) s Ha Hi).
    rewrite (IHe f ltac:(lia) Hw). reflexivity.
  - cbn [enc_p den]. cbn -[rte fold_left map]. apply (list_fold es H f [] ltac:(lia) Hw).
  - cbn [enc_p den]. cbn -[rte fold_left map]. apply (list_fold es H f [] ltac:(lia) Hw).
Qed.

End Enc.

(* non-vacuity: an alias-free nested encoding meets the hypotheses in the initial state *)
Definition penc_example : penc :=
  EInter [EParen (ELit [gobj "TsPropertySignature" []]); EUnion [ELit []; EOptional (ELit [])]].
Lemma penc_example_ok : pwf E_dummy st0 penc_example /\ (pdepth penc_example <= type_fuel)%nat.
Proof. split; [cbn; tauto|vm_compute; repeat constructor]. Qed.
