(* C12 (pieces): what the optimize option can and cannot influence in the lowering. *)
From VJ Require Import Model.Str Model.Json Model.Ast Model.State Model.Util Model.Directive
  Model.Lower Spec.OutViews.

Definition with_optimize (b : bool) (E : env) : env :=
  {| e_opts := {| o_transform_on := o_transform_on (e_opts E); o_optimize := b;
                  o_merge_props := o_merge_props (e_opts E); o_object_slots := o_object_slots (e_opts E);
                  o_pragma := o_pragma (e_opts E); o_resolve_type := o_resolve_type (e_opts E);
                  o_npat := o_npat (e_opts E) |};
     e_unres := e_unres E; e_matches := e_matches E; e_html := e_html E; e_svg := e_svg E;
     e_comments := e_comments E |}.

(* the attribute lowering - props expression, directives, v-slots, and even the computed
   flags - does not read the option at all *)
Lemma transform_attrs_optimize_indep E attrs ic s :
  transform_attrs (with_optimize true E) attrs ic s = transform_attrs (with_optimize false E) attrs ic s.
Proof. reflexivity. Qed.

Lemma transform_tag_optimize_indep E name s :
  transform_tag (with_optimize true E) name s = transform_tag (with_optimize false E) name s.
Proof. reflexivity. Qed.

Lemma is_component_optimize_indep E name :
  is_component (with_optimize true E) name = is_component (with_optimize false E) name.
Proof. reflexivity. Qed.

Lemma get_pragma_optimize_indep E s :
  get_pragma (with_optimize true E) s = get_pragma (with_optimize false E) s.
Proof. reflexivity. Qed.

(* without the option no hint is ever emitted *)
Lemma no_hints_when_off E ar flag :
  vnode_hints (with_optimize false E) ar = [] /\ hint_prop (with_optimize false E) flag = [].
Proof. split; reflexivity. Qed.

(* with the option the only additions are the flag / dynamic-prop arguments and the `_` entry,
   and erasing them from the slot object gives the object built without the option *)
Lemma drop_last_hint_snoc l h : is_hint_kv h = true -> drop_last_hint (l ++ [h]) = l.
Proof. intros H. unfold drop_last_hint. rewrite rev_app_distr. cbn [rev app]. rewrite H. apply rev_involutive. Qed.

Lemma hint_is_hint flag : is_hint_kv (KV (IdName (s_ "_")) (mk_num (slot_flag_num flag))) = true.
Proof. destruct flag; vm_compute; reflexivity. Qed.

Lemma wrap_children_strip E elems flag slots :
  strip_slots (wrap_children (with_optimize true E) elems flag slots)
  = wrap_children (with_optimize false E) elems flag slots.
Proof.
  unfold wrap_children, hint_prop. cbn [with_optimize e_opts o_optimize].
  rewrite app_nil_r. cbn [strip_slots]. rewrite drop_last_hint_snoc; [reflexivity|apply hint_is_hint].
Qed.
