(* C19 / C16 (Pick, Omit keys): resolve_string_or_union_strings on a grammar of name types -
   string literal types, unions of any width, alias chains of any length, nested to any depth -
   returns exactly the names written, in order, and leaves the state alone. *)
From Coq Require Import List Bool NArith Lia String.
From VJ Require Import Model.Str Model.Json Model.Ast Model.State Model.Util Model.Types
  Lemmas.StrLemmas Lemmas.TypesProofs.
Import ListNotations.
Local Open Scope list_scope.

Inductive kenc :=
| KLit (v : str) (raw : node)
| KAlias (sym : str) (c : N) (ps : list node) (k : kenc)
| KUnion (ks : list kenc).

Section Names.
Variable E : env.
Variable s : st.

Fixpoint enc_k (k : kenc) : node :=
  match k with
  | KLit v w => gobj "TsLiteralType" [fld "literal" (Str v w)]
  | KAlias sym c ps _ => tref sym c ps
  | KUnion ks => gobj "TsUnionType" [fld "types" (NArr (map enc_k ks))]
  end.

Fixpoint names (k : kenc) : list str :=
  match k with
  | KLit v _ => [v]
  | KAlias _ _ _ k => names k
  | KUnion ks => flat_map names ks
  end.

Fixpoint kdepth (k : kenc) : nat :=
  match k with
  | KLit _ _ => 1
  | KAlias _ _ _ k => S (kdepth k)
  | KUnion ks => S (fold_right (fun k a => Nat.max (kdepth k) a) 0%nat ks)
  end.

Fixpoint kwf (k : kenc) : Prop :=
  match k with
  | KLit _ _ => True
  | KAlias sym c _ k => reg_get sym c (aliases s) = Some (enc_k k) /\ kwf k
  | KUnion ks => (fix all (l : list kenc) : Prop := match l with [] => True | x :: r => kwf x /\ all r end) ks
  end.
Definition kwf_all (l : list kenc) : Prop :=
  (fix all (l : list kenc) : Prop := match l with [] => True | x :: r => kwf x /\ all r end) l.

Section Ind.
Variable P : kenc -> Prop.
Hypothesis Hlit : forall v w, P (KLit v w).
Hypothesis Halias : forall sym c ps k, P k -> P (KAlias sym c ps k).
Hypothesis Hunion : forall ks, Forall P ks -> P (KUnion ks).
Fixpoint kenc_ind' (k : kenc) : P k :=
  match k with
  | KLit v w => Hlit v w
  | KAlias sym c ps k => Halias sym c ps k (kenc_ind' k)
  | KUnion ks => Hunion ks ((fix go (l : list kenc) : Forall P l :=
                               match l with [] => Forall_nil P | x :: r => Forall_cons x (kenc_ind' x) (go r) end) ks)
  end.
End Ind.

Definition names_at (k : kenc) : Prop :=
  forall fuel, (kdepth k <= fuel)%nat -> kwf k -> rsus E fuel (enc_k k) s = (names k, s).

Lemma lit_of_enc k : lit_str_type (enc_k k) = match k with KLit v _ => Some v | _ => None end.
Proof. destruct k; reflexivity. Qed.

Lemma names_fold (ks : list kenc) :
  Forall names_at ks ->
  forall f acc, (fold_right (fun k a => Nat.max (kdepth k) a) 0%nat ks <= f)%nat -> kwf_all ks ->
  fold_left (fun '(acc, s) t =>
               match lit_str_type t with
               | Some v => (acc ++ [v], s)
               | None => let '(l, s) := rsus E f t s in (acc ++ l, s)
               end) (map enc_k ks) (acc, s)
  = (acc ++ flat_map names ks, s).
Proof.
  induction 1 as [|k r Hk Hr IH]; intros f acc Hd Hw.
  - cbn. rewrite app_nil_r. reflexivity.
  - cbn [fold_right] in Hd. destruct Hw as [Hwk Hwr].
    cbn [map fold_left flat_map]. rewrite lit_of_enc.
    destruct k as [v w|sym c ps k|ks].
    + rewrite (IH f (acc ++ [v]) ltac:(lia) Hwr). cbn [names]. rewrite app_assoc. reflexivity.
    + rewrite (Hk f ltac:(lia) Hwk). rewrite (IH f _ ltac:(lia) Hwr). rewrite app_assoc. reflexivity.
    + rewrite (Hk f ltac:(lia) Hwk). rewrite (IH f _ ltac:(lia) Hwr). rewrite app_assoc. reflexivity.
Qed.

Theorem rsus_exact : forall k, names_at k.
Proof.
  induction k using kenc_ind'; unfold names_at; intros [|f] Hd Hw; try (cbn in Hd; lia); cbn [kdepth] in Hd.
  - reflexivity.
  - destruct Hw as [Hreg Hw]. cbn [enc_k names]. cbn -[reg_get]. rewrite Hreg. apply IHk; [lia|exact Hw].
  - cbn [enc_k names]. cbn -[rsus fold_left map lit_str_type]. apply (names_fold ks H f [] ltac:(lia) Hw).
Qed.

End Names.

Definition kenc_example : kenc :=
  KUnion [KLit (s_ "update:open") nnull; KUnion [KLit (s_ "before-close") nnull; KLit (s_ "a") nnull]].
Lemma kenc_example_ok :
  kwf st0 kenc_example /\ names kenc_example = [s_ "update:open"; s_ "before-close"; s_ "a"].
Proof. split; [cbn; tauto|reflexivity]. Qed.
