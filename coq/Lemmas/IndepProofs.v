(* The lowering of an element reads only five things of the visitor's state: the pragma, the
   pending assignment target, the two counters that name temporaries, and the slot-flag stack.
   Everything else the visitor has accumulated (helper imports, pending declarations,
   diagnostics, type registries, ...) cannot influence it (C10). *)
From VJ Require Import Model.Str Model.Json Model.Ast Model.State Model.Util Model.Text
  Model.Directive Model.Lower Lemmas.NodeInd.

Definition R (s1 s2 : st) : Prop :=
  pragma s1 = pragma s2 /\ assign_left s1 = assign_left s2 /\ slot_counter s1 = slot_counter s2
  /\ fresh s1 = fresh s2 /\ slot_stack s1 = slot_stack s2.

Lemma R_refl s : R s s. Proof. repeat split. Qed.

Ltac Rd H := destruct H as (?HP & ?HA & ?HC & ?HF & ?HS).
Ltac Rall := repeat match goal with H : R _ _ |- _ => destruct H as (?&?&?&?&?) end.
Ltac fin :=
  Rall; unfold R;
  repeat match goal with |- _ /\ _ => split end; try reflexivity; try assumption.

(* fields the lowering only writes *)
Lemma R_imports v1 v2 s1 s2 : R s1 s2 -> R (set_imports v1 s1) (set_imports v2 s2).
Proof. intros H; Rd H; repeat split; assumption. Qed.
Lemma R_ton v1 v2 s1 s2 : R s1 s2 -> R (set_ton v1 s1) (set_ton v2 s2).
Proof. intros H; Rd H; repeat split; assumption. Qed.
Lemma R_slot_helper v1 v2 s1 s2 : R s1 s2 -> R (set_slot_helper v1 s1) (set_slot_helper v2 s2).
Proof. intros H; Rd H; repeat split; assumption. Qed.
Lemma R_inj_vars v1 v2 s1 s2 : R s1 s2 -> R (set_inj_vars v1 s1) (set_inj_vars v2 s2).
Proof. intros H; Rd H; repeat split; assumption. Qed.
Lemma R_inj_consts v1 v2 s1 s2 : R s1 s2 -> R (set_inj_consts v1 s1) (set_inj_consts v2 s2).
Proof. intros H; Rd H; repeat split; assumption. Qed.
Lemma R_diags v1 v2 s1 s2 : R s1 s2 -> R (set_diags v1 s1) (set_diags v2 s2).
Proof. intros H; Rd H; repeat split; assumption. Qed.
Lemma R_add_diag m s1 s2 : R s1 s2 -> R (add_diag m s1) (add_diag m s2).
Proof. apply R_diags. Qed.
Lemma R_panic s1 s2 : R s1 s2 -> R (panic s1) (panic s2).
Proof. intros H; Rd H; repeat split; assumption. Qed.
(* fields it reads: the same value is written on both sides *)
Lemma R_slot_counter v s1 s2 : R s1 s2 -> R (set_slot_counter v s1) (set_slot_counter v s2).
Proof. intros H; Rd H; repeat split; assumption. Qed.
Lemma R_slot_stack v s1 s2 : R s1 s2 -> R (set_slot_stack v s1) (set_slot_stack v s2).
Proof. intros H; Rd H; repeat split; assumption. Qed.
Lemma R_assign_left v s1 s2 : R s1 s2 -> R (set_assign_left v s1) (set_assign_left v s2).
Proof. intros H; Rd H; repeat split; assumption. Qed.
Lemma R_fresh v s1 s2 : R s1 s2 -> R (set_fresh v s1) (set_fresh v s2).
Proof. intros H; Rd H; repeat split; assumption. Qed.

(* a state-passing computation whose result and read fields depend on the read fields only *)
Definition Ind {A} (p : st -> A * st) : Prop :=
  forall s1 s2, R s1 s2 -> fst (p s1) = fst (p s2) /\ R (snd (p s1)) (snd (p s2)).

Lemma Ind_import name : Ind (import_from_vue name).
Proof. intros s1 s2 H. split; [reflexivity|]. apply R_imports. exact H. Qed.
Arguments Ind_import _%string_scope _ _ _.

Lemma Ind_fresh sym : Ind (fresh_ident sym).
Proof.
  intros s1 s2 H. unfold fresh_ident. cbn [fst snd].
  assert (HF : fresh s1 = fresh s2) by (Rd H; assumption). rewrite HF.
  split; [reflexivity|]. apply R_fresh. exact H.
Qed.

Section Indep.
Variable E : env.

Lemma Ind_parse_html_text w v : Ind (parse_html_text w v).
Proof.
  intros s1 s2 H. unfold parse_html_text.
  repeat match goal with |- context [match ?x with _ => _ end] => is_var x; destruct x end;
    (split; [reflexivity|]); try exact H; apply R_diags; exact H.
Qed.

Lemma Ind_vmodel_attr_value v : Ind (vmodel_attr_value v).
Proof.
  intros s1 s2 H. unfold vmodel_attr_value.
  repeat match goal with |- context [match ?x with _ => _ end] => is_var x; destruct x end;
    (split; [reflexivity|]); try exact H; apply R_add_diag; exact H.
Qed.

Lemma R_vmodel_first_check av s1 s2 : R s1 s2 -> R (vmodel_first_check av s1) (vmodel_first_check av s2).
Proof.
  intros H. unfold vmodel_first_check.
  repeat match goal with |- context [match ?x with _ => _ end] => is_var x; destruct x end;
    try exact H; apply R_add_diag; exact H.
Qed.

Lemma R_vmodel_target_check v s1 s2 : R s1 s2 -> R (vmodel_target_check v s1) (vmodel_target_check v s2).
Proof.
  intros H. unfold vmodel_target_check. destruct (is_assignable v); [exact H|apply R_add_diag; exact H].
Qed.

Lemma Ind_parse_v_model value ic argument splitted : Ind (parse_v_model value ic argument splitted).
Proof.
  intros s1 s2 H. unfold parse_v_model.
  destruct (Ind_vmodel_attr_value value s1 s2 H) as [E1 H1].
  destruct (vmodel_attr_value value s1) as [av1 t1], (vmodel_attr_value value s2) as [av2 t2].
  cbn [fst snd] in *. subst av2.
  destruct (vmodel_parts av1 ic argument splitted) as [[v a] m]. cbn [fst snd].
  split; [reflexivity|]. apply R_vmodel_target_check. apply R_vmodel_first_check. exact H1.
Qed.

Lemma Ind_parse_directive name value ic : Ind (parse_directive name value ic).
Proof.
  intros s1 s2 H. unfold parse_directive.
  match goal with |- context [match ?X with pair _ _ => _ end] => destruct X as [[dname a0] sp] end.
  destruct (sq "html" dname).
  { destruct (Ind_parse_html_text "v-html"%string value s1 s2 H) as [E1 H1].
    destruct (parse_html_text "v-html"%string value s1), (parse_html_text "v-html"%string value s2).
    cbn [fst snd] in *. subst. split; [reflexivity|exact H1]. }
  destruct (sq "text" dname).
  { destruct (Ind_parse_html_text "v-text"%string value s1 s2 H) as [E1 H1].
    destruct (parse_html_text "v-text"%string value s1), (parse_html_text "v-text"%string value s2).
    cbn [fst snd] in *. subst. split; [reflexivity|exact H1]. }
  destruct (sq "model" dname); [apply Ind_parse_v_model; exact H|].
  destruct (sq "slots" dname); [split; [reflexivity|exact H]|].
  destruct (normal_parts value _ sp) as [[v a] m]. split; [reflexivity|exact H].
Qed.

(* ---- the attribute fold: every field of the accumulator but the state is equal ---------- *)
Definition RA (a1 a2 : acc) : Prop :=
  a_props a1 = a_props a2 /\ a_margs a1 = a_margs a2 /\ a_dyn a1 = a_dyn a2 /\ a_dirs a1 = a_dirs a2
  /\ a_slots a1 = a_slots a2 /\ a_ref a1 = a_ref a2 /\ a_class a1 = a_class a2 /\ a_style a1 = a_style a2
  /\ a_hyd a1 = a_hyd a2 /\ a_dynkeys a1 = a_dynkeys a2 /\ R (a_st a1) (a_st a2).

Ltac RAd H := destruct H as (?Ep & ?Em & ?Ed & ?Edi & ?Es & ?Er & ?Ec & ?Esty & ?Eh & ?Ek & ?ER).

(* everything the attribute lowering returns, but the state, is independent of the state *)
Definition RAR (r1 r2 : attrs_result) : Prop :=
  r_attrs r1 = r_attrs r2 /\ r_flags r1 = r_flags r2 /\ r_dyn r1 = r_dyn r2 /\ r_slots r1 = r_slots r2
  /\ r_dirs r1 = r_dirs r2 /\ R (r_st r1) (r_st r2).

Ltac finA :=
  unfold RA, RAR;
  cbn [a_props a_margs a_dyn a_dirs a_slots a_ref a_class a_style a_hyd a_dynkeys a_st
       r_attrs r_flags r_dyn r_slots r_dirs r_st];
  fin.

Lemma RA_step_vmodel ic a1 a2 arg targ mods v :
  RA a1 a2 -> RA (step_vmodel ic a1 arg targ mods v) (step_vmodel ic a2 arg targ mods v).
Proof.
  intros H. RAd H. unfold step_vmodel. rewrite Ep, Ed, Edi, Em, Es, Er, Ec, Esty, Eh, Ek.
  repeat match goal with |- context [match ?X with pair _ _ => _ end] => destruct X end.
  finA.
Qed.

Lemma RA_attr_step ic a1 a2 x : RA a1 a2 -> RA (attr_step E ic a1 x) (attr_step E ic a2 x).
Proof.
  intros H. unfold attr_step. destruct x; try exact H.
  - (* spread *)
    RAd H. unfold step_spread. rewrite Ep, Ed, Edi, Em, Es, Er, Ec, Esty, Eh.
    repeat match goal with |- context [match ?X with pair _ _ => _ end] => destruct X end.
    finA.
  - match goal with |- context [is_directive ?y] => destruct (is_directive y) end.
    + (* directive *)
      pose proof H as H'. RAd H. unfold step_directive.
      match goal with |- context [parse_directive ?n ?v ?c (a_st a1)] =>
        destruct (Ind_parse_directive n v c (a_st a1) (a_st a2) ER) as [E1 H1];
        destruct (parse_directive n v c (a_st a1)) as [d1 t1];
        destruct (parse_directive n v c (a_st a2)) as [d2 t2] end.
      cbn [fst snd] in *. subst d2. rewrite Ep, Ed, Edi, Em, Es, Er, Ec, Esty, Eh, Ek.
      destruct d1; try solve [finA].
      apply RA_step_vmodel. finA.
    + (* plain *)
      RAd H. unfold step_plain. rewrite Ep, Ed, Edi, Em, Es, Er, Ec, Esty, Eh, Ek.
      match goal with |- context [match plain_attr_value ?v with _ => _ end] => destruct (plain_attr_value v) end;
        repeat match goal with |- context [match ?X with pair _ _ => _ end] => destruct X end;
        match goal with |- context [if ?c then _ else _] => destruct c end;
        finA.
Qed.

Lemma RA_fold ic attrs : forall a1 a2, RA a1 a2 ->
  RA (fold_left (attr_step E ic) attrs a1) (fold_left (attr_step E ic) attrs a2).
Proof.
  induction attrs as [|x r IH]; intros a1 a2 H; [exact H|].
  cbn [fold_left]. apply IH. apply RA_attr_step. exact H.
Qed.

Lemma Ind_final a1 a2 : RA a1 a2 ->
  fst (final_attrs_expr E a1) = fst (final_attrs_expr E a2)
  /\ R (snd (final_attrs_expr E a1)) (snd (final_attrs_expr E a2)).
Proof.
  intros H. RAd H. unfold final_attrs_expr. rewrite Ep, Em.
  repeat match goal with |- context [match ?x with _ => _ end] => is_var x; destruct x end;
    try (split; [reflexivity|exact ER]).
  all: repeat match goal with
              | |- context [match ?l with [] => _ | _ :: _ => _ end] => destruct l
              | |- context [match ?x with _ => _ end] => is_var x; destruct x
              end;
       try (split; [reflexivity|exact ER]);
       try (split; [reflexivity|apply R_imports; exact ER]).
Qed.

Lemma Ind_transform_attrs attrs ic s1 s2 :
  R s1 s2 -> RAR (transform_attrs E attrs ic s1) (transform_attrs E attrs ic s2).
Proof.
  intros H. unfold transform_attrs. destruct attrs as [|x0 xs]; [finA|].
  pose proof (RA_fold ic (x0 :: xs)
                (mkAcc [] [] [] [] None false false false false false s1)
                (mkAcc [] [] [] [] None false false false false false s2)) as HF.
  match type of HF with ?P -> _ => assert (HP : P) by finA end.
  specialize (HF HP). clear HP.
  set (a1 := fold_left _ _ (mkAcc _ _ _ _ _ _ _ _ _ _ s1)) in *.
  set (a2 := fold_left _ _ (mkAcc _ _ _ _ _ _ _ _ _ _ s2)) in *.
  destruct (Ind_final a1 a2 HF) as [E1 H1].
  destruct (final_attrs_expr E a1) as [e1 t1], (final_attrs_expr E a2) as [e2 t2].
  cbn [fst snd] in *. subst e2. RAd HF.
  unfold compute_flags. rewrite Ed, Edi, Es, Er, Ec, Esty, Eh, Ek.
  finA.
Qed.

Lemma Ind_transform_tag name : Ind (transform_tag E name).
Proof.
  intros s1 s2 H. unfold transform_tag, import_from_vue.
  repeat match goal with
         | |- context [if ?c then _ else _] => destruct c
         | |- context [match ?x with _ => _ end] => is_var x; destruct x
         end; cbn [fst snd]; (split; [reflexivity|]);
    try exact H; try (apply R_imports; exact H); try (apply R_add_diag; exact H).
Qed.

Lemma Ind_get_pragma : Ind (get_pragma E).
Proof.
  intros s1 s2 H. unfold get_pragma.
  assert (HP : pragma s1 = pragma s2) by (Rd H; assumption). rewrite HP.
  destruct (pragma s2); [split; [reflexivity|exact H]|].
  destruct (o_pragma (e_opts E)); [split; [reflexivity|exact H]|].
  apply Ind_import. exact H.
Qed.

Lemma Ind_build_iife_elems lft elems : Ind (build_iife_elems lft elems).
Proof.
  induction elems as [|x r IH]; intros s1 s2 H; [split; [reflexivity|exact H]|].
  assert (Hdef : forall t1 t2, R t1 t2 ->
            fst (let '(r', s) := build_iife_elems lft r t1 in (x :: r', s))
            = fst (let '(r', s) := build_iife_elems lft r t2 in (x :: r', s))
            /\ R (snd (let '(r', s) := build_iife_elems lft r t1 in (x :: r', s)))
                 (snd (let '(r', s) := build_iife_elems lft r t2 in (x :: r', s)))).
  { intros t1 t2 HT. destruct (IH t1 t2 HT) as [E1 H1].
    destruct (build_iife_elems lft r t1), (build_iife_elems lft r t2). cbn [fst snd] in *.
    subst. split; [reflexivity|exact H1]. }
  cbn [build_iife_elems]. destruct x; try (apply Hdef; exact H).
  match goal with |- context [Elem ?b ?e] => destruct b; [apply Hdef; exact H|destruct e; try (apply Hdef; exact H)] end.
  match goal with |- context [if ?c then _ else _] => destruct c end; [|apply Hdef; exact H].
  match goal with |- context [fresh_ident ?sy s1] =>
    destruct (Ind_fresh sy s1 s2 H) as [E1 H1];
    destruct (fresh_ident sy s1) as [[nm1 c1] t1]; destruct (fresh_ident sy s2) as [[nm2 c2] t2] end.
  cbn [fst snd] in *. injection E1 as -> ->.
  match goal with |- context [build_iife_elems lft r (set_inj_consts ?v1 t1)] =>
    match goal with |- context [build_iife_elems lft r (set_inj_consts ?v2 t2)] =>
      destruct (IH _ _ (R_inj_consts v1 v2 _ _ H1)) as [E2 H2];
      destruct (build_iife_elems lft r (set_inj_consts v1 t1));
      destruct (build_iife_elems lft r (set_inj_consts v2 t2)) end end.
  cbn [fst snd] in *. subst. split; [reflexivity|exact H2].
Qed.

Lemma Ind_build_iife elems : Ind (build_iife elems).
Proof.
  intros s1 s2 H. unfold build_iife.
  assert (HA : assign_left s1 = assign_left s2) by (Rd H; assumption). rewrite HA.
  destruct (assign_left s2); [|split; [reflexivity|exact H]].
  apply Ind_build_iife_elems. apply R_assign_left. exact H.
Qed.

Lemma Ind_slot_ident : Ind generate_unique_slot_ident.
Proof.
  intros s1 s2 H. unfold generate_unique_slot_ident.
  assert (HC : slot_counter s1 = slot_counter s2) by (Rd H; assumption). rewrite HC.
  match goal with |- context [fresh_ident ?sy s1] =>
    destruct (Ind_fresh sy s1 s2 H) as [E1 H1];
    destruct (fresh_ident sy s1) as [[nm1 c1] t1]; destruct (fresh_ident sy s2) as [[nm2 c2] t2] end.
  cbn [fst snd] in *. injection E1 as -> ->.
  assert (HC' : slot_counter t1 = slot_counter t2) by (Rd H1; assumption).
  split; [reflexivity|].
  change (slot_counter (set_inj_vars (inj_vars t1 ++ [mk_declarator (mk_bident (if (slot_counter s2 =? 1)%N then s_ "_slot" else s_ "_slot" ++ dec_of_N (slot_counter s2)) c2) nnull]) t1)) with (slot_counter t1).
  change (slot_counter (set_inj_vars (inj_vars t2 ++ [mk_declarator (mk_bident (if (slot_counter s2 =? 1)%N then s_ "_slot" else s_ "_slot" ++ dec_of_N (slot_counter s2)) c2) nnull]) t2)) with (slot_counter t2).
  rewrite HC'. apply R_slot_counter. apply R_inj_vars. exact H1.
Qed.

Lemma R_mark e s1 s2 : R s1 s2 -> R (mark_dynamic E e s1) (mark_dynamic E e s2).
Proof.
  intros H. unfold mark_dynamic. destruct (_ && _); [|exact H].
  assert (HS : slot_stack s1 = slot_stack s2) by (Rd H; assumption). rewrite HS.
  apply R_slot_stack. exact H.
Qed.

Lemma R_push s1 s2 : R s1 s2 -> R (push_slot_flag E s1) (push_slot_flag E s2).
Proof.
  intros H. unfold push_slot_flag. destruct (o_optimize (e_opts E)); [|exact H].
  assert (HS : slot_stack s1 = slot_stack s2) by (Rd H; assumption). rewrite HS.
  apply R_slot_stack. exact H.
Qed.

Lemma Ind_text v : Ind (transform_jsx_text v).
Proof.
  intros s1 s2 H. unfold transform_jsx_text. destruct (transform_text v); [split; [reflexivity|exact H]|].
  destruct (Ind_import "createTextVNode" s1 s2 H) as [E1 H1].
  destruct (import_from_vue "createTextVNode" s1), (import_from_vue "createTextVNode" s2).
  cbn [fst snd] in *. subst. split; [reflexivity|exact H1].
Qed.

Lemma Ind_resolve_directive dn tag attrs : Ind (resolve_directive dn tag attrs).
Proof.
  intros s1 s2 H. unfold resolve_directive, import_from_vue.
  repeat match goal with
         | |- context [if ?c then _ else _] => destruct c
         | |- context [match ?x with _ => _ end] => destruct x
         end; cbn [fst snd]; (split; [reflexivity|apply R_imports; exact H]).
Qed.

Lemma Ind_build_directives dirs tag attrs : Ind (build_directives dirs tag attrs).
Proof.
  induction dirs as [|d r IH]; intros s1 s2 H; [split; [reflexivity|exact H]|].
  cbn [build_directives]. destruct d; try (apply IH; exact H).
  destruct (Ind_resolve_directive name tag attrs s1 s2 H) as [E1 H1].
  destruct (resolve_directive name tag attrs s1) as [d1 t1], (resolve_directive name tag attrs s2) as [d2 t2].
  cbn [fst snd] in *. subst d2.
  destruct (IH t1 t2 H1) as [E2 H2].
  destruct (build_directives r tag attrs t1), (build_directives r tag attrs t2).
  cbn [fst snd] in *. subst. split; [reflexivity|exact H2].
Qed.

Lemma Ind_finish_children elems ic slots : Ind (finish_children E elems ic slots).
Proof.
  intros s1 s2 H. unfold finish_children.
  assert (H0 : fst (if o_optimize (e_opts E)
                    then match rev (slot_stack s1) with
                         | top :: rest => (top, set_slot_stack (rev rest) s1)
                         | [] => (false, s1)
                         end else (false, s1))
               = fst (if o_optimize (e_opts E)
                      then match rev (slot_stack s2) with
                           | top :: rest => (top, set_slot_stack (rev rest) s2)
                           | [] => (false, s2)
                           end else (false, s2))
               /\ R (snd (if o_optimize (e_opts E)
                          then match rev (slot_stack s1) with
                               | top :: rest => (top, set_slot_stack (rev rest) s1)
                               | [] => (false, s1)
                               end else (false, s1)))
                    (snd (if o_optimize (e_opts E)
                          then match rev (slot_stack s2) with
                               | top :: rest => (top, set_slot_stack (rev rest) s2)
                               | [] => (false, s2)
                               end else (false, s2)))).
  { destruct (o_optimize (e_opts E)); [|split; [reflexivity|exact H]].
    assert (HS : slot_stack s1 = slot_stack s2) by (Rd H; assumption). rewrite HS.
    destruct (rev (slot_stack s2)); [split; [reflexivity|exact H]|].
    split; [reflexivity|apply R_slot_stack; exact H]. }
  match type of H0 with fst ?X1 = fst ?X2 /\ _ =>
    destruct X1 as [flag t1]; destruct X2 as [flag2 t2] end.
  cbn [fst snd] in H0. destruct H0 as [<- HT].
  assert (Hdef : fst (if ic then (wrap_children E elems flag slots, t1) else (Arr elems, t1))
                 = fst (if ic then (wrap_children E elems flag slots, t2) else (Arr elems, t2))
                 /\ R (snd (if ic then (wrap_children E elems flag slots, t1) else (Arr elems, t1)))
                      (snd (if ic then (wrap_children E elems flag slots, t2) else (Arr elems, t2))))
    by (destruct ic; split; try reflexivity; exact HT).
  assert (Hsame : forall x : node, fst (x, t1) = fst (x, t2) /\ R (snd (x, t1)) (snd (x, t2)))
    by (intros x; split; [reflexivity|exact HT]).
  destruct elems as [|x [|y r]].
  - apply Hsame.
  - destruct x; try exact Hdef.
    match goal with |- context [Elem ?b ?e] => destruct b; [exact Hdef|destruct e] end;
      try exact Hdef; try (destruct (is_fn_like _); [apply Hsame|exact Hdef]); try apply Hsame.
    + (* identifier *)
      destruct ic; [|apply Hsame].
      match goal with |- context [build_iife ?es t1] =>
        destruct (Ind_build_iife es t1 t2 HT) as [E1 H1];
        destruct (build_iife es t1) as [e1 u1]; destruct (build_iife es t2) as [e2 u2] end.
      cbn [fst snd] in *. subst e2.
      destruct (o_object_slots (e_opts E)); cbn [fst snd]; (split; [reflexivity|]);
        [apply R_slot_helper; exact H1|exact H1].
    + (* call *)
      match goal with |- context [Call ?sy _ _ _ _] => destruct sy; [exact Hdef|] end.
      destruct ic; [|apply Hsame].
      destruct (o_object_slots (e_opts E)); [|apply Hsame].
      destruct (Ind_slot_ident t1 t2 HT) as [E1 H1].
      destruct (generate_unique_slot_ident t1) as [slot1 u1], (generate_unique_slot_ident t2) as [slot2 u2].
      cbn [fst snd] in *. subst slot2.
      match goal with |- context [build_iife ?es (set_slot_helper true u1)] =>
        destruct (Ind_build_iife es _ _ (R_slot_helper true true _ _ H1)) as [E2 H2];
        destruct (build_iife es (set_slot_helper true u1)) as [e1 w1];
        destruct (build_iife es (set_slot_helper true u2)) as [e2 w2] end.
      cbn [fst snd] in *. subst e2. split; [reflexivity|exact H2].
  - destruct x; try exact Hdef.
    match goal with |- context [Elem ?b ?e] => destruct b; [exact Hdef|destruct e; exact Hdef] end.
Qed.

Definition IndN (n : node) : Prop := Ind (lower_el E n).

Lemma Ind_children cs : Forall IndN cs -> Ind (lower_children_with E (lower_el E) cs).
Proof.
  induction 1 as [|c r Hc Hr IH]; intros s1 s2 H; [split; [reflexivity|exact H]|].
  cbn [lower_children_with].
  assert (Hrest : forall (o : list node) t1 t2, R t1 t2 ->
            fst (let '(r', s) := lower_children_with E (lower_el E) r t1 in (o ++ r', s))
            = fst (let '(r', s) := lower_children_with E (lower_el E) r t2 in (o ++ r', s))
            /\ R (snd (let '(r', s) := lower_children_with E (lower_el E) r t1 in (o ++ r', s)))
                 (snd (let '(r', s) := lower_children_with E (lower_el E) r t2 in (o ++ r', s)))).
  { intros o t1 t2 HT. destruct (IH t1 t2 HT) as [E1 H1].
    destruct (lower_children_with E (lower_el E) r t1), (lower_children_with E (lower_el E) r t2).
    cbn [fst snd] in *. subst. split; [reflexivity|exact H1]. }
  destruct c; try (apply Hrest; exact H).
  - destruct (Hc s1 s2 H) as [E1 H1].
    destruct (lower_el E _ s1) as [x1 t1], (lower_el E _ s2) as [x2 t2]. cbn [fst snd] in *. subst.
    apply Hrest. exact H1.
  - destruct (Hc s1 s2 H) as [E1 H1].
    destruct (lower_el E _ s1) as [x1 t1], (lower_el E _ s2) as [x2 t2]. cbn [fst snd] in *. subst.
    apply Hrest. exact H1.
  - match goal with |- context [mark_dynamic E ?e _] => destruct e end;
      try (apply Hrest; apply R_mark; exact H). apply Hrest. exact H.
  - match goal with |- context [transform_jsx_text ?v s1] =>
      destruct (Ind_text v s1 s2 H) as [E1 H1];
      destruct (transform_jsx_text v s1) as [x1 t1]; destruct (transform_jsx_text v s2) as [x2 t2] end.
    cbn [fst snd] in *. subst. apply Hrest. exact H1.
  - apply Hrest. apply R_mark. exact H.
Qed.

Definition IndA (n : node) : Prop := IndN n /\ (forall nm v, n = JAttr nm v -> IndN v).

Lemma Ind_attr_values attrs : Forall IndA attrs -> Ind (lower_attr_values_with (lower_el E) attrs).
Proof.
  induction 1 as [|a r Ha Hr IH]; intros s1 s2 H; [split; [reflexivity|exact H]|].
  cbn [lower_attr_values_with].
  assert (Hrest : forall (a' : node) t1 t2, R t1 t2 ->
            fst (let '(r', s) := lower_attr_values_with (lower_el E) r t1 in (a' :: r', s))
            = fst (let '(r', s) := lower_attr_values_with (lower_el E) r t2 in (a' :: r', s))
            /\ R (snd (let '(r', s) := lower_attr_values_with (lower_el E) r t1 in (a' :: r', s)))
                 (snd (let '(r', s) := lower_attr_values_with (lower_el E) r t2 in (a' :: r', s)))).
  { intros a' t1 t2 HT. destruct (IH t1 t2 HT) as [E1 H1].
    destruct (lower_attr_values_with (lower_el E) r t1), (lower_attr_values_with (lower_el E) r t2).
    cbn [fst snd] in *. subst. split; [reflexivity|exact H1]. }
  destruct Ha as [_ Hv].
  destruct a; try (apply Hrest; exact H).
  match goal with |- context [JAttr ?nm ?v] => destruct v end; try (apply Hrest; exact H).
  - match goal with |- context [is_directive ?x] => destruct (is_directive x) end;
      [apply Hrest; exact H|].
    destruct (Hv _ _ eq_refl s1 s2 H) as [E1 H1].
    destruct (lower_el E _ s1) as [x1 t1], (lower_el E _ s2) as [x2 t2]. cbn [fst snd] in *. subst.
    apply Hrest. exact H1.
  - match goal with |- context [is_directive ?x] => destruct (is_directive x) end;
      [apply Hrest; exact H|].
    destruct (Hv _ _ eq_refl s1 s2 H) as [E1 H1].
    destruct (lower_el E _ s1) as [x1 t1], (lower_el E _ s2) as [x2 t2]. cbn [fst snd] in *. subst.
    apply Hrest. exact H1.
Qed.

Theorem lower_el_indep_A : forall n, IndA n.
Proof.
  apply node_ind'; intros; split;
    try (let a := fresh "sa" in let b := fresh "sb" in let h := fresh "HR" in
         intros a b h; split; [reflexivity|exact h]);
    try (intros ? ? Heq; discriminate Heq).
  - (* JsxE *)
    intros sa sb HR. cbn [lower_el].
    assert (Hats : Forall IndA ats) by assumption.
    destruct (Ind_attr_values _ Hats _ _ (R_push _ _ HR)) as [E1 G1].
    destruct (lower_attr_values_with (lower_el E) ats (push_slot_flag E sa)) as [attrs s1].
    destruct (lower_attr_values_with (lower_el E) ats (push_slot_flag E sb)) as [attrs2 t1].
    cbn [fst snd] in *. subst attrs2.
    pose proof (Ind_transform_attrs attrs (is_component E nm) s1 t1 G1) as G2.
    set (ar1 := transform_attrs E attrs (is_component E nm) s1) in *.
    set (ar2 := transform_attrs E attrs (is_component E nm) t1) in *.
    destruct G2 as (Ea & Ef & Ed & Es & Edi & G2).
    destruct (Ind_transform_tag nm _ _ G2) as [E3 G3].
    destruct (transform_tag E nm (r_st ar1)) as [tag s2], (transform_tag E nm (r_st ar2)) as [tag2 t2].
    cbn [fst snd] in *. subst tag2.
    assert (Hch : Forall IndN ch).
    { match goal with H : Forall IndA ch |- _ => eapply Forall_impl; [|exact H] end. intros x [Hx _]. exact Hx. }
    destruct (Ind_children _ Hch _ _ G3) as [E4 G4].
    destruct (lower_children_with E (lower_el E) ch s2) as [elems s3].
    destruct (lower_children_with E (lower_el E) ch t2) as [elems2 t3].
    cbn [fst snd] in *. subst elems2.
    rewrite <- Es.
    destruct (Ind_finish_children elems (is_component E nm) (r_slots ar1) _ _ G4) as [E5 G5].
    destruct (finish_children E elems (is_component E nm) (r_slots ar1) s3) as [chx s4].
    destruct (finish_children E elems (is_component E nm) (r_slots ar1) t3) as [chx2 t4].
    cbn [fst snd] in *. subst chx2.
    destruct (Ind_get_pragma _ _ G5) as [E6 G6].
    destruct (get_pragma E s4) as [callee s5], (get_pragma E t4) as [callee2 t5].
    cbn [fst snd] in *. subst callee2.
    unfold vnode_hints. rewrite <- Ea, <- Ef, <- Ed, <- Edi.
    destruct (r_dirs ar1) as [|d0 dr].
    + cbn [fst snd]. split; [reflexivity|exact G6].
    + destruct (Ind_import "withDirectives" _ _ G6) as [E7 G7].
      destruct (import_from_vue "withDirectives" s5) as [wd s6], (import_from_vue "withDirectives" t5) as [wd2 t6].
      cbn [fst snd] in *. subst wd2.
      destruct (Ind_build_directives (d0 :: dr) nm attrs _ _ G7) as [E8 G8].
      destruct (build_directives (d0 :: dr) nm attrs s6) as [ds s7].
      destruct (build_directives (d0 :: dr) nm attrs t6) as [ds2 t7].
      cbn [fst snd] in *. subst ds2. split; [reflexivity|exact G8].
  - (* JsxF *)
    intros sa sb HR. cbn [lower_el].
    destruct (Ind_get_pragma _ _ (R_push _ _ HR)) as [E1 G1].
    destruct (get_pragma E (push_slot_flag E sa)) as [callee s1], (get_pragma E (push_slot_flag E sb)) as [callee2 t1].
    cbn [fst snd] in *. subst callee2.
    destruct (Ind_import "Fragment" _ _ G1) as [E2 G2].
    destruct (import_from_vue "Fragment" s1) as [frag s2], (import_from_vue "Fragment" t1) as [frag2 t2].
    cbn [fst snd] in *. subst frag2.
    assert (Hch : Forall IndN ch).
    { match goal with H : Forall IndA ch |- _ => eapply Forall_impl; [|exact H] end. intros x [Hx _]. exact Hx. }
    destruct (Ind_children _ Hch _ _ G2) as [E3 G3].
    destruct (lower_children_with E (lower_el E) ch s2) as [elems s3].
    destruct (lower_children_with E (lower_el E) ch t2) as [elems2 t3].
    cbn [fst snd] in *. subst elems2.
    destruct (Ind_finish_children elems false None _ _ G3) as [E4 G4].
    destruct (finish_children E elems false None s3) as [chx s4], (finish_children E elems false None t3) as [chx2 t4].
    cbn [fst snd] in *. subst chx2. split; [reflexivity|exact G4].
  - (* JAttr: element values *)
    intros nm0 v0 Heq. inversion Heq; subst.
    match goal with H : IndA v0 |- _ => destruct H as [H _]; exact H end.
Qed.

(* C10: what an element is lowered to depends on the element, the options, the module's pragma,
   the pending assignment target, and the counters that name temporaries - on nothing else the
   visitor has accumulated while walking the rest of the module *)
Theorem lower_el_indep n s1 s2 :
  R s1 s2 -> fst (lower_el E n s1) = fst (lower_el E n s2) /\ R (snd (lower_el E n s1)) (snd (lower_el E n s2)).
Proof. destruct (lower_el_indep_A n) as [H _]. apply H. Qed.

End Indep.
