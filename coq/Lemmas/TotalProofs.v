(* C08 (pieces): the only panic site of the attribute lowering is the `unreachable!` for a
   non-string literal attribute value, which parser-produced values never reach. *)
From VJ Require Import Model.Str Model.Json Model.Ast Model.State Model.Util Model.Directive
  Model.Lower Lemmas.FrameProofs.

(* attribute values as the parser builds them (element values have been lowered to
   expression containers by lower_el before the fold) *)
Definition value_wf (v : node) : bool :=
  match v with
  | NScalar JNull | Str _ _ | JExprC _ | JsxE _ _ _ _ _ _ | JsxF _ => true
  | _ => false
  end.

Definition attr_wf (a : node) : bool :=
  match a with
  | JAttr _ v => value_wf v && (is_directive a || match v with JsxE _ _ _ _ _ _ | JsxF _ => false | _ => true end)
  | Spread _ => true
  | _ => false
  end.

Lemma panicked_set_diags v s : panicked (set_diags v s) = panicked s. Proof. destruct s; reflexivity. Qed.
Lemma panicked_add_diag m s : panicked (add_diag m s) = panicked s. Proof. destruct s; reflexivity. Qed.
Lemma panicked_set_ton v s : panicked (set_ton v s) = panicked s. Proof. destruct s; reflexivity. Qed.

Lemma parse_html_text_np w v s : panicked (snd (parse_html_text w v s)) = panicked s.
Proof.
  unfold parse_html_text.
  repeat match goal with |- context [match ?x with _ => _ end] => destruct x end;
    try reflexivity; apply panicked_set_diags.
Qed.

Lemma parse_directive_np name value ic s : panicked (snd (parse_directive name value ic s)) = panicked s.
Proof.
  unfold parse_directive.
  match goal with |- context [match ?X with pair _ _ => _ end] => destruct X as [[dname a0] sp] end.
  destruct (sq "html" dname).
  { pose proof (parse_html_text_np "v-html"%string value s) as H.
    destruct (parse_html_text "v-html"%string value s). exact H. }
  destruct (sq "text" dname).
  { pose proof (parse_html_text_np "v-text"%string value s) as H.
    destruct (parse_html_text "v-text"%string value s). exact H. }
  destruct (sq "model" dname).
  { unfold parse_v_model.
    assert (H1 : panicked (snd (vmodel_attr_value value s)) = panicked s).
    { unfold vmodel_attr_value.
      repeat match goal with |- context [match ?x with _ => _ end] => destruct x end;
        try reflexivity; apply panicked_add_diag. }
    destruct (vmodel_attr_value value s) as [av s1]. cbn [snd] in H1.
    assert (H2 : panicked (vmodel_first_check av s1) = panicked s1).
    { unfold vmodel_first_check.
      repeat match goal with |- context [match ?x with _ => _ end] => destruct x end;
        try reflexivity; apply panicked_add_diag. }
    destruct (vmodel_parts av ic _ sp) as [[v a] m]. cbn [snd].
    assert (H3 : panicked (vmodel_target_check v (vmodel_first_check av s1)) = panicked (vmodel_first_check av s1)).
    { unfold vmodel_target_check. destruct (is_assignable v); [reflexivity|apply panicked_add_diag]. }
    congruence. }
  destruct (sq "slots" dname); [reflexivity|].
  destruct (normal_parts value _ sp) as [[v a] m]. reflexivity.
Qed.

Section Total.
Variable E : env.

Lemma attr_step_np ic a x :
  attr_wf x = true -> panicked (a_st (attr_step E ic a x)) = panicked (a_st a).
Proof.
  intros Hwf. unfold attr_step. destruct x; try discriminate.
  - unfold step_spread.
    repeat match goal with |- context [match ?X with pair _ _ => _ end] => destruct X end.
    reflexivity.
  - cbn [attr_wf] in Hwf. apply andb_true_iff in Hwf. destruct Hwf as [Hv Hd].
    match goal with |- context [is_directive ?y] => destruct (is_directive y) eqn:Edir end.
    + unfold step_directive.
      match goal with |- context [parse_directive ?n ?v ?c ?s0] =>
        pose proof (parse_directive_np n v c s0) as H; destruct (parse_directive n v c s0) as [d s1] end.
      cbn [snd] in H. destruct d; try exact H. rewrite frame_step_vmodel. exact H.
    + cbn [orb] in Hd. unfold step_plain.
      match goal with |- context [plain_attr_value ?v] =>
        assert (Hsome : exists av, plain_attr_value v = Some av);
        [ unfold plain_attr_value; destruct v; try discriminate; eauto;
          match goal with j : jv |- _ => destruct j; try discriminate; eauto end
        | destruct Hsome as [av Hav]; rewrite Hav ]
      end.
      match goal with |- context [if ?c then _ else _] => destruct c end.
      * repeat match goal with |- context [match ?X with pair _ _ => _ end] => destruct X end.
        cbn [a_st]. apply panicked_set_ton.
      * reflexivity.
Qed.

Theorem transform_attrs_no_panic attrs ic s :
  forallb attr_wf attrs = true -> panicked (r_st (transform_attrs E attrs ic s)) = panicked s.
Proof.
  intros Hwf. unfold transform_attrs. destruct attrs as [|x0 xs]; [reflexivity|].
  assert (G : forall l a, forallb attr_wf l = true ->
              panicked (a_st (fold_left (attr_step E ic) l a)) = panicked (a_st a)).
  { induction l as [|x r IH]; intros a Hl; [reflexivity|].
    cbn [forallb] in Hl. apply andb_true_iff in Hl. destruct Hl as [Hx Hr].
    cbn [fold_left]. rewrite (IH _ Hr). apply attr_step_np. exact Hx. }
  set (a := fold_left _ _ _).
  pose proof (G (x0 :: xs) (mkAcc [] [] [] [] None false false false false false s) Hwf) as Ha.
  fold a in Ha. cbn [a_st] in Ha.
  assert (Hf : panicked (snd (final_attrs_expr E a)) = panicked (a_st a)).
  { unfold final_attrs_expr, import_from_vue.
    repeat match goal with |- context [match ?x with _ => _ end] => destruct x end;
      try reflexivity; destruct (a_st a); reflexivity. }
  destruct (final_attrs_expr E a) as [e s']. cbn [snd r_st] in *. congruence.
Qed.

End Total.
