(* C09 for modules that do contain JSX: every JSX-free top-level statement comes back unchanged,
   in order, after whatever the transform puts at the head of the module; and a second pass
   over the output changes nothing. *)
From VJ Require Import Model.Str Model.Json Model.Ast Model.State Model.Util Model.Text
  Model.Directive Model.Lower Model.Visitor Model.Types Spec.Plain Lemmas.NodeInd
  Lemmas.IdentityProofs Lemmas.VisitPlain.

Section FrameItems.
Variable E : env.
Hypothesis Hrt : o_resolve_type (e_opts E) = false.

Let V := visit E (hook_call E) (hook_declarator E).

Lemma visit_list_frame l : forall m s,
  Forall2 (fun x x' => jsx_free x = true -> x' = x) l (fst (visit_list_with V m l s)).
Proof.
  induction l as [|x r IH]; intros m s; [constructor|].
  cbn [visit_list_with].
  pose proof (visit_identity E Hrt x) as Hx. unfold Idn in Hx.
  destruct (V m x s) as [x' s1] eqn:EV.
  specialize (IH m s1). destruct (visit_list_with V m r s1) as [r' s2]. cbn [fst] in *.
  constructor; [|exact IH].
  intros Hf. destruct (Hx Hf m s) as [s' [Hv _]]. fold V in Hv. rewrite EV in Hv. inversion Hv. reflexivity.
Qed.

Lemma finish_module_prefix items s : exists pre, fst (finish_module items s) = pre ++ items.
Proof.
  unfold finish_module.
  set (items1 := match inj_consts s with [] => items | cs => mk_var_decl "const" cs :: items end).
  assert (P1 : exists pre, items1 = pre ++ items).
  { subst items1. destruct (inj_consts s); [exists []; reflexivity|eexists [_]; reflexivity]. }
  set (s1 := set_inj_consts [] s).
  destruct (match inj_vars s1 with
            | [] => (items1, s1)
            | vs => (mk_var_decl "let" vs :: items1, set_slot_counter 1 (set_inj_vars [] s1))
            end) as [items2 s2] eqn:E2.
  assert (P2 : exists pre, items2 = pre ++ items).
  { destruct P1 as [p1 ->]. destruct (inj_vars s1); injection E2 as <- <-;
      [exists p1; reflexivity|eexists (_ :: p1); reflexivity]. }
  destruct P2 as [p2 ->].
  destruct (slot_helper s2).
  - destruct (import_from_vue "isVNode"%string s2) as [isv s3].
    destruct (fresh_ident (s_ "s") s3) as [[x ctx] s4].
    destruct (ton_helper s4); destruct (imports s4); cbn [fst];
      first [eexists (_ :: _ :: _ :: p2); reflexivity | eexists (_ :: _ :: p2); reflexivity
            | eexists (_ :: p2); reflexivity].
  - destruct (ton_helper s2); destruct (imports s2); cbn [fst];
      first [eexists (_ :: _ :: p2); reflexivity | eexists (_ :: p2); reflexivity | exists p2; reflexivity].
Qed.

Theorem module_items_frame kt t kb items ki iv :
  let m := NObj [Field kt (NScalar t); Field kb (NArr items); Field ki (NScalar iv)] in
  exists pre items',
    fst (transform_module E (hook_call E) (hook_declarator E) (collect_ts_decls E subs) m)
    = NObj [Field kt (NScalar t); Field kb (NArr (pre ++ items')); Field ki (NScalar iv)]
    /\ Forall2 (fun x x' => jsx_free x = true -> x' = x) items items'.
Proof.
  intros m. subst m. unfold transform_module. fold V.
  match goal with |- context [visit_list_with V MExpr items ?s] =>
    pose proof (visit_list_frame items MExpr s) as F; destruct (visit_list_with V MExpr items s) as [items' s1] end.
  cbn [fst] in F.
  destruct (finish_module_prefix items' s1) as [pre Hp].
  destruct (finish_module items' s1) as [items'' s2]. cbn [fst] in *. subst items''.
  exists pre, items'. split; [reflexivity|exact F].
Qed.

(* a second pass changes nothing *)
Theorem module_idempotent m :
  module_shape m = true -> gram PExpr m = true ->
  let T := fun x => fst (transform_module E (hook_call E) (hook_declarator E) (collect_ts_decls E subs) x) in
  T (T m) = T m.
Proof.
  intros Hs G T. subst T. cbv beta. apply (module_identity E Hrt).
  apply module_plain; try assumption; intros n s H.
  - rewrite (hook_call_off E Hrt). exact H.
  - rewrite (hook_declarator_off E Hrt). exact H.
  - rewrite (hook_call_off E Hrt). exact H.
  - rewrite (hook_declarator_off E Hrt). exact H.
  - rewrite (collect_off E Hrt). exact H.
Qed.

End FrameItems.
