(* C13: the patch flags / dynamic-prop list computed by transform_attrs satisfy Vue's
   contract (Spec/PatchFlags.flags_ok), for every attribute list. *)
From Coq Require Import Lia Btauto.
From VJ Require Import Model.Str Model.Json Model.Ast Model.State Model.Util Model.Text
  Model.Directive Model.Lower Spec.PatchFlags Lemmas.StrLemmas.
From VJ Require Import Gen.Tables.

Section Flags.
Variable E : env.
Variable is_comp : bool.

(* ---- entries and keys ----------------------------------------------------------------- *)
Definition obj_props (e : node) : list node := match e with Obj ps => ps | _ => [] end.

Definition all_entries (a : acc) : list node := flat_map obj_props (a_margs a) ++ a_props a.

Lemma has_key_app k l1 l2 : has_key k (l1 ++ l2) = has_key k l1 || has_key k l2.
Proof. unfold has_key. apply existsb_app. Qed.

Lemma has_key_incl k l1 l2 :
  (forall p, In p l1 -> In p l2) -> has_key k l1 = true -> has_key k l2 = true.
Proof.
  unfold has_key. intros Hin H. apply existsb_exists in H. destruct H as [p [Hp Hk]].
  apply existsb_exists. exists p. split; [apply Hin; exact Hp|exact Hk].
Qed.

(* coverage with respect to the accumulator *)
Definition cov_acc (cls sty : bool) (dyn : list str) (k : str) : bool :=
  (sq "class" k && negb is_comp && cls) || (sq "style" k && negb is_comp && sty)
  || sq "key" k || sq "ref" k || mem_str k dyn.

Definition pok (c : str -> bool) (p : node) : bool :=
  match p with KV (Str k _) v => is_constant v || c k | _ => false end.

Definition le_cov (c c' : str -> bool) : Prop := forall k, c k = true -> c' k = true.

(* shape classifier, so that proofs never depend on generated names *)
Definition as_kv_str (p : node) : option (str * node * node) :=
  match p with KV (Str k w) v => Some (k, w, v) | _ => None end.

Ltac split_kv p :=
  destruct p; try reflexivity; try discriminate;
  match goal with |- context [KV ?k _] => destruct k end; try reflexivity; try discriminate.

Lemma as_kv_str_some p k w v : as_kv_str p = Some (k, w, v) -> p = KV (Str k w) v.
Proof. split_kv p. cbn. intros H. inversion H; subst. reflexivity. Qed.

Lemma pok_not_kv c p : as_kv_str p = None -> pok c p = false.
Proof. split_kv p. Qed.

Lemma dedupe_step_not_kv d p : as_kv_str p = None -> dedupe_step d p = d ++ [p].
Proof. split_kv p. Qed.

Lemma kv_key_not_kv p : as_kv_str p = None -> kv_key p = None.
Proof. split_kv p. Qed.

Lemma update_first_cons name f p r :
  update_first name f (p :: r) =
  match as_kv_str p with
  | Some (k, w, v) => if str_eqb k name then Some (KV (Str k w) (f v) :: r)
                      else match update_first name f r with Some r' => Some (p :: r') | None => None end
  | None => match update_first name f r with Some r' => Some (p :: r') | None => None end
  end.
Proof. split_kv p. Qed.

Lemma pok_mono c c' p : le_cov c c' -> pok c p = true -> pok c' p = true.
Proof.
  intros H. destruct (as_kv_str p) as [[[k w] v]|] eqn:Ek.
  - apply as_kv_str_some in Ek. subst p. cbn. intros Hp. apply orb_true_iff in Hp. apply orb_true_iff.
    destruct Hp as [Hp|Hp]; [left; exact Hp|right; apply H; exact Hp].
  - rewrite (pok_not_kv _ _ Ek). discriminate.
Qed.

Lemma forallb_pok_mono c c' l : le_cov c c' -> forallb (pok c) l = true -> forallb (pok c') l = true.
Proof.
  intros H Hl. apply forallb_forall. intros p Hp.
  eapply pok_mono; [exact H|]. eapply forallb_forall in Hl; [exact Hl|exact Hp].
Qed.

(* ---- dedupe_props preserves keys and coverage ------------------------------------------ *)
Lemma update_first_spec name f d d' :
  update_first name f d = Some d' ->
  exists pre w v post, d = pre ++ KV (Str name w) v :: post /\ d' = pre ++ KV (Str name w) (f v) :: post.
Proof.
  revert d'. induction d as [|p r IH]; intros d' H; [discriminate|].
  rewrite update_first_cons in H.
  assert (Hgen : match update_first name f r with Some r' => Some (p :: r') | None => None end = Some d' ->
                 exists pre w v post, p :: r = pre ++ KV (Str name w) v :: post
                                      /\ d' = pre ++ KV (Str name w) (f v) :: post).
  { destruct (update_first name f r) as [r'|] eqn:Er; [|discriminate].
    intros Heq. inversion Heq; subst. destruct (IH _ eq_refl) as [pre [w [v [post [E1 E2]]]]].
    exists (p :: pre), w, v, post. subst. split; reflexivity. }
  destruct (as_kv_str p) as [[[k w] v]|] eqn:Ek; [|exact (Hgen H)].
  destruct (str_eqb k name) eqn:Ev; [|exact (Hgen H)].
  apply str_eqb_eq in Ev. subst k. apply as_kv_str_some in Ek. subst p. inversion H; subst.
  exists [], w, v, r. split; reflexivity.
Qed.

Lemma is_constant_pair a b :
  is_constant (Arr [Elem false a; Elem false b]) = is_constant a && is_constant b.
Proof. cbn. rewrite andb_true_r. reflexivity. Qed.

Lemma is_constant_snoc elems b :
  is_constant (Arr (elems ++ [Elem false b])) = is_constant (Arr elems) && is_constant b.
Proof. cbn. rewrite forallb_app. cbn. rewrite andb_true_r. reflexivity. Qed.

Lemma is_constant_merge value old :
  is_constant (merge_into value old) = false -> is_constant old = false \/ is_constant value = false.
Proof.
  unfold merge_into.
  assert (G : is_constant (Arr [Elem false old; Elem false value]) = false ->
              is_constant old = false \/ is_constant value = false).
  { rewrite is_constant_pair. intros H. apply andb_false_iff in H. exact H. }
  destruct old; try exact G.
  rewrite is_constant_snoc. intros H. apply andb_false_iff in H. exact H.
Qed.

Lemma dedupe_step_pok c defined p :
  forallb (pok c) defined = true -> pok c p = true -> forallb (pok c) (dedupe_step defined p) = true.
Proof.
  intros Hd Hp.
  assert (Happ : forallb (pok c) (defined ++ [p]) = true).
  { rewrite forallb_app. rewrite Hd. cbn. rewrite Hp. reflexivity. }
  destruct (as_kv_str p) as [[[k w] v]|] eqn:Ek; [|rewrite (dedupe_step_not_kv _ _ Ek); exact Happ].
  apply as_kv_str_some in Ek. subst p. unfold dedupe_step.
  destruct (dedupe_mergeable k); [|exact Happ].
  destruct (update_first k (merge_into v) defined) eqn:Eu; [|exact Happ].
  destruct (update_first_spec _ _ _ _ Eu) as [pre [w0 [v0 [post [E1 E2]]]]]. subst.
  rewrite forallb_app in *. cbn [forallb] in *.
  apply andb_true_iff in Hd. destruct Hd as [H1 H2]. apply andb_true_iff in H2. destruct H2 as [H2 H3].
  rewrite H1, H3. rewrite andb_true_r. cbn [andb].
  cbn [pok] in *.
  destruct (c k) eqn:Ec; [apply orb_true_r|].
  rewrite orb_false_r in *.
  destruct (is_constant (merge_into v v0)) eqn:Em; [reflexivity|].
  apply is_constant_merge in Em. destruct Em as [Em|Em]; congruence.
Qed.

Lemma dedupe_pok c ps : forallb (pok c) ps = true -> forallb (pok c) (dedupe_props ps) = true.
Proof.
  unfold dedupe_props.
  assert (G : forall ps d, forallb (pok c) d = true -> forallb (pok c) ps = true ->
                           forallb (pok c) (fold_left dedupe_step ps d) = true).
  { induction ps0 as [|p r IH]; intros d Hd Hps; [exact Hd|].
    cbn [fold_left]. cbn [forallb] in Hps. apply andb_true_iff in Hps. destruct Hps as [Hp Hr].
    apply IH; [apply dedupe_step_pok; assumption|exact Hr]. }
  intros H. apply G; [reflexivity|exact H].
Qed.

Lemma has_key_update_first k name f d d' :
  update_first name f d = Some d' -> has_key k d' = has_key k d.
Proof.
  intros H. destruct (update_first_spec _ _ _ _ H) as [pre [w [v [post [E1 E2]]]]]. subst.
  rewrite !has_key_app. unfold has_key. cbn. reflexivity.
Qed.

Lemma dedupe_step_has_key k defined p :
  has_key k (dedupe_step defined p) = has_key k (defined ++ [p]).
Proof.
  destruct (as_kv_str p) as [[[k0 w] v]|] eqn:Ek; [|rewrite (dedupe_step_not_kv _ _ Ek); reflexivity].
  apply as_kv_str_some in Ek. subst p. unfold dedupe_step.
  destruct (dedupe_mergeable k0); [|reflexivity].
  destruct (update_first k0 (merge_into v) defined) eqn:Eu; [|reflexivity].
  rewrite (has_key_update_first _ _ _ _ _ Eu).
  rewrite has_key_app.
  destruct (update_first_spec _ _ _ _ Eu) as [pre [w0 [v0 [post [E1 E2]]]]]. subst.
  rewrite !has_key_app. unfold has_key at 2 3 4 5. cbn [existsb kv_key].
  destruct (str_eqb k k0); cbn; rewrite ?orb_true_r, ?orb_false_r; reflexivity.
Qed.

Lemma dedupe_has_key k ps : has_key k (dedupe_props ps) = has_key k ps.
Proof.
  unfold dedupe_props.
  assert (G : forall ps d, has_key k (fold_left dedupe_step ps d) = has_key k (d ++ ps)).
  { induction ps0 as [|p r IH]; intros d; [rewrite app_nil_r; reflexivity|].
    cbn [fold_left]. rewrite IH.
    replace (d ++ p :: r) with ((d ++ [p]) ++ r) by (rewrite <- app_assoc; reflexivity).
    rewrite (has_key_app k (dedupe_step d p)), (has_key_app k (d ++ [p])).
    rewrite dedupe_step_has_key. reflexivity. }
  apply (G ps []).
Qed.

Lemma flush_obj_has_key k ps : has_key k (obj_props (flush_obj E ps)) = has_key k ps.
Proof. unfold flush_obj. destruct (o_merge_props (e_opts E)); cbn; [apply dedupe_has_key|reflexivity]. Qed.

(* ---- the fold invariant -------------------------------------------------------------- *)
Definition cov_of (a : acc) : str -> bool := cov_acc (a_class a) (a_style a) (a_dyn a).

Record Inv (a : acc) : Prop := {
  inv_plain : a_dynkeys a = false -> a_margs a = [] /\ forallb (pok (cov_of a)) (a_props a) = true;
  inv_dyn : forallb (fun k => has_key k (all_entries a)) (a_dyn a) = true;
}.

Lemma cov_mono cls sty dyn cls' sty' dyn' :
  (cls = true -> cls' = true) -> (sty = true -> sty' = true) ->
  (forall k, mem_str k dyn = true -> mem_str k dyn' = true) ->
  le_cov (cov_acc cls sty dyn) (cov_acc cls' sty' dyn').
Proof.
  intros Hc Hs Hd k. unfold cov_acc. intros H.
  repeat (apply orb_true_iff in H; destruct H as [H|H]).
  - apply andb_true_iff in H. destruct H as [H1 H2]. rewrite H1, (Hc H2). reflexivity.
  - apply andb_true_iff in H. destruct H as [H1 H2]. rewrite H1, (Hs H2). cbn. rewrite orb_true_r. reflexivity.
  - rewrite H. rewrite !orb_true_r. reflexivity.
  - rewrite H. rewrite !orb_true_r. reflexivity.
  - rewrite (Hd _ H). rewrite !orb_true_r. reflexivity.
Qed.

Lemma has_key_new k v l : has_key k (l ++ [KV (Str k nnull) v]) = true.
Proof. rewrite has_key_app. unfold has_key at 2. cbn. rewrite str_eqb_refl. apply orb_true_r. Qed.

Lemma In_iset_insert k x l : In k (iset_insert x l) -> In k l \/ k = x.
Proof.
  unfold iset_insert. destruct (mem_str x l); [left; assumption|].
  intros H. apply in_app_or in H. destruct H as [H|[H|[]]]; [left; exact H|right; symmetry; exact H].
Qed.

Lemma mem_iset_mono x l k : mem_str k l = true -> mem_str k (iset_insert x l) = true.
Proof. intros H. rewrite mem_str_iset_insert, H. reflexivity. Qed.

Lemma inv_init s : Inv (mkAcc [] [] [] [] None false false false false false s).
Proof. split; cbn; [intros _; split; reflexivity|reflexivity]. Qed.

Definition entries_grow (a a' : acc) : Prop :=
  forall k, has_key k (all_entries a) = true -> has_key k (all_entries a') = true.

(* the generic way a step re-establishes the invariant *)
Lemma inv_step a a' :
  Inv a ->
  (a_dynkeys a' = false ->
   a_dynkeys a = false /\ a_margs a' = a_margs a /\
   exists new, a_props a' = a_props a ++ new /\ forallb (pok (cov_of a')) new = true) ->
  (a_class a = true -> a_class a' = true) ->
  (a_style a = true -> a_style a' = true) ->
  (forall k, mem_str k (a_dyn a) = true -> mem_str k (a_dyn a') = true) ->
  entries_grow a a' ->
  (forall k, In k (a_dyn a') -> In k (a_dyn a) \/ has_key k (all_entries a') = true) ->
  Inv a'.
Proof.
  intros [Hp Hd] Hplain Hc Hs Hm Hg Hnew. split.
  - intros Hdk. destruct (Hplain Hdk) as [Hdk0 [Hmargs [new [Hprops Hnewok]]]].
    destruct (Hp Hdk0) as [Hm0 Hps]. split; [rewrite Hmargs; exact Hm0|].
    rewrite Hprops, forallb_app. apply andb_true_iff. split; [|exact Hnewok].
    eapply forallb_pok_mono; [|exact Hps]. apply cov_mono; assumption.
  - apply forallb_forall. intros k Hk.
    destruct (Hnew k Hk) as [H|H]; [|exact H].
    apply Hg. eapply forallb_forall in Hd; [exact Hd|exact H].
Qed.

Ltac proj := cbn [a_props a_margs a_dyn a_dirs a_slots a_ref a_class a_style a_hyd a_dynkeys a_st].

(* plain attribute value: constant by the analysis => constant as an expression *)
Lemma plain_value_constant value v :
  attr_value_constant value = true -> plain_attr_value value = Some v -> is_constant v = true.
Proof.
  intros Hc Hp. destruct value; cbn in Hc, Hp; try discriminate; inversion Hp; subst; clear Hp.
  - reflexivity.
  - match goal with |- is_constant ?e = true => destruct e; try exact Hc; try discriminate end.
Qed.

Lemma entries_app_props a ps ms dy di sl r c s h dk st' :
  a_margs a = ms -> (exists new, ps = a_props a ++ new) ->
  entries_grow a (mkAcc ps ms dy di sl r c s h dk st').
Proof.
  intros Hm [new Hps] k. unfold all_entries. proj. rewrite Hm, Hps.
  rewrite !has_key_app. intros H. apply orb_true_iff in H. destruct H as [H|H]; rewrite H; cbn;
    rewrite ?orb_true_r; reflexivity.
Qed.

Lemma entries_flush a extra dy di sl r c s h dk st' :
  entries_grow a (mkAcc [] (a_margs a ++ match a_props a with [] => [] | ps => [flush_obj E ps] end ++ extra)
                        dy di sl r c s h dk st').
Proof.
  intros k. unfold all_entries. proj. rewrite app_nil_r.
  rewrite !flat_map_app, !has_key_app.
  intros H. apply orb_true_iff in H. destruct H as [H|H]; [rewrite H; reflexivity|].
  destruct (a_props a) as [|p0 ps] eqn:Ep; [discriminate|].
  cbn [flat_map]. rewrite app_nil_r. rewrite flush_obj_has_key, H. rewrite orb_true_r. reflexivity.
Qed.

(* ---- step_plain ----------------------------------------------------------------------- *)
Lemma step_plain_inv a name value : Inv a -> Inv (step_plain E is_comp a name value).
Proof.
  intros HI. unfold step_plain.
  set (attr_name := attr_name_str name).
  set (ton := o_transform_on (e_opts E) && (sq "on" attr_name || sq "nativeOn" attr_name)).
  set (is_ref := sq "ref" attr_name).
  set (dynamic := negb is_ref && negb (attr_value_constant value)).
  set (excl := (sq "class" attr_name && negb is_comp) || (sq "style" attr_name && negb is_comp)
               || sq "key" attr_name || sq "ref" attr_name || ton).
  set (dyn' := if dynamic then if excl then a_dyn a else iset_insert attr_name (a_dyn a) else a_dyn a).
  assert (Hdynmono : forall k, mem_str k (a_dyn a) = true -> mem_str k dyn' = true).
  { intros k Hk. unfold dyn'. destruct dynamic; [|exact Hk]. destruct excl; [exact Hk|].
    apply mem_iset_mono; exact Hk. }
  assert (Hdynnew : forall k, In k dyn' -> In k (a_dyn a) \/ (k = attr_name /\ excl = false /\ dynamic = true)).
  { intros k Hk. unfold dyn' in Hk. destruct dynamic; [|left; exact Hk]. destruct excl; [left; exact Hk|].
    apply In_iset_insert in Hk. destruct Hk as [Hk|Hk]; [left; exact Hk|right; auto]. }
  assert (Hcm : forall x y : bool, x = true -> x || y = true) by (intros x y H; rewrite H; reflexivity).
  destruct (plain_attr_value value) as [av|] eqn:Eav.
  - destruct ton eqn:Eton.
    + (* transformOn *)
      destruct (a_props a) as [|p0 ps] eqn:Ep;
        (eapply inv_step;
         [exact HI
         |proj; intros Hx; discriminate Hx
         |proj; apply Hcm
         |proj; apply Hcm
         |proj; rewrite orb_true_r; intros k Hk; destruct dynamic; exact Hk
         |
         |proj; rewrite orb_true_r; intros k Hk; left; destruct dynamic; exact Hk]).
      * pose proof (entries_flush a [mk_call (mk_ident (s_ "_transformOn") ton_ctx) [av]]) as HF.
        rewrite Ep in HF. cbn [app] in HF. apply HF.
      * pose proof (entries_flush a [mk_call (mk_ident (s_ "_transformOn") ton_ctx) [av]]) as HF.
        rewrite Ep in HF. rewrite <- app_assoc. apply HF.
    + (* ordinary prop *)
      eapply inv_step; [exact HI| |proj; apply Hcm|proj; apply Hcm|proj; exact Hdynmono| |].
      * proj. intros Hdk. split; [exact Hdk|]. split; [reflexivity|].
        exists [kv_str attr_name av]. split; [reflexivity|].
        cbn [forallb]. rewrite andb_true_r. unfold kv_str, mk_str. cbn [pok].
        unfold cov_of, cov_acc. proj. fold dyn'.
        destruct dynamic eqn:Edyn.
        -- assert (Hm : mem_str attr_name (iset_insert attr_name (a_dyn a)) = true)
             by (rewrite mem_str_iset_insert, str_eqb_refl; apply orb_true_r).
           unfold is_ref.
           destruct (sq "class" attr_name), is_comp, (sq "style" attr_name), (sq "key" attr_name),
             (sq "ref" attr_name); cbn [andb orb negb]; rewrite ?Hm, ?orb_true_r; reflexivity.
        -- unfold dynamic in Edyn. apply andb_false_iff in Edyn. destruct Edyn as [Edyn|Edyn].
           ++ apply negb_false_iff in Edyn. unfold is_ref in Edyn. rewrite Edyn.
              btauto.
           ++ apply negb_false_iff in Edyn.
              rewrite (plain_value_constant _ _ Edyn Eav). reflexivity.
      * apply entries_app_props; [reflexivity|eexists; reflexivity].
      * proj. intros k Hk. destruct (Hdynnew k Hk) as [H|[H _]]; [left; exact H|right].
        subst k. unfold all_entries. proj. rewrite app_assoc. apply has_key_new.
  - (* unreachable!: modelled as a panic with a null value *)
    destruct ton eqn:Eton.
    + destruct (a_props a) as [|p0 ps] eqn:Ep;
        (eapply inv_step;
         [exact HI
         |proj; intros Hx; discriminate Hx
         |proj; apply Hcm
         |proj; apply Hcm
         |proj; rewrite orb_true_r; intros k Hk; destruct dynamic; exact Hk
         |
         |proj; rewrite orb_true_r; intros k Hk; left; destruct dynamic; exact Hk]).
      * pose proof (entries_flush a [mk_call (mk_ident (s_ "_transformOn") ton_ctx) [Null]]) as HF.
        rewrite Ep in HF. cbn [app] in HF. apply HF.
      * pose proof (entries_flush a [mk_call (mk_ident (s_ "_transformOn") ton_ctx) [Null]]) as HF.
        rewrite Ep in HF. rewrite <- app_assoc. apply HF.
    + eapply inv_step; [exact HI| |proj; apply Hcm|proj; apply Hcm|proj; exact Hdynmono| |].
      * proj. intros Hdk. split; [exact Hdk|]. split; [reflexivity|].
        exists [kv_str attr_name Null]. split; reflexivity.
      * apply entries_app_props; [reflexivity|eexists; reflexivity].
      * proj. intros k Hk. destruct (Hdynnew k Hk) as [H|[H _]]; [left; exact H|right].
        subst k. unfold all_entries. proj. rewrite app_assoc. apply has_key_new.
Qed.


(* ---- step_spread ---------------------------------------------------------------------- *)
Lemma has_key_flat_app k (l1 l2 : list node) :
  has_key k (flat_map obj_props (l1 ++ l2)) = has_key k (flat_map obj_props l1) || has_key k (flat_map obj_props l2).
Proof. rewrite flat_map_app. apply has_key_app. Qed.

Lemma step_spread_inv a e : Inv a -> Inv (step_spread E a e).
Proof.
  intros HI. unfold step_spread.
  destruct (a_props a) as [|p0 ps] eqn:Ep.
  - (* no buffered props *)
    destruct (o_merge_props (e_opts E)) eqn:Em.
    + assert (G : forall x, (match e with Obj _ => ([], a_margs a ++ [e]) | _ => (@nil node, a_margs a ++ [e]) end) = x ->
                            x = ([], a_margs a ++ [e])) by (intros x <-; destruct e; reflexivity).
      rewrite (G _ eq_refl).
      eapply inv_step; [exact HI|proj; intros Hx; discriminate Hx|proj; auto|proj; auto|proj; auto| |proj; auto].
      intros k. unfold all_entries. proj. rewrite Ep, !app_nil_r, has_key_flat_app.
      intros H; rewrite H; reflexivity.
    + destruct (as_kv_str e) eqn:Ee.
      * (* e is never an Obj here, same as below *)
        assert (He : match e with Obj ps0 => ([] ++ ps0, a_margs a) | _ => ([] ++ [Spread e], a_margs a) end
                     = ([Spread e], a_margs a)).
        { destruct e; try reflexivity; discriminate. }
        rewrite He.
        eapply inv_step; [exact HI|proj; intros Hx; discriminate Hx|proj; auto|proj; auto|proj; auto| |proj; auto].
        intros k. unfold all_entries. proj. rewrite Ep, app_nil_r, has_key_app.
        intros H; rewrite H; reflexivity.
      * destruct e;
          (eapply inv_step; [exact HI|proj; intros Hx; discriminate Hx|proj; auto|proj; auto|proj; auto| |proj; auto];
           intros kx; unfold all_entries; proj; rewrite Ep, app_nil_r, has_key_app;
           intros H; rewrite H; reflexivity).
  - destruct (o_merge_props (e_opts E)) eqn:Em.
    + assert (G : forall m, (match e with Obj _ => ([], m ++ [e]) | _ => (@nil node, m ++ [e]) end)
                            = ([], m ++ [e])) by (intros m; destruct e; reflexivity).
      rewrite G.
      eapply inv_step; [exact HI|proj; intros Hx; discriminate Hx|proj; auto|proj; auto|proj; auto| |proj; auto].
      intros k. unfold all_entries. proj. rewrite Ep, app_nil_r, !has_key_flat_app, has_key_app.
      cbn [flat_map obj_props]. rewrite app_nil_r, dedupe_has_key.
      intros H. apply orb_true_iff in H. destruct H as [H|H]; rewrite H; rewrite ?orb_true_r; reflexivity.
    + destruct e;
        (eapply inv_step; [exact HI|proj; intros Hx; discriminate Hx|proj; auto|proj; auto|proj; auto| |proj; auto];
         intros kx; unfold all_entries; proj; rewrite Ep, !has_key_app;
         intros H; apply orb_true_iff in H; destruct H as [H|H]; rewrite H; rewrite ?orb_true_r; reflexivity).
Qed.

(* ---- directives ----------------------------------------------------------------------- *)
Lemma transform_modifiers_constant mods q m :
  transform_modifiers mods q = Some m -> is_constant m = true.
Proof.
  unfold transform_modifiers. destruct mods as [|x r]; [discriminate|].
  intros H. inversion H; subst.
  change (is_constant (Obj (map (fun m0 => KV (if q || negb (is_simple_ident m0) then mk_str m0 else IdName m0)
                                              (Bool true)) (x :: r))) = true).
  generalize (x :: r). intros l. cbn [is_constant].
  apply forallb_forall. intros y Hy. apply in_map_iff in Hy. destruct Hy as [z [<- _]]. reflexivity.
Qed.

Lemma parse_modifiers_opt_constant (mo : option (list str)) q m :
  match mo with Some ms => transform_modifiers ms q | None => None end = Some m -> is_constant m = true.
Proof. destruct mo; [apply transform_modifiers_constant|discriminate]. Qed.

(* the modifiers object of a parsed v-model is constant *)
Lemma parse_v_model_mods value ic argument splitted s arg targ mods v s' :
  parse_v_model value ic argument splitted s = (DVModel arg targ mods v, s') ->
  forall m, mods = Some m -> is_constant m = true.
Proof.
  intros H. unfold parse_v_model in H.
  repeat match type of H with
         | context [match ?X with pair _ _ => _ end] => destruct X
         end.
  inversion H; subst. intros m Hm. eapply parse_modifiers_opt_constant. exact Hm.
Qed.

Lemma step_vmodel_inv a argument targ modifiers value :
  Inv a -> (forall m, modifiers = Some m -> is_constant m = true) ->
  Inv (step_vmodel is_comp a argument targ modifiers value).
Proof.
  intros HI Hmods. unfold step_vmodel.
  (* classify the argument *)
  assert (Hcls : (argument = None \/ argument = Some Null)
                 \/ (exists v w, argument = Some (Str v w))
                 \/ (match argument with Some Null | None => False | Some (Str _ _) => False | Some _ => True end)).
  { destruct argument as [x|]; [|left; left; reflexivity].
    destruct x; try (right; right; exact I).
    - right; left; eauto.
    - left; right; reflexivity. }
  destruct Hcls as [Hn | [[v [w Hs]] | Ho]].
  - (* no argument: modelValue *)
    assert (Ha : forall (A : Type) (x y z : A),
               match argument with Some Null | None => x | Some (Str _ _) => y | Some _ => z end = x).
    { intros A x y z. destruct Hn as [-> | ->]; reflexivity. }
    destruct is_comp eqn:Eic.
    + assert (Hk1 : forall (dyn : list str),
                 match argument with
                 | Some Null | None => (mk_strS "modelValue", iset_insert (s_ "modelValue") dyn)
                 | Some (Str v _) => (mk_str v, iset_insert v dyn)
                 | Some e => (Computed e, dyn)
                 end = (mk_strS "modelValue", iset_insert (s_ "modelValue") dyn))
        by (intros; destruct Hn as [-> | ->]; reflexivity).
      rewrite Hk1.
      assert (Hk2 : match argument with
                    | Some Null | None => mk_strS "modelModifiers"
                    | Some (Str v _) => mk_str (v ++ s_ "Modifiers")
                    | Some e => Computed (Bin (s_ "+") e (mk_strS "Modifiers"))
                    end = mk_strS "modelModifiers")
        by (destruct Hn as [-> | ->]; reflexivity).
      rewrite Hk2.
      assert (Hk3 : forall dyn dk,
                 match argument with
                 | Some Null | None =>
                     (mk_strS "onUpdate:modelValue", iset_insert (s_ "onUpdate:modelValue") dyn, dk)
                 | Some (Str v _) => (mk_str (s_ "onUpdate:" ++ v), iset_insert (s_ "onUpdate:" ++ v) dyn, dk)
                 | Some e => (Computed (Bin (s_ "+") (mk_strS "onUpdate") e), dyn, true)
                 end = (mk_strS "onUpdate:modelValue", iset_insert (s_ "onUpdate:modelValue") dyn, dk))
        by (intros; destruct Hn as [-> | ->]; reflexivity).
      rewrite Hk3.
      destruct modifiers as [m|].
      * eapply inv_step; [exact HI| |proj; auto|proj; auto| | |].
        -- proj. intros Hdk. split; [exact Hdk|]. split; [reflexivity|].
           exists [KV (mk_strS "modelValue") value; KV (mk_strS "modelModifiers") m;
                   KV (mk_strS "onUpdate:modelValue") (listener value)].
           split; [rewrite <- !app_assoc; reflexivity|].
           unfold mk_strS. cbn [forallb pok]. rewrite (Hmods m eq_refl).
           unfold cov_of, cov_acc. proj. rewrite !mem_str_iset_insert, !str_eqb_refl.
           rewrite !orb_true_r. reflexivity.
        -- proj. intros k Hk. rewrite !mem_str_iset_insert, Hk. reflexivity.
        -- intros k. unfold all_entries. proj. rewrite !has_key_app.
           intros H. apply orb_true_iff in H. destruct H as [H|H]; rewrite H; rewrite ?orb_true_r; reflexivity.
        -- proj. intros k Hk. apply In_iset_insert in Hk. destruct Hk as [Hk|Hk].
           ++ apply In_iset_insert in Hk. destruct Hk as [Hk|Hk]; [left; exact Hk|right].
              subst k. unfold all_entries. proj. rewrite !has_key_app. unfold mk_strS.
              unfold has_key at 3. cbn. rewrite !orb_true_r. reflexivity.
           ++ right. subst k. unfold all_entries. proj. unfold mk_strS. rewrite app_assoc. apply has_key_new.
      * eapply inv_step; [exact HI| |proj; auto|proj; auto| | |].
        -- proj. intros Hdk. split; [exact Hdk|]. split; [reflexivity|].
           exists [KV (mk_strS "modelValue") value; KV (mk_strS "onUpdate:modelValue") (listener value)].
           split; [rewrite <- !app_assoc; reflexivity|].
           unfold mk_strS. cbn [forallb pok].
           unfold cov_of, cov_acc. proj. rewrite !mem_str_iset_insert, !str_eqb_refl.
           rewrite !orb_true_r. reflexivity.
        -- proj. intros k Hk. rewrite !mem_str_iset_insert, Hk. reflexivity.
        -- intros k. unfold all_entries. proj. rewrite !has_key_app.
           intros H. apply orb_true_iff in H. destruct H as [H|H]; rewrite H; rewrite ?orb_true_r; reflexivity.
        -- proj. intros k Hk. apply In_iset_insert in Hk. destruct Hk as [Hk|Hk].
           ++ apply In_iset_insert in Hk. destruct Hk as [Hk|Hk]; [left; exact Hk|right].
              subst k. unfold all_entries. proj. rewrite !has_key_app. unfold mk_strS.
              unfold has_key at 3. cbn. rewrite !orb_true_r. reflexivity.
           ++ right. subst k. unfold all_entries. proj. unfold mk_strS. rewrite app_assoc. apply has_key_new.
    + assert (Hk3 : forall dyn dk,
                 match argument with
                 | Some Null | None =>
                     (mk_strS "onUpdate:modelValue", iset_insert (s_ "onUpdate:modelValue") dyn, dk)
                 | Some (Str v _) => (mk_str (s_ "onUpdate:" ++ v), iset_insert (s_ "onUpdate:" ++ v) dyn, dk)
                 | Some e => (Computed (Bin (s_ "+") (mk_strS "onUpdate") e), dyn, true)
                 end = (mk_strS "onUpdate:modelValue", iset_insert (s_ "onUpdate:modelValue") dyn, dk))
        by (intros; destruct Hn as [-> | ->]; reflexivity).
      rewrite Hk3.
      eapply inv_step; [exact HI| |proj; auto|proj; auto| | |].
      * proj. intros Hdk. split; [exact Hdk|]. split; [reflexivity|].
        exists [KV (mk_strS "onUpdate:modelValue") (listener value)]. split; [reflexivity|].
        unfold mk_strS. cbn [forallb pok]. unfold cov_of, cov_acc. proj.
        rewrite !mem_str_iset_insert, !str_eqb_refl. rewrite !orb_true_r. reflexivity.
      * proj. intros k Hk. rewrite !mem_str_iset_insert, Hk. reflexivity.
      * apply entries_app_props; [reflexivity|eexists; reflexivity].
      * proj. intros k Hk. apply In_iset_insert in Hk. destruct Hk as [Hk|Hk]; [left; exact Hk|right].
        subst k. unfold all_entries. proj. unfold mk_strS. rewrite app_assoc. apply has_key_new.
  - (* static argument *)
    subst argument.
    destruct is_comp eqn:Eic.
    + destruct modifiers as [m|].
      * eapply inv_step; [exact HI| |proj; auto|proj; auto| | |].
        -- proj. intros Hdk. split; [exact Hdk|]. split; [reflexivity|].
           exists [KV (mk_str v) value; KV (mk_str (v ++ s_ "Modifiers")) m;
                   KV (mk_str (s_ "onUpdate:" ++ v)) (listener value)].
           split; [rewrite <- !app_assoc; reflexivity|].
           unfold mk_str. cbn [forallb pok]. rewrite (Hmods m eq_refl).
           unfold cov_of, cov_acc. proj. rewrite !mem_str_iset_insert, !str_eqb_refl.
           rewrite !orb_true_r. reflexivity.
        -- proj. intros k Hk. rewrite !mem_str_iset_insert, Hk. reflexivity.
        -- intros k. unfold all_entries. proj. rewrite !has_key_app.
           intros H. apply orb_true_iff in H. destruct H as [H|H]; rewrite H; rewrite ?orb_true_r; reflexivity.
        -- proj. intros k Hk. apply In_iset_insert in Hk. destruct Hk as [Hk|Hk].
           ++ apply In_iset_insert in Hk. destruct Hk as [Hk|Hk]; [left; exact Hk|right].
              subst k. unfold all_entries. proj. rewrite !has_key_app. unfold mk_str.
              unfold has_key at 3. cbn [existsb kv_key]. rewrite str_eqb_refl. rewrite !orb_true_r. reflexivity.
           ++ right. subst k. unfold all_entries. proj. unfold mk_str. rewrite app_assoc. apply has_key_new.
      * eapply inv_step; [exact HI| |proj; auto|proj; auto| | |].
        -- proj. intros Hdk. split; [exact Hdk|]. split; [reflexivity|].
           exists [KV (mk_str v) value; KV (mk_str (s_ "onUpdate:" ++ v)) (listener value)].
           split; [rewrite <- !app_assoc; reflexivity|].
           unfold mk_str. cbn [forallb pok].
           unfold cov_of, cov_acc. proj. rewrite !mem_str_iset_insert, !str_eqb_refl.
           rewrite !orb_true_r. reflexivity.
        -- proj. intros k Hk. rewrite !mem_str_iset_insert, Hk. reflexivity.
        -- intros k. unfold all_entries. proj. rewrite !has_key_app.
           intros H. apply orb_true_iff in H. destruct H as [H|H]; rewrite H; rewrite ?orb_true_r; reflexivity.
        -- proj. intros k Hk. apply In_iset_insert in Hk. destruct Hk as [Hk|Hk].
           ++ apply In_iset_insert in Hk. destruct Hk as [Hk|Hk]; [left; exact Hk|right].
              subst k. unfold all_entries. proj. rewrite !has_key_app. unfold mk_str.
              unfold has_key at 3. cbn [existsb kv_key]. rewrite str_eqb_refl. rewrite !orb_true_r. reflexivity.
           ++ right. subst k. unfold all_entries. proj. unfold mk_str. rewrite app_assoc. apply has_key_new.
    + eapply inv_step; [exact HI| |proj; auto|proj; auto| | |].
      * proj. intros Hdk. split; [exact Hdk|]. split; [reflexivity|].
        exists [KV (mk_str (s_ "onUpdate:" ++ v)) (listener value)]. split; [reflexivity|].
        unfold mk_str. cbn [forallb pok]. unfold cov_of, cov_acc. proj.
        rewrite !mem_str_iset_insert, !str_eqb_refl. rewrite !orb_true_r. reflexivity.
      * proj. intros k Hk. rewrite !mem_str_iset_insert, Hk. reflexivity.
      * apply entries_app_props; [reflexivity|eexists; reflexivity].
      * proj. intros k Hk. apply In_iset_insert in Hk. destruct Hk as [Hk|Hk]; [left; exact Hk|right].
        subst k. unfold all_entries. proj. unfold mk_str. rewrite app_assoc. apply has_key_new.
  - (* computed argument: full props *)
    destruct argument as [x|]; [|contradiction].
    destruct x; try contradiction;
      (destruct is_comp; [destruct modifiers|];
       (eapply inv_step; [exact HI|proj; intros Hx; discriminate Hx|proj; auto|proj; auto|proj; auto| |proj; auto];
        intros kx; unfold all_entries; proj; rewrite ?has_key_app;
        intros H; apply orb_true_iff in H; destruct H as [H|H]; rewrite H; rewrite ?orb_true_r; reflexivity)).
Qed.


Lemma parse_directive_vmodel name value ic s arg targ mods v s' :
  parse_directive name value ic s = (DVModel arg targ mods v, s') ->
  forall m, mods = Some m -> is_constant m = true.
Proof.
  unfold parse_directive.
  match goal with |- context [match ?X with pair _ _ => _ end] => destruct X as [[dname argument] splitted] end.
  destruct (sq "html" dname).
  { destruct (parse_html_text _ _ _). intros H; inversion H. }
  destruct (sq "text" dname).
  { destruct (parse_html_text _ _ _). intros H; inversion H. }
  destruct (sq "model" dname).
  { apply parse_v_model_mods. }
  destruct (sq "slots" dname).
  { unfold parse_v_slots. intros H.
    repeat match type of H with
           | context [match ?X with _ => _ end] => destruct X
           end; inversion H. }
  repeat match goal with
         | |- context [match ?X with pair _ _ => _ end] => destruct X
         end.
  intros H; inversion H.
Qed.

Lemma step_directive_inv a name value : Inv a -> Inv (step_directive is_comp a name value).
Proof.
  intros HI. unfold step_directive.
  destruct (parse_directive name value is_comp (a_st a)) as [d s] eqn:Ed.
  destruct d as [dn darg dmods dv | e | e | arg targ mods v | e].
  - (* runtime directive *)
    eapply inv_step; [exact HI| |proj; auto|proj; auto|proj; auto| |proj; auto].
    + proj. intros Hdk. split; [exact Hdk|]. split; [reflexivity|]. exists []. rewrite app_nil_r. split; reflexivity.
    + apply entries_app_props; [reflexivity|exists []; rewrite app_nil_r; reflexivity].
  - (* v-text *)
    eapply inv_step; [exact HI| |proj; auto|proj; auto| | |].
    + proj. intros Hdk. split; [exact Hdk|]. split; [reflexivity|].
      exists [kv_str (s_ "textContent") e]. split; [reflexivity|].
      unfold kv_str, mk_str. cbn [forallb pok]. unfold cov_of, cov_acc. proj.
      rewrite mem_str_iset_insert, str_eqb_refl. rewrite !orb_true_r. reflexivity.
    + proj. intros k Hk. apply mem_iset_mono; exact Hk.
    + apply entries_app_props; [reflexivity|eexists; reflexivity].
    + proj. intros k Hk. apply In_iset_insert in Hk. destruct Hk as [Hk|Hk]; [left; exact Hk|right].
      subst k. unfold all_entries. proj. rewrite app_assoc. apply has_key_new.
  - (* v-html *)
    eapply inv_step; [exact HI| |proj; auto|proj; auto| | |].
    + proj. intros Hdk. split; [exact Hdk|]. split; [reflexivity|].
      exists [kv_str (s_ "innerHTML") e]. split; [reflexivity|].
      unfold kv_str, mk_str. cbn [forallb pok]. unfold cov_of, cov_acc. proj.
      rewrite mem_str_iset_insert, str_eqb_refl. rewrite !orb_true_r. reflexivity.
    + proj. intros k Hk. apply mem_iset_mono; exact Hk.
    + apply entries_app_props; [reflexivity|eexists; reflexivity].
    + proj. intros k Hk. apply In_iset_insert in Hk. destruct Hk as [Hk|Hk]; [left; exact Hk|right].
      subst k. unfold all_entries. proj. rewrite app_assoc. apply has_key_new.
  - (* v-model *)
    apply step_vmodel_inv.
    + destruct HI as [Hp Hd]. split; [exact Hp|exact Hd].
    + eapply parse_directive_vmodel. exact Ed.
  - (* v-slots *)
    eapply inv_step; [exact HI| |proj; auto|proj; auto|proj; auto| |proj; auto].
    + proj. intros Hdk. split; [exact Hdk|]. split; [reflexivity|]. exists []. rewrite app_nil_r. split; reflexivity.
    + apply entries_app_props; [reflexivity|exists []; rewrite app_nil_r; reflexivity].
Qed.

Lemma attr_step_inv a attr : Inv a -> Inv (attr_step E is_comp a attr).
Proof.
  intros HI. unfold attr_step. destruct attr; try exact HI.
  - apply step_spread_inv; exact HI.
  - match goal with |- context [is_directive ?x] => destruct (is_directive x) end;
      [apply step_directive_inv|apply step_plain_inv]; exact HI.
Qed.

Lemma fold_inv attrs a : Inv a -> Inv (fold_left (attr_step E is_comp) attrs a).
Proof.
  revert a. induction attrs as [|x r IH]; intros a HI; [exact HI|].
  cbn [fold_left]. apply IH. apply attr_step_inv. exact HI.
Qed.


(* ---- has_ref is exactly "some plain attribute is named ref" (only => is needed) ------- *)
Lemma step_vmodel_ref a argument targ modifiers value :
  a_ref (step_vmodel is_comp a argument targ modifiers value) = a_ref a.
Proof.
  unfold step_vmodel.
  repeat match goal with
         | |- context [match ?X with pair _ _ => _ end] => destruct X
         end.
  reflexivity.
Qed.

Lemma attr_step_ref_mono a x : a_ref a = true -> a_ref (attr_step E is_comp a x) = true.
Proof.
  intros H. unfold attr_step. destruct x; try exact H.
  - unfold step_spread.
    repeat match goal with
           | |- context [match ?X with pair _ _ => _ end] => destruct X
           end. exact H.
  - match goal with |- context [is_directive ?y] => destruct (is_directive y) end.
    + unfold step_directive.
      match goal with |- context [parse_directive ?n ?v ?c ?st] => destruct (parse_directive n v c st) as [d s'] end.
      destruct d; try exact H. rewrite step_vmodel_ref. exact H.
    + unfold step_plain.
      repeat match goal with
             | |- context [match ?X with pair _ _ => _ end] => destruct X
             end.
      match goal with |- context [if ?c then _ else _] => destruct c end; proj; rewrite H; reflexivity.
Qed.

Lemma attr_step_ref_set a x : is_ref_attr x = true -> a_ref (attr_step E is_comp a x) = true.
Proof.
  unfold is_ref_attr, attr_step. destruct x; try discriminate.
  match goal with |- context [is_directive ?y] => destruct (is_directive y) end; [discriminate|].
  cbn [negb andb]. intros H. unfold step_plain.
  repeat match goal with
         | |- context [match ?X with pair _ _ => _ end] => destruct X
         end.
  match goal with |- context [if ?c then _ else _] => destruct c end; proj; rewrite H; apply orb_true_r.
Qed.

Lemma fold_ref attrs a :
  a_ref a = true \/ existsb is_ref_attr attrs = true ->
  a_ref (fold_left (attr_step E is_comp) attrs a) = true.
Proof.
  revert a. induction attrs as [|x r IH]; intros a H.
  - destruct H as [H|H]; [exact H|discriminate].
  - cbn [fold_left]. apply IH. destruct H as [H|H].
    + left. apply attr_step_ref_mono. exact H.
    + cbn [existsb] in H. apply orb_true_iff in H. destruct H as [H|H].
      * left. apply attr_step_ref_set. exact H.
      * right. exact H.
Qed.

(* ---- arithmetic of compute_flags -------------------------------------------------------- *)
Definition flags_of (dk cls sty dne hyd need : bool) : N :=
  let f := if dk then PF_FULL_PROPS
           else (if cls then PF_CLASS else 0) + (if sty then PF_STYLE else 0)
                + (if dne then PF_PROPS else 0) + (if hyd then PF_HYDRATE_EVENTS else 0) in
  if (N.eqb f 0 || N.eqb f PF_HYDRATE_EVENTS) && need then f + PF_NEED_PATCH else f.

Lemma compute_flags_eq a :
  compute_flags a = flags_of (a_dynkeys a) (a_class a) (a_style a)
                             (match a_dyn a with [] => false | _ => true end) (a_hyd a)
                             (a_ref a || match a_dirs a with [] => false | _ => true end).
Proof. unfold compute_flags, flags_of. destruct (a_dyn a); reflexivity. Qed.

Lemma flags_bits dk cls sty dne hyd need :
  let f := flags_of dk cls sty dne hyd need in
  (dk = false -> has_flag f PF_CLASS = cls /\ has_flag f PF_STYLE = sty /\ has_flag f PF_PROPS = dne
                 /\ has_flag f PF_FULL_PROPS = false)
  /\ (dk = true -> has_flag f PF_FULL_PROPS = true)
  /\ (need = true -> N.eqb f 0 = false /\ N.eqb f PF_HYDRATE_EVENTS = false)
  /\ N.eqb (N.land f (N.lnot (PF_CLASS + PF_STYLE + PF_PROPS + PF_FULL_PROPS + PF_HYDRATE_EVENTS + PF_NEED_PATCH) 16)) 0 = true.
Proof.
  destruct dk, cls, sty, dne, hyd, need; vm_compute; repeat split; intros; try reflexivity; try discriminate.
Qed.

(* ---- the final expression --------------------------------------------------------------- *)
Definition single_spread (ps : list node) : option node :=
  match ps with [Spread e] => Some e | _ => None end.

Lemma final_noargs a :
  a_margs a = [] ->
  final_attrs_expr E a =
  (match a_props a with
   | [] => Null
   | ps => match single_spread ps with Some e => e | None => flush_obj E ps end
   end, a_st a).
Proof.
  intros Hm. unfold final_attrs_expr. rewrite Hm.
  destruct (a_props a) as [|p [|q r]]; try reflexivity; destruct p; reflexivity.
Qed.

Lemma final_noargs_plain a c :
  a_margs a = [] -> forallb (pok c) (a_props a) = true ->
  final_attrs_expr E a = (match a_props a with [] => Null | ps => flush_obj E ps end, a_st a).
Proof.
  intros Hm Hps. unfold final_attrs_expr. rewrite Hm.
  destruct (a_props a) as [|p [|q r]]; try reflexivity; destruct p; try reflexivity; discriminate.
Qed.

Lemma final_noargs_entries a k :
  a_margs a = [] -> has_key k (a_props a) = true ->
  has_key k (static_entries (fst (final_attrs_expr E a))) = true.
Proof.
  intros Hm Hk. unfold final_attrs_expr. rewrite Hm.
  assert (G : forall ps, has_key k ps = true -> has_key k (static_entries (flush_obj E ps)) = true).
  { intros ps H. change (static_entries (flush_obj E ps)) with (obj_props (flush_obj E ps)).
    rewrite flush_obj_has_key. exact H. }
  destruct (a_props a) as [|p [|q r]]; [discriminate| |];
    destruct p; try (cbn [fst]; apply G; exact Hk); discriminate.
Qed.

Lemma final_args a m0 mr :
  a_margs a = m0 :: mr ->
  let margs' := match a_props a with [] => m0 :: mr | ps => (m0 :: mr) ++ [flush_obj E ps] end in
  final_attrs_expr E a =
  match margs' with
  | [e] => (e, a_st a)
  | _ => let '(h, s) := import_from_vue "mergeProps" (a_st a) in (mk_call h margs', s)
  end.
Proof.
  intros Hm. unfold final_attrs_expr. rewrite Hm. destruct (a_props a); reflexivity.
Qed.

Lemma static_entries_call h margs :
  static_entries (mk_call h margs) = flat_map obj_props margs.
Proof.
  unfold mk_call. cbn [static_entries]. induction margs as [|m r IH]; [reflexivity|].
  cbn [map flat_map]. rewrite IH. destruct m; reflexivity.
Qed.

Lemma pok_prop_ok c f dyn p :
  (forall k, c k = true -> covered is_comp f dyn k = true) -> pok c p = true -> prop_ok is_comp f dyn p = true.
Proof.
  intros H. destruct (as_kv_str p) as [[[k w] v]|] eqn:Ek.
  - apply as_kv_str_some in Ek. subst p. cbn. intros Hp. apply orb_true_iff in Hp. apply orb_true_iff.
    destruct Hp as [Hp|Hp]; [left; exact Hp|right; apply H; exact Hp].
  - rewrite (pok_not_kv _ _ Ek). discriminate.
Qed.

Theorem flags_sound attrs s : flags_ok is_comp attrs (transform_attrs E attrs is_comp s) = true.
Proof.
  unfold transform_attrs. destruct attrs as [|x0 xs]; [vm_compute; reflexivity|].
  set (attrs := x0 :: xs).
  set (a := fold_left (attr_step E is_comp) attrs (mkAcc [] [] [] [] None false false false false false s)).
  assert (HI : Inv a) by (apply fold_inv, inv_init).
  destruct HI as [Hplain Hdyn].
  (* the final expression, whatever it is *)
  destruct (final_attrs_expr E a) as [expr sfin] eqn:Eexpr.
  unfold flags_ok. cbn [r_flags r_dyn r_attrs r_dirs].
  rewrite compute_flags_eq.
  set (dne := match a_dyn a with [] => false | _ => true end).
  set (need := a_ref a || match a_dirs a with [] => false | _ => true end).
  destruct (flags_bits (a_dynkeys a) (a_class a) (a_style a) dne (a_hyd a) need) as [Hb1 [Hb2 [Hb3 Hb4]]].
  set (f := flags_of (a_dynkeys a) (a_class a) (a_style a) dne (a_hyd a) need) in *.
  cbv zeta in Hb1, Hb2, Hb3, Hb4.
  rewrite Hb4, andb_true_r.
  apply andb_true_iff. split; [apply andb_true_iff; split|].
  - (* coverage *)
    destruct (a_dynkeys a) eqn:Edk.
    + rewrite (Hb2 eq_refl). rewrite orb_true_r. reflexivity.
    + destruct (Hb1 eq_refl) as [Hc [Hs [Hp Hf]]]. rewrite Hf, orb_false_r.
      destruct (N.eqb f 0) eqn:Ef0; [reflexivity|].
      destruct (Hplain eq_refl) as [Hm Hps].
      rewrite (final_noargs_plain a _ Hm Hps) in Eexpr. inversion Eexpr; subst expr; clear Eexpr.
      assert (Hcov : forall k, cov_of a k = true -> covered is_comp f (a_dyn a) k = true).
      { intros k. unfold cov_of, cov_acc, covered. rewrite Hc, Hs, Hp. intros H.
        repeat (apply orb_true_iff in H; destruct H as [H|H]).
        - rewrite H. reflexivity.
        - rewrite H. rewrite !orb_true_r. reflexivity.
        - rewrite H. rewrite !orb_true_r. reflexivity.
        - rewrite H. rewrite !orb_true_r. reflexivity.
        - rewrite H. unfold dne. destruct (a_dyn a); [discriminate|]. rewrite !orb_true_r. reflexivity. }
      destruct (a_props a) as [|p0 pr] eqn:Ep; [reflexivity|].
      unfold flush_obj. cbv beta iota. apply forallb_forall. intros p Hin.
      eapply pok_prop_ok; [exact Hcov|].
      destruct (o_merge_props (e_opts E)).
      * apply dedupe_pok in Hps. eapply forallb_forall in Hps; [exact Hps|exact Hin].
      * eapply forallb_forall in Hps; [exact Hps|exact Hin].
  - (* the dynamic props are present *)
    apply forallb_forall. intros k Hk.
    eapply forallb_forall in Hdyn; [|exact Hk]. unfold all_entries in Hdyn.
    destruct (a_margs a) as [|m0 mr] eqn:Em.
    + cbn [flat_map app] in Hdyn.
      pose proof (final_noargs_entries a k Em Hdyn) as HH. rewrite Eexpr in HH. exact HH.
    + rewrite (final_args a m0 mr Em) in Eexpr. cbv zeta in Eexpr.
      set (margs' := match a_props a with [] => m0 :: mr | ps => (m0 :: mr) ++ [flush_obj E ps] end) in *.
      assert (Hm' : has_key k (flat_map obj_props margs') = true).
      { unfold margs'. destruct (a_props a) as [|p0 pr] eqn:Ep.
        - rewrite app_nil_r in Hdyn. exact Hdyn.
        - rewrite flat_map_app, has_key_app. cbn [flat_map]. rewrite app_nil_r, flush_obj_has_key.
          rewrite has_key_app in Hdyn. exact Hdyn. }
      destruct margs' as [|e0 [|e1 er]] eqn:Emm.
      * discriminate.
      * inversion Eexpr; subst expr; clear Eexpr.
        cbn [flat_map] in Hm'. rewrite app_nil_r in Hm'.
        destruct e0; try discriminate. exact Hm'.
      * destruct (import_from_vue "mergeProps" (a_st a)) as [h s1]. inversion Eexpr; subst expr; clear Eexpr.
        rewrite static_entries_call. exact Hm'.
  - (* ref / runtime directive *)
    destruct (existsb is_ref_attr attrs || match a_dirs a with [] => false | _ => true end) eqn:En; [|reflexivity].
    assert (Hneed : need = true).
    { unfold need. apply orb_true_iff in En. destruct En as [En|En].
      - assert (Hr : a_ref a = true) by (apply fold_ref; right; exact En). rewrite Hr. reflexivity.
      - rewrite En. apply orb_true_r. }
    destruct (Hb3 Hneed) as [H0 H32]. rewrite H0, H32. reflexivity.
Qed.

End Flags.
