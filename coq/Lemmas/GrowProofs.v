(* Nothing the lowering has recorded is ever dropped: the set of requested helper imports and the
   lists of pending declarations only grow, and the counter that names temporaries only
   increases (C06).  The proof skeleton is that of Lemmas/FrameProofs.v. *)
From Coq Require Import Lia.
From VJ Require Import Model.Str Model.Json Model.Ast Model.State Model.Util Model.Text
  Model.Directive Model.Lower Spec.Plain Lemmas.NodeInd Lemmas.StrLemmas.

Definition grow (s s' : st) : Prop :=
  (forall x, mem_str x (imports s) = true -> mem_str x (imports s') = true)
  /\ (exists l, inj_vars s' = inj_vars s ++ l /\ forallb jsx_free l = true)
  /\ (exists l, inj_consts s' = inj_consts s ++ l /\ forallb jsx_free l = true)
  /\ (fresh s <= fresh s')%N.

Lemma grow_refl s : grow s s.
Proof. split; [auto|]. split; [exists []; split; [symmetry; apply app_nil_r|reflexivity]|]. split; [exists []; split; [symmetry; apply app_nil_r|reflexivity]|try apply N.le_refl; try apply N.le_add_r; try lia]. Qed.

Lemma grow_trans a b c : grow a b -> grow b c -> grow a c.
Proof.
  intros (A1 & [l1 [A2 A2']] & [m1 [A3 A3']] & A4) (B1 & [l2 [B2 B2']] & [m2 [B3 B3']] & B4).
  split; [auto|].
  split; [exists (l1 ++ l2); split; [rewrite B2, A2, app_assoc; reflexivity|rewrite forallb_app, A2', B2'; reflexivity]|].
  split; [exists (m1 ++ m2); split; [rewrite B3, A3, app_assoc; reflexivity|rewrite forallb_app, A3', B3'; reflexivity]|lia].
Qed.

Ltac fr := repeat first [apply grow_refl | eapply grow_trans; [eassumption|] | eassumption].

Ltac same_fields s := destruct s; cbn -[N.le N.add]; split; [auto|]; split; [exists []; split; [symmetry; apply app_nil_r|reflexivity]|];
                      split; [exists []; split; [symmetry; apply app_nil_r|reflexivity]|try apply N.le_refl; try apply N.le_add_r; try lia].

Lemma mem_set_insert_same x l : mem_str x (set_insert x l) = true.
Proof.
  induction l as [|y r IH]; cbn; [rewrite str_eqb_refl; reflexivity|].
  destruct (str_eqb x y) eqn:E1; [cbn; rewrite E1; reflexivity|].
  destruct (str_ltb x y); cbn; [rewrite str_eqb_refl; reflexivity|]. rewrite E1, IH. reflexivity.
Qed.

Lemma mem_set_insert_keep x n l : mem_str x l = true -> mem_str x (set_insert n l) = true.
Proof.
  induction l as [|y r IH]; cbn; [discriminate|]. intros H.
  destruct (str_eqb n y) eqn:E1; [cbn; exact H|].
  destruct (str_ltb n y); cbn; [rewrite H; apply orb_true_r|].
  apply orb_true_iff in H. destruct H as [H|H]; [rewrite H; reflexivity|rewrite (IH H); apply orb_true_r].
Qed.

Lemma grow_set_imports_insert n s : grow s (set_imports (set_insert n (imports s)) s).
Proof.
  destruct s; cbn -[N.le N.add]. split; [intros x H; apply mem_set_insert_keep; exact H|].
  split; [exists []; split; [symmetry; apply app_nil_r|reflexivity]|]. split; [exists []; split; [symmetry; apply app_nil_r|reflexivity]|try apply N.le_refl; try apply N.le_add_r; try lia].
Qed.
Lemma grow_inj_vars_app x s : forallb jsx_free x = true -> grow s (set_inj_vars (inj_vars s ++ x) s).
Proof. intros Hx. destruct s; cbn -[N.le N.add]. split; [auto|]. split; [exists x; split; [reflexivity|exact Hx]|]. split; [exists []; split; [symmetry; apply app_nil_r|reflexivity]|try apply N.le_refl; try apply N.le_add_r; try lia]. Qed.
Lemma grow_inj_consts_app x s : forallb jsx_free x = true -> grow s (set_inj_consts (inj_consts s ++ x) s).
Proof. intros Hx. destruct s; cbn -[N.le N.add]. split; [auto|]. split; [exists []; split; [symmetry; apply app_nil_r|reflexivity]|]. split; [exists x; split; [reflexivity|exact Hx]|apply N.le_refl]. Qed.
Lemma grow_set_ton v s : grow s (set_ton v s). Proof. same_fields s. Qed.
Lemma grow_set_slot_helper v s : grow s (set_slot_helper v s). Proof. same_fields s. Qed.
Lemma grow_set_slot_counter v s : grow s (set_slot_counter v s). Proof. same_fields s. Qed.
Lemma grow_set_slot_stack v s : grow s (set_slot_stack v s). Proof. same_fields s. Qed.
Lemma grow_set_assign_left v s : grow s (set_assign_left v s). Proof. same_fields s. Qed.
Lemma grow_set_diags v s : grow s (set_diags v s). Proof. same_fields s. Qed.
Lemma grow_panic s : grow s (panic s). Proof. same_fields s. Qed.
Lemma grow_add_diag m s : grow s (add_diag m s). Proof. same_fields s. Qed.

Lemma grow_import name s : grow s (snd (import_from_vue name s)).
Proof. apply grow_set_imports_insert. Qed.
Lemma grow_fresh sy s : grow s (snd (fresh_ident sy s)).
Proof.
  destruct s; cbn -[N.le N.add]. split; [auto|]. split; [exists []; split; [symmetry; apply app_nil_r|reflexivity]|].
  split; [exists []; split; [symmetry; apply app_nil_r|reflexivity]|try apply N.le_refl; try apply N.le_add_r; try lia].
Qed.

Section Grow.
Variable E : env.

Lemma grow_parse_html_text w v s : grow s (snd (parse_html_text w v s)).
Proof.
  unfold parse_html_text.
  repeat match goal with |- context [match ?x with _ => _ end] => destruct x end;
    try apply grow_refl; apply grow_set_diags.
Qed.

Lemma grow_parse_directive name value ic s : grow s (snd (parse_directive name value ic s)).
Proof.
  unfold parse_directive.
  match goal with |- context [match ?X with pair _ _ => _ end] => destruct X as [[dname a0] sp] end.
  destruct (sq "html" dname).
  { pose proof (grow_parse_html_text "v-html"%string value s) as H.
    destruct (parse_html_text "v-html"%string value s). exact H. }
  destruct (sq "text" dname).
  { pose proof (grow_parse_html_text "v-text"%string value s) as H.
    destruct (parse_html_text "v-text"%string value s). exact H. }
  destruct (sq "model" dname).
  { unfold parse_v_model.
    assert (H1 : grow s (snd (vmodel_attr_value value s))).
    { unfold vmodel_attr_value.
      repeat match goal with |- context [match ?x with _ => _ end] => destruct x end;
        try apply grow_refl; apply grow_add_diag. }
    destruct (vmodel_attr_value value s) as [av s1]. cbn [snd] in H1.
    assert (H2 : grow s1 (vmodel_first_check av s1)).
    { unfold vmodel_first_check.
      repeat match goal with |- context [match ?x with _ => _ end] => destruct x end;
        try apply grow_refl; apply grow_add_diag. }
    destruct (vmodel_parts av ic _ sp) as [[v a] m]. cbn [snd].
    assert (H3 : grow (vmodel_first_check av s1) (vmodel_target_check v (vmodel_first_check av s1))).
    { unfold vmodel_target_check. destruct (is_assignable v); [apply grow_refl|apply grow_add_diag]. }
    fr. }
  destruct (sq "slots" dname); [apply grow_refl|].
  destruct (normal_parts value _ sp) as [[v a] m]. apply grow_refl.
Qed.

Lemma grow_step_vmodel ic a arg targ mods v : a_st (step_vmodel ic a arg targ mods v) = a_st a.
Proof.
  unfold step_vmodel.
  repeat match goal with |- context [match ?X with pair _ _ => _ end] => destruct X end.
  reflexivity.
Qed.

Lemma grow_attr_step ic a x : grow (a_st a) (a_st (attr_step E ic a x)).
Proof.
  unfold attr_step. destruct x; try apply grow_refl.
  - unfold step_spread.
    repeat match goal with |- context [match ?X with pair _ _ => _ end] => destruct X end.
    apply grow_refl.
  - match goal with |- context [is_directive ?y] => destruct (is_directive y) end.
    + unfold step_directive.
      match goal with |- context [parse_directive ?n ?v ?c ?s0] =>
        pose proof (grow_parse_directive n v c s0) as H; destruct (parse_directive n v c s0) as [d s1] end.
      cbn [snd] in H. destruct d; try exact H. rewrite grow_step_vmodel. exact H.
    + unfold step_plain.
      match goal with |- context [match plain_attr_value ?v with _ => _ end] => destruct (plain_attr_value v) end;
        repeat match goal with |- context [match ?X with pair _ _ => _ end] => destruct X end;
        match goal with |- context [if ?c then _ else _] => destruct c end;
        cbn [a_st]; fr; try apply grow_set_ton; try apply grow_panic;
        try (eapply grow_trans; [apply grow_panic|apply grow_set_ton]).
Qed.

Lemma grow_fold ic attrs a : grow (a_st a) (a_st (fold_left (attr_step E ic) attrs a)).
Proof.
  revert a. induction attrs as [|x r IH]; intros a; [apply grow_refl|].
  cbn [fold_left]. eapply grow_trans; [apply grow_attr_step|apply IH].
Qed.

Lemma grow_final a : grow (a_st a) (snd (final_attrs_expr E a)).
Proof.
  unfold final_attrs_expr, import_from_vue.
  repeat match goal with |- context [match ?x with _ => _ end] => destruct x end;
    try apply grow_refl; apply grow_set_imports_insert.
Qed.

Lemma grow_transform_attrs attrs ic s : grow s (r_st (transform_attrs E attrs ic s)).
Proof.
  unfold transform_attrs. destruct attrs as [|x0 xs]; [apply grow_refl|].
  set (a := fold_left _ _ _).
  pose proof (grow_fold ic (x0 :: xs) (mkAcc [] [] [] [] None false false false false false s)) as H1.
  fold a in H1. cbn [a_st] in H1.
  pose proof (grow_final a) as H2. destruct (final_attrs_expr E a) as [e s']. cbn [snd r_st] in *. fr.
Qed.

Lemma grow_transform_tag name s : grow s (snd (transform_tag E name s)).
Proof.
  unfold transform_tag, import_from_vue.
  repeat match goal with
         | |- context [if ?c then _ else _] => destruct c
         | |- context [match ?x with _ => _ end] => destruct x
         end; try apply grow_refl; try apply grow_set_imports_insert; try apply grow_add_diag.
Qed.

Lemma grow_get_pragma s : grow s (snd (get_pragma E s)).
Proof.
  unfold get_pragma. destruct (pragma s); [apply grow_refl|].
  destruct (o_pragma (e_opts E)); [apply grow_refl|apply grow_import].
Qed.

Lemma grow_build_iife_elems lft elems s : grow s (snd (build_iife_elems lft elems s)).
Proof.
  revert s. induction elems as [|x r IH]; intros s; [apply grow_refl|].
  assert (Hdef : forall s0, grow s0 (snd (let '(r', s1) := build_iife_elems lft r s0 in (x :: r', s1)))).
  { intros s0. pose proof (IH s0) as H. destruct (build_iife_elems lft r s0). exact H. }
  cbn [build_iife_elems]. destruct x; try apply Hdef.
  match goal with |- context [Elem ?b ?e] => destruct b; [apply Hdef|destruct e; try apply Hdef] end.
  match goal with |- context [if ?c then _ else _] => destruct c end; [|apply Hdef].
  match goal with |- context [fresh_ident ?sy ?st0] =>
    pose proof (grow_fresh sy st0) as Hf; destruct (fresh_ident sy st0) as [[nm0 ctx0] s1] end.
  cbn [snd] in Hf.
  match goal with |- context [build_iife_elems lft r ?s2] =>
    pose proof (IH s2) as H; destruct (build_iife_elems lft r s2) end.
  cbn [snd] in *. eapply grow_trans; [exact Hf|]. eapply grow_trans; [|exact H]. apply grow_inj_consts_app. reflexivity.
Qed.

Lemma grow_build_iife elems s : grow s (snd (build_iife elems s)).
Proof.
  unfold build_iife. destruct (assign_left s); [|apply grow_refl].
  eapply grow_trans; [apply grow_set_assign_left|apply grow_build_iife_elems].
Qed.

Lemma grow_slot_ident s : grow s (snd (generate_unique_slot_ident s)).
Proof.
  unfold generate_unique_slot_ident.
  match goal with |- context [fresh_ident ?sy ?st0] =>
    pose proof (grow_fresh sy st0) as Hf; destruct (fresh_ident sy st0) as [[id ctx0] s1] end.
  cbn [snd] in *. eapply grow_trans; [exact Hf|].
  eapply grow_trans; [apply grow_inj_vars_app|apply grow_set_slot_counter]. reflexivity.
Qed.

Lemma grow_finish_children elems ic slots s : grow s (snd (finish_children E elems ic slots s)).
Proof.
  unfold finish_children.
  assert (H0 : grow s (snd (if o_optimize (e_opts E)
                             then match rev (slot_stack s) with
                                  | top :: rest => (top, set_slot_stack (rev rest) s)
                                  | [] => (false, s)
                                  end else (false, s)))).
  { destruct (o_optimize (e_opts E)); [|apply grow_refl].
    destruct (rev (slot_stack s)); [apply grow_refl|apply grow_set_slot_stack]. }
  match goal with |- context [match ?X with pair _ _ => _ end] => destruct X as [flag s0] end.
  cbn [snd] in H0.
  assert (Hdef : grow s (snd (if ic then (wrap_children E elems flag slots, s0) else (Arr elems, s0))))
    by (destruct ic; exact H0).
  destruct elems as [|x [|y r]].
  - exact H0.
  - destruct x; try exact Hdef.
    match goal with |- context [Elem ?b ?e] => destruct b; [exact Hdef|destruct e] end;
      try exact Hdef; try (destruct (is_fn_like _); [exact H0|exact Hdef]); try exact H0.
    + (* identifier *)
      destruct ic; [|exact H0].
      match goal with |- context [build_iife ?es ?st0] =>
        pose proof (grow_build_iife es st0) as Hb; destruct (build_iife es st0) as [elems' s1] end.
      cbn [snd] in Hb.
      destruct (o_object_slots (e_opts E)); cbn [snd]; fr. apply grow_set_slot_helper.
    + (* call *)
      match goal with |- context [Call ?sy _ _ _ _] => destruct sy; [exact Hdef|] end.
      destruct ic; [|exact H0].
      destruct (o_object_slots (e_opts E)); [|exact H0].
      pose proof (grow_slot_ident s0) as Hs.
      destruct (generate_unique_slot_ident s0) as [slot s1]. cbn [snd] in Hs.
      match goal with |- context [build_iife ?es ?st0] =>
        pose proof (grow_build_iife es st0) as Hb; destruct (build_iife es st0) as [elems' s2] end.
      cbn [snd] in *. eapply grow_trans; [exact H0|]. eapply grow_trans; [exact Hs|].
      eapply grow_trans; [apply grow_set_slot_helper|exact Hb].
  - destruct x; try exact Hdef.
    match goal with |- context [Elem ?b ?e] => destruct b; [exact Hdef|destruct e; exact Hdef] end.
Qed.

Lemma grow_resolve_directive dn tag attrs s : grow s (snd (resolve_directive dn tag attrs s)).
Proof.
  unfold resolve_directive, import_from_vue.
  repeat match goal with
         | |- context [if ?c then _ else _] => destruct c
         | |- context [match ?x with _ => _ end] => destruct x
         end; apply grow_set_imports_insert.
Qed.

Lemma grow_build_directives dirs tag attrs s : grow s (snd (build_directives dirs tag attrs s)).
Proof.
  revert s. induction dirs as [|d r IH]; intros s; [apply grow_refl|].
  cbn [build_directives]. destruct d; try apply IH.
  pose proof (grow_resolve_directive name tag attrs s) as H1.
  destruct (resolve_directive name tag attrs s) as [dd s1]. cbn [snd] in H1.
  pose proof (IH s1) as H2. destruct (build_directives r tag attrs s1). cbn [snd] in *. fr.
Qed.

Lemma grow_push s : grow s (push_slot_flag E s).
Proof. unfold push_slot_flag. destruct (o_optimize (e_opts E)); [apply grow_set_slot_stack|apply grow_refl]. Qed.

Lemma grow_mark e s : grow s (mark_dynamic E e s).
Proof. unfold mark_dynamic. destruct (_ && _); [apply grow_set_slot_stack|apply grow_refl]. Qed.

Definition Gr (n : node) : Prop := forall s, grow s (snd (lower_el E n s)).

Lemma grow_children cs : Forall Gr cs -> forall s, grow s (snd (lower_children_with E (lower_el E) cs s)).
Proof.
  induction 1 as [|c r Hc Hr IH]; intros s; [apply grow_refl|].
  cbn [lower_children_with].
  assert (Hrest : forall (o : list node) s0 s1, grow s0 s1 ->
            grow s0 (snd (let '(r', s2) := lower_children_with E (lower_el E) r s1 in (o ++ r', s2)))).
  { intros o s0 s1 H. pose proof (IH s1) as H2. destruct (lower_children_with E (lower_el E) r s1).
    cbn [snd] in *. fr. }
  destruct c; try (apply Hrest; apply grow_refl).
  - pose proof (Hc s) as H. destruct (lower_el E _ s). apply Hrest. exact H.
  - pose proof (Hc s) as H. destruct (lower_el E _ s). apply Hrest. exact H.
  - match goal with |- context [mark_dynamic E ?e _] => destruct e end;
      try (apply Hrest; apply grow_mark). apply Hrest. apply grow_refl.
  - unfold transform_jsx_text. destruct (transform_text v); [apply Hrest; apply grow_refl|].
    match goal with |- context [import_from_vue ?n ?st0] =>
      pose proof (grow_import n st0) as Hi; destruct (import_from_vue n st0) end.
    apply Hrest. exact Hi.
  - apply Hrest. apply grow_mark.
Qed.

Definition GrA (n : node) : Prop := Gr n /\ (forall nm v, n = JAttr nm v -> Gr v).

Lemma grow_attr_values attrs :
  Forall GrA attrs -> forall s, grow s (snd (lower_attr_values_with (lower_el E) attrs s)).
Proof.
  induction 1 as [|a r Ha Hr IH]; intros s; [apply grow_refl|].
  cbn [lower_attr_values_with].
  assert (Hrest : forall (a' : node) s0 s1, grow s0 s1 ->
            grow s0 (snd (let '(r', s2) := lower_attr_values_with (lower_el E) r s1 in (a' :: r', s2)))).
  { intros a' s0 s1 H. pose proof (IH s1) as H2. destruct (lower_attr_values_with (lower_el E) r s1).
    cbn [snd] in *. fr. }
  destruct Ha as [_ Hv].
  destruct a; try (apply Hrest; apply grow_refl).
  match goal with |- context [JAttr ?nm ?v] => destruct v end; try (apply Hrest; apply grow_refl).
  - match goal with |- context [is_directive ?x] => destruct (is_directive x) end;
      [apply Hrest; apply grow_refl|].
    pose proof (Hv _ _ eq_refl s) as H. destruct (lower_el E _ s). apply Hrest. exact H.
  - match goal with |- context [is_directive ?x] => destruct (is_directive x) end;
      [apply Hrest; apply grow_refl|].
    pose proof (Hv _ _ eq_refl s) as H. destruct (lower_el E _ s). apply Hrest. exact H.
Qed.

Theorem lower_el_grow_A : forall n, GrA n.
Proof.
  apply node_ind'; intros; split; try (let x := fresh "sx" in intros x; apply grow_refl); try (intros ? ? Heq; discriminate Heq).
  - (* JsxE *)
    intros sx. cbn [lower_el].
    assert (Hats : Forall GrA ats) by assumption.
    pose proof (grow_attr_values _ Hats (push_slot_flag E sx)) as G1.
    destruct (lower_attr_values_with (lower_el E) ats (push_slot_flag E sx)) as [attrs s1]. cbn [snd] in G1.
    pose proof (grow_transform_attrs attrs (is_component E nm) s1) as G2.
    set (ar := transform_attrs E attrs (is_component E nm) s1) in *.
    pose proof (grow_transform_tag nm (r_st ar)) as G3.
    destruct (transform_tag E nm (r_st ar)) as [tag s2]. cbn [snd] in G3.
    assert (Hch : Forall Gr ch).
    { match goal with H : Forall GrA ch |- _ => eapply Forall_impl; [|exact H] end. intros x [Hx _]. exact Hx. }
    pose proof (grow_children _ Hch s2) as G4.
    destruct (lower_children_with E (lower_el E) ch s2) as [elems s3]. cbn [snd] in G4.
    pose proof (grow_finish_children elems (is_component E nm) (r_slots ar) s3) as G5.
    destruct (finish_children E elems (is_component E nm) (r_slots ar) s3) as [chx s4]. cbn [snd] in G5.
    pose proof (grow_get_pragma s4) as G6. destruct (get_pragma E s4) as [callee s5]. cbn [snd] in G6.
    pose proof (grow_push sx) as G0.
    destruct (r_dirs ar) as [|d0 dr].
    + cbn [snd]. fr.
    + match goal with |- context [import_from_vue ?n ?st0] =>
        pose proof (grow_import n st0) as G7; destruct (import_from_vue n st0) as [wd s6] end.
      cbn [snd] in G7.
      pose proof (grow_build_directives (d0 :: dr) nm attrs s6) as G8.
      destruct (build_directives (d0 :: dr) nm attrs s6) as [ds s7]. cbn [snd] in *. fr.
  - (* JsxF *)
    intros sx. cbn [lower_el].
    pose proof (grow_push sx) as G0.
    pose proof (grow_get_pragma (push_slot_flag E sx)) as G1.
    destruct (get_pragma E (push_slot_flag E sx)) as [callee s1]. cbn [snd] in G1.
    match goal with |- context [import_from_vue ?n ?st0] =>
      pose proof (grow_import n st0) as G2; destruct (import_from_vue n st0) as [frag s2] end.
    cbn [snd] in G2.
    assert (Hch : Forall Gr ch).
    { match goal with H : Forall GrA ch |- _ => eapply Forall_impl; [|exact H] end. intros x [Hx _]. exact Hx. }
    pose proof (grow_children _ Hch s2) as G3.
    destruct (lower_children_with E (lower_el E) ch s2) as [elems s3]. cbn [snd] in G3.
    pose proof (grow_finish_children elems false None s3) as G4.
    destruct (finish_children E elems false None s3) as [chx s4]. cbn [snd] in *. fr.
  - (* JAttr: element values *)
    intros nm0 v0 Heq. inversion Heq; subst.
    match goal with H : GrA v0 |- _ => destruct H as [H _]; exact H end.
Qed.

Theorem lower_el_grow n s : grow s (snd (lower_el E n s)).
Proof. destruct (lower_el_grow_A n) as [H _]. apply H. Qed.

End Grow.
