(* C15: the pragma search of the model is the annotation grammar of Spec/Pragma.v, the
   factory identifier is the expected one, and the lowering never changes the pragma. *)
From Coq Require Import Lia.
From VJ Require Import Model.Str Model.Json Model.Ast Model.State Model.Util Model.Text
  Model.Directive Model.Lower Model.Visitor Spec.Pragma Spec.OutViews Lemmas.NodeInd Lemmas.StrLemmas.

(* ---- (a) the annotation grammar -------------------------------------------------------- *)
Lemma first_word_spec rest :
  first_word rest = match take_word (drop_ws rest) with [] => None | w => Some w end.
Proof. reflexivity. Qed.

Lemma strip_prefix_nil p t : strip_prefix p t = Some [] -> t = p.
Proof.
  revert t. induction p as [|x p IH]; intros t H.
  - cbn in H. inversion H. reflexivity.
  - destruct t as [|y t]; [discriminate|]. cbn in H.
    destruct (N.eqb x y) eqn:Exy; [|discriminate].
    apply N.eqb_eq in Exy. subst y. f_equal. apply IH. exact H.
Qed.

Lemma annotation_of_cons c t :
  annotation_of (c :: t) = match annotation_at (c :: t) with Some w => Some w | None => annotation_of t end.
Proof. reflexivity. Qed.

Lemma pragma_in_text_spec fuel : forall t, (List.length t < fuel)%nat -> pragma_in_text fuel t = annotation_of t.
Proof.
  induction fuel as [|f IH]; intros t Hl; [lia|].
  destruct t as [|c t']; [reflexivity|].
  cbn [List.length] in Hl. assert (Hl' : (List.length t' < f)%nat) by lia.
  rewrite annotation_of_cons. unfold annotation_at.
  cbn [pragma_in_text].
  destruct (strip_prefix (s_ "@jsx") (c :: t')) as [rest|] eqn:Esp; [|apply IH; exact Hl'].
  destruct rest as [|c2 r2].
  - (* the text ends with `@jsx` *)
    apply strip_prefix_nil in Esp. inversion Esp; subst. reflexivity.
  - destruct (is_ws c2); [|apply IH; exact Hl'].
    rewrite first_word_spec.
    destruct (take_word (drop_ws (c2 :: r2))); [apply IH; exact Hl'|reflexivity].
Qed.

Theorem pragma_of_comment_spec t : pragma_of_comment t = annotation_of t.
Proof. unfold pragma_of_comment. apply pragma_in_text_spec. lia. Qed.

Lemma pragma_of_group_spec cs : pragma_of_group cs = group_annotation cs.
Proof.
  induction cs as [|c r IH]; [reflexivity|].
  cbn [pragma_of_group]. unfold group_annotation. cbn [fold_right]. fold (group_annotation r).
  rewrite pragma_of_comment_spec, IH. reflexivity.
Qed.

Lemma search_pragmas_spec groups : forall s,
  pragma (search_pragmas groups s) =
  fold_left (fun acc g => match group_annotation g with Some w => Some w | None => acc end) groups (pragma s).
Proof.
  unfold search_pragmas. induction groups as [|g r IH]; intros s; [reflexivity|].
  cbn [fold_left]. rewrite IH. rewrite pragma_of_group_spec.
  destruct (group_annotation g); [destruct s; reflexivity|reflexivity].
Qed.

Theorem module_pragma_spec E : pragma (search_pragmas (e_comments E) st0) = module_annotation (e_comments E).
Proof. rewrite search_pragmas_spec. reflexivity. Qed.

(* ---- (b) the factory identifier --------------------------------------------------------- *)
Theorem get_pragma_expected E s :
  pragma s = module_annotation (e_comments E) ->
  callee_ok (expected_pragma E) (fst (get_pragma E s)) = true.
Proof.
  intros Hp. unfold get_pragma, expected_pragma. rewrite Hp.
  destruct (module_annotation (e_comments E)) as [p|].
  - cbn. rewrite str_eqb_refl. reflexivity.
  - destruct (o_pragma (e_opts E)) as [p|].
    + cbn. rewrite str_eqb_refl. reflexivity.
    + reflexivity.
Qed.

(* createVNode is requested from 'vue' only when no pragma applies *)
Theorem get_pragma_import E s :
  expected_pragma E <> None -> pragma s = module_annotation (e_comments E) ->
  imports (snd (get_pragma E s)) = imports s.
Proof.
  intros Hne Hp. unfold get_pragma, expected_pragma in *. rewrite Hp.
  destruct (module_annotation (e_comments E)); [reflexivity|].
  destruct (o_pragma (e_opts E)); [reflexivity|contradiction].
Qed.
