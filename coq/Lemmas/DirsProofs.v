(* Whole attribute lists: the directive bindings of an element are, in order, the bindings its
   attributes denote (C04, C05) - the composition of the per-attribute refinements of
   Lemmas/SiteProofs.v over the attribute fold. *)
From VJ Require Import Model.Str Model.Json Model.Ast Model.State Model.Util Model.Text
  Model.Directive Model.Lower Spec.JsxText Spec.OutViews Spec.Site Spec.SiteCheck Lemmas.StrLemmas
  Lemmas.TextProofs Lemmas.SiteProofs.

Lemma build_directives_app d1 d2 tag attrs s :
  fst (build_directives (d1 ++ d2) tag attrs s)
  = fst (build_directives d1 tag attrs s)
    ++ fst (build_directives d2 tag attrs (snd (build_directives d1 tag attrs s))).
Proof.
  revert s. induction d1 as [|d r IH]; intros s; [reflexivity|].
  cbn [app build_directives]. destruct d; try apply IH.
  destruct (resolve_directive name tag attrs s) as [dd s1].
  specialize (IH s1).
  destruct (build_directives (r ++ d2) tag attrs s1) as [x1 t1].
  destruct (build_directives r tag attrs s1) as [x2 t2]. cbn [fst snd] in *.
  rewrite IH. reflexivity.
Qed.

Section Dirs.
Variable E : env.
Variable ic : bool.
Variable tag : node.
Variable attrs : list node.     (* the element's attribute list, v-models already spliced *)

Definition spec_dirs (x : node) : list adir := snd (fst (attr_spec E ic tag attrs x)).

(* what one attribute adds to the directive list is what the property says it denotes *)
Definition dir_ok (x : node) : Prop :=
  forall a, exists ds,
    a_dirs (attr_step E ic a x) = a_dirs a ++ ds
    /\ forall s1, map view_dir (fst (build_directives ds tag attrs s1)) = map Some (spec_dirs x).

Lemma dirs_fold xs : forall a,
  Forall dir_ok xs ->
  exists ds,
    a_dirs (fold_left (attr_step E ic) xs a) = a_dirs a ++ ds
    /\ forall s1, map view_dir (fst (build_directives ds tag attrs s1)) = map Some (flat_map spec_dirs xs).
Proof.
  induction xs as [|x r IH]; intros a FA.
  - exists []. split; [symmetry; apply app_nil_r|reflexivity].
  - inversion FA as [|x' r' HX HR]; subst.
    destruct (HX a) as [d1 [E1 V1]].
    destruct (IH (attr_step E ic a x) HR) as [d2 [E2 V2]].
    exists (d1 ++ d2). cbn [fold_left]. split; [rewrite E2, E1, app_assoc; reflexivity|].
    intros s1. rewrite build_directives_app, map_app, V1, V2. cbn [flat_map]. rewrite map_app. reflexivity.
Qed.

(* the property's own list of bindings is the concatenation over the attributes *)
Lemma spec_attrs_dirs :
  splice_vmodels attrs false = attrs ->
  snd (fst (spec_attrs E ic tag attrs)) = flat_map spec_dirs attrs.
Proof.
  intros SP. unfold spec_attrs. rewrite SP.
  match goal with |- context [fold_left ?st attrs ?acc] => set (step := st) end.
  assert (G : forall xs segs run dirs slots,
             let '(_, _, dirs', _) := fold_left step xs (segs, run, dirs, slots) in
             dirs' = dirs ++ flat_map spec_dirs xs).
  { induction xs as [|x r IH]; intros segs run dirs slots.
    - cbn. rewrite app_nil_r. reflexivity.
    - cbn [fold_left flat_map]. unfold step at 2. unfold spec_dirs at 1.
      destruct (attr_spec E ic tag attrs x) as [[cs ds] sl]. cbn [fst snd].
      match goal with |- context [if ?b then _ else _] => destruct b end;
        match goal with |- context [fold_left step r (?s0, ?r0, ?d0, ?sl0)] =>
          specialize (IH s0 r0 d0 sl0); destruct (fold_left step r (s0, r0, d0, sl0)) as [[[? ?] ?] ?] end;
        rewrite IH, <- app_assoc; reflexivity. }
  specialize (G attrs [] [] [] None).
  destruct (fold_left step attrs ([], [], [], None)) as [[[segs run] dirs] slots].
  cbn [fst snd]. exact G.
Qed.

(* C04 / C05 at the level of the element: the bindings handed to withDirectives are, in order,
   exactly the bindings the attributes denote *)
Theorem directives_refine s :
  splice_vmodels attrs false = attrs ->
  Forall dir_ok attrs ->
  forall s1,
    map view_dir (fst (build_directives (r_dirs (transform_attrs E attrs ic s)) tag attrs s1))
    = map Some (snd (fst (spec_attrs E ic tag attrs))).
Proof.
  intros SP FA s1. rewrite (spec_attrs_dirs SP).
  unfold transform_attrs. destruct attrs as [|x0 xs] eqn:EA; [reflexivity|]. rewrite <- EA in *.
  destruct (dirs_fold attrs (mkAcc [] [] [] [] None false false false false false s) FA) as [ds [E1 V1]].
  cbn [a_dirs app] in E1.
  destruct (final_attrs_expr E _) as [e s2]. cbn [r_dirs]. rewrite E1. apply V1.
Qed.

(* ---- each kind of attribute satisfies [dir_ok] under the hypotheses of its own refinement --- *)
Lemma dir_ok_spread e : dir_ok (Spread e).
Proof.
  intros a. exists []. split; [|intros; destruct e; reflexivity].
  rewrite app_nil_r. cbn [attr_step]. unfold step_spread.
  repeat match goal with |- context [match ?X with pair _ _ => _ end] => destruct X end. reflexivity.
Qed.

Lemma dir_ok_plain name value x :
  wf_attr_name name -> spec_directive_name name = None ->
  plain_value value = Some x -> user_value x = true -> is_ton E name = false ->
  dir_ok (JAttr name value).
Proof.
  intros WF HN PV UV TON a. exists [].
  destruct (plain_attr_refines E ic tag attrs name value x a WF HN PV UV TON) as (_ & _ & _ & HS & HD & _).
  split; [rewrite app_nil_r; exact HD|]. intros s1. unfold spec_dirs. rewrite HS. reflexivity.
Qed.

Lemma dir_ok_transform_on name e :
  wf_attr_name name -> spec_directive_name name = None -> is_ton E name = true ->
  dir_ok (JAttr name (JExprC e)).
Proof.
  intros WF HN TON a. exists [].
  destruct (transform_on_refines E ic tag attrs name e a WF HN TON) as (fl & arg & _ & _ & _ & HV & HD & _).
  split; [rewrite app_nil_r; exact HD|]. intros s1. unfold spec_dirs.
  cbn [attr_spec]. rewrite HN. unfold is_ton in TON.
  assert (K : match name with
              | IdName s0 => s0
              | JNs (IdName ns) (IdName nm) => ns ++ [58] ++ nm
              | _ => []
              end = attr_name_str name).
  { unfold attr_name_str. destruct name; try reflexivity;
    repeat match goal with |- context [match ?n with _ => _ end] => is_var n; destruct n; try reflexivity end. }
  rewrite K, TON. reflexivity.
Qed.

Lemma dir_ok_normal name value d :
  spec_directive_name name = Some d ->
  sq "html" (dn_name d) = false -> sq "text" (dn_name d) = false ->
  sq "model" (dn_name d) = false -> sq "slots" (dn_name d) = false ->
  arg_not_void (dp_arg (spec_directive_parts d value)) ->
  match name with IdName _ | JNs (IdName _) (IdName _) => True | _ => False end ->
  dir_ok (JAttr name value).
Proof.
  intros HN Hh Ht Hm Hs NV WF a.
  destruct (normal_directive_refines E ic tag attrs attrs name value d a HN Hh Ht Hm Hs NV)
    as (dir & HD & _ & _ & _ & _ & _ & _ & HV).
  exists [dir]. split.
  - cbn [attr_step]. rewrite (directive_iff name value WF), HN. exact HD.
  - exact HV.
Qed.

Lemma dir_ok_html_text name value d :
  spec_directive_name name = Some d ->
  (sq "html" (dn_name d) = true \/ (sq "html" (dn_name d) = false /\ sq "text" (dn_name d) = true)) ->
  user_value (html_text_value value) = true ->
  match name with IdName _ | JNs (IdName _) (IdName _) => True | _ => False end ->
  dir_ok (JAttr name value).
Proof.
  intros HN HK UV WF a.
  destruct (html_text_refines E ic tag attrs name value d a HN HK UV) as (p & _ & _ & HS & HD & _).
  exists []. split.
  - cbn [attr_step]. rewrite (directive_iff name value WF), HN. rewrite app_nil_r. exact HD.
  - intros s1. unfold spec_dirs. rewrite HS. reflexivity.
Qed.

End Dirs.

Lemma dir_ok_vmodel_component E tag attrs name value d :
  spec_directive_name name = Some d ->
  sq "html" (dn_name d) = false -> sq "text" (dn_name d) = false -> sq "model" (dn_name d) = true ->
  static_arg (dp_arg (spec_directive_parts d value)) ->
  user_value (dflt_value (dp_value (spec_directive_parts d value))) = true ->
  match name with IdName _ | JNs (IdName _) (IdName _) => True | _ => False end ->
  dir_ok E true tag attrs (JAttr name value).
Proof.
  intros HN Hh Ht Hm SA UV WF a.
  destruct (vmodel_component_refines E tag attrs name value d a HN Hh Ht Hm SA UV) as (ps & _ & _ & HD & _).
  exists []. split.
  - cbn [attr_step]. rewrite (directive_iff name value WF), HN. rewrite app_nil_r. exact HD.
  - intros s1. unfold spec_dirs. cbn [attr_spec]. rewrite HN, Hh, Ht, Hm.
    assert (Hs : sq "slots" (dn_name d) = false).
    { apply str_eqb_eq in Hm. rewrite <- Hm. reflexivity. }
    rewrite Hs.
    destruct (dp_arg (spec_directive_parts d value)) as [pa|]; [destruct pa|]; reflexivity.
Qed.

Lemma dir_ok_vmodel_element E tag attrs name value d :
  spec_directive_name name = Some d ->
  sq "html" (dn_name d) = false -> sq "text" (dn_name d) = false -> sq "model" (dn_name d) = true ->
  static_arg (dp_arg (spec_directive_parts d value)) ->
  arg_not_void (dp_arg (spec_directive_parts d value)) ->
  match name with IdName _ | JNs (IdName _) (IdName _) => True | _ => False end ->
  dir_ok E false tag attrs (JAttr name value).
Proof.
  intros HN Hh Ht Hm SA NV WF a.
  destruct (vmodel_element_refines E tag attrs name value d a HN Hh Ht Hm SA NV) as (p & dir & _ & HD & _ & HV & _).
  exists [dir]. split.
  - cbn [attr_step]. rewrite (directive_iff name value WF), HN. exact HD.
  - exact HV.
Qed.
