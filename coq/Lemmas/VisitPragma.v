(* C15 at the level of the traversal: visiting any node - statements, functions, other JSX -
   leaves the module's pragma as the annotation scan set it, so every element of the module is
   lowered with the same factory.  The skeleton is that of Lemmas/VisitBal.v. *)
From Coq Require Import Lia.
From VJ Require Import Model.Str Model.Json Model.Ast Model.State Model.Util Model.Text
  Model.Directive Model.Lower Model.Visitor Lemmas.NodeInd Lemmas.FrameProofs.

Definition pr (s s' : st) : Prop := pragma s' = pragma s.
Lemma pr_refl s : pr s s. Proof. reflexivity. Qed.
Lemma pr_trans a b c : pr a b -> pr b c -> pr a c. Proof. unfold pr. congruence. Qed.
Lemma pr_set_diags d s : pr s (set_diags d s). Proof. destruct s; reflexivity. Qed.
Lemma pr_enter s : pr s (enter_scope s). Proof. destruct s; reflexivity. Qed.
Lemma pr_leave outer s : pr s (leave_scope outer s). Proof. destruct s; reflexivity. Qed.
Lemma lower_el_pragma E n s : pr s (snd (lower_el E n s)).
Proof. destruct (lower_el_frame E n s) as [H _]. exact H. Qed.

Section VisitPragma.
Variable E : env.
Variable hook_call hook_declarator : node -> st -> node * st.
Hypothesis Hhc : forall n s, pr s (snd (hook_call n s)).
Hypothesis Hhd : forall n s, pr s (snd (hook_declarator n s)).

Let V := visit E hook_call hook_declarator.

Definition Pr (n : node) : Prop := forall m s, pr s (snd (V m n s)).

Lemma pr_visit_list l : Forall Pr l -> forall m s, pr s (snd (visit_list_with V m l s)).
Proof.
  induction 1 as [|x r Hx Hr IH]; intros m s; [apply pr_refl|].
  cbn [visit_list_with]. pose proof (Hx m s) as H1. destruct (V m x s) as [x' s1]. cbn [snd] in H1.
  pose proof (IH m s1) as H2. destruct (visit_list_with V m r s1) as [r' s2]. cbn [snd] in *.
  eapply pr_trans; eassumption.
Qed.

Lemma pr_visit_jsx_list l : Forall Pr l -> forall s, pr s (snd (visit_jsx_list_with V l s)).
Proof.
  induction 1 as [|x r Hx Hr IH]; intros s; [apply pr_refl|].
  cbn [visit_jsx_list_with]. pose proof (Hx (jsx_item_mode x) s) as H1.
  destruct (V (jsx_item_mode x) x s) as [x' s1]. cbn [snd] in H1.
  pose proof (IH s1) as H2. destruct (visit_jsx_list_with V r s1) as [r' s2]. cbn [snd] in *.
  eapply pr_trans; eassumption.
Qed.


Lemma pr_visit_stmts l : Forall Pr l -> forall s, pr s (snd (visit_stmts_with V l s)).
Proof.
  intros Hl s. unfold visit_stmts_with.
  pose proof (pr_visit_list l Hl MExpr (enter_scope s)) as H1.
  destruct (visit_list_with V MExpr l (enter_scope s)) as [l' s1]. cbn [snd] in *.
  eapply pr_trans; [apply pr_enter|]. eapply pr_trans; [exact H1|apply pr_leave].
Qed.

Lemma pr_decouple attrs s : pr s (snd (decouple_attrs attrs s)).
Proof.
  unfold decouple_attrs. destruct (split_at_vmodels attrs) as [[[pre v] post]|]; [|apply pr_refl].
  destruct v; try apply pr_set_diags.
  match goal with |- context [match ?e with JEmpty => _ | _ => _ end] => destruct e end;
    try apply pr_set_diags; apply pr_refl.
Qed.

Lemma pr_post_import n s : pr s (post_import n s).
Proof.
  unfold post_import.
  repeat match goal with |- context [match ?x with _ => _ end] => destruct x end;
    try apply pr_refl; destruct s; split; auto.
Qed.

Ltac step H x m s :=
  let H1 := fresh "B" in let s1 := fresh "s" in let x' := fresh "x" in
  pose proof (H m s) as H1; destruct (V m x s) as [x' s1]; cbn [snd] in H1.
Ltac chain := cbn [snd]; repeat first [eassumption | apply pr_refl | eapply pr_trans; [eassumption|]].

Theorem visit_pragma : forall n, Pr n.
Proof.
  apply node_ind'; unfold Pr; try (intros; apply pr_refl).
  - (* NArr *)
    intros l Hl m s. unfold V. cbn [visit]. fold V.
    destruct m;
      try (pose proof (pr_visit_list l Hl MExpr s) as H1; destruct (visit_list_with V MExpr l s); exact H1).
    pose proof (pr_visit_stmts l Hl s) as H1. destruct (visit_stmts_with V l s). exact H1.
  - (* NObj *)
    intros l Hl m s. unfold V. cbn [visit]. fold V.
    destruct (sq "SwitchCase" (ntype (NObj l))).
    + pose proof (pr_visit_list l Hl MSwitch s) as H1. destruct (visit_list_with V MSwitch l s). exact H1.
    + pose proof (pr_visit_list l Hl MExpr s) as H1. destruct (visit_list_with V MExpr l s) as [l' s1].
      cbn [snd] in H1.
      destruct (sq "ImportDeclaration" (ntype (NObj l))).
      { cbn [snd]. eapply pr_trans; [exact H1|apply pr_post_import]. }
      destruct (sq "VariableDeclarator" (ntype (NObj l))).
      { eapply pr_trans; [exact H1|apply Hhd]. }
      exact H1.
  - (* Field *)
    intros k v Hv m s. unfold V. cbn [visit]. fold V.
    match goal with |- context [V ?m' v s] => step Hv v m' s end. chain.
  - (* BIdent *)
    intros sy c o t Ht m s. unfold V. cbn [visit]. fold V. step Ht t MExpr s. chain.
  - (* Arr *)
    intros l Hl m s. unfold V. cbn [visit]. fold V.
    pose proof (pr_visit_list l Hl MExpr s) as H1. destruct (visit_list_with V MExpr l s). exact H1.
  - (* Elem *)
    intros sp e He m s. unfold V. cbn [visit]. fold V. step He e MExpr s. chain.
  - (* Obj *)
    intros l Hl m s. unfold V. cbn [visit]. fold V.
    pose proof (pr_visit_list l Hl MExpr s) as H1. destruct (visit_list_with V MExpr l s). exact H1.
  - (* KV *)
    intros k v Hk Hv m s. unfold V. cbn [visit]. fold V. step Hk k MExpr s. step Hv v MExpr s0. chain.
  - (* Computed *)
    intros e He m s. unfold V. cbn [visit]. fold V. step He e MExpr s. chain.
  - (* Spread *)
    intros e He m s. unfold V. cbn [visit]. fold V. step He e MExpr s. chain.
  - (* Call *)
    intros sy c f a t Hf Ha Ht m s. unfold V. cbn [visit]. fold V. step Hf f MExpr s.
    pose proof (pr_visit_list a Ha MExpr s0) as H1. destruct (visit_list_with V MExpr a s0) as [a' s1].
    cbn [snd] in H1. eapply pr_trans; [eassumption|]. eapply pr_trans; [exact H1|apply Hhc].
  - (* Arrow *)
    intros c ps b a g tp rt Hps Hb Htp Hrt m s. unfold V. cbn [visit]. fold V.
    pose proof (pr_visit_list ps Hps MExpr s) as H1. destruct (visit_list_with V MExpr ps s) as [ps' s1].
    cbn [snd] in H1. step Hb b MExpr (enter_scope s1). cbn [snd].
    eapply pr_trans; [exact H1|]. eapply pr_trans; [apply pr_enter|].
    eapply pr_trans; [eassumption|apply pr_leave].
  - (* Assign *)
    intros o l r Hl Hr m s. unfold V. cbn [visit]. fold V.
    assert (Hdef : pr s (snd (let '(l', s0) := V MExpr l s in
                               let '(r', s1) := V MExpr r s0 in (Assign o l' r', s1)))).
    { step Hl l MExpr s. step Hr r MExpr s0. chain. }
    destruct l; try exact Hdef.
    (* an identifier target is recorded while the operands are visited, then the outer one is restored *)
    match goal with |- context [V MExpr (BIdent ?sy ?cc ?oo ?tt) ?s0] =>
      pose proof (Hl MExpr s0) as B1; destruct (V MExpr (BIdent sy cc oo tt) s0) as [l' s1] end.
    cbn [snd] in B1.
    pose proof (Hr MExpr s1) as B2. destruct (V MExpr r s1) as [r' s9]. cbn [snd] in *.
    unfold pr in *. destruct s, s1, s9; cbn in *. congruence.
  - (* Paren *)
    intros e He m s. unfold V. cbn [visit]. fold V. step He e MExpr s. chain.
  - (* Cond *)
    intros t c a Ht Hc Ha m s. unfold V. cbn [visit]. fold V.
    step Ht t MExpr s. step Hc c MExpr s0. step Ha a MExpr s1. chain.
  - (* Bin *)
    intros o l r Hl Hr m s. unfold V. cbn [visit]. fold V. step Hl l MExpr s. step Hr r MExpr s0. chain.
  - (* Unary *)
    intros o a Ha m s. unfold V. cbn [visit]. fold V. step Ha a MExpr s. chain.
  - (* Member *)
    intros o p Ho Hp m s. unfold V. cbn [visit]. fold V. step Ho o MExpr s. step Hp p MExpr s0. chain.
  - (* Block *)
    intros c l Hl m s. unfold V. cbn [visit]. fold V.
    pose proof (pr_visit_stmts l Hl s) as H1. destruct (visit_stmts_with V l s). exact H1.
  - (* JsxE *)
    intros nm ats sc ta ch cl Hnm Hats Hta Hch Hcl m s. unfold V. cbn [visit]. fold V.
    pose proof (pr_visit_jsx_list ats Hats s) as H1. destruct (visit_jsx_list_with V ats s) as [ats' s1].
    cbn [snd] in H1.
    pose proof (pr_decouple ats' s1) as H2. destruct (decouple_attrs ats' s1) as [ats'' s2]. cbn [snd] in H2.
    pose proof (pr_visit_jsx_list ch Hch s2) as H3. destruct (visit_jsx_list_with V ch s2) as [ch' s3].
    cbn [snd] in H3.
    destruct m; try (eapply pr_trans; [exact H1|]; eapply pr_trans; [exact H2|];
                     eapply pr_trans; [exact H3|apply lower_el_pragma]).
    cbn [snd]. eapply pr_trans; [exact H1|]. eapply pr_trans; [exact H2|exact H3].
  - (* JsxF *)
    intros ch Hch m s. unfold V. cbn [visit]. fold V.
    pose proof (pr_visit_jsx_list ch Hch s) as H1. destruct (visit_jsx_list_with V ch s) as [ch' s1].
    cbn [snd] in H1.
    destruct m; try (eapply pr_trans; [exact H1|apply lower_el_pragma]). exact H1.
  - (* JAttr *)
    intros nm v Hnm Hv m s. unfold V. cbn [visit]. fold V. step Hv v (jsx_item_mode v) s. chain.
  - (* JExprC *)
    intros e He m s. unfold V. cbn [visit]. fold V. step He e MExpr s. chain.
  - (* JSpreadChild *)
    intros e He m s. unfold V. cbn [visit]. fold V. step He e MExpr s. chain.
Qed.


End VisitPragma.
