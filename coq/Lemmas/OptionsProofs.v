(* C14: documented defaults, unknown keys, invalid patterns; options influence only the
   features they govern (element-level statements). *)
From Coq Require Import Lia.
From VJ Require Import Model.Str Model.Json Model.Ast Model.State Model.Util Model.Directive
  Model.Lower Model.Options Lemmas.StrLemmas.
From VJ Require Import Gen.Tables.

Section Parse.
Variable valid : str -> bool.

Lemma parse_empty : parse_options valid (JObj []) = Some default_raw.
Proof. reflexivity. Qed.

Lemma parse_empty_seq : parse_options valid (JArr []) = Some default_raw.
Proof. reflexivity. Qed.

Lemma default_values :
  default_raw = {| ro_transform_on := false; ro_optimize := false; ro_patterns := [];
                   ro_merge_props := true; ro_object_slots := true; ro_pragma := None;
                   ro_resolve_type := false |}.
Proof. reflexivity. Qed.

(* an unknown key, wherever it stands and whatever its value, changes nothing *)
Lemma unknown_key_ignored l1 k v l2 :
  is_known_key k = false ->
  parse_options valid (JObj (l1 ++ (k, v) :: l2)) = parse_options valid (JObj (l1 ++ l2)).
Proof.
  intros Hk. cbn [parse_options]. generalize (@nil str) default_raw.
  induction l1 as [|[k0 v0] r IH]; intros seen o.
  - cbn [app parse_fields]. rewrite Hk. reflexivity.
  - cbn [app parse_fields]. destruct (is_known_key k0); [|apply IH].
    destruct (mem_str k0 seen); [reflexivity|].
    destruct (set_field valid k0 v0 o); [apply IH|reflexivity].
Qed.

(* a key that does not occur keeps its default *)
Definition field_untouched (k : str) (o o' : raw_options) : Prop :=
  (sq "transformOn" k = true -> ro_transform_on o' = ro_transform_on o)
  /\ (sq "optimize" k = true -> ro_optimize o' = ro_optimize o)
  /\ (sq "customElementPatterns" k = true -> ro_patterns o' = ro_patterns o)
  /\ (sq "mergeProps" k = true -> ro_merge_props o' = ro_merge_props o)
  /\ (sq "enableObjectSlots" k = true -> ro_object_slots o' = ro_object_slots o)
  /\ (sq "pragma" k = true -> ro_pragma o' = ro_pragma o)
  /\ (sq "resolveType" k = true -> ro_resolve_type o' = ro_resolve_type o).

Lemma sq_distinct (a b : String.string) k : sq a k = true -> sq b k = true -> s_ a = s_ b.
Proof. unfold sq. intros H1 H2. apply str_eqb_eq in H1. apply str_eqb_eq in H2. congruence. Qed.

Lemma set_field_other k k0 v o o' :
  str_eqb k k0 = false -> set_field valid k0 v o = Some o' -> field_untouched k o o'.
Proof.
  intros Hne Hs. unfold set_field in Hs. unfold field_untouched.
  assert (Hk : forall x : String.string, sq x k0 = true -> sq x k = true -> False).
  { unfold sq. intros x H1 H2. apply str_eqb_eq in H1. apply str_eqb_eq in H2.
    subst. rewrite str_eqb_refl in Hne. discriminate. }
  repeat match type of Hs with
         | (if sq ?x k0 then _ else _) = _ =>
             let Ex := fresh "Ex" in destruct (sq x k0) eqn:Ex;
             [ repeat match type of Hs with (match ?y with _ => _ end) = _ => destruct y; try discriminate end;
               inversion Hs; subst; cbn; repeat split; intros; try reflexivity; exfalso; eapply Hk; eassumption
             | ]
         end.
  inversion Hs; subst. repeat split; reflexivity.
Qed.

Lemma field_untouched_trans k a b c : field_untouched k a b -> field_untouched k b c -> field_untouched k a c.
Proof.
  unfold field_untouched. intros [A1 [A2 [A3 [A4 [A5 [A6 A7]]]]]] [B1 [B2 [B3 [B4 [B5 [B6 B7]]]]]].
  repeat split; intros H; [rewrite (B1 H), (A1 H)|rewrite (B2 H), (A2 H)|rewrite (B3 H), (A3 H)
    |rewrite (B4 H), (A4 H)|rewrite (B5 H), (A5 H)|rewrite (B6 H), (A6 H)|rewrite (B7 H), (A7 H)]; reflexivity.
Qed.

Lemma absent_key_default k l : forall seen o o',
  forallb (fun kv => negb (str_eqb k (fst kv))) l = true ->
  parse_fields valid l seen o = Some o' -> field_untouched k o o'.
Proof.
  induction l as [|[k0 v0] r IH]; intros seen o o' Habs Hp.
  - inversion Hp; subst. repeat split; reflexivity.
  - cbn [forallb fst] in Habs. apply andb_true_iff in Habs. destruct Habs as [Hne Hr].
    apply negb_true_iff in Hne.
    cbn [parse_fields] in Hp. destruct (is_known_key k0); [|eapply IH; eassumption].
    destruct (mem_str k0 seen); [discriminate|].
    destruct (set_field valid k0 v0 o) as [o1|] eqn:Es; [|discriminate].
    eapply field_untouched_trans; [eapply set_field_other; eassumption|eapply IH; eassumption].
Qed.

(* an invalid pattern is rejected when the configuration is read *)
Lemma as_patterns_invalid ps p : In (JStr p) ps -> valid p = false -> as_patterns valid (JArr ps) = None.
Proof.
  intros Hin Hv. cbn [as_patterns]. induction ps as [|x r IH]; [contradiction|].
  cbn [fold_right]. destruct Hin as [Hx|Hr].
  - subst x. rewrite Hv. destruct (fold_right _ _ r); reflexivity.
  - rewrite (IH Hr). destruct x; reflexivity.
Qed.

Lemma invalid_pattern_rejected l1 ps l2 p :
  In (JStr p) ps -> valid p = false ->
  parse_options valid (JObj (l1 ++ (s_ "customElementPatterns", JArr ps) :: l2)) = None.
Proof.
  intros Hin Hv. cbn [parse_options]. generalize (@nil str) default_raw.
  induction l1 as [|[k0 v0] r IH]; intros seen o.
  - cbn [app parse_fields]. change (is_known_key (s_ "customElementPatterns")) with true. cbn iota.
    destruct (mem_str _ seen); [reflexivity|].
    unfold set_field. change (sq "transformOn" (s_ "customElementPatterns")) with false.
    change (sq "optimize" (s_ "customElementPatterns")) with false.
    change (sq "customElementPatterns" (s_ "customElementPatterns")) with true. cbn iota.
    rewrite (as_patterns_invalid _ _ Hin Hv). reflexivity.
  - cbn [app parse_fields]. destruct (is_known_key k0); [|apply IH].
    destruct (mem_str k0 seen); [reflexivity|].
    destruct (set_field valid k0 v0 o); [apply IH|reflexivity].
Qed.

End Parse.

(* ---- options influence only the feature they govern (one element's attributes) -------- *)
Definition with_transform_on (b : bool) (E : env) : env :=
  {| e_opts := {| o_transform_on := b; o_optimize := o_optimize (e_opts E);
                  o_merge_props := o_merge_props (e_opts E); o_object_slots := o_object_slots (e_opts E);
                  o_pragma := o_pragma (e_opts E); o_resolve_type := o_resolve_type (e_opts E);
                  o_npat := o_npat (e_opts E) |};
     e_unres := e_unres E; e_matches := e_matches E; e_html := e_html E; e_svg := e_svg E;
     e_comments := e_comments E |}.

Definition is_on_attr (a : node) : bool :=
  match a with
  | JAttr nm _ => negb (is_directive a) && (sq "on" (attr_name_str nm) || sq "nativeOn" (attr_name_str nm))
  | _ => false
  end.

Lemma attr_step_ton_indep E ic a x :
  is_on_attr x = false ->
  attr_step (with_transform_on true E) ic a x = attr_step (with_transform_on false E) ic a x.
Proof.
  intros H. unfold attr_step. destruct x; try reflexivity.
  unfold is_on_attr in H.
  match goal with |- context [is_directive ?y] => destruct (is_directive y) end; [reflexivity|].
  cbn [negb andb] in H. unfold step_plain. cbn [with_transform_on e_opts o_transform_on]. rewrite H.
  reflexivity.
Qed.

Lemma transform_attrs_ton_indep E attrs ic s :
  existsb is_on_attr attrs = false ->
  transform_attrs (with_transform_on true E) attrs ic s = transform_attrs (with_transform_on false E) attrs ic s.
Proof.
  intros H. unfold transform_attrs. destruct attrs as [|x0 xs]; [reflexivity|].
  assert (G : forall l a, existsb is_on_attr l = false ->
              fold_left (attr_step (with_transform_on true E) ic) l a
              = fold_left (attr_step (with_transform_on false E) ic) l a).
  { induction l as [|x r IH]; intros a Hl; [reflexivity|].
    cbn [existsb] in Hl. apply orb_false_iff in Hl. destruct Hl as [Hx Hr].
    cbn [fold_left]. rewrite (attr_step_ton_indep E ic a x Hx). apply IH. exact Hr. }
  rewrite (G _ _ H). reflexivity.
Qed.

Definition with_object_slots (b : bool) (E : env) : env :=
  {| e_opts := {| o_transform_on := o_transform_on (e_opts E); o_optimize := o_optimize (e_opts E);
                  o_merge_props := o_merge_props (e_opts E); o_object_slots := b;
                  o_pragma := o_pragma (e_opts E); o_resolve_type := o_resolve_type (e_opts E);
                  o_npat := o_npat (e_opts E) |};
     e_unres := e_unres E; e_matches := e_matches E; e_html := e_html E; e_svg := e_svg E;
     e_comments := e_comments E |}.

(* the children of a host: only a sole identifier / call child of a component consults it *)
Definition sole_ident_or_call (elems : list node) : bool :=
  match elems with
  | [Elem false (Ident _ _ _)] => true
  | [Elem false (Call false _ _ _ _)] => true
  | _ => false
  end.

Lemma finish_children_slots_indep E elems ic slots s :
  (ic && sole_ident_or_call elems) = false ->
  finish_children (with_object_slots true E) elems ic slots s
  = finish_children (with_object_slots false E) elems ic slots s.
Proof.
  intros H. unfold finish_children.
  destruct elems as [|x [|y r]]; try reflexivity.
  destruct x; try reflexivity.
  match goal with |- context [Elem ?b ?e] => destruct b; [reflexivity|destruct e; try reflexivity] end.
  - (* identifier *) cbn in H. rewrite andb_true_r in H. subst ic. reflexivity.
  - (* call *) match goal with |- context [Call ?sy _ _ _ _] => destruct sy; [reflexivity|] end.
    cbn in H. rewrite andb_true_r in H. subst ic. reflexivity.
Qed.

(* the other pieces of the lowering never read enableObjectSlots *)
Lemma transform_attrs_slots_indep E attrs ic s :
  transform_attrs (with_object_slots true E) attrs ic s = transform_attrs (with_object_slots false E) attrs ic s.
Proof. reflexivity. Qed.

(* custom element patterns: if no pattern matches the tag, the tag and host kind are those
   obtained with no patterns at all *)
Definition without_patterns (E : env) : env :=
  {| e_opts := e_opts E; e_unres := e_unres E; e_matches := []; e_html := e_html E; e_svg := e_svg E;
     e_comments := e_comments E |}.

Lemma tag_patterns_indep E name s :
  pat_any E (tag_name_str name) = false ->
  transform_tag E name s = transform_tag (without_patterns E) name s
  /\ is_component E name = is_component (without_patterns E) name.
Proof.
  intros H. split.
  - unfold transform_tag. destruct name; try reflexivity.
    cbn [tag_name_str] in H. rewrite H. reflexivity.
  - unfold is_component. rewrite H. reflexivity.
Qed.
