(* C13, the slot hint: the flag a component's slot object carries is computed from the source.
   [dyn el] says whether a file-bound identifier is a direct child of [el] or of an element
   nested in it by direct JSX nesting (element-valued attributes included, as the code has it).
   Lowering [el] ORs [dyn el] into every flag on the stack, and the flag its own children
   argument is built with is [dyn el].  The neutral part of the proof (nothing else touches the
   stack) follows the skeleton of Lemmas/BalProofs.v. *)
From Coq Require Import Lia.
From VJ Require Import Model.Str Model.Json Model.Ast Model.State Model.Util Model.Text
  Model.Directive Model.Lower Spec.SlotFlag Lemmas.NodeInd.

(* the slot-flag stack is left alone *)
Definition ss (s s' : st) : Prop := slot_stack s' = slot_stack s.

Lemma ss_refl s : ss s s. Proof. reflexivity. Qed.
Lemma ss_trans a b c : ss a b -> ss b c -> ss a c.
Proof. unfold ss. congruence. Qed.

Ltac fr := repeat first [apply ss_refl | eapply ss_trans; [eassumption|] | eassumption].

Lemma ss_set_imports v s : ss s (set_imports v s). Proof. destruct s; reflexivity. Qed.
Lemma ss_set_ton v s : ss s (set_ton v s). Proof. destruct s; reflexivity. Qed.
Lemma ss_set_slot_helper v s : ss s (set_slot_helper v s). Proof. destruct s; reflexivity. Qed.
Lemma ss_set_inj_vars v s : ss s (set_inj_vars v s). Proof. destruct s; reflexivity. Qed.
Lemma ss_set_slot_counter v s : ss s (set_slot_counter v s). Proof. destruct s; reflexivity. Qed.
Lemma ss_set_inj_consts v s : ss s (set_inj_consts v s). Proof. destruct s; reflexivity. Qed.
Lemma ss_set_fresh v s : ss s (set_fresh v s). Proof. destruct s; reflexivity. Qed.
Lemma ss_set_diags v s : ss s (set_diags v s). Proof. destruct s; reflexivity. Qed.
Lemma ss_panic s : ss s (panic s). Proof. destruct s; reflexivity. Qed.
Lemma ss_add_diag m s : ss s (add_diag m s). Proof. destruct s; reflexivity. Qed.
Lemma ss_set_assign_left_none s : ss s (set_assign_left None s). Proof. destruct s; reflexivity. Qed.

Lemma ss_import name s : ss s (snd (import_from_vue name s)).
Proof. destruct s; reflexivity. Qed.
Lemma ss_fresh sy s : ss s (snd (fresh_ident sy s)).
Proof. destruct s; reflexivity. Qed.

Section SlotFlag.
Variable E : env.

Lemma ss_parse_html_text w v s : ss s (snd (parse_html_text w v s)).
Proof.
  unfold parse_html_text.
  repeat match goal with |- context [match ?x with _ => _ end] => destruct x end;
    try apply ss_refl; apply ss_set_diags.
Qed.

Lemma ss_parse_directive name value ic s : ss s (snd (parse_directive name value ic s)).
Proof.
  unfold parse_directive.
  match goal with |- context [match ?X with pair _ _ => _ end] => destruct X as [[dname a0] sp] end.
  destruct (sq "html" dname).
  { pose proof (ss_parse_html_text "v-html"%string value s) as H.
    destruct (parse_html_text "v-html"%string value s). exact H. }
  destruct (sq "text" dname).
  { pose proof (ss_parse_html_text "v-text"%string value s) as H.
    destruct (parse_html_text "v-text"%string value s). exact H. }
  destruct (sq "model" dname).
  { unfold parse_v_model.
    assert (H1 : ss s (snd (vmodel_attr_value value s))).
    { unfold vmodel_attr_value.
      repeat match goal with |- context [match ?x with _ => _ end] => destruct x end;
        try apply ss_refl; apply ss_add_diag. }
    destruct (vmodel_attr_value value s) as [av s1]. cbn [snd] in H1.
    assert (H2 : ss s1 (vmodel_first_check av s1)).
    { unfold vmodel_first_check.
      repeat match goal with |- context [match ?x with _ => _ end] => destruct x end;
        try apply ss_refl; apply ss_add_diag. }
    destruct (vmodel_parts av ic _ sp) as [[v a] m]. cbn [snd].
    assert (H3 : ss (vmodel_first_check av s1) (vmodel_target_check v (vmodel_first_check av s1))).
    { unfold vmodel_target_check. destruct (is_assignable v); [apply ss_refl|apply ss_add_diag]. }
    fr. }
  destruct (sq "slots" dname); [apply ss_refl|].
  destruct (normal_parts value _ sp) as [[v a] m]. apply ss_refl.
Qed.

Lemma ss_step_vmodel ic a arg targ mods v : a_st (step_vmodel ic a arg targ mods v) = a_st a.
Proof.
  unfold step_vmodel.
  repeat match goal with |- context [match ?X with pair _ _ => _ end] => destruct X end.
  reflexivity.
Qed.

Lemma ss_attr_step ic a x : ss (a_st a) (a_st (attr_step E ic a x)).
Proof.
  unfold attr_step. destruct x; try apply ss_refl.
  - unfold step_spread.
    repeat match goal with |- context [match ?X with pair _ _ => _ end] => destruct X end.
    apply ss_refl.
  - match goal with |- context [is_directive ?y] => destruct (is_directive y) end.
    + unfold step_directive.
      match goal with |- context [parse_directive ?n ?v ?c ?s0] =>
        pose proof (ss_parse_directive n v c s0) as H; destruct (parse_directive n v c s0) as [d s1] end.
      cbn [snd] in H. destruct d; try exact H. rewrite ss_step_vmodel. exact H.
    + unfold step_plain.
      match goal with |- context [match plain_attr_value ?v with _ => _ end] => destruct (plain_attr_value v) end;
        repeat match goal with |- context [match ?X with pair _ _ => _ end] => destruct X end;
        match goal with |- context [if ?c then _ else _] => destruct c end;
        cbn [a_st]; fr; try apply ss_set_ton; try apply ss_panic;
        try (eapply ss_trans; [apply ss_panic|apply ss_set_ton]).
Qed.

Lemma ss_fold ic attrs a : ss (a_st a) (a_st (fold_left (attr_step E ic) attrs a)).
Proof.
  revert a. induction attrs as [|x r IH]; intros a; [apply ss_refl|].
  cbn [fold_left]. eapply ss_trans; [apply ss_attr_step|apply IH].
Qed.

Lemma ss_final a : ss (a_st a) (snd (final_attrs_expr E a)).
Proof.
  unfold final_attrs_expr, import_from_vue.
  repeat match goal with |- context [match ?x with _ => _ end] => destruct x end;
    try apply ss_refl; apply ss_set_imports.
Qed.

Lemma ss_transform_attrs attrs ic s : ss s (r_st (transform_attrs E attrs ic s)).
Proof.
  unfold transform_attrs. destruct attrs as [|x0 xs]; [apply ss_refl|].
  set (a := fold_left _ _ _).
  pose proof (ss_fold ic (x0 :: xs) (mkAcc [] [] [] [] None false false false false false s)) as H1.
  fold a in H1. cbn [a_st] in H1.
  pose proof (ss_final a) as H2. destruct (final_attrs_expr E a) as [e s']. cbn [snd r_st] in *. fr.
Qed.

Lemma ss_transform_tag name s : ss s (snd (transform_tag E name s)).
Proof.
  unfold transform_tag, import_from_vue.
  repeat match goal with
         | |- context [if ?c then _ else _] => destruct c
         | |- context [match ?x with _ => _ end] => destruct x
         end; try apply ss_refl; try apply ss_set_imports; try apply ss_add_diag.
Qed.

Lemma ss_get_pragma s : ss s (snd (get_pragma E s)).
Proof.
  unfold get_pragma. destruct (pragma s); [apply ss_refl|].
  destruct (o_pragma (e_opts E)); [apply ss_refl|apply ss_import].
Qed.

Lemma ss_build_iife_elems lft elems s : ss s (snd (build_iife_elems lft elems s)).
Proof.
  revert s. induction elems as [|x r IH]; intros s; [apply ss_refl|].
  assert (Hdef : forall s0, ss s0 (snd (let '(r', s1) := build_iife_elems lft r s0 in (x :: r', s1)))).
  { intros s0. pose proof (IH s0) as H. destruct (build_iife_elems lft r s0). exact H. }
  cbn [build_iife_elems]. destruct x; try apply Hdef.
  match goal with |- context [Elem ?b ?e] => destruct b; [apply Hdef|destruct e; try apply Hdef] end.
  match goal with |- context [if ?c then _ else _] => destruct c end; [|apply Hdef].
  match goal with |- context [fresh_ident ?sy ?st0] =>
    pose proof (ss_fresh sy st0) as Hf; destruct (fresh_ident sy st0) as [[nm0 ctx0] s1] end.
  cbn [snd] in Hf.
  match goal with |- context [build_iife_elems lft r ?s2] =>
    pose proof (IH s2) as H; destruct (build_iife_elems lft r s2) end.
  cbn [snd] in *. eapply ss_trans; [exact Hf|]. eapply ss_trans; [apply ss_set_inj_consts|exact H].
Qed.

Lemma ss_build_iife elems s : ss s (snd (build_iife elems s)).
Proof.
  unfold build_iife. destruct (assign_left s); [|apply ss_refl].
  eapply ss_trans; [apply ss_set_assign_left_none|apply ss_build_iife_elems].
Qed.

Lemma ss_slot_ident s : ss s (snd (generate_unique_slot_ident s)).
Proof.
  unfold generate_unique_slot_ident.
  match goal with |- context [fresh_ident ?sy ?st0] =>
    pose proof (ss_fresh sy st0) as Hf; destruct (fresh_ident sy st0) as [[id ctx0] s1] end.
  cbn [snd] in *. eapply ss_trans; [exact Hf|].
  eapply ss_trans; [apply ss_set_inj_vars|apply ss_set_slot_counter].
Qed.

Lemma ss_resolve_directive dn tag attrs s : ss s (snd (resolve_directive dn tag attrs s)).
Proof.
  unfold resolve_directive, import_from_vue.
  repeat match goal with
         | |- context [if ?c then _ else _] => destruct c
         | |- context [match ?x with _ => _ end] => destruct x
         end; apply ss_set_imports.
Qed.

Lemma ss_build_directives dirs tag attrs s : ss s (snd (build_directives dirs tag attrs s)).
Proof.
  revert s. induction dirs as [|d r IH]; intros s; [apply ss_refl|].
  cbn [build_directives]. destruct d; try apply IH.
  pose proof (ss_resolve_directive name tag attrs s) as H1.
  destruct (resolve_directive name tag attrs s) as [dd s1]. cbn [snd] in H1.
  pose proof (IH s1) as H2. destruct (build_directives r tag attrs s1). cbn [snd] in *. fr.
Qed.


(* ---- the stack effect -------------------------------------------------------------------- *)
Let opt := o_optimize (e_opts E).

(* every flag on the stack is ORed with [d] *)
Definition stk (d : bool) (s s' : st) : Prop :=
  slot_stack s' = map (fun b => b || d) (slot_stack s).

Lemma map_orb_false l : map (fun b => b || false) l = l.
Proof. induction l as [|x r IH]; [reflexivity|]. cbn [map]. rewrite orb_false_r, IH. reflexivity. Qed.

Lemma ss_stk s s' : ss s s' -> stk false s s'.
Proof. unfold ss, stk. intros ->. symmetry. apply map_orb_false. Qed.
Lemma ss_stk0 s s' : ss s s' -> stk (opt && false) s s'.
Proof. rewrite andb_false_r. apply ss_stk. Qed.
Lemma stk_trans d1 d2 a b c : stk d1 a b -> stk d2 b c -> stk (d1 || d2) a c.
Proof.
  unfold stk. intros H1 H2. rewrite H2, H1, map_map. apply map_ext. intros x.
  symmetry. apply orb_assoc.
Qed.
Lemma stk_ss d a b c : stk d a b -> ss b c -> stk d a c.
Proof. unfold stk, ss. congruence. Qed.

Lemma stk_mark e s : stk (opt && src_bound E e) s (mark_dynamic E e s).
Proof.
  unfold stk, mark_dynamic. change (is_bound_ident E e) with (src_bound E e). fold opt.
  destruct (opt && src_bound E e).
  - destruct s; cbn. apply map_ext. intros x. rewrite orb_true_r. reflexivity.
  - symmetry. apply map_orb_false.
Qed.

Definition Sk (n : node) : Prop := forall s, stk (opt && dyn E n) s (snd (lower_el E n s)).

Lemma stk_children cs : Forall Sk cs -> forall s,
  stk (opt && existsb (dyn_child E) cs) s (snd (lower_children_with E (lower_el E) cs s)).
Proof.
  induction 1 as [|c r Hc Hr IH]; intros s; [apply ss_stk0; apply ss_refl|].
  cbn [lower_children_with existsb]. rewrite andb_orb_distrib_r.
  assert (Hrest : forall (o : list node) d s0 s1, stk d s0 s1 ->
            stk (d || (opt && existsb (dyn_child E) r)) s0
                (snd (let '(r', s2) := lower_children_with E (lower_el E) r s1 in (o ++ r', s2)))).
  { intros o d s0 s1 H. pose proof (IH s1) as H2. destruct (lower_children_with E (lower_el E) r s1).
    cbn [snd] in *. eapply stk_trans; eassumption. }
  destruct c; try (apply Hrest; apply ss_stk0; apply ss_refl).
  - pose proof (Hc s) as H. destruct (lower_el E _ s). apply Hrest. exact H.
  - pose proof (Hc s) as H. destruct (lower_el E _ s). apply Hrest. exact H.
  - match goal with |- context [mark_dynamic E ?e _] => destruct e end;
      try (apply Hrest; apply stk_mark). apply Hrest. apply ss_stk0. apply ss_refl.
  - unfold transform_jsx_text. destruct (transform_text v); [apply Hrest; apply ss_stk0; apply ss_refl|].
    match goal with |- context [import_from_vue ?n ?st0] =>
      pose proof (ss_import n st0) as Hi; destruct (import_from_vue n st0) end.
    apply Hrest. apply ss_stk0. exact Hi.
  - apply Hrest. apply stk_mark.
Qed.

Definition SkA (n : node) : Prop := Sk n /\ (forall nm v, n = JAttr nm v -> Sk v).

Lemma stk_attr_values attrs : Forall SkA attrs -> forall s,
  stk (opt && existsb (dyn_attr E) attrs) s (snd (lower_attr_values_with (lower_el E) attrs s)).
Proof.
  induction 1 as [|a r Ha Hr IH]; intros s; [apply ss_stk0; apply ss_refl|].
  cbn [lower_attr_values_with existsb]. rewrite andb_orb_distrib_r.
  assert (Hrest : forall (a' : node) d s0 s1, stk d s0 s1 ->
            stk (d || (opt && existsb (dyn_attr E) r)) s0
                (snd (let '(r', s2) := lower_attr_values_with (lower_el E) r s1 in (a' :: r', s2)))).
  { intros a' d s0 s1 H. pose proof (IH s1) as H2. destruct (lower_attr_values_with (lower_el E) r s1).
    cbn [snd] in *. eapply stk_trans; eassumption. }
  destruct Ha as [_ Hv].
  destruct a; try (apply Hrest; apply ss_stk0; apply ss_refl).
  match goal with |- context [JAttr ?nm ?v] => destruct v end;
    try (apply Hrest; apply ss_stk0; apply ss_refl).
  - cbn [dyn_attr].
    match goal with |- context [is_directive ?x] => destruct (is_directive x) end;
      [apply Hrest; apply ss_stk0; apply ss_refl|].
    pose proof (Hv _ _ eq_refl s) as H. destruct (lower_el E _ s). apply Hrest. exact H.
  - cbn [dyn_attr].
    match goal with |- context [is_directive ?x] => destruct (is_directive x) end;
      [apply Hrest; apply ss_stk0; apply ss_refl|].
    pose proof (Hv _ _ eq_refl s) as H. destruct (lower_el E _ s). apply Hrest. exact H.
Qed.

(* the children argument is built with the flag on top of the stack, which is popped *)
Lemma pop_finish_children elems ic slots s st0 :
  (opt = true -> exists b, slot_stack s = st0 ++ [b]) -> (opt = false -> slot_stack s = st0) ->
  slot_stack (snd (finish_children E elems ic slots s)) = st0.
Proof.
  intros Ht Hf. unfold finish_children. fold opt.
  assert (H0 : slot_stack (snd (if opt
                            then match rev (slot_stack s) with
                                 | top :: rest => (top, set_slot_stack (rev rest) s)
                                 | [] => (false, s)
                                 end else (false, s))) = st0).
  { destruct opt; [|exact (Hf eq_refl)]. destruct (Ht eq_refl) as [b Hb].
    rewrite Hb, rev_app_distr. cbn [rev app]. destruct s; cbn. apply rev_involutive. }
  match goal with |- context [match ?X with pair _ _ => _ end] => destruct X as [flag s0] end.
  cbn [snd] in H0.
  assert (Hdef : slot_stack (snd (if ic then (wrap_children E elems flag slots, s0) else (Arr elems, s0))) = st0)
    by (destruct ic; exact H0).
  destruct elems as [|x [|y r]].
  - exact H0.
  - destruct x; try exact Hdef.
    match goal with |- context [Elem ?b ?e] => destruct b; [exact Hdef|destruct e] end;
      try exact Hdef; try (destruct (is_fn_like _); [exact H0|exact Hdef]); try exact H0.
    + (* identifier *)
      destruct ic; [|exact H0].
      match goal with |- context [build_iife ?es ?st1] =>
        pose proof (ss_build_iife es st1) as Hb; destruct (build_iife es st1) as [elems' s1] end.
      cbn [snd] in Hb. unfold ss in Hb.
      destruct (o_object_slots (e_opts E)); cbn [snd].
      * rewrite (ss_set_slot_helper true s1). congruence.
      * congruence.
    + (* call *)
      match goal with |- context [Call ?sy _ _ _ _] => destruct sy; [exact Hdef|] end.
      destruct ic; [|exact H0].
      destruct (o_object_slots (e_opts E)); [|exact H0].
      pose proof (ss_slot_ident s0) as Hs.
      destruct (generate_unique_slot_ident s0) as [slot s1]. cbn [snd] in Hs.
      match goal with |- context [build_iife ?es ?st1] =>
        pose proof (ss_build_iife es st1) as Hb; destruct (build_iife es st1) as [elems' s2] end.
      cbn [snd] in *. unfold ss in *. rewrite Hb, (ss_set_slot_helper true s1). congruence.
  - destruct x; try exact Hdef.
    match goal with |- context [Elem ?b ?e] => destruct b; [exact Hdef|destruct e; exact Hdef] end.
Qed.

Lemma stack_push s : slot_stack (push_slot_flag E s) = slot_stack s ++ (if opt then [false] else []).
Proof.
  unfold push_slot_flag. fold opt. destruct opt; [destruct s; reflexivity|symmetry; apply app_nil_r].
Qed.

(* the state in which the children argument of an element is built *)
Definition at_children (n : node) (s : st) : st :=
  match n with
  | JsxE name attrs0 _ _ children _ =>
      let s := push_slot_flag E s in
      let '(attrs, s) := lower_attr_values_with (lower_el E) attrs0 s in
      let ar := transform_attrs E attrs (is_component E name) s in
      let '(_, s) := transform_tag E name (r_st ar) in
      snd (lower_children_with E (lower_el E) children s)
  | JsxF children =>
      let s := push_slot_flag E s in
      let '(_, s) := get_pragma E s in
      let '(_, s) := import_from_vue "Fragment" s in
      snd (lower_children_with E (lower_el E) children s)
  | _ => s
  end.

Definition is_elem (n : node) : bool := match n with JsxE _ _ _ _ _ _ | JsxF _ => true | _ => false end.

Definition At (n : node) : Prop := forall s, is_elem n = true ->
  slot_stack (at_children n s)
  = map (fun b => b || (opt && dyn E n)) (slot_stack s) ++ (if opt then [opt && dyn E n] else []).

Lemma map_app_flag d l : map (fun b => b || d) (l ++ (if opt then [false] else []))
                         = map (fun b => b || d) l ++ (if opt then [d] else []).
Proof. rewrite map_app. destruct opt; reflexivity. Qed.

Lemma pop_after d l s elems ic slots :
  slot_stack s = map (fun b => b || d) l ++ (if opt then [d] else []) ->
  slot_stack (snd (finish_children E elems ic slots s)) = map (fun b => b || d) l.
Proof.
  intros H. apply pop_finish_children.
  - intros Ho. rewrite Ho in H. exists d. exact H.
  - intros Ho. rewrite Ho, app_nil_r in H. exact H.
Qed.

Theorem lower_el_stack_A : forall n, SkA n /\ At n.
Proof.
  apply node_ind'; intros; (split; [split|]);
    try (let x := fresh "sx" in intros x; apply ss_stk0; apply ss_refl);
    try (intros ? ? Heq; discriminate Heq);
    try (intros ? Hel; discriminate Hel).
  - (* JsxE: the stack after the element *)
    intros sx. cbn [lower_el].
    assert (Hats : Forall SkA ats).
    { match goal with H : Forall _ ats |- _ => eapply Forall_impl; [|exact H] end. intros x [Hx _]. exact Hx. }
    assert (Hch : Forall Sk ch).
    { match goal with H : Forall _ ch |- _ => eapply Forall_impl; [|exact H] end. intros x [[Hx _] _]. exact Hx. }
    pose proof (stk_attr_values _ Hats (push_slot_flag E sx)) as G1.
    destruct (lower_attr_values_with (lower_el E) ats (push_slot_flag E sx)) as [attrs s1]. cbn [snd] in G1.
    pose proof (ss_transform_attrs attrs (is_component E nm) s1) as G2.
    set (ar := transform_attrs E attrs (is_component E nm) s1) in *.
    pose proof (ss_transform_tag nm (r_st ar)) as G3.
    destruct (transform_tag E nm (r_st ar)) as [tag s2]. cbn [snd] in G3.
    pose proof (stk_children _ Hch s2) as G4.
    destruct (lower_children_with E (lower_el E) ch s2) as [elems s3]. cbn [snd] in G4.
    assert (K3 : slot_stack s3 = map (fun b => b || (opt && dyn E (JsxE nm ats sc ta ch cl))) (slot_stack sx)
                                 ++ (if opt then [opt && dyn E (JsxE nm ats sc ta ch cl)] else [])).
    { rewrite dyn_JsxE, andb_orb_distrib_r.
      pose proof (stk_trans _ _ _ _ _ (stk_ss _ _ _ _ (stk_ss _ _ _ _ G1 G2) G3) G4) as K.
      unfold stk in K. rewrite K, stack_push. apply map_app_flag. }
    pose proof (pop_after _ _ s3 elems (is_component E nm) (r_slots ar) K3) as G5.
    destruct (finish_children E elems (is_component E nm) (r_slots ar) s3) as [chx s4]. cbn [snd] in G5.
    pose proof (ss_get_pragma s4) as G6. destruct (get_pragma E s4) as [callee s5]. cbn [snd] in G6.
    destruct (r_dirs ar) as [|d0 dr].
    + cbn [snd]. unfold stk, ss in *. congruence.
    + match goal with |- context [import_from_vue ?n ?st0] =>
        pose proof (ss_import n st0) as G7; destruct (import_from_vue n st0) as [wd s6] end.
      cbn [snd] in G7.
      match goal with |- context [build_directives ?a ?b ?c ?st0] =>
        pose proof (ss_build_directives a b c st0) as G8; destruct (build_directives a b c st0) as [ds s7] end.
      cbn [snd] in *. unfold stk, ss in *. congruence.
  - (* JsxE: the stack when the children argument is built *)
    intros sx _. cbn [at_children].
    assert (Hats : Forall SkA ats).
    { match goal with H : Forall _ ats |- _ => eapply Forall_impl; [|exact H] end. intros x [Hx _]. exact Hx. }
    assert (Hch : Forall Sk ch).
    { match goal with H : Forall _ ch |- _ => eapply Forall_impl; [|exact H] end. intros x [[Hx _] _]. exact Hx. }
    pose proof (stk_attr_values _ Hats (push_slot_flag E sx)) as G1.
    destruct (lower_attr_values_with (lower_el E) ats (push_slot_flag E sx)) as [attrs s1]. cbn [snd] in G1.
    pose proof (ss_transform_attrs attrs (is_component E nm) s1) as G2.
    set (ar := transform_attrs E attrs (is_component E nm) s1) in *.
    pose proof (ss_transform_tag nm (r_st ar)) as G3.
    destruct (transform_tag E nm (r_st ar)) as [tag s2]. cbn [snd] in G3.
    pose proof (stk_children _ Hch s2) as G4.
    rewrite dyn_JsxE, andb_orb_distrib_r.
    pose proof (stk_trans _ _ _ _ _ (stk_ss _ _ _ _ (stk_ss _ _ _ _ G1 G2) G3) G4) as K.
    unfold stk in K. rewrite K, stack_push. apply map_app_flag.
  - (* JsxF *)
    intros sx. cbn [lower_el].
    assert (Hch : Forall Sk ch).
    { match goal with H : Forall _ ch |- _ => eapply Forall_impl; [|exact H] end. intros x [[Hx _] _]. exact Hx. }
    pose proof (ss_get_pragma (push_slot_flag E sx)) as G1.
    destruct (get_pragma E (push_slot_flag E sx)) as [callee s1]. cbn [snd] in G1.
    match goal with |- context [import_from_vue ?n ?st0] =>
      pose proof (ss_import n st0) as G2; destruct (import_from_vue n st0) as [frag s2] end.
    cbn [snd] in G2.
    pose proof (stk_children _ Hch s2) as G4.
    destruct (lower_children_with E (lower_el E) ch s2) as [elems s3]. cbn [snd] in G4.
    assert (K3 : slot_stack s3 = map (fun b => b || (opt && dyn E (JsxF ch))) (slot_stack sx)
                                 ++ (if opt then [opt && dyn E (JsxF ch)] else [])).
    { rewrite dyn_JsxF. unfold stk, ss in *. rewrite G4, G2, G1, stack_push. apply map_app_flag. }
    pose proof (pop_after _ _ s3 elems false None K3) as G5.
    destruct (finish_children E elems false None s3) as [chx s4]. cbn [snd] in *. exact G5.
  - (* JsxF: at the children argument *)
    intros sx _. cbn [at_children].
    assert (Hch : Forall Sk ch).
    { match goal with H : Forall _ ch |- _ => eapply Forall_impl; [|exact H] end. intros x [[Hx _] _]. exact Hx. }
    pose proof (ss_get_pragma (push_slot_flag E sx)) as G1.
    destruct (get_pragma E (push_slot_flag E sx)) as [callee s1]. cbn [snd] in G1.
    match goal with |- context [import_from_vue ?n ?st0] =>
      pose proof (ss_import n st0) as G2; destruct (import_from_vue n st0) as [frag s2] end.
    cbn [snd] in G2.
    pose proof (stk_children _ Hch s2) as G4.
    rewrite dyn_JsxF. unfold stk, ss in *. rewrite G4, G2, G1, stack_push. apply map_app_flag.
  - (* JAttr: the element value claim comes from the induction hypothesis on the value *)
    intros nm0 v0 Heq. inversion Heq; subst.
    match goal with H : SkA v0 /\ At v0 |- _ => destruct H as [[H _] _]; exact H end.
Qed.

Theorem lower_el_stack n s :
  slot_stack (snd (lower_el E n s)) = map (fun b => b || (opt && dyn E n)) (slot_stack s).
Proof. destruct (lower_el_stack_A n) as [[H _] _]. exact (H s). Qed.

Theorem flag_at_children n s : is_elem n = true ->
  slot_stack (at_children n s)
  = map (fun b => b || (opt && dyn E n)) (slot_stack s) ++ (if opt then [opt && dyn E n] else []).
Proof. destruct (lower_el_stack_A n) as [_ H]. exact (H s). Qed.


(* ---- the flag the children argument is built with ------------------------------------------ *)
Definition pop_flag (s : st) : bool * st :=
  if opt then
    match rev (slot_stack s) with
    | top :: rest => (top, set_slot_stack (rev rest) s)
    | [] => (false, s)
    end
  else (false, s).

(* finish_children = pop the flag, then build the argument with it (the second half is the rest
   of the definition, with the popped flag as a parameter) *)
Definition build_children (flag : bool) (elems : list node) (is_comp : bool) (slots : option node) (s : st)
  : node * st :=
  let default (s : st) :=
    if is_comp then (wrap_children E elems flag slots, s) else (Arr elems, s) in
  match elems with
  | [] => (match slots with Some e => e | None => Null end, s)
  | [Elem false e] =>
      match e with
      | Ident _ _ _ =>
          if is_comp then
            let '(elems', s) := build_iife elems s in
            if o_object_slots (e_opts E) then
              (Cond (mk_call slot_helper_ident [e]) e (wrap_children E elems' flag slots),
               set_slot_helper true s)
            else (wrap_children E elems' flag slots, s)
          else default s
      | Call false _ _ _ _ =>
          if is_comp then
            if o_object_slots (e_opts E) then
              let '(slot, s) := generate_unique_slot_ident s in
              let '(elems', s) := build_iife [Elem false slot] (set_slot_helper true s) in
              (Cond (mk_call slot_helper_ident [Assign (s_ "=") (Paren slot) e]) slot
                    (wrap_children E elems' flag slots), s)
            else (wrap_children E elems flag slots, s)
          else default s
      | Obj props => (Obj (merge_slots props slots ++ hint_prop E flag), s)
      | _ =>
          if is_fn_like e then
            (Obj (merge_slots [KV (IdName (s_ "default")) e] slots), s)
          else default s
      end
  | _ => default s
  end.

Lemma finish_children_split elems ic slots s :
  finish_children E elems ic slots s
  = build_children (fst (pop_flag s)) elems ic slots (snd (pop_flag s)).
Proof.
  unfold finish_children, pop_flag. fold opt.
  destruct (if opt then _ else _) as [flag s0]. reflexivity.
Qed.

Lemma pop_flag_top l b s : slot_stack s = l ++ (if opt then [b] else []) -> fst (pop_flag s) = opt && b.
Proof.
  intros H. unfold pop_flag. destruct opt; [|reflexivity].
  rewrite H, rev_app_distr. reflexivity.
Qed.

(* the flag is the source-level [dyn] of the element (false when hints are off) *)
Theorem flag_is_dyn n s : is_elem n = true -> fst (pop_flag (at_children n s)) = opt && dyn E n.
Proof.
  intros Hn. rewrite (pop_flag_top _ (opt && dyn E n) _ (flag_at_children n s Hn)).
  destruct opt; reflexivity.
Qed.

(* ... and it is the flag [lower_el] builds the element's children argument with *)
Lemma lower_el_children_arg nm ats sc ta ch cl s :
  let n := JsxE nm ats sc ta ch cl in
  exists callee tag attrs elems slots hints s',
    let call := mk_call callee
                  ([tag; attrs; fst (build_children (opt && dyn E n) elems (is_component E nm) slots s')] ++ hints) in
    fst (lower_el E n s) = call
    \/ exists wd ds, fst (lower_el E n s) = mk_call wd [call; Arr ds].
Proof.
  intros n. pose proof (flag_is_dyn n s eq_refl) as F. subst n. revert F.
  cbn [lower_el at_children].
  destruct (lower_attr_values_with (lower_el E) ats (push_slot_flag E s)) as [attrs s1].
  set (ar := transform_attrs E attrs (is_component E nm) s1).
  destruct (transform_tag E nm (r_st ar)) as [tag s2].
  destruct (lower_children_with E (lower_el E) ch s2) as [elems s3]. cbn [snd].
  intros F. rewrite finish_children_split, F.
  destruct (build_children _ elems (is_component E nm) (r_slots ar) (snd (pop_flag s3))) as [chx s4] eqn:EB.
  destruct (get_pragma E s4) as [callee s5].
  exists callee, tag, (r_attrs ar), elems, (r_slots ar), (vnode_hints E ar), (snd (pop_flag s3)).
  rewrite EB. cbn [fst].
  destruct (r_dirs ar) as [|d0 dr]; [left; reflexivity|].
  destruct (import_from_vue "withDirectives" s5) as [wd s6].
  destruct (build_directives (d0 :: dr) nm attrs s6) as [ds s7].
  right. exists wd, ds. reflexivity.
Qed.

(* the property's wording (children only) implies the computed flag *)
Lemma dyn_text_dyn : forall n, dyn_text E n = true -> dyn E n = true.
Proof.
  apply (node_ind' (fun n => dyn_text E n = true -> dyn E n = true)); intros; try discriminate.
  - (* JsxE *)
    rewrite dyn_JsxE. apply orb_true_iff. right.
    match goal with H : dyn_text E _ = true |- _ => cbn [dyn_text] in H; revert H end.
    match goal with H : Forall _ ch |- _ => induction H as [|c r Hc Hr IH] end; [discriminate|].
    cbn [existsb]. intros Hd. apply orb_true_iff in Hd. apply orb_true_iff.
    destruct Hd as [Hd|Hd]; [left|right; exact (IH Hd)].
    destruct c; try discriminate Hd; try exact Hd; apply Hc; exact Hd.
  - (* JsxF *)
    rewrite dyn_JsxF.
    match goal with H : dyn_text E _ = true |- _ => cbn [dyn_text] in H; revert H end.
    match goal with H : Forall _ ch |- _ => induction H as [|c r Hc Hr IH] end; [discriminate|].
    cbn [existsb]. intros Hd. apply orb_true_iff in Hd. apply orb_true_iff.
    destruct Hd as [Hd|Hd]; [left|right; exact (IH Hd)].
    destruct c; try discriminate Hd; try exact Hd; apply Hc; exact Hd.
Qed.

End SlotFlag.
