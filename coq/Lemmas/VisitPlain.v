(* C07 at the level of the traversal: visiting any grammatical tree in expression position
   yields a tree without JSX, and the declarations the traversal injects are JSX-free too.
   The element-level theorem (Lemmas/PlainProofs.v) is used at each JSX element / fragment the
   traversal meets, on the element as its visited children left it. *)
From Coq Require Import Lia.
From VJ Require Import Model.Str Model.Json Model.Ast Model.State Model.Util Model.Text
  Model.Directive Model.Lower Model.Visitor Spec.Plain Lemmas.NodeInd Lemmas.PlainProofs
  Lemmas.GrowProofs.

Local Notation jf := jsx_free.

(* the pending declarations hold no JSX *)
Definition Sj (s : st) : Prop :=
  forallb jf (inj_vars s) = true /\ forallb jf (inj_consts s) = true.

Lemma grow_Sj s s' : grow s s' -> Sj s -> Sj s'.
Proof.
  intros (_ & [l [A A']] & [m [B B']] & _) [H1 H2].
  split; [rewrite A, forallb_app, H1, A'|rewrite B, forallb_app, H2, B']; reflexivity.
Qed.

Lemma Sj_st0 : Sj st0. Proof. split; reflexivity. Qed.
Lemma Sj_enter s : Sj (enter_scope s). Proof. destruct s; split; reflexivity. Qed.
Lemma Sj_leave outer s : Sj outer -> Sj (leave_scope outer s).
Proof. intros [H1 H2]. destruct outer, s; split; cbn in *; assumption. Qed.
Lemma Sj_set_diags d s : Sj s -> Sj (set_diags d s).
Proof. intros H. destruct s; exact H. Qed.
Lemma Sj_set_assign_left v s : Sj s -> Sj (set_assign_left v s).
Proof. intros H. destruct s; exact H. Qed.
Lemma Sj_set_define_component v s : Sj s -> Sj (set_define_component v s).
Proof. intros H. destruct s; exact H. Qed.

Lemma Sj_post_import n s : Sj s -> Sj (post_import n s).
Proof.
  intros H. unfold post_import.
  repeat match goal with |- context [match ?x with _ => _ end] => destruct x end;
    try exact H; apply Sj_set_define_component; exact H.
Qed.

Lemma jf_NObj_fields l :
  is_jsx_node (NObj l) = false -> forallb jf l = true -> jf (NObj l) = true.
Proof.
  intros H1 H2. unfold jsx_free in *. cbn [all_sub]. rewrite H1, all_sub_list. exact H2.
Qed.

Lemma jf_Field k v : jf (Field k v) = jf v. Proof. reflexivity. Qed.

Lemma jf_mk_var_decl k ds : forallb jf ds = true -> jf (mk_var_decl k ds) = true.
Proof.
  intros H. unfold mk_var_decl, gobj. apply jf_NObj_fields; [reflexivity|].
  unfold fld. cbn [forallb]. rewrite !jf_Field, jf_NArr, H. reflexivity.
Qed.

Lemma jf_mk_return e : jf e = true -> jf (mk_return e) = true.
Proof.
  intros H. unfold mk_return, gobj. apply jf_NObj_fields; [reflexivity|].
  unfold fld. cbn [forallb]. rewrite !jf_Field, H. reflexivity.
Qed.

Lemma jf_pending s : Sj s -> forallb jf (pending_decls s) = true.
Proof.
  intros [H1 H2]. unfold pending_decls. rewrite forallb_app.
  destruct (inj_vars s) eqn:E1; destruct (inj_consts s) eqn:E2; cbn [forallb];
    rewrite ?jf_mk_var_decl by assumption; reflexivity.
Qed.

Lemma jf_arrow_decls s : Sj s -> forallb jf (arrow_decls s) = true.
Proof.
  intros [H1 H2]. unfold arrow_decls. rewrite forallb_app.
  destruct (inj_vars s) eqn:E1; destruct (inj_consts s) eqn:E2; cbn [forallb];
    rewrite ?jf_mk_var_decl by assumption; reflexivity.
Qed.

Lemma ready_JExprC e : jf e = true -> ready (JExprC e) = true.
Proof. intros H. destruct e; try exact H. reflexivity. Qed.

(* ---- v-models ---------------------------------------------------------------------------- *)
Lemma ready_decouple_one inner : forallb jf inner = true -> ready (decouple_one inner) = true.
Proof.
  intros H. unfold decouple_one.
  destruct (match nth_error inner 1 with Some (Elem false (Str v _)) => Some v | _ => None end) as [a0|];
    [|cbn [ready]; rewrite jf_Arr; exact H].
  cbn [ready]. rewrite jf_Arr.
  destruct inner as [|x [|y r]]; try exact H.
  cbn [forallb] in *. apply andb_true_iff in H. destruct H as [Hx H]. apply andb_true_iff in H.
  destruct H as [_ Hr]. rewrite Hx, Hr. reflexivity.
Qed.

Lemma ready_decouple_v_models elems :
  forallb jf elems = true -> forallb ready (decouple_v_models elems) = true.
Proof.
  induction elems as [|x r IH]; intros H; [reflexivity|].
  cbn [forallb] in H. apply andb_true_iff in H. destruct H as [Hx Hr].
  cbn [decouple_v_models]. destruct x; try (apply IH; exact Hr).
  match goal with |- context [if ?b then _ else _] => destruct b; [apply IH; exact Hr|] end.
  match goal with |- context [match ?e with Arr _ => _ | _ => _ end] => destruct e end;
    try (apply IH; exact Hr).
  cbn [forallb]. rewrite (IH Hr), andb_true_r. apply ready_decouple_one.
  rewrite jf_Elem, jf_Arr in Hx. exact Hx.
Qed.

Lemma split_at_vmodels_spec attrs pre v post :
  split_at_vmodels attrs = Some (pre, v, post) ->
  forallb ready attrs = true ->
  forallb ready pre = true /\ forallb ready post = true
  /\ (forall elems, v = JExprC (Arr elems) -> forallb jf elems = true).
Proof.
  revert pre v post. induction attrs as [|a r IH]; intros pre v post Hs Hr; [discriminate|].
  cbn [forallb] in Hr. apply andb_true_iff in Hr. destruct Hr as [Ha Hr].
  assert (Hdef : forall pre0, (match split_at_vmodels r with
                   | Some (pre1, v', post1) => Some (a :: pre1, v', post1)
                   | None => None end) = Some (pre0, v, post) ->
                 forallb ready pre0 = true /\ forallb ready post = true
                 /\ (forall elems, v = JExprC (Arr elems) -> forallb jf elems = true)).
  { intros pre0 H. destruct (split_at_vmodels r) as [[[p1 v1] q1]|] eqn:E1; [|discriminate].
    inversion H; subst. destruct (IH _ _ _ eq_refl Hr) as (A & B & C).
    split; [cbn [forallb]; rewrite Ha, A; reflexivity|]. split; assumption. }
  cbn [split_at_vmodels] in Hs. destruct a; try (apply Hdef; exact Hs).
  match type of Hs with context [JAttr ?nm ?val] => destruct nm; try (apply Hdef; exact Hs) end.
  match type of Hs with context [if ?c then _ else _] => destruct c end; [|apply Hdef; exact Hs].
  inversion Hs; subst. split; [reflexivity|]. split; [exact Hr|].
  intros elems ->. cbn [ready] in Ha. rewrite jf_Arr in Ha. exact Ha.
Qed.

Lemma ready_decouple attrs s :
  forallb ready attrs = true -> forallb ready (fst (decouple_attrs attrs s)) = true.
Proof.
  intros H. unfold decouple_attrs.
  destruct (split_at_vmodels attrs) as [[[pre v] post]|] eqn:E1; [|exact H].
  destruct (split_at_vmodels_spec _ _ _ _ E1 H) as (A & B & C).
  assert (Hpp : forallb ready (pre ++ post) = true) by (rewrite forallb_app, A, B; reflexivity).
  destruct v; try exact Hpp.
  match goal with |- context [match ?e with JEmpty => _ | _ => _ end] => destruct e end; try exact Hpp.
  cbn [fst]. rewrite !forallb_app, A, B, (ready_decouple_v_models _ (C _ eq_refl)). reflexivity.
Qed.

(* attribute lists stay lists of attributes and spreads *)
Definition attr_shape (x : node) : bool := match x with JAttr _ _ | Spread _ => true | _ => false end.

Lemma ready_attr_of l : forallb ready l = true -> forallb attr_shape l = true -> forallb ready_attr l = true.
Proof.
  induction l as [|x r IH]; [reflexivity|]. cbn [forallb]. intros H1 H2.
  apply andb_true_iff in H1. apply andb_true_iff in H2. destruct H1 as [A1 B1], H2 as [A2 B2].
  rewrite (IH B1 B2), andb_true_r. destruct x; try discriminate A2; exact A1.
Qed.

Lemma shape_decouple_v_models elems : forallb attr_shape (decouple_v_models elems) = true.
Proof.
  induction elems as [|x r IH]; [reflexivity|]. cbn [decouple_v_models].
  destruct x; try exact IH.
  match goal with |- context [if ?b then _ else _] => destruct b; [exact IH|] end.
  match goal with |- context [match ?e with Arr _ => _ | _ => _ end] => destruct e end; try exact IH.
  cbn [forallb]. rewrite IH, andb_true_r. unfold decouple_one.
  match goal with |- context [match ?a with Some _ => _ | None => _ end] => destruct a end; reflexivity.
Qed.

Lemma split_at_vmodels_shape attrs pre v post :
  split_at_vmodels attrs = Some (pre, v, post) -> forallb attr_shape attrs = true ->
  forallb attr_shape pre = true /\ forallb attr_shape post = true.
Proof.
  revert pre v post. induction attrs as [|a r IH]; intros pre v post Hs Hr; [discriminate|].
  cbn [forallb] in Hr. apply andb_true_iff in Hr. destruct Hr as [Ha Hr].
  assert (Hdef : forall pre0, (match split_at_vmodels r with
                   | Some (pre1, v', post1) => Some (a :: pre1, v', post1)
                   | None => None end) = Some (pre0, v, post) ->
                 forallb attr_shape pre0 = true /\ forallb attr_shape post = true).
  { intros pre0 H. destruct (split_at_vmodels r) as [[[p1 v1] q1]|] eqn:E1; [|discriminate].
    inversion H; subst. destruct (IH _ _ _ eq_refl Hr) as (A & B).
    split; [cbn [forallb]; rewrite Ha, A; reflexivity|exact B]. }
  cbn [split_at_vmodels] in Hs. destruct a; try (apply Hdef; exact Hs).
  match type of Hs with context [JAttr ?nm ?val] => destruct nm; try (apply Hdef; exact Hs) end.
  match type of Hs with context [if ?c then _ else _] => destruct c end; [|apply Hdef; exact Hs].
  inversion Hs; subst. split; [reflexivity|exact Hr].
Qed.

Lemma shape_decouple attrs s :
  forallb attr_shape attrs = true -> forallb attr_shape (fst (decouple_attrs attrs s)) = true.
Proof.
  intros H. unfold decouple_attrs.
  destruct (split_at_vmodels attrs) as [[[pre v] post]|] eqn:E1; [|exact H].
  destruct (split_at_vmodels_shape _ _ _ _ E1 H) as (A & B).
  assert (Hpp : forallb attr_shape (pre ++ post) = true) by (rewrite forallb_app, A, B; reflexivity).
  destruct v; try exact Hpp.
  match goal with |- context [match ?e with JEmpty => _ | _ => _ end] => destruct e end; try exact Hpp.
  cbn [fst]. rewrite !forallb_app, A, B, shape_decouple_v_models. reflexivity.
Qed.

Lemma Sj_decouple attrs s : Sj s -> Sj (snd (decouple_attrs attrs s)).
Proof.
  intros H. unfold decouple_attrs. destruct (split_at_vmodels attrs) as [[[pre v] post]|]; [|exact H].
  destruct v; try (apply Sj_set_diags; exact H).
  match goal with |- context [match ?e with JEmpty => _ | _ => _ end] => destruct e end;
    try (apply Sj_set_diags; exact H); exact H.
Qed.

(* ---- the traversal ----------------------------------------------------------------------- *)
Section VisitPlain.
Variable E : env.
Variable hook_call hook_declarator : node -> st -> node * st.
Hypothesis Hhc_S : forall n s, Sj s -> Sj (snd (hook_call n s)).
Hypothesis Hhd_S : forall n s, Sj s -> Sj (snd (hook_declarator n s)).
Hypothesis Hhc_j : forall n s, jf n = true -> jf (fst (hook_call n s)) = true.
Hypothesis Hhd_j : forall n s, jf n = true -> jf (fst (hook_declarator n s)) = true.

Let V := visit E hook_call hook_declarator.


(* the claim for one node reached in mode [m], about the result [res] of visiting it *)
Definition Claim (n : node) (m : mode) (res : node * st) : Prop :=
  Sj (snd res)
  /\ (gram PExpr n = true -> m <> MNoLower -> jf (fst res) = true)
  /\ (gram PExpr n = true -> is_el n = true -> m = MNoLower ->
      ready (fst res) = true /\ is_el (fst res) = true)
  /\ (gram PAttr n = true -> m = MExpr -> ready (fst res) = true)
  /\ (gram PChild n = true -> m = jsx_item_mode n -> ready (fst res) = true)
  /\ (forall e, n = JExprC e -> gram PExpr e = true -> m = MExpr ->
      exists e', fst res = JExprC e' /\ jf e' = true).

Definition Pv (n : node) : Prop := forall m s, Sj s -> Claim n m (V m n s).

Lemma Pv_S n m s : Pv n -> Sj s -> Sj (snd (V m n s)).
Proof. intros H HS. destruct (H m s HS) as [A _]. exact A. Qed.

Lemma Pv_A n m s : Pv n -> Sj s -> gram PExpr n = true -> m <> MNoLower -> jf (fst (V m n s)) = true.
Proof. intros H HS. destruct (H m s HS) as (_ & A & _). exact A. Qed.

Lemma not_nl_expr : MExpr <> MNoLower. Proof. discriminate. Qed.
Lemma not_nl_switch : MSwitch <> MNoLower. Proof. discriminate. Qed.
Lemma not_nl_stmts : MStmts <> MNoLower. Proof. discriminate. Qed.

Lemma visit_list_plain l : Forall Pv l -> forall m s, Sj s -> m <> MNoLower ->
  Sj (snd (visit_list_with V m l s))
  /\ (forallb (gram PExpr) l = true -> forallb jf (fst (visit_list_with V m l s)) = true).
Proof.
  induction 1 as [|x r Hx Hr IH]; intros m s HS Hm; [split; [exact HS|reflexivity]|].
  cbn [visit_list_with].
  pose proof (Pv_S x m s Hx HS) as S1. pose proof (Pv_A x m s Hx HS) as A1.
  destruct (V m x s) as [x' s1]. cbn [fst snd] in *.
  destruct (IH m s1 S1 Hm) as [S2 A2]. destruct (visit_list_with V m r s1) as [r' s2]. cbn [fst snd] in *.
  split; [exact S2|]. intros G. cbn [forallb] in *. apply andb_true_iff in G. destruct G as [G1 G2].
  rewrite (A1 G1 Hm), (A2 G2). reflexivity.
Qed.

Lemma visit_stmts_plain l : Forall Pv l -> forall s, Sj s ->
  Sj (snd (visit_stmts_with V l s))
  /\ (forallb (gram PExpr) l = true -> forallb jf (fst (visit_stmts_with V l s)) = true).
Proof.
  intros Hl s HS. unfold visit_stmts_with.
  destruct (visit_list_plain l Hl MExpr (enter_scope s) (Sj_enter s) not_nl_expr) as [S1 A1].
  destruct (visit_list_with V MExpr l (enter_scope s)) as [l' s1]. cbn [fst snd] in *.
  split; [apply Sj_leave; exact HS|].
  intros G. rewrite forallb_app, (jf_pending _ S1), (A1 G). reflexivity.
Qed.

(* attribute and child lists: every item comes back [ready] *)
Lemma visit_jsx_list_plain q l : (q = PAttr \/ q = PChild) -> Forall Pv l -> forall s, Sj s ->
  Sj (snd (visit_jsx_list_with V l s))
  /\ (forallb (gram q) l = true -> forallb ready (fst (visit_jsx_list_with V l s)) = true).
Proof.
  intros Hq. induction 1 as [|x r Hx Hr IH]; intros s HS; [split; [exact HS|reflexivity]|].
  cbn [visit_jsx_list_with].
  destruct (Hx (jsx_item_mode x) s HS) as (S1 & _ & _ & C1 & D1 & _).
  destruct (V (jsx_item_mode x) x s) as [x' s1]. cbn [fst snd] in *.
  destruct (IH s1 S1) as [S2 A2]. destruct (visit_jsx_list_with V r s1) as [r' s2]. cbn [fst snd] in *.
  split; [exact S2|]. intros G. cbn [forallb] in *. apply andb_true_iff in G. destruct G as [G1 G2].
  rewrite (A2 G2), andb_true_r.
  destruct Hq as [-> | ->]; [|apply D1; [exact G1|reflexivity]].
  apply C1; [exact G1|]. destruct x; try discriminate G1; reflexivity.
Qed.

Lemma visit_jsx_list_shape l : forall s,
  forallb (gram PAttr) l = true -> forallb attr_shape (fst (visit_jsx_list_with V l s)) = true.
Proof.
  induction l as [|x r IH]; intros s G; [reflexivity|].
  cbn [forallb] in G. apply andb_true_iff in G. destruct G as [G1 G2].
  cbn [visit_jsx_list_with].
  assert (HX : attr_shape (fst (V (jsx_item_mode x) x s)) = true).
  { destruct x; try discriminate G1; unfold V; cbn [visit jsx_item_mode].
    - match goal with |- context [visit ?a ?b ?c ?d ?e ?f] => destruct (visit a b c d e f) end. reflexivity.
    - match goal with |- context [visit ?a ?b ?c ?d ?e ?f] => destruct (visit a b c d e f) end. reflexivity. }
  destruct (V (jsx_item_mode x) x s) as [x' s1]. cbn [fst] in HX.
  specialize (IH s1 G2). destruct (visit_jsx_list_with V r s1) as [r' s2]. cbn [fst forallb] in *.
  rewrite HX, IH. reflexivity.
Qed.

(* a generic object keeps its type tag *)
Lemma obj_head_kept l m s :
  obj_head_ok l = true -> is_jsx_node (NObj (fst (visit_list_with V m l s))) = false.
Proof.
  intros H. destruct l as [|x r]; [reflexivity|]. cbn [obj_head_ok] in H.
  destruct x; try discriminate H.
  cbn [visit_list_with]. unfold V at 1. cbn [visit]. fold V.
  match goal with |- context [V ?m' ?v s] => set (mm := m') end.
  destruct (sq "type" k) eqn:Ek.
  - destruct x; try discriminate H. destruct j; try discriminate H.
    unfold V at 1. cbn [visit]. destruct (visit_list_with V m r s) as [r' s2].
    cbn [fst is_jsx_node ntype]. rewrite Ek. apply negb_true_iff in H. exact H.
  - destruct (V mm x s) as [v' s1]. destruct (visit_list_with V m r s1) as [r' s2].
    cbn [fst is_jsx_node ntype]. destruct v'; try reflexivity. destruct j; try reflexivity.
    rewrite Ek. reflexivity.
Qed.

Ltac vac := repeat split; try (cbn; intros; discriminate).
Ltac stepM H x mm s HS Hm :=
  let S1 := fresh "S" in let A1 := fresh "A" in let s1 := fresh "s" in let x' := fresh "x" in
  pose proof (Pv_S x mm s H HS) as S1; pose proof (fun G => Pv_A x mm s H HS G Hm) as A1;
  destruct (V mm x s) as [x' s1]; cbn [fst snd] in S1, A1.
Ltac stepE H x s HS := stepM H x MExpr s HS not_nl_expr.
Ltac stepL H l mm s HS Hm :=
  let S1 := fresh "S" in let A1 := fresh "A" in let s1 := fresh "s" in let l' := fresh "l" in
  destruct (visit_list_plain l H mm s HS Hm) as [S1 A1];
  destruct (visit_list_with V mm l s) as [l' s1]; cbn [fst snd] in S1, A1.
Ltac gsplit G := cbn [gram isE isA isC negb andb] in G; rewrite ?gram_list in G;
  repeat match type of G with (_ && _) = true => let G2 := fresh "G" in
           apply andb_true_iff in G; destruct G as [G G2] end.
Ltac andsplit := repeat (apply andb_true_iff; split); auto.
Ltac opening := unfold Claim, V; cbn [visit]; fold V.

Lemma ready_JAttr_el nm v : is_el v = true -> ready (JAttr nm v) = ready v.
Proof. destruct v; try discriminate; reflexivity. Qed.

Theorem visit_plain : forall n, Pv n.
Proof.
  apply node_ind'; unfold Pv.
  - (* NScalar *) intros j m s HS. split; [exact HS|]. vac.
  - (* NArr *)
    intros l Hl m s HS. opening.
    assert (Hdef : Claim (NArr l) m (let '(l', s0) := visit_list_with V MExpr l s in (NArr l', s0))).
    { stepL Hl l MExpr s HS not_nl_expr. split; [exact S|]. split; [|vac].
      intros G _. gsplit G. cbn [fst]. rewrite jf_NArr. auto. }
    destruct m; try exact Hdef.
    destruct (visit_stmts_plain l Hl s HS) as [S1 A1].
    destruct (visit_stmts_with V l s) as [l' s1]. cbn [fst snd] in *.
    split; [exact S1|]. split; [|vac]. intros G _. gsplit G. cbn [fst]. rewrite jf_NArr. auto.
  - (* NObj *)
    intros l Hl m s HS. opening.
    destruct (sq "SwitchCase" (ntype (NObj l))) eqn:Esw.
    + pose proof (obj_head_kept l MSwitch s) as Hh.
      stepL Hl l MSwitch s HS not_nl_switch. split; [exact S|]. split; [|vac].
      intros G _. gsplit G. cbn [fst] in *. apply jf_NObj_fields; auto.
    + pose proof (obj_head_kept l MExpr s) as Hh.
      stepL Hl l MExpr s HS not_nl_expr. cbn [fst] in Hh.
      assert (Hj : gram PExpr (NObj l) = true -> jf (NObj l0) = true).
      { intros G. gsplit G. apply jf_NObj_fields; auto. }
      destruct (sq "ImportDeclaration" (ntype (NObj l))).
      { split; [apply Sj_post_import; exact S|]. split; [|vac]. intros G _. exact (Hj G). }
      destruct (sq "VariableDeclarator" (ntype (NObj l))).
      { split; [apply Hhd_S; exact S|]. split; [|vac]. intros G _. apply Hhd_j. exact (Hj G). }
      split; [exact S|]. split; [|vac]. intros G _. exact (Hj G).
  - (* Field *)
    intros k v Hv m s HS. opening.
    match goal with |- context [V ?m' v s] => set (mm := m') end.
    assert (Hm : mm <> MNoLower).
    { subst mm. destruct m; try discriminate. destruct (sq "consequent" k); discriminate. }
    stepM Hv v mm s HS Hm. split; [exact S|]. split; [|vac].
    intros G _. gsplit G. cbn [fst]. rewrite jf_Field. auto.
  - (* Ident *) intros sy c o m s HS. split; [exact HS|]. vac.
  - (* BIdent *)
    intros sy c o t Ht m s HS. opening. stepE Ht t s HS. split; [exact S|]. split; [|vac].
    intros G _. gsplit G. cbn [fst]. change (jf (BIdent sy c o x)) with (jf x). auto.
  - (* IdName *) intros sy m s HS. split; [exact HS|]. vac.
  - (* Str *) intros v w Hw m s HS. opening. split; [exact HS|]. split; [|vac].
    intros G _. gsplit G. cbn [fst]. rewrite jf_Str. exact G.
  - (* Num *) intros v w Hw m s HS. opening. split; [exact HS|]. split; [|vac].
    intros G _. gsplit G. cbn [fst]. change (jf (Num v w)) with (jf w). exact G.
  - (* Bool *) intros b m s HS. split; [exact HS|]. vac.
  - (* Null *) intros m s HS. split; [exact HS|]. vac.
  - (* Arr *)
    intros l Hl m s HS. opening. stepL Hl l MExpr s HS not_nl_expr. split; [exact S|]. split; [|vac].
    intros G _. gsplit G. cbn [fst]. rewrite jf_Arr. auto.
  - (* Elem *)
    intros sp e He m s HS. opening. stepE He e s HS. split; [exact S|]. split; [|vac].
    intros G _. gsplit G. cbn [fst]. rewrite jf_Elem. auto.
  - (* Hole *) intros m s HS. split; [exact HS|]. vac.
  - (* Obj *)
    intros l Hl m s HS. opening. stepL Hl l MExpr s HS not_nl_expr. split; [exact S|]. split; [|vac].
    intros G _. gsplit G. cbn [fst]. rewrite jf_Obj. auto.
  - (* KV *)
    intros k v Hk Hv m s HS. opening. stepE Hk k s HS. stepE Hv v s0 S. split; [exact S0|]. split; [|vac].
    intros G _. gsplit G. cbn [fst]. rewrite jf_KV. andsplit.
  - (* Computed *)
    intros e He m s HS. opening. stepE He e s HS. split; [exact S|]. split; [|vac].
    intros G _. gsplit G. cbn [fst]. rewrite jf_Computed. auto.
  - (* Spread *)
    intros e He m s HS. opening. stepE He e s HS. split; [exact S|].
    split; [intros G _; gsplit G; cbn [fst]; rewrite jf_Spread; auto|].
    split; [vac|]. split; [|vac].
    intros G _. gsplit G. cbn [fst ready]. auto.
  - (* Call *)
    intros sy c f a t Hf Ha Ht m s HS. opening. stepE Hf f s HS. stepL Ha a MExpr s0 S not_nl_expr.
    split; [apply Hhc_S; exact S0|]. split; [|vac].
    intros G _. gsplit G. apply Hhc_j. rewrite jf_Call. andsplit.
  - (* Arrow *)
    intros c ps b a g tp rt Hps Hb Htp Hrt m s HS. opening.
    stepL Hps ps MExpr s HS not_nl_expr. stepE Hb b (enter_scope s0) (Sj_enter s0).
    split; [apply Sj_leave; exact S|]. split; [|vac].
    intros G _. gsplit G. cbn [fst]. rewrite jf_Arrow.
    assert (Hb' : jf x = true) by auto.
    pose proof (jf_arrow_decls _ S0) as Hd.
    andsplit.
    destruct (arrow_decls s1) as [|d ds]; [exact Hb'|].
    destruct (is_block x); [exact Hb'|].
    rewrite jf_Block, forallb_app, Hd. cbn [forallb]. rewrite jf_mk_return by exact Hb'. reflexivity.
  - (* Assign *)
    intros o l r Hl Hr m s HS. opening.
    assert (Hdef : Claim (Assign o l r) m
                     (let '(l', s0) := V MExpr l s in
                      let '(r', s1) := V MExpr r s0 in (Assign o l' r', s1))).
    { stepE Hl l s HS. stepE Hr r s0 S. split; [exact S0|]. split; [|vac].
      intros G _. gsplit G. cbn [fst]. rewrite jf_Assign. andsplit. }
    destruct l; try exact Hdef. clear Hdef.
    match goal with |- context [V MExpr (BIdent ?sy ?cc ?oo ?tt) ?s0] =>
      pose proof (Pv_S _ MExpr s0 Hl (Sj_set_assign_left _ _ HS)) as S1;
      pose proof (fun G => Pv_A _ MExpr s0 Hl (Sj_set_assign_left _ _ HS) G not_nl_expr) as A1;
      destruct (V MExpr (BIdent sy cc oo tt) s0) as [l' s1] end.
    cbn [fst snd] in *. stepE Hr r s1 S1.
    split; [apply Sj_set_assign_left; exact S|]. split; [|vac].
    intros G _. gsplit G. cbn [fst]. rewrite jf_Assign. andsplit.
  - (* Paren *)
    intros e He m s HS. opening. stepE He e s HS. split; [exact S|]. split; [|vac].
    intros G _. gsplit G. cbn [fst]. rewrite jf_Paren. auto.
  - (* Cond *)
    intros t c a Ht Hc Ha m s HS. opening. stepE Ht t s HS. stepE Hc c s0 S. stepE Ha a s1 S0.
    split; [exact S1|]. split; [|vac].
    intros G _. gsplit G. cbn [fst]. rewrite jf_Cond. andsplit.
  - (* Bin *)
    intros o l r Hl Hr m s HS. opening. stepE Hl l s HS. stepE Hr r s0 S. split; [exact S0|]. split; [|vac].
    intros G _. gsplit G. cbn [fst]. rewrite jf_Bin. andsplit.
  - (* Unary *)
    intros o a Ha m s HS. opening. stepE Ha a s HS. split; [exact S|]. split; [|vac].
    intros G _. gsplit G. cbn [fst]. rewrite jf_Unary. auto.
  - (* Member *)
    intros o p Ho Hp m s HS. opening. stepE Ho o s HS. stepE Hp p s0 S. split; [exact S0|]. split; [|vac].
    intros G _. gsplit G. cbn [fst]. change (jf (Member x x0)) with (jf x && jf x0). andsplit.
  - (* Block *)
    intros c l Hl m s HS. opening.
    destruct (visit_stmts_plain l Hl s HS) as [S1 A1].
    destruct (visit_stmts_with V l s) as [l' s1]. cbn [fst snd] in *.
    split; [exact S1|]. split; [|vac]. intros G _. gsplit G. rewrite jf_Block. auto.
  - (* JsxE *)
    intros nm ats sc ta ch cl Hnm Hats Hta Hch Hcl m s HS. opening.
    destruct (visit_jsx_list_plain PAttr ats (or_introl eq_refl) Hats s HS) as [S1 A1].
    pose proof (visit_jsx_list_shape ats s) as SH1.
    destruct (visit_jsx_list_with V ats s) as [ats' s1] eqn:EVA. cbn [fst snd] in *.
    pose proof (Sj_decouple ats' s1 S1) as S2. pose proof (ready_decouple ats' s1) as A2.
    pose proof (shape_decouple ats' s1) as SH2.
    destruct (decouple_attrs ats' s1) as [ats'' s2]. cbn [fst snd] in *.
    destruct (visit_jsx_list_plain PChild ch (or_intror eq_refl) Hch s2 S2) as [S3 A3].
    destruct (visit_jsx_list_with V ch s2) as [ch' s3]. cbn [fst snd] in *.
    assert (Hready : gram PExpr (JsxE nm ats sc ta ch cl) = true ->
                     ready (JsxE nm ats'' sc ta ch' cl) = true).
    { intros G. gsplit G. cbn [ready]. rewrite ready_list, ready_attrs_list. andsplit.
      apply ready_attr_of; auto. }
    assert (Hlow : Claim (JsxE nm ats sc ta ch cl) MExpr (lower_el E (JsxE nm ats'' sc ta ch' cl) s3)).
    { split; [exact (grow_Sj _ _ (lower_el_grow E _ s3) S3)|]. split; [|vac].
      intros G _. apply lower_el_jsx_free; [reflexivity|exact (Hready G)]. }
    destruct m.
    + exact Hlow.
    + split; [exact S3|]. split; [intros _ H; contradiction H; reflexivity|].
      split; [intros G _ _; split; [exact (Hready G)|reflexivity]|].
      split; [vac|]. split; [|vac]. intros G _. apply Hready. exact G.
    + destruct Hlow as (L1 & L2 & _). split; [exact L1|]. split; [intros G _; apply L2; [exact G|discriminate]|vac].
    + destruct Hlow as (L1 & L2 & _). split; [exact L1|]. split; [intros G _; apply L2; [exact G|discriminate]|vac].
  - (* JsxF *)
    intros ch Hch m s HS. opening.
    destruct (visit_jsx_list_plain PChild ch (or_intror eq_refl) Hch s HS) as [S3 A3].
    destruct (visit_jsx_list_with V ch s) as [ch' s3]. cbn [fst snd] in *.
    assert (Hready : gram PExpr (JsxF ch) = true -> ready (JsxF ch') = true).
    { intros G. gsplit G. cbn [ready]. rewrite ready_list. auto. }
    assert (Hlow : Claim (JsxF ch) MExpr (lower_el E (JsxF ch') s3)).
    { split; [exact (grow_Sj _ _ (lower_el_grow E _ s3) S3)|]. split; [|vac].
      intros G _. apply lower_el_jsx_free; [reflexivity|exact (Hready G)]. }
    destruct m.
    + exact Hlow.
    + split; [exact S3|]. split; [intros _ H; contradiction H; reflexivity|].
      split; [intros G _ _; split; [exact (Hready G)|reflexivity]|].
      split; [vac|]. split; [|vac]. intros G _. apply Hready. exact G.
    + destruct Hlow as (L1 & L2 & _). split; [exact L1|]. split; [intros G _; apply L2; [exact G|discriminate]|vac].
    + destruct Hlow as (L1 & L2 & _). split; [exact L1|]. split; [intros G _; apply L2; [exact G|discriminate]|vac].
  - (* JAttr *)
    intros nm v Hnm Hv m s HS. opening.
    destruct (Hv (jsx_item_mode v) s HS) as (S1 & _ & B1 & _ & _ & E1).
    destruct (V (jsx_item_mode v) v s) as [v' s1] eqn:EV. cbn [fst snd] in *.
    split; [exact S1|]. split; [vac|]. split; [vac|]. split; [|vac].
    intros G _. cbn [gram isA andb] in G.
    destruct v; try discriminate G.
    + (* no value *) destruct j; try discriminate G.
      unfold V in EV. cbn [visit jsx_item_mode] in EV. inversion EV; subst. reflexivity.
    + (* string *) unfold V in EV. cbn [visit jsx_item_mode] in EV. inversion EV; subst. exact G.
    + (* element *)
      destruct (B1 G eq_refl eq_refl) as [R1 R2]. rewrite ready_JAttr_el by exact R2. exact R1.
    + (* fragment *)
      destruct (B1 G eq_refl eq_refl) as [R1 R2]. rewrite ready_JAttr_el by exact R2. exact R1.
    + (* container *)
      apply andb_true_iff in G. destruct G as [_ G].
      destruct (E1 _ eq_refl G eq_refl) as [e' [-> He']]. exact He'.
  - (* JNs *) intros a b Ha Hb m s HS. split; [exact HS|]. vac.
  - (* JExprC *)
    intros e He m s HS. opening.
    destruct (is_jempty e) eqn:Ej.
    + destruct e; try discriminate Ej. unfold V. cbn [visit fst snd].
      split; [exact HS|]. split; [vac|]. split; [vac|]. split; [vac|].
      split; [reflexivity|]. intros e0 He0 G. inversion He0; subst. discriminate G.
    + stepE He e s HS. split; [exact S|]. split; [vac|]. split; [vac|]. split; [vac|].
      split.
      * intros G _. cbn [gram isC andb] in G. rewrite Ej in G. cbn [orb] in G.
        apply ready_JExprC. auto.
      * intros e0 He0 G _. inversion He0; subst. exists x. split; [reflexivity|auto].
  - (* JEmpty *) intros m s HS. split; [exact HS|]. vac.
  - (* JText *) intros v w m s HS. split; [exact HS|]. vac.
  - (* JSpreadChild *)
    intros e He m s HS. opening. stepE He e s HS. split; [exact S|]. split; [vac|]. split; [vac|].
    split; [vac|]. split; [|vac]. intros G _. gsplit G. cbn [fst ready]. auto.
Qed.


(* ---- the module ------------------------------------------------------------------------- *)
Variable collect_ts_decls : node -> st -> st.
Hypothesis Hct_S : forall n s, Sj s -> Sj (collect_ts_decls n s).

Lemma Sj_search_pragmas gs s : Sj s -> Sj (search_pragmas gs s).
Proof.
  unfold search_pragmas. revert s. induction gs as [|g r IH]; intros s H; [exact H|].
  cbn [fold_left]. apply IH. destruct (pragma_of_group g); [|exact H]. destruct s; exact H.
Qed.

Lemma jf_build_slot_helper h v c : jf h = true -> jf v = true -> jf (build_slot_helper h v c) = true.
Proof.
  intros Hh Hv. unfold build_slot_helper, mk_fn_decl, fn_fields, mk_param, gobj, fld.
  apply jf_NObj_fields; [reflexivity|].
  cbn [forallb]. rewrite !jf_Field, Hh, jf_Block. cbn [forallb]. rewrite jf_mk_return; [reflexivity|].
  rewrite !jf_Bin, !jf_Unary. rewrite (jf_mk_call v); [reflexivity|exact Hv|reflexivity].
Qed.

Lemma jf_mk_import specs src : forallb jf specs = true -> jf (mk_import specs src) = true.
Proof.
  intros H. unfold mk_import, gobj, fld. apply jf_NObj_fields; [reflexivity|].
  cbn [forallb]. rewrite !jf_Field, jf_NArr, H. reflexivity.
Qed.

Lemma jf_import_specs names : forallb jf (map mk_import_spec names) = true.
Proof. induction names as [|x r IH]; [reflexivity|]. cbn [map forallb]. rewrite IH. reflexivity. Qed.

Lemma finish_module_plain items s :
  Sj s -> forallb jf items = true -> forallb jf (fst (finish_module items s)) = true.
Proof.
  intros [H1 H2] Hi. unfold finish_module.
  set (items1 := match inj_consts s with [] => items | cs => mk_var_decl "const" cs :: items end).
  assert (J1 : forallb jf items1 = true).
  { subst items1. destruct (inj_consts s) eqn:Ec; [exact Hi|]. cbn [forallb].
    rewrite jf_mk_var_decl by exact H2. exact Hi. }
  set (s1 := set_inj_consts [] s).
  assert (V1 : inj_vars s1 = inj_vars s) by (destruct s; reflexivity).
  destruct (match inj_vars s1 with
            | [] => (items1, s1)
            | vs => (mk_var_decl "let" vs :: items1, set_slot_counter 1 (set_inj_vars [] s1))
            end) as [items2 s2] eqn:E2.
  assert (J2 : forallb jf items2 = true).
  { rewrite V1 in E2. destruct (inj_vars s) eqn:Ev; injection E2 as <- <-; [exact J1|].
    cbn [forallb]. rewrite jf_mk_var_decl by exact H1. exact J1. }
  destruct (slot_helper s2).
  - pose proof (jf_import "isVNode"%string s2) as Hv.
    destruct (import_from_vue "isVNode"%string s2) as [isv s3].
    destruct (fresh_ident (s_ "s") s3) as [[x ctx] s4]. cbn [fst] in *.
    assert (J3 : jf (build_slot_helper slot_helper_ident isv ctx) = true)
      by (apply jf_build_slot_helper; [reflexivity|exact Hv]).
    destruct (ton_helper s4); destruct (imports s4); cbn [fst forallb];
      rewrite ?jf_mk_import, ?J3, ?J2 by (try apply jf_import_specs; reflexivity); reflexivity.
  - destruct (ton_helper s2); destruct (imports s2); cbn [fst forallb];
      rewrite ?jf_mk_import, ?J2 by (try apply jf_import_specs; reflexivity); reflexivity.
Qed.

Lemma module_plain_shape kt t kb items ki iv :
  let m := NObj [Field kt (NScalar t); Field kb (NArr items); Field ki (NScalar iv)] in
  gram PExpr m = true ->
  jf (fst (transform_module E hook_call hook_declarator collect_ts_decls m)) = true.
Proof.
  intros m G. subst m. unfold transform_module. fold V.
  cbn [gram isE andb] in G. rewrite ?gram_list in G.
  apply andb_true_iff in G. destruct G as [Gh G]. rewrite ?andb_true_r in G.
  match goal with |- context [visit_list_with V MExpr items ?s] => set (s0 := s) end.
  assert (S0 : Sj s0) by (apply Hct_S, Sj_search_pragmas, Sj_st0).
  destruct (visit_list_plain items (proj2 (Forall_forall Pv items) (fun x _ => visit_plain x)) MExpr s0 S0 not_nl_expr)
    as [S1 A1].
  destruct (visit_list_with V MExpr items s0) as [items' s1]. cbn [fst snd] in *.
  pose proof (finish_module_plain items' s1 S1 (A1 G)) as F.
  destruct (finish_module items' s1) as [items'' s2]. cbn [fst] in *.
  apply jf_NObj_fields.
  - cbn [obj_head_ok] in Gh. cbn [is_jsx_node ntype].
    destruct t; try reflexivity. destruct (sq "type" kt); [|reflexivity].
    apply negb_true_iff in Gh. exact Gh.
  - cbn [forallb]. rewrite !jf_Field, jf_NArr, F. reflexivity.
Qed.

Theorem module_plain m :
  module_shape m = true -> gram PExpr m = true ->
  jf (fst (transform_module E hook_call hook_declarator collect_ts_decls m)) = true.
Proof.
  intros Hs. unfold module_shape in Hs.
  repeat (match type of Hs with context [match ?x with _ => _ end] => is_var x; destruct x end;
          try discriminate Hs).
  apply module_plain_shape.
Qed.

End VisitPlain.
