(* The traversal of any node leaves the traversal-scoped state as it found it (C10): outside an
   assignment no assignment target is pending, and the slot-flag stack has its former length.
   So every statement of a module is visited in a state whose only element-visible difference
   from the initial state is the pair of counters that name temporaries. *)
From Coq Require Import Lia.
From VJ Require Import Model.Str Model.Json Model.Ast Model.State Model.Util Model.Text
  Model.Directive Model.Lower Model.Visitor Lemmas.NodeInd Lemmas.BalProofs.

Section VisitBal.
Variable E : env.
Variable hook_call hook_declarator : node -> st -> node * st.
Hypothesis Hhc : forall n s, bal s (snd (hook_call n s)).
Hypothesis Hhd : forall n s, bal s (snd (hook_declarator n s)).

Let V := visit E hook_call hook_declarator.

Definition Bv (n : node) : Prop := forall m s, bal s (snd (V m n s)).

Lemma bal_visit_list l : Forall Bv l -> forall m s, bal s (snd (visit_list_with V m l s)).
Proof.
  induction 1 as [|x r Hx Hr IH]; intros m s; [apply bal_refl|].
  cbn [visit_list_with]. pose proof (Hx m s) as H1. destruct (V m x s) as [x' s1]. cbn [snd] in H1.
  pose proof (IH m s1) as H2. destruct (visit_list_with V m r s1) as [r' s2]. cbn [snd] in *.
  eapply bal_trans; eassumption.
Qed.

Lemma bal_visit_jsx_list l : Forall Bv l -> forall s, bal s (snd (visit_jsx_list_with V l s)).
Proof.
  induction 1 as [|x r Hx Hr IH]; intros s; [apply bal_refl|].
  cbn [visit_jsx_list_with]. pose proof (Hx (jsx_item_mode x) s) as H1.
  destruct (V (jsx_item_mode x) x s) as [x' s1]. cbn [snd] in H1.
  pose proof (IH s1) as H2. destruct (visit_jsx_list_with V r s1) as [r' s2]. cbn [snd] in *.
  eapply bal_trans; eassumption.
Qed.

Lemma bal_enter s : bal s (enter_scope s).
Proof. unfold enter_scope. destruct s; split; auto. Qed.
Lemma bal_leave outer s : bal s (leave_scope outer s).
Proof. unfold leave_scope. destruct s; split; auto. Qed.

Lemma bal_visit_stmts l : Forall Bv l -> forall s, bal s (snd (visit_stmts_with V l s)).
Proof.
  intros Hl s. unfold visit_stmts_with.
  pose proof (bal_visit_list l Hl MExpr (enter_scope s)) as H1.
  destruct (visit_list_with V MExpr l (enter_scope s)) as [l' s1]. cbn [snd] in *.
  eapply bal_trans; [apply bal_enter|]. eapply bal_trans; [exact H1|apply bal_leave].
Qed.

Lemma bal_decouple attrs s : bal s (snd (decouple_attrs attrs s)).
Proof.
  unfold decouple_attrs. destruct (split_at_vmodels attrs) as [[[pre v] post]|]; [|apply bal_refl].
  destruct v; try apply bal_set_diags.
  match goal with |- context [match ?e with JEmpty => _ | _ => _ end] => destruct e end;
    try apply bal_set_diags; apply bal_refl.
Qed.

Lemma bal_post_import n s : bal s (post_import n s).
Proof.
  unfold post_import.
  repeat match goal with |- context [match ?x with _ => _ end] => destruct x end;
    try apply bal_refl; destruct s; split; auto.
Qed.

Ltac step H x m s :=
  let H1 := fresh "B" in let s1 := fresh "s" in let x' := fresh "x" in
  pose proof (H m s) as H1; destruct (V m x s) as [x' s1]; cbn [snd] in H1.
Ltac chain := cbn [snd]; repeat first [eassumption | apply bal_refl | eapply bal_trans; [eassumption|]].

Theorem visit_bal : forall n, Bv n.
Proof.
  apply node_ind'; unfold Bv; try (intros; apply bal_refl).
  - (* NArr *)
    intros l Hl m s. unfold V. cbn [visit]. fold V.
    destruct m;
      try (pose proof (bal_visit_list l Hl MExpr s) as H1; destruct (visit_list_with V MExpr l s); exact H1).
    pose proof (bal_visit_stmts l Hl s) as H1. destruct (visit_stmts_with V l s). exact H1.
  - (* NObj *)
    intros l Hl m s. unfold V. cbn [visit]. fold V.
    destruct (sq "SwitchCase" (ntype (NObj l))).
    + pose proof (bal_visit_list l Hl MSwitch s) as H1. destruct (visit_list_with V MSwitch l s). exact H1.
    + pose proof (bal_visit_list l Hl MExpr s) as H1. destruct (visit_list_with V MExpr l s) as [l' s1].
      cbn [snd] in H1.
      destruct (sq "ImportDeclaration" (ntype (NObj l))).
      { cbn [snd]. eapply bal_trans; [exact H1|apply bal_post_import]. }
      destruct (sq "VariableDeclarator" (ntype (NObj l))).
      { eapply bal_trans; [exact H1|apply Hhd]. }
      exact H1.
  - (* Field *)
    intros k v Hv m s. unfold V. cbn [visit]. fold V.
    match goal with |- context [V ?m' v s] => step Hv v m' s end. chain.
  - (* BIdent *)
    intros sy c o t Ht m s. unfold V. cbn [visit]. fold V. step Ht t MExpr s. chain.
  - (* Arr *)
    intros l Hl m s. unfold V. cbn [visit]. fold V.
    pose proof (bal_visit_list l Hl MExpr s) as H1. destruct (visit_list_with V MExpr l s). exact H1.
  - (* Elem *)
    intros sp e He m s. unfold V. cbn [visit]. fold V. step He e MExpr s. chain.
  - (* Obj *)
    intros l Hl m s. unfold V. cbn [visit]. fold V.
    pose proof (bal_visit_list l Hl MExpr s) as H1. destruct (visit_list_with V MExpr l s). exact H1.
  - (* KV *)
    intros k v Hk Hv m s. unfold V. cbn [visit]. fold V. step Hk k MExpr s. step Hv v MExpr s0. chain.
  - (* Computed *)
    intros e He m s. unfold V. cbn [visit]. fold V. step He e MExpr s. chain.
  - (* Spread *)
    intros e He m s. unfold V. cbn [visit]. fold V. step He e MExpr s. chain.
  - (* Call *)
    intros sy c f a t Hf Ha Ht m s. unfold V. cbn [visit]. fold V. step Hf f MExpr s.
    pose proof (bal_visit_list a Ha MExpr s0) as H1. destruct (visit_list_with V MExpr a s0) as [a' s1].
    cbn [snd] in H1. eapply bal_trans; [eassumption|]. eapply bal_trans; [exact H1|apply Hhc].
  - (* Arrow *)
    intros c ps b a g tp rt Hps Hb Htp Hrt m s. unfold V. cbn [visit]. fold V.
    pose proof (bal_visit_list ps Hps MExpr s) as H1. destruct (visit_list_with V MExpr ps s) as [ps' s1].
    cbn [snd] in H1. step Hb b MExpr (enter_scope s1). cbn [snd].
    eapply bal_trans; [exact H1|]. eapply bal_trans; [apply bal_enter|].
    eapply bal_trans; [eassumption|apply bal_leave].
  - (* Assign *)
    intros o l r Hl Hr m s. unfold V. cbn [visit]. fold V.
    assert (Hdef : bal s (snd (let '(l', s0) := V MExpr l s in
                               let '(r', s1) := V MExpr r s0 in (Assign o l' r', s1)))).
    { step Hl l MExpr s. step Hr r MExpr s0. chain. }
    destruct l; try exact Hdef.
    (* an identifier target is recorded while the operands are visited, then the outer one is restored *)
    match goal with |- context [V MExpr (BIdent ?sy ?cc ?oo ?tt) ?s0] =>
      pose proof (Hl MExpr s0) as B1; destruct (V MExpr (BIdent sy cc oo tt) s0) as [l' s1] end.
    cbn [snd] in B1.
    pose proof (Hr MExpr s1) as B2. destruct (V MExpr r s1) as [r' s9]. cbn [snd] in *.
    destruct B1 as [_ L1]. destruct B2 as [_ L2].
    split.
    + intros HA. destruct s9; cbn. exact HA.
    + destruct s, s9; cbn in *. congruence.
  - (* Paren *)
    intros e He m s. unfold V. cbn [visit]. fold V. step He e MExpr s. chain.
  - (* Cond *)
    intros t c a Ht Hc Ha m s. unfold V. cbn [visit]. fold V.
    step Ht t MExpr s. step Hc c MExpr s0. step Ha a MExpr s1. chain.
  - (* Bin *)
    intros o l r Hl Hr m s. unfold V. cbn [visit]. fold V. step Hl l MExpr s. step Hr r MExpr s0. chain.
  - (* Unary *)
    intros o a Ha m s. unfold V. cbn [visit]. fold V. step Ha a MExpr s. chain.
  - (* Member *)
    intros o p Ho Hp m s. unfold V. cbn [visit]. fold V. step Ho o MExpr s. step Hp p MExpr s0. chain.
  - (* Block *)
    intros c l Hl m s. unfold V. cbn [visit]. fold V.
    pose proof (bal_visit_stmts l Hl s) as H1. destruct (visit_stmts_with V l s). exact H1.
  - (* JsxE *)
    intros nm ats sc ta ch cl Hnm Hats Hta Hch Hcl m s. unfold V. cbn [visit]. fold V.
    pose proof (bal_visit_jsx_list ats Hats s) as H1. destruct (visit_jsx_list_with V ats s) as [ats' s1].
    cbn [snd] in H1.
    pose proof (bal_decouple ats' s1) as H2. destruct (decouple_attrs ats' s1) as [ats'' s2]. cbn [snd] in H2.
    pose proof (bal_visit_jsx_list ch Hch s2) as H3. destruct (visit_jsx_list_with V ch s2) as [ch' s3].
    cbn [snd] in H3.
    destruct m; try (eapply bal_trans; [exact H1|]; eapply bal_trans; [exact H2|];
                     eapply bal_trans; [exact H3|apply lower_el_bal]).
    cbn [snd]. eapply bal_trans; [exact H1|]. eapply bal_trans; [exact H2|exact H3].
  - (* JsxF *)
    intros ch Hch m s. unfold V. cbn [visit]. fold V.
    pose proof (bal_visit_jsx_list ch Hch s) as H1. destruct (visit_jsx_list_with V ch s) as [ch' s1].
    cbn [snd] in H1.
    destruct m; try (eapply bal_trans; [exact H1|apply lower_el_bal]). exact H1.
  - (* JAttr *)
    intros nm v Hnm Hv m s. unfold V. cbn [visit]. fold V. step Hv v (jsx_item_mode v) s. chain.
  - (* JExprC *)
    intros e He m s. unfold V. cbn [visit]. fold V. step He e MExpr s. chain.
  - (* JSpreadChild *)
    intros e He m s. unfold V. cbn [visit]. fold V. step He e MExpr s. chain.
Qed.

(* the state in which each statement of a list is visited *)
Definition quiet (s : st) : Prop := assign_left s = None /\ slot_stack s = [].

Lemma bal_quiet s s' : bal s s' -> quiet s -> quiet s'.
Proof.
  intros [B1 B2] [Q1 Q2]. split; [auto|]. rewrite Q2 in B2. destruct (slot_stack s'); [reflexivity|discriminate].
Qed.

Theorem statements_start_quiet pre x post m s :
  quiet s -> quiet (snd (visit_list_with V m pre s))
             /\ fst (visit_list_with V m (pre ++ x :: post) s)
                = fst (visit_list_with V m pre s)
                  ++ fst (V m x (snd (visit_list_with V m pre s)))
                  :: fst (visit_list_with V m post (snd (V m x (snd (visit_list_with V m pre s))))).
Proof.
  intros Q. split.
  - eapply bal_quiet; [|exact Q]. apply bal_visit_list. apply Forall_forall. intros y _. apply visit_bal.
  - clear Q. revert s. induction pre as [|p r IH]; intros s.
    + cbn [app visit_list_with fst snd]. destruct (V m x s) as [x' s1]. cbn [fst snd].
      destruct (visit_list_with V m post s1). reflexivity.
    + cbn [app visit_list_with]. destruct (V m p s) as [p' s1]. specialize (IH s1).
      destruct (visit_list_with V m (r ++ x :: post) s1) as [l1 t1].
      destruct (visit_list_with V m r s1) as [l2 t2]. cbn [fst snd] in *. rewrite IH. reflexivity.
Qed.

End VisitBal.
