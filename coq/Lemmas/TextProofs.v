(* transform_text (model of util.rs) = jsx_clean (the standard rule), for all strings *)
From Coq Require Import Lia Arith PeanoNat.
From VJ Require Import Model.Str Model.Text Spec.JsxText.

Local Notation tab := (replace_char 9 32).

(* ---- L1: the three replace passes + split = single pass line breaker ---- *)
Lemma split_on_cons_ne c x r :
  N.eqb x c = false ->
  split_on c (x :: r) = match split_on c r with [] => [[x]] | p :: ps => (x :: p) :: ps end.
Proof. intros H; cbn [split_on]; rewrite H; reflexivity. Qed.

Lemma lines_split s :
  split_on 10 (replace_char 13 10 (replace_crlf s)) = break_lines s.
Proof.
  induction s as [|c r IH]; [reflexivity|].
  destruct (N.eqb c 13) eqn:E13.
  - apply N.eqb_eq in E13; subst c.
    destruct r as [|d r'].
    + reflexivity.
    + destruct (N.eqb d 10) eqn:E10.
      * apply N.eqb_eq in E10; subst d.
        (* CRLF *)
        change (replace_crlf (13 :: 10 :: r')) with (replace_crlf (10 :: r')).
        change (break_lines (13 :: 10 :: r')) with (break_lines (10 :: r')).
        exact IH.
      * assert (Hr : replace_crlf (13 :: d :: r') = 13 :: replace_crlf (d :: r')).
        { cbn [replace_crlf]. destruct d as [|p]; [reflexivity|].
          destruct p as [p|p|]; try reflexivity;
          destruct p as [p|p|]; try reflexivity;
          destruct p as [p|p|]; try reflexivity;
          destruct p as [p|p|]; try reflexivity. discriminate E10. }
        assert (Hb : break_lines (13 :: d :: r') = [] :: break_lines (d :: r')).
        { cbn [break_lines]. destruct d as [|p]; [reflexivity|].
          destruct p as [p|p|]; try reflexivity;
          destruct p as [p|p|]; try reflexivity;
          destruct p as [p|p|]; try reflexivity;
          destruct p as [p|p|]; try reflexivity. discriminate E10. }
        rewrite Hr, Hb. cbn [replace_char map]. cbn [N.eqb Pos.eqb].
        cbn [split_on]. cbn [N.eqb Pos.eqb]. f_equal. exact IH.
  - assert (Hr : replace_crlf (c :: r) = c :: replace_crlf r).
    { cbn [replace_crlf]. destruct c as [|p]; [reflexivity|].
      destruct p as [p|p|]; try reflexivity;
      destruct p as [p|p|]; try reflexivity;
      destruct p as [p|p|]; try reflexivity;
      destruct p as [p|p|]; try reflexivity. discriminate E13. }
    assert (Hb : break_lines (c :: r) =
                 if N.eqb c 10 || N.eqb c 13 then [] :: break_lines r
                 else match break_lines r with [] => [[c]] | l :: ls => (c :: l) :: ls end).
    { cbn [break_lines]. destruct c as [|p]; [reflexivity|].
      destruct p as [p|p|]; try reflexivity;
      destruct p as [p|p|]; try reflexivity;
      destruct p as [p|p|]; try reflexivity;
      destruct p as [p|p|]; try reflexivity. discriminate E13. }
    rewrite Hr, Hb, E13. unfold replace_char; cbn [map]; fold (replace_char 13 10 (replace_crlf r)).
    rewrite E13. rewrite orb_false_r.
    cbn [split_on]. destruct (N.eqb c 10); rewrite IH; reflexivity.
Qed.

(* ---- L2a: tab replacement commutes with splitting at LF ---- *)
Lemma split_tab s : split_on 10 (tab s) = map tab (split_on 10 s).
Proof.
  induction s as [|c r IH]; [reflexivity|].
  unfold replace_char in *; cbn [map split_on].
  destruct (N.eqb c 9) eqn:E9.
  - apply N.eqb_eq in E9; subst c. cbn [N.eqb Pos.eqb].
    rewrite IH. destruct (split_on 10 r); reflexivity.
  - destruct (N.eqb c 10) eqn:E10.
    + rewrite IH. reflexivity.
    + rewrite IH. destruct (split_on 10 r); cbn [map]; rewrite ?E9; reflexivity.
Qed.

(* ---- L2b: trimming spaces after tab replacement = dropping blanks before it ---- *)
Lemma trim_start_tab l : trim_start_c 32 (tab l) = tab (drop_leading_blanks l).
Proof.
  induction l as [|c r IH]; [reflexivity|].
  unfold replace_char in *; cbn [map trim_start_c drop_leading_blanks].
  unfold is_blank.
  destruct (N.eqb c 9) eqn:E9.
  - rewrite orb_true_r. cbn [N.eqb Pos.eqb]. exact IH.
  - rewrite orb_false_r. destruct (N.eqb c 32) eqn:E32.
    + exact IH.
    + cbn [map]. rewrite E9. reflexivity.
Qed.

(* generic right-drop by fold = rev . left-drop . rev *)
Definition dropl (P : N -> bool) : str -> str :=
  fix go s := match s with c :: r => if P c then go r else s | [] => [] end.
Definition dropr (P : N -> bool) (s : str) : str :=
  fold_right (fun c acc => match acc with [] => if P c then [] else [c] | _ => c :: acc end) [] s.

Lemma dropr_snoc_keep P l c : P c = false -> dropr P (l ++ [c]) = l ++ [c].
Proof.
  intros Hc. unfold dropr. rewrite fold_right_app. cbn [fold_right]. rewrite Hc.
  induction l as [|x l IH]; [reflexivity|].
  cbn [fold_right app]. rewrite IH. destruct l; reflexivity.
Qed.

Lemma dropr_snoc_drop P l c : P c = true -> dropr P (l ++ [c]) = dropr P l.
Proof. intros Hc. unfold dropr. rewrite fold_right_app. cbn [fold_right]. rewrite Hc. reflexivity. Qed.

Lemma dropr_rev P l : rev (dropl P (rev l)) = dropr P l.
Proof.
  induction l as [|c l IH] using rev_ind; [reflexivity|].
  rewrite rev_app_distr. cbn [rev app dropl].
  destruct (P c) eqn:Hc.
  - rewrite dropr_snoc_drop by exact Hc. exact IH.
  - rewrite dropr_snoc_keep by exact Hc. cbn [rev]. rewrite rev_involutive. reflexivity.
Qed.

Lemma trim_start_c_dropl c s : trim_start_c c s = dropl (fun x => N.eqb x c) s.
Proof. induction s as [|x r IH]; [reflexivity|]. cbn. rewrite IH. reflexivity. Qed.

Lemma trim_end_c_dropr c s : trim_end_c c s = dropr (fun x => N.eqb x c) s.
Proof. unfold trim_end_c. rewrite trim_start_c_dropl. apply dropr_rev. Qed.

Lemma drop_trailing_dropr s : drop_trailing_blanks s = dropr is_blank s.
Proof. reflexivity. Qed.

Lemma dropr_nil_iff P s : dropr P s = [] <-> forallb P s = true.
Proof.
  induction s as [|c r IH]; [cbn; tauto|].
  cbn [dropr fold_right forallb]. fold (dropr P r).
  destruct (dropr P r) eqn:E.
  - destruct (P c); cbn; split; intros H; try discriminate; try reflexivity.
    apply IH. reflexivity.
  - split; [discriminate|]. intros H. apply andb_true_iff in H. destruct H as [_ H].
    apply IH in H. discriminate.
Qed.

Lemma trim_end_tab l : trim_end_c 32 (tab l) = tab (drop_trailing_blanks l).
Proof.
  rewrite trim_end_c_dropr, drop_trailing_dropr.
  induction l as [|c r IH]; [reflexivity|].
  unfold replace_char in *. cbn [map dropr fold_right].
  fold (dropr (fun x => N.eqb x 32) (map (fun x => if N.eqb x 9 then 32 else x) r)).
  fold (dropr is_blank r).
  rewrite IH.
  destruct (dropr is_blank r) eqn:E; cbn [map].
  - unfold is_blank. destruct (N.eqb c 9) eqn:E9.
    + rewrite orb_true_r. reflexivity.
    + rewrite orb_false_r. destruct (N.eqb c 32); cbn [map]; rewrite ?E9; reflexivity.
  - reflexivity.
Qed.

(* ---- L3: recursive first/last flags = index formulation ---- *)
Lemma tab_nil_iff l : tab l = [] <-> l = [].
Proof. destruct l; cbn; split; intros; try discriminate; reflexivity. Qed.

Lemma clean_line_tab first last l :
  clean_line first last (tab l) =
  tab (let l := if first then l else drop_leading_blanks l in
       if last then l else drop_trailing_blanks l).
Proof.
  unfold clean_line. destruct first, last; cbn zeta;
    rewrite ?trim_start_tab, ?trim_end_tab; reflexivity.
Qed.

Lemma tab_to_space_tab l : tab_to_space l = tab l.
Proof. reflexivity. Qed.

Lemma keep_nonempty (x : str) (R : list str) :
  match x with [] => R | _ :: _ => x :: R end = if nonempty x then x :: R else R.
Proof. destruct x; reflexivity. Qed.

Lemma clean_nth_last n i l : S i = n ->
  clean_nth n i l = tab (if Nat.eqb i 0 then l else drop_leading_blanks l).
Proof. intros H. unfold clean_nth. apply Nat.eqb_eq in H. rewrite H. reflexivity. Qed.

Lemma clean_nth_mid n i l : S i <> n ->
  clean_nth n i l = tab (drop_trailing_blanks (if Nat.eqb i 0 then l else drop_leading_blanks l)).
Proof. intros H. unfold clean_nth. apply Nat.eqb_neq in H. rewrite H. reflexivity. Qed.

Lemma clean_lines_index ls : forall i,
  clean_lines (Nat.eqb i 0) (map tab ls) =
  filter nonempty (mapi_from (clean_nth (i + List.length ls)%nat) i ls).
Proof.
  induction ls as [|l r IH]; intros i; [reflexivity|].
  destruct r as [|l2 r].
  - cbn [map clean_lines mapi_from filter List.length].
    rewrite clean_line_tab. rewrite clean_nth_last by lia.
    cbn zeta. apply keep_nonempty.
  - specialize (IH (S i)).
    change (Nat.eqb (S i) 0) with false in IH.
    change (map tab (l :: l2 :: r)) with (tab l :: map tab (l2 :: r)).
    change (clean_lines (Nat.eqb i 0) (tab l :: map tab (l2 :: r)))
      with (let l' := clean_line (Nat.eqb i 0) false (tab l) in
            match l' with [] => clean_lines false (map tab (l2 :: r))
                        | _ => l' :: clean_lines false (map tab (l2 :: r)) end).
    cbn zeta. rewrite clean_line_tab. rewrite IH.
    cbn [mapi_from filter].
    replace (S i + List.length (l2 :: r))%nat with (i + List.length (l :: l2 :: r))%nat by (cbn; lia).
    rewrite (clean_nth_mid _ i l) by (cbn; lia).
    cbn zeta. apply keep_nonempty.
Qed.

Theorem transform_text_is_jsx_clean : forall s, transform_text s = jsx_clean s.
Proof.
  intros s. unfold transform_text, jsx_clean.
  rewrite split_tab, lines_split.
  f_equal. exact (clean_lines_index (break_lines s) 0).
Qed.
