(* The model's lowering of tags, single attributes, directives, v-model and children refines the
   independent reading of an element in Spec/Site.v (C01, C03, C04, C05, C11). *)
From Coq Require Import Lia.
From VJ Require Import Model.Str Model.Json Model.Ast Model.State Model.Util Model.Text
  Model.Directive Model.Lower Model.Visitor Spec.JsxText Spec.OutViews Spec.Site Spec.SiteCheck Lemmas.StrLemmas
  Lemmas.TextProofs.

(* ---- strings ------------------------------------------------------------------------------ *)
Lemma split_on_nonempty c s : split_on c s <> [].
Proof.
  induction s as [|x r IH]; cbn; [discriminate|].
  destruct (N.eqb x c); [discriminate|]. destruct (split_on c r); discriminate.
Qed.

Lemma strip_v_trim s : strip_v s = trim_start_c 45 (trim_start_c 118 s).
Proof.
  unfold strip_v.
  assert (V : forall t, (fix vs (s0 : str) : str := match s0 with 118 :: r => vs r | _ => s0 end) t
                        = trim_start_c 118 t).
  { induction t as [|x r IH]; [reflexivity|]. cbn [trim_start_c].
    destruct (N.eqb x 118) eqn:Ex.
    - apply N.eqb_eq in Ex. subst x. exact IH.
    - destruct x as [|p]; [reflexivity|].
      repeat (destruct p as [p|p|]; try reflexivity); cbn in Ex; discriminate. }
  assert (D : forall t, (fix dash (s0 : str) : str := match s0 with 45 :: r => dash r | _ => s0 end) t
                        = trim_start_c 45 t).
  { induction t as [|x r IH]; [reflexivity|]. cbn [trim_start_c].
    destruct (N.eqb x 45) eqn:Ex.
    - apply N.eqb_eq in Ex. subst x. exact IH.
    - destruct x as [|p]; [reflexivity|].
      repeat (destruct p as [p|p|]; try reflexivity); cbn in Ex; discriminate. }
  rewrite V, D. reflexivity.
Qed.

Lemma lower_first_eq s : lower_first s = lowercase_first s.
Proof. reflexivity. Qed.

(* ---- C01: the vnode type ------------------------------------------------------------------ *)
(* a tag is an identifier, a namespaced name or a member expression (a generic object);
   identifiers of the source never carry a generated syntax context *)
Definition user_name (name : node) : bool :=
  match name with
  | Ident _ c _ => negb (is_gen_ctx c)
  | JNs _ _ | NObj _ => true
  | _ => false
  end.

Lemma is_gen_helper_ctx n : is_gen_ctx (helper_ctx n) = true.
Proof. unfold is_gen_ctx, helper_ctx. apply N.leb_le. lia. Qed.

Lemma is_helper_import name s : is_helper name (fst (import_from_vue name s)) = true.
Proof.
  unfold import_from_vue, is_helper, mk_ident. cbn [fst].
  rewrite is_gen_helper_ctx. cbn [andb]. apply str_eqb_refl.
Qed.
Arguments is_helper_import _%string_scope _.

Section Site.
Variable E : env.

Lemma transform_tag_type name s :
  user_name name = true -> view_type (fst (transform_tag E name s)) = spec_type E name.
Proof.
  intros U. destruct name; try discriminate U; try reflexivity.
  - (* Ident *)
    cbn [transform_tag spec_type].
    destruct (is_html_or_svg E _); [reflexivity|].
    destruct (sq "Fragment" _) eqn:EF.
    { unfold view_type. pose proof (is_helper_import "Fragment" s) as H.
      destruct (fst (import_from_vue "Fragment" s)) eqn:EI; try discriminate H;
        try (rewrite H; reflexivity).
      all: unfold import_from_vue, mk_ident in EI; cbn in EI; discriminate EI. }
    destruct (pat_any E _); [reflexivity|].
    destruct (N.eqb _ (e_unres E)).
    { destruct (import_from_vue "resolveComponent" s) as [h s'] eqn:EI.
      cbn [fst]. unfold mk_call, view_type. cbn [map].
      replace h with (fst (import_from_vue "resolveComponent" s)) by (rewrite EI; reflexivity).
      rewrite is_helper_import. reflexivity. }
    cbn [fst view_type is_helper]. cbn in U.
    destruct (is_gen_ctx _); [discriminate|]. reflexivity.
  - (* JNs *)
    cbn [transform_tag spec_type].
    repeat match goal with
           | |- context [match ?x with _ => _ end] => is_var x; destruct x; try reflexivity
           end.
Qed.

(* ---- C04 / C05: directive names ----------------------------------------------------------- *)
Definition model_name_parts (name : node) : str * option str * list str :=
  match name with
  | JNs (IdName ns) (IdName nm) =>
      let parts := split_on 95 nm in
      (lowercase_first (trim_start_c 45 (trim_start_c 118 ns)),
       Some (match parts with p :: _ => p | [] => nm end),
       match parts with _ :: r => r | [] => [] end)
  | IdName sym =>
      let parts := split_on 95 (trim_start_c 45 (trim_start_c 118 sym)) in
      (lowercase_first (match parts with p :: _ => p | [] => sym end),
       None,
       match parts with _ :: r => r | [] => [] end)
  | _ => ([], None, [])
  end.

Lemma parse_directive_unfold name value ic s :
  parse_directive name value ic s =
  let '(dname, argument, splitted) := model_name_parts name in
  let argument := match argument with Some a => Some (mk_str a) | None => None end in
  if sq "html" dname then let '(e, s) := parse_html_text "v-html" value s in (DHtml e, s)
  else if sq "text" dname then let '(e, s) := parse_html_text "v-text" value s in (DText e, s)
  else if sq "model" dname then parse_v_model value ic argument splitted s
  else if sq "slots" dname then (parse_v_slots value, s)
  else
    let '(value', argument, modifiers) := normal_parts value argument splitted in
    (DNormal dname
             (if nonempty_mods modifiers then or_void0 argument else argument)
             (match modifiers with Some m => transform_modifiers m false | None => None end)
             value', s).
Proof. reflexivity. Qed.

(* the written name of a directive is read the same way by the transform and by the property *)
Lemma name_parts_spec name d :
  spec_directive_name name = Some d -> model_name_parts name = (dn_name d, dn_arg d, dn_mods d).
Proof.
  unfold spec_directive_name, model_name_parts. intros H.
  repeat match type of H with
         | context [match ?x with _ => _ end] => is_var x; destruct x; try discriminate H
         end.
  - (* IdName *)
    match type of H with (if ?c then _ else _) = _ => destruct c; [|discriminate H] end.
    rewrite strip_v_trim in H.
    destruct (split_on 95 _) as [|nm0 mods0] eqn:ES; [discriminate H|].
    injection H as <-. reflexivity.
  - (* JNs *)
    match type of H with (if ?c then _ else _) = _ => destruct c; [|discriminate H] end.
    destruct (split_on 95 _) as [|nm0 mods0] eqn:ES; [discriminate H|].
    injection H as <-. cbn [dn_name dn_arg dn_mods]. rewrite strip_v_trim. reflexivity.
Qed.

(* a name the property reads as a directive is one for the transform, and conversely *)
Lemma directive_iff name value :
  match name with IdName _ | JNs (IdName _) (IdName _) => True | _ => False end ->
  is_directive (JAttr name value) = match spec_directive_name name with Some _ => true | None => false end.
Proof.
  intros W. unfold is_directive, spec_directive_name, attr_base_name, is_directive_name.
  repeat match goal with
         | |- context [match ?x with _ => _ end] => is_var x; destruct x; try contradiction
         end; try reflexivity.
  all: repeat match goal with
              | |- context [split_on ?c ?t] =>
                  let ES := fresh "ES" in
                  destruct (split_on c t) eqn:ES; [exfalso; exact (split_on_nonempty _ _ ES)|]
              end.
  all: cbv beta zeta iota.
  all: match goal with |- ?c = _ => destruct c end; reflexivity.
Qed.

(* ---- modifiers ---------------------------------------------------------------------------- *)
Lemma parse_modifiers_spec es : parse_modifiers es = sort_dedup (str_lits es).
Proof.
  induction es as [|e r IH]; [reflexivity|].
  cbn [parse_modifiers str_lits].
  destruct e; try exact IH.
  match goal with |- context [match ?b with true => _ | false => _ end] => destruct b end; try exact IH.
  match goal with |- context [match ?n with Str _ _ => _ | _ => _ end] => destruct n end; try exact IH.
  unfold sort_dedup in *. cbn [fold_right]. rewrite IH. reflexivity.
Qed.

Lemma view_mods_transform ms q :
  view_mods (match transform_modifiers ms q with Some m => m | None => Null end) = ms.
Proof.
  unfold transform_modifiers. destruct ms as [|m0 r0]; [reflexivity|].
  unfold view_mods. generalize (m0 :: r0). intros l.
  induction l as [|m r IH]; [reflexivity|].
  cbn [map fold_right]. rewrite IH.
  destruct (q || negb (is_simple_ident m)); reflexivity.
Qed.

(* ---- value / argument / modifiers of a directive ---------------------------------------- *)
Definition dflt_value (o : option node) : node := match o with Some v => v | None => empty_ident end.
Definition mods_list (o : option (list str)) : list str := match o with Some m => m | None => [] end.
Definition name_arg (na : option str) : option node :=
  match na with Some a => Some (mk_str a) | None => None end.

Lemma elem_at_nth_plain es i : elem_at es i = nth_plain es i.
Proof. reflexivity. Qed.

(* the array form `[value, arg?, [modifiers]?]`; [dflt]: a component's v-model gets `null` *)
Lemma array_form_spec dflt nm na splitted es :
  let parts := spec_directive_parts {| dn_name := nm; dn_arg := na; dn_mods := splitted |} (JExprC (Arr es)) in
  exists mo,
    array_form dflt (name_arg na) splitted es
    = (dflt_value (dp_value parts),
       (if dflt then match dp_arg parts with None => Some Null | x => x end else dp_arg parts), mo)
    /\ mods_list mo = sort_dedup (dp_mods parts).
Proof.
  cbv zeta. unfold array_form, spec_directive_parts. cbn [dn_arg dn_mods dn_name].
  change elem_at with nth_plain. change plain_elems with as_array.
  assert (V : match es with Elem false e :: _ => e | _ => empty_ident end = dflt_value (nth_plain es 0)).
  { unfold nth_plain. destruct es as [|e0 r]; [reflexivity|]. cbn [nth_error].
    destruct e0; try reflexivity.
    match goal with |- context [match ?b with true => _ | false => _ end] => destruct b end; reflexivity. }
  rewrite V. clear V.
  destruct (nth_plain es 1) as [a|].
  - destruct (as_array a) as [ms|].
    + eexists. split; [cbn [dp_value dp_arg dp_mods]; destruct na; destruct dflt; reflexivity|].
      cbn [dp_mods mods_list]. apply parse_modifiers_spec.
    + destruct (nth_plain es 2) as [x|]; [destruct (as_array x) as [ms|]|];
        eexists; (split; [cbn [dp_value dp_arg dp_mods]; destruct na; destruct dflt; reflexivity|]);
        cbn [dp_mods mods_list]; try apply parse_modifiers_spec; reflexivity.
  - eexists. split; [cbn [dp_value dp_arg dp_mods]; destruct na; destruct dflt; reflexivity|].
    reflexivity.
Qed.

Lemma normal_parts_spec nm na splitted value :
  let parts := spec_directive_parts {| dn_name := nm; dn_arg := na; dn_mods := splitted |} value in
  exists mo,
    normal_parts value (name_arg na) splitted = (dflt_value (dp_value parts), dp_arg parts, mo)
    /\ mods_list mo = sort_dedup (dp_mods parts).
Proof.
  cbv zeta. unfold normal_parts.
  destruct value; try (eexists; split; [destruct na; reflexivity|reflexivity]).
  (* an expression container *)
  match goal with |- context [JExprC ?e] => destruct e end;
    try (eexists; split; [destruct na; reflexivity|reflexivity]).
  (* the array form *)
  match goal with |- context [Arr ?es] =>
    destruct (array_form_spec false nm na splitted es) as [mo [H1 H2]] end.
  exists mo. split; [exact H1|exact H2].
Qed.

(* ---- the binding built for a directive, read back ---------------------------------------- *)
Definition norm_def (def : node) : node :=
  match def with
  | Ident s _ _ => mk_ident s 0
  | Call true _ (Ident s _ _) args _ =>
      mk_call (mk_ident s 0)
              (fold_right (fun a acc => match a with Elem false x => x :: acc | _ => acc end) [] args)
  | _ => def
  end.

Definition arg_not_void (arg : option node) : Prop :=
  match arg with Some a => is_void0 a = false | None => True end.

Lemma view_dir_built def value arg mo :
  arg_not_void arg ->
  view_dir (Elem false (Arr (map (Elem false)
             ([def; value] ++ opt_list (if nonempty_mods mo then or_void0 arg else arg)
              ++ opt_list (match mo with Some m => transform_modifiers m false | None => None end)))))
  = Some (ADir (norm_def def) value arg (mods_list mo)).
Proof.
  intros NV. unfold view_dir. cbn [map app].
  fold (norm_def def).
  destruct mo as [[|m r]|].
  - cbn [nonempty_mods mods_list transform_modifiers opt_list app map].
    destruct arg as [x|]; cbn [opt_list map app]; [|reflexivity]. cbn in NV. rewrite NV. reflexivity.
  - pose proof (view_mods_transform (m :: r) false) as VM.
    unfold transform_modifiers in VM |- *.
    set (MO := Obj (map _ (m :: r))) in *.
    cbn [nonempty_mods mods_list opt_list app map].
    destruct arg as [x|]; cbn [or_void0 opt_list map app].
    + cbn in NV. rewrite NV. rewrite VM. reflexivity.
    + rewrite VM. reflexivity.
  - cbn [nonempty_mods mods_list transform_modifiers opt_list app map].
    destruct arg as [x|]; cbn [opt_list map app]; [|reflexivity]. cbn in NV. rewrite NV. reflexivity.
Qed.

Lemma resolve_show tag attrs s :
  norm_def (fst (resolve_directive (s_ "show") tag attrs s)) = mk_ident (s_ "_vShow") 0.
Proof. reflexivity. Qed.

Lemma resolve_other dn tag attrs s :
  sq "show" dn = false -> sq "model" dn = false ->
  norm_def (fst (resolve_directive dn tag attrs s))
  = mk_call (mk_ident (s_ "_resolveDirective") 0) [mk_str dn].
Proof.
  intros H1 H2. unfold resolve_directive. rewrite H1, H2. reflexivity.
Qed.

(* C04: an attribute the property reads as a runtime directive yields exactly one binding, equal
   to the one the property describes, and touches nothing else of the element *)
Theorem normal_directive_refines ic tag attrs all name value d a :
  spec_directive_name name = Some d ->
  sq "html" (dn_name d) = false -> sq "text" (dn_name d) = false ->
  sq "model" (dn_name d) = false -> sq "slots" (dn_name d) = false ->
  arg_not_void (dp_arg (spec_directive_parts d value)) ->
  let a' := step_directive ic a name value in
  exists dir,
    a_dirs a' = a_dirs a ++ [dir]
    /\ a_props a' = a_props a /\ a_margs a' = a_margs a /\ a_dyn a' = a_dyn a
    /\ a_slots a' = a_slots a /\ a_st a' = a_st a
    /\ fst (fst (attr_spec E ic tag all (JAttr name value))) = []
    /\ forall s1, map view_dir (fst (build_directives [dir] tag attrs s1))
                  = map Some (snd (fst (attr_spec E ic tag all (JAttr name value)))).
Proof.
  intros HN Hh Ht Hm Hs NV. cbv zeta.
  unfold step_directive. rewrite parse_directive_unfold.
  rewrite (name_parts_spec _ _ HN). rewrite Hh, Ht, Hm, Hs.
  destruct d as [dn na sp]. cbn [dn_name dn_arg dn_mods] in *.
  destruct (normal_parts_spec dn na sp value) as [mo [HP HM]].
  fold (name_arg na). rewrite HP.
  eexists. repeat split.
  - cbn [attr_spec]. rewrite HN. cbn [dn_name]. rewrite Hh, Ht, Hs, Hm. reflexivity.
  - intros s1. cbn [attr_spec]. rewrite HN. cbn [dn_name]. rewrite Hh, Ht, Hs, Hm.
    cbn [fst snd map build_directives].
    destruct (resolve_directive dn tag attrs s1) as [def s2] eqn:ER.
    cbn [fst map]. rewrite (view_dir_built def _ _ mo NV). rewrite HM.
    assert (HD : norm_def def = if sq "show" dn then mk_ident (s_ "_vShow") 0
                                else mk_call (mk_ident (s_ "_resolveDirective") 0) [mk_str dn]).
    { replace def with (fst (resolve_directive dn tag attrs s1)) by (rewrite ER; reflexivity).
      destruct (sq "show" dn) eqn:ESH.
      + apply str_eqb_eq in ESH. subst dn. reflexivity.
      + apply resolve_other; assumption. }
    rewrite HD. reflexivity.
Qed.

(* ---- C01 / C04: what one attribute adds to the props ------------------------------------- *)
(* an expression of the source: not a generated vnode call, not shaped like a generated listener *)
Definition user_value (e : node) : bool :=
  negb (is_vnode_call e) && match is_listener e with None => true | Some _ => false end
  && match e with Call true _ _ _ _ => false | _ => true end.

Lemma view_prop_user k w v : user_value v = true -> view_prop (KV (Str k w) v) = CKV k [v].
Proof.
  unfold user_value, view_prop, canon_value. intros H.
  apply andb_true_iff in H. destruct H as [H _]. apply andb_true_iff in H. destruct H as [H1 H2].
  destruct (is_vnode_call v); [discriminate H1|].
  destruct (is_listener v); [discriminate H2|]. reflexivity.
Qed.

Definition html_text_value (value : node) : node :=
  match value with
  | Str v _ => mk_str v
  | JExprC JEmpty => Bool true
  | JExprC (Arr (Elem false x :: _)) => x
  | JExprC e => e
  | _ => Bool true
  end.

Lemma parse_html_text_value w value s : fst (parse_html_text w value s) = html_text_value value.
Proof.
  unfold parse_html_text, html_text_value.
  destruct value; try reflexivity.
  match goal with |- context [match ?e with JEmpty => _ | _ => _ end] => destruct e end; try reflexivity.
Qed.
Arguments parse_html_text_value _%string_scope _ _.

(* C04: `v-html` / `v-text` set the innerHTML / textContent prop to the given value and nothing else *)
Theorem html_text_refines ic tag all name value d a :
  spec_directive_name name = Some d ->
  (sq "html" (dn_name d) = true \/ (sq "html" (dn_name d) = false /\ sq "text" (dn_name d) = true)) ->
  user_value (html_text_value value) = true ->
  let a' := step_directive ic a name value in
  exists p,
    a_props a' = a_props a ++ [p]
    /\ map view_prop [p] = fst (fst (attr_spec E ic tag all (JAttr name value)))
    /\ snd (fst (attr_spec E ic tag all (JAttr name value))) = []
    /\ a_dirs a' = a_dirs a /\ a_margs a' = a_margs a /\ a_slots a' = a_slots a.
Proof.
  intros HN HK UV. cbv zeta.
  unfold step_directive. rewrite parse_directive_unfold. rewrite (name_parts_spec _ _ HN).
  cbn [attr_spec]. rewrite HN.
  assert (FV : match (match value with
                      | Str v _ => Some (mk_str v)
                      | JExprC JEmpty => None
                      | JExprC (Arr (Elem false x :: _)) => Some x
                      | JExprC e => Some e
                      | _ => None
                      end) with Some x => x | None => Bool true end = html_text_value value).
  { destruct value; try reflexivity. match goal with |- context [match ?e with JEmpty => _ | _ => _ end] => destruct e end; try reflexivity.
    match goal with |- context [match ?l with [] => _ | _ :: _ => _ end] => destruct l as [|e0 r0]; [reflexivity|] end.
    destruct e0; try reflexivity.
    match goal with |- context [match ?b with true => _ | false => _ end] => destruct b end; reflexivity. }
  destruct HK as [Hh|[Hh Ht]]; rewrite Hh; [|rewrite Ht].
  - destruct (parse_html_text "v-html" value (a_st a)) as [e s'] eqn:EP.
    assert (e = html_text_value value) by (rewrite <- (parse_html_text_value "v-html" value (a_st a)), EP; reflexivity).
    subst e. eexists. split; [reflexivity|]. cbn [fst snd map a_dirs a_margs a_slots].
    rewrite FV. unfold kv_str, mk_str. rewrite (view_prop_user _ _ _ UV). repeat split.
  - destruct (parse_html_text "v-text" value (a_st a)) as [e s'] eqn:EP.
    assert (e = html_text_value value) by (rewrite <- (parse_html_text_value "v-text" value (a_st a)), EP; reflexivity).
    subst e. eexists. split; [reflexivity|]. cbn [fst snd map a_dirs a_margs a_slots].
    rewrite FV. unfold kv_str, mk_str. rewrite (view_prop_user _ _ _ UV). repeat split.
Qed.

(* the value the property gives a plain attribute: true when absent, the cleaned string, the expression *)
Definition plain_value (value : node) : option node :=
  match value with
  | NScalar JNull => Some (Bool true)
  | Str v _ => Some (mk_str (jsx_clean v))
  | JExprC e => Some e
  | _ => None
  end.

Definition wf_attr_name (name : node) : Prop :=
  match name with IdName _ | JNs (IdName _) (IdName _) => True | _ => False end.

Definition is_ton (name : node) : bool :=
  o_transform_on (e_opts E) && (sq "on" (attr_name_str name) || sq "nativeOn" (attr_name_str name)).

Lemma plain_attr_value_spec value x :
  plain_value value = Some x -> plain_attr_value value = Some x.
Proof.
  unfold plain_value, plain_attr_value. destruct value; try discriminate.
  - match goal with |- context [match ?j with JNull => _ | _ => _ end] => destruct j end;
      try discriminate. exact (fun H => H).
  - intros H. rewrite transform_text_is_jsx_clean. exact H.
  - exact (fun H => H).
Qed.

(* C01: a plain attribute adds exactly the prop the property describes: its written name (the
   colon of a namespaced name kept), `true` without a value, the whitespace-normalised string,
   or the expression; nothing else of the element changes *)
Theorem plain_attr_refines ic tag all name value x a :
  wf_attr_name name ->
  spec_directive_name name = None ->
  plain_value value = Some x -> user_value x = true ->
  is_ton name = false ->
  let a' := attr_step E ic a (JAttr name value) in
  a_props a' = a_props a ++ [KV (mk_str (attr_name_str name)) x]
  /\ fst (fst (attr_spec E ic tag all (JAttr name value))) = [CKV (attr_name_str name) [x]]
  /\ view_prop (KV (mk_str (attr_name_str name)) x) = CKV (attr_name_str name) [x]
  /\ snd (fst (attr_spec E ic tag all (JAttr name value))) = []
  /\ a_dirs a' = a_dirs a /\ a_margs a' = a_margs a /\ a_slots a' = a_slots a.
Proof.
  intros WF HN PV UV TON. cbv zeta.
  unfold attr_step. rewrite (directive_iff name value WF), HN.
  unfold step_plain. fold (is_ton name). rewrite TON.
  rewrite (plain_attr_value_spec _ _ PV).
  cbn [a_props a_dirs a_margs a_slots].
  split; [reflexivity|]. split.
  - cbn [attr_spec]. rewrite HN.
    assert (K : match name with
                | IdName s0 => s0
                | JNs (IdName ns) (IdName nm) => ns ++ [58] ++ nm
                | _ => []
                end = attr_name_str name).
    { unfold attr_name_str. destruct name; try reflexivity;
      repeat match goal with |- context [match ?n with _ => _ end] => is_var n; destruct n; try reflexivity end. }
    rewrite K. unfold is_ton in TON.
    unfold plain_value in PV. destruct value; try discriminate PV.
    + match type of PV with context [match ?j with JNull => _ | _ => _ end] => destruct j end;
        try discriminate PV. injection PV as <-. reflexivity.
    + injection PV as <-. reflexivity.
    + injection PV as <-. rewrite TON. reflexivity.
  - split; [apply view_prop_user; exact UV|].
    cbn [attr_spec]. rewrite HN.
    unfold plain_value in PV. destruct value; try discriminate PV; repeat split.
    + match type of PV with context [match ?j with JNull => _ | _ => _ end] => destruct j end; reflexivity.
    + match goal with |- context [if ?c then _ else _] => destruct c end; reflexivity.
Qed.

(* C01: with transformOn an `on` / `nativeOn` object is handed to the listener conversion *)
Theorem transform_on_refines ic tag all name e a :
  wf_attr_name name ->
  spec_directive_name name = None ->
  is_ton name = true ->
  let a' := attr_step E ic a (JAttr name (JExprC e)) in
  exists flushed arg,
    a_props a' = [] /\ a_margs a' = a_margs a ++ flushed ++ [arg]
    /\ flushed = match a_props a with [] => [] | ps => [flush_obj E ps] end
    /\ view_arg arg = fst (fst (attr_spec E ic tag all (JAttr name (JExprC e))))
    /\ a_dirs a' = a_dirs a /\ a_slots a' = a_slots a.
Proof.
  intros WF HN TON. cbv zeta.
  unfold attr_step. rewrite (directive_iff name (JExprC e) WF), HN.
  unfold step_plain. fold (is_ton name). rewrite TON. cbn [plain_attr_value].
  eexists. eexists. split; [|split; [|split; [reflexivity|]]].
  - destruct (a_props a); reflexivity.
  - destruct (a_props a); cbn [a_margs]; rewrite <- ?app_assoc; reflexivity.
  - split; [|split; [destruct (a_props a); reflexivity|destruct (a_props a); reflexivity]].
    cbn [attr_spec]. rewrite HN.
    assert (K : match name with
                | IdName s0 => s0
                | JNs (IdName ns) (IdName nm) => ns ++ [58] ++ nm
                | _ => []
                end = attr_name_str name).
    { unfold attr_name_str. destruct name; try reflexivity;
      repeat match goal with |- context [match ?n with _ => _ end] => is_var n; destruct n; try reflexivity end. }
    rewrite K. unfold is_ton in TON. rewrite TON.
    unfold view_arg, mk_call. cbn [map].
    unfold is_helper, mk_ident, ton_ctx. reflexivity.
Qed.

(* C01: a spread; without mergeProps its entries continue the props object (plain last-wins
   object semantics), with mergeProps it becomes one argument of Vue's mergeProps, after the
   props written before it *)
Theorem spread_refines_plain ic tag all e a :
  o_merge_props (e_opts E) = false ->
  let a' := attr_step E ic a (Spread e) in
  exists ps,
    a_props a' = a_props a ++ ps /\ a_margs a' = a_margs a
    /\ map view_prop ps = fst (fst (attr_spec E ic tag all (Spread e)))
    /\ a_dirs a' = a_dirs a /\ a_slots a' = a_slots a.
Proof.
  intros MP. cbv zeta. cbn [attr_step]. unfold step_spread. rewrite MP.
  destruct e; cbn [attr_spec fst];
    (eexists; split; [destruct (a_props a); reflexivity|];
     split; [destruct (a_props a); reflexivity|]; split; [reflexivity|];
     split; destruct (a_props a); reflexivity).
Qed.

Theorem spread_refines_merge ic tag all e a :
  o_merge_props (e_opts E) = true ->
  user_value e = true ->
  let a' := attr_step E ic a (Spread e) in
  a_props a' = []
  /\ a_margs a' = a_margs a ++ (match a_props a with [] => [] | ps => [Obj (dedupe_props ps)] end) ++ [e]
  /\ view_arg e = fst (fst (attr_spec E ic tag all (Spread e)))
  /\ a_dirs a' = a_dirs a /\ a_slots a' = a_slots a.
Proof.
  intros MP UV. cbv zeta. cbn [attr_step]. unfold step_spread. rewrite MP.
  split; [destruct (a_props a); destruct e; reflexivity|].
  split; [destruct (a_props a); destruct e; cbn [a_margs]; rewrite <- ?app_assoc; reflexivity|].
  split; [|split; destruct (a_props a); destruct e; reflexivity].
  unfold user_value in UV. apply andb_true_iff in UV. destruct UV as [_ UV].
  destruct e; try reflexivity.
  match type of UV with context [match ?b with true => _ | false => _ end] => destruct b end;
    [discriminate UV|reflexivity].
Qed.

(* ---- C05: v-model -------------------------------------------------------------------------- *)
Definition norm_arg (a : option node) : option node := match a with Some Null => None | x => x end.

Lemma vmodel_parts_spec ic nm na sp value s :
  let parts := spec_directive_parts {| dn_name := nm; dn_arg := na; dn_mods := sp |} value in
  exists arg mo,
    vmodel_parts (fst (vmodel_attr_value value s)) ic (name_arg na) sp
    = (dflt_value (dp_value parts), arg, mo)
    /\ norm_arg arg = norm_arg (dp_arg parts)
    /\ (ic = false -> arg = dp_arg parts)
    /\ mods_list mo = sort_dedup (dp_mods parts).
Proof.
  cbv zeta. unfold vmodel_attr_value.
  destruct value;
    try (eexists; eexists; split; [reflexivity|]; split; [destruct na; reflexivity|];
         split; [destruct na; reflexivity|reflexivity]).
  match goal with |- context [match ?e with JEmpty => _ | _ => _ end] => destruct e end;
    try (eexists; eexists; split; [reflexivity|]; split; [destruct na; reflexivity|];
         split; [destruct na; reflexivity|reflexivity]).
  (* the array form *)
  cbn [fst vmodel_parts].
  match goal with |- context [array_form _ _ _ ?es] =>
    destruct (array_form_spec ic nm na sp es) as [mo [H1 H2]] end.
  rewrite H1. eexists. exists mo. split; [reflexivity|]. split; [|split; [|exact H2]].
  - destruct ic; [|reflexivity].
    match goal with |- context [dp_arg ?p] => destruct (dp_arg p) as [x|] end; reflexivity.
  - intros ->. reflexivity.
Qed.

Lemma is_listener_listener t : is_listener (listener t) = Some t.
Proof. reflexivity. Qed.

Lemma view_prop_listener k w t : view_prop (KV (Str k w) (listener t)) = CKV k [mk_listener t].
Proof. reflexivity. Qed.

Definition static_arg (a : option node) : Prop :=
  match a with None | Some Null | Some (Str _ _) => True | _ => False end.

Definition mods_obj (ms : list str) : node := Obj (map (fun m => KV (mk_str m) (Bool true)) ms).

Lemma view_prop_mods k w ms : view_prop (KV (Str k w) (mods_obj ms)) = CKV k [mods_obj ms].
Proof. reflexivity. Qed.

Lemma transform_modifiers_quoted ms :
  transform_modifiers ms true = match ms with [] => None | _ => Some (mods_obj ms) end.
Proof. destruct ms; reflexivity. Qed.

(* C05, component host: the value goes to `modelValue` (or the named prop), the modifiers to
   `modelModifiers` / `<arg>Modifiers`, and `onUpdate:<name>` assigns the target *)
Theorem vmodel_component_refines tag all name value d a :
  spec_directive_name name = Some d ->
  sq "html" (dn_name d) = false -> sq "text" (dn_name d) = false -> sq "model" (dn_name d) = true ->
  static_arg (dp_arg (spec_directive_parts d value)) ->
  user_value (dflt_value (dp_value (spec_directive_parts d value))) = true ->
  let a' := step_directive true a name value in
  exists ps,
    a_props a' = a_props a ++ ps
    /\ map view_prop ps = fst (fst (attr_spec E true tag all (JAttr name value)))
    /\ a_dirs a' = a_dirs a /\ a_margs a' = a_margs a /\ a_slots a' = a_slots a.
Proof.
  intros HN Hh Ht Hm SA UV. cbv zeta.
  unfold step_directive. rewrite parse_directive_unfold. rewrite (name_parts_spec _ _ HN).
  rewrite Hh, Ht, Hm. unfold parse_v_model.
  destruct d as [dn na sp]. cbn [dn_name dn_arg dn_mods] in *.
  destruct (vmodel_attr_value value (a_st a)) as [av s1] eqn:EV.
  destruct (vmodel_parts_spec true dn na sp value (a_st a)) as [arg [mo [HP [HA [_ HM]]]]].
  rewrite EV in HP. cbn [fst] in HP. fold (name_arg na). rewrite HP.
  cbn [attr_spec]. rewrite HN. cbn [dn_name]. rewrite Hh, Ht, Hm.
  assert (Hs : sq "slots" dn = false).
  { apply str_eqb_eq in Hm. subst dn. reflexivity. }
  rewrite Hs.
  set (parts := spec_directive_parts {| dn_name := dn; dn_arg := na; dn_mods := sp |} value) in *.
  set (target := dflt_value (dp_value parts)) in *.
  assert (TG : match dp_value parts with Some t => t | None => empty_ident end = target) by reflexivity.
  rewrite TG. rewrite <- HM.
  assert (MO : match mo with Some m => transform_modifiers m true | None => None end
               = match mods_list mo with [] => None | ms => Some (mods_obj ms) end).
  { destruct mo as [[|m0 r0]|]; reflexivity. }
  rewrite MO. clear MO.
  unfold step_vmodel. cbn [a_props a_dyn a_dirs a_margs a_slots andb negb].
  (* the argument forms *)
  destruct (dp_arg parts) as [pa|] eqn:EPA.
  - destruct pa; try contradiction SA.
    + (* Str *)
      cbn [norm_arg] in HA. destruct arg as [x|]; [|discriminate HA].
      destruct x; try discriminate HA. injection HA as -> ->.
      destruct (mods_list mo) as [|m0 r0];
        (eexists; split; [cbn [a_props]; rewrite <- ?app_assoc; reflexivity|]);
        cbn [map app a_dirs a_margs a_slots];
        unfold mk_str; rewrite ?view_prop_listener, ?view_prop_mods, (view_prop_user _ _ _ UV);
        repeat split.
    + (* Null *)
      cbn [norm_arg] in HA.
      assert (AA : arg = None \/ arg = Some Null).
      { destruct arg as [x|]; [right|left; reflexivity]. destruct x; try discriminate HA. reflexivity. }
      destruct AA as [-> | ->];
        (destruct (mods_list mo) as [|m0 r0];
         (eexists; split; [cbn [a_props]; rewrite <- ?app_assoc; reflexivity|]);
         cbn [map app a_dirs a_margs a_slots];
         unfold mk_strS, mk_str; rewrite ?view_prop_listener, ?view_prop_mods, (view_prop_user _ _ _ UV);
         repeat split).
  - cbn [norm_arg] in HA.
    assert (AA : arg = None \/ arg = Some Null).
    { destruct arg as [x|]; [right|left; reflexivity]. destruct x; try discriminate HA. reflexivity. }
    destruct AA as [-> | ->];
      (destruct (mods_list mo) as [|m0 r0];
       (eexists; split; [cbn [a_props]; rewrite <- ?app_assoc; reflexivity|]);
       cbn [map app a_dirs a_margs a_slots];
       unfold mk_strS, mk_str; rewrite ?view_prop_listener, ?view_prop_mods, (view_prop_user _ _ _ UV);
       repeat split).
Qed.

(* the model directive is chosen by the host: select, textarea, input by static type, dynamic type *)
Lemma find_type_attr attrs :
  (fix find (l : list node) : option node :=
     match l with
     | JAttr (IdName k) v :: r => if sq "type" k && negb (is_nnull v) then Some v else find r
     | _ :: r => find r
     | [] => None
     end) attrs = static_type_attr attrs.
Proof.
  unfold static_type_attr. induction attrs as [|x r IH]; [reflexivity|].
  cbn [fold_right]. rewrite <- IH.
  destruct x; reflexivity.
Qed.

Definition by_type (o : option node) : String.string :=
  match o with
  | Some (Str v _) => if sq "checkbox" v then "vModelCheckbox"%string
                      else if sq "radio" v then "vModelRadio"%string else "vModelText"%string
  | None => "vModelText"%string
  | Some _ => "vModelDynamic"%string
  end.

Lemma by_type_import (o : option node) s :
  norm_def (fst (match o with
                 | Some (Str v _) =>
                     if sq "checkbox" v then import_from_vue "vModelCheckbox" s
                     else if sq "radio" v then import_from_vue "vModelRadio" s
                     else import_from_vue "vModelText" s
                 | None => import_from_vue "vModelText" s
                 | Some _ => import_from_vue "vModelDynamic" s
                 end))
  = mk_ident (s_ (String.append "_" (by_type o))) 0.
Proof.
  destruct o as [tv|]; [|reflexivity]. destruct tv; try reflexivity.
  unfold by_type. repeat match goal with |- context [if ?c then _ else _] => destruct c end; reflexivity.
Qed.

Lemma resolve_model tag attrs s :
  norm_def (fst (resolve_directive (s_ "model") tag attrs s))
  = mk_ident (s_ (String.append "_" (spec_model_directive tag attrs))) 0.
Proof.
  unfold resolve_directive.
  change (sq "show" (s_ "model")) with false. change (sq "model" (s_ "model")) with true. cbv iota.
  unfold spec_model_directive. rewrite !find_type_attr.
  fold (by_type (static_type_attr attrs)).
  destruct tag; try apply by_type_import.
  repeat match goal with |- context [if ?c then _ else _] => destruct c; try reflexivity end.
  apply by_type_import.
Qed.

(* C05, form element (or any non-component host): the host's model directive with the bound
   value, argument and modifiers, plus the `onUpdate:<name>` listener assigning the target *)
Theorem vmodel_element_refines tag attrs name value d a :
  spec_directive_name name = Some d ->
  sq "html" (dn_name d) = false -> sq "text" (dn_name d) = false -> sq "model" (dn_name d) = true ->
  static_arg (dp_arg (spec_directive_parts d value)) ->
  arg_not_void (dp_arg (spec_directive_parts d value)) ->
  let a' := step_directive false a name value in
  exists p dir,
    a_props a' = a_props a ++ [p] /\ a_dirs a' = a_dirs a ++ [dir]
    /\ map view_prop [p] = fst (fst (attr_spec E false tag attrs (JAttr name value)))
    /\ (forall s1, map view_dir (fst (build_directives [dir] tag attrs s1))
                   = map Some (snd (fst (attr_spec E false tag attrs (JAttr name value)))))
    /\ a_margs a' = a_margs a /\ a_slots a' = a_slots a.
Proof.
  intros HN Hh Ht Hm SA NV. cbv zeta.
  unfold step_directive. rewrite parse_directive_unfold. rewrite (name_parts_spec _ _ HN).
  rewrite Hh, Ht, Hm. unfold parse_v_model.
  destruct d as [dn na sp]. cbn [dn_name dn_arg dn_mods] in *.
  destruct (vmodel_attr_value value (a_st a)) as [av s1] eqn:EV.
  destruct (vmodel_parts_spec false dn na sp value (a_st a)) as [arg [mo [HP [_ [HA HM]]]]].
  specialize (HA eq_refl). subst arg.
  rewrite EV in HP. cbn [fst] in HP. fold (name_arg na). rewrite HP.
  cbn [attr_spec]. rewrite HN. cbn [dn_name]. rewrite Hh, Ht, Hm.
  assert (Hs : sq "slots" dn = false).
  { apply str_eqb_eq in Hm. subst dn. reflexivity. }
  rewrite Hs.
  set (parts := spec_directive_parts {| dn_name := dn; dn_arg := na; dn_mods := sp |} value) in *.
  set (target := dflt_value (dp_value parts)) in *.
  assert (TG : match dp_value parts with Some t => t | None => empty_ident end = target) by reflexivity.
  rewrite TG. rewrite <- HM.
  unfold step_vmodel. cbn [a_props a_dyn a_dirs a_margs a_slots andb negb].
  assert (DIR : forall dir_arg dir_mods s2,
             dir_arg = (if nonempty_mods mo then or_void0 (dp_arg parts) else dp_arg parts) ->
             dir_mods = match mo with Some m => transform_modifiers m false | None => None end ->
             map view_dir (fst (build_directives [DNormal (s_ "model") dir_arg dir_mods target] tag attrs s2))
             = [Some (ADir (mk_ident (s_ (String.append "_" (spec_model_directive tag attrs))) 0)
                           target (dp_arg parts) (mods_list mo))]).
  { intros dir_arg dir_mods s2 -> ->. cbn [build_directives fst snd map].
    destruct (resolve_directive (s_ "model") tag attrs s2) as [def s3] eqn:ER.
    cbn [fst map]. rewrite (view_dir_built def target (dp_arg parts) mo NV).
    replace def with (fst (resolve_directive (s_ "model") tag attrs s2)) by (rewrite ER; reflexivity).
    rewrite resolve_model. reflexivity. }
  destruct (dp_arg parts) as [pa|]; [destruct pa; try contradiction SA|];
    (eexists; eexists; split; [reflexivity|]; split; [reflexivity|]; split; [reflexivity|];
     split; [intros s2; apply DIR; reflexivity|split; reflexivity]).
Qed.

(* C05, known finding (pinned by a fixture): the listener key of a computed argument is
   `"onUpdate" + arg`, without the colon the property asks for.  Witness `<C v-model={[m, dyn]} />` *)
Definition w_name : node := IdName (s_ "v-model").
Definition w_value : node :=
  JExprC (Arr [Elem false (Ident (s_ "m") 2 false); Elem false (Ident (s_ "dyn") 2 false)]).
Definition w_acc (s : st) : acc := mkAcc [] [] [] [] None false false false false false s.

Theorem vmodel_computed_arg_refuted tag all s :
  let ps := a_props (step_directive true (w_acc s) w_name w_value) in
  map view_prop ps <> fst (fst (attr_spec E true tag all (JAttr w_name w_value)))
  /\ map view_prop ps = map pinned_listener_key (fst (fst (attr_spec E true tag all (JAttr w_name w_value)))).
Proof. cbv zeta. split; [intros H; vm_compute in H; discriminate H|vm_compute; reflexivity]. Qed.

(* ---- C05: v-models is the same-order sequence of v-model attributes ---------------------- *)
Lemma decouple_v_models_spec rows : decouple_v_models rows = expand_vmodels rows.
Proof.
  induction rows as [|r rest IH]; [reflexivity|].
  cbn [decouple_v_models expand_vmodels].
  destruct r; try exact IH.
  match goal with |- context [match ?b with true => _ | false => _ end] => destruct b end; try exact IH.
  match goal with |- context [match ?n with Arr _ => _ | _ => _ end] => destruct n end; try exact IH.
  rewrite IH. unfold decouple_one, nth_plain.
  match goal with |- context [nth_error ?l 1] => destruct (nth_error l 1) as [x|] end; [|reflexivity].
  destruct x; try reflexivity.
  match goal with |- context [match ?b with true => _ | false => _ end] => destruct b end; try reflexivity.
  match goal with |- context [match ?n with Str _ _ => _ | _ => _ end] => destruct n end; reflexivity.
Qed.

Lemma splice_found attrs : splice_vmodels attrs true = attrs.
Proof.
  induction attrs as [|x r IH]; [reflexivity|]. cbn [splice_vmodels].
  destruct x; try (rewrite IH; reflexivity).
  match goal with |- context [match ?n with IdName _ => _ | _ => _ end] => destruct n end;
    cbn [negb andb]; rewrite IH; reflexivity.
Qed.

(* C05: the attribute list the element is lowered from is the written one with the `v-models`
   attribute replaced, in place, by the v-model attributes it lists, in order *)
Lemma decouple_attrs_spec attrs s : fst (decouple_attrs attrs s) = splice_vmodels attrs false.
Proof.
  unfold decouple_attrs.
  assert (G : forall l,
             match split_at_vmodels l with
             | Some (pre, v, post) =>
                 splice_vmodels l false
                 = pre ++ (match v with JExprC (Arr rows) => expand_vmodels rows | _ => [] end) ++ post
             | None => splice_vmodels l false = l
             end).
  { induction l as [|x r IH]; [reflexivity|].
    cbn [split_at_vmodels splice_vmodels].
    destruct x;
      try (destruct (split_at_vmodels r) as [[[pre0 v0] post0]|]; cbn [app]; rewrite IH; reflexivity).
    match goal with |- context [match ?n with IdName _ => _ | _ => _ end] => destruct n end;
      try (destruct (split_at_vmodels r) as [[[pre0 v0] post0]|]; cbn [app]; rewrite IH; reflexivity).
    cbn [negb andb].
    match goal with |- context [sq "v-models" ?k] => destruct (sq "v-models" k) end.
    - cbn [app]. rewrite splice_found.
      match goal with |- context [match ?v with JExprC _ => _ | _ => _ end] => destruct v end; try reflexivity.
      match goal with |- context [match ?e with Arr _ => _ | _ => _ end] => destruct e end; reflexivity.
    - destruct (split_at_vmodels r) as [[[pre0 v0] post0]|]; cbn [app]; rewrite IH; reflexivity. }
  specialize (G attrs).
  destruct (split_at_vmodels attrs) as [[[pre0 v0] post0]|]; [|symmetry; exact G].
  rewrite G.
  destruct v0; try reflexivity.
  match goal with |- context [match ?e with JEmpty => _ | _ => _ end] => destruct e end; try reflexivity.
  cbn [fst]. rewrite decouple_v_models_spec. reflexivity.
Qed.

End Site.
