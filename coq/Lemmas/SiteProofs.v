(* The model's lowering of tags, single attributes, directives, v-model and children refines the
   independent reading of an element in Spec/Site.v (C01, C03, C04, C05, C11). *)
From Coq Require Import Lia.
From VJ Require Import Model.Str Model.Json Model.Ast Model.State Model.Util Model.Text
  Model.Directive Model.Lower Spec.JsxText Spec.OutViews Spec.Site Lemmas.StrLemmas
  Lemmas.TextProofs.

(* ---- strings ------------------------------------------------------------------------------ *)
Lemma split_on_nonempty c s : split_on c s <> [].
Proof.
  induction s as [|x r IH]; cbn; [discriminate|].
  destruct (N.eqb x c); [discriminate|]. destruct (split_on c r); discriminate.
Qed.

Lemma strip_v_trim s : strip_v s = trim_start_c 45 (trim_start_c 118 s).
Proof.
  unfold strip_v.
  assert (V : forall t, (fix vs (s0 : str) : str := match s0 with 118 :: r => vs r | _ => s0 end) t
                        = trim_start_c 118 t).
  { induction t as [|x r IH]; [reflexivity|]. cbn [trim_start_c].
    destruct (N.eqb x 118) eqn:Ex.
    - apply N.eqb_eq in Ex. subst x. exact IH.
    - destruct x as [|p]; [reflexivity|].
      repeat (destruct p as [p|p|]; try reflexivity); cbn in Ex; discriminate. }
  assert (D : forall t, (fix dash (s0 : str) : str := match s0 with 45 :: r => dash r | _ => s0 end) t
                        = trim_start_c 45 t).
  { induction t as [|x r IH]; [reflexivity|]. cbn [trim_start_c].
    destruct (N.eqb x 45) eqn:Ex.
    - apply N.eqb_eq in Ex. subst x. exact IH.
    - destruct x as [|p]; [reflexivity|].
      repeat (destruct p as [p|p|]; try reflexivity); cbn in Ex; discriminate. }
  rewrite V, D. reflexivity.
Qed.

Lemma lower_first_eq s : lower_first s = lowercase_first s.
Proof. reflexivity. Qed.

(* ---- C01: the vnode type ------------------------------------------------------------------ *)
(* a tag is an identifier, a namespaced name or a member expression (a generic object);
   identifiers of the source never carry a generated syntax context *)
Definition user_name (name : node) : bool :=
  match name with
  | Ident _ c _ => negb (is_gen_ctx c)
  | JNs _ _ | NObj _ => true
  | _ => false
  end.

Lemma is_gen_helper_ctx n : is_gen_ctx (helper_ctx n) = true.
Proof. unfold is_gen_ctx, helper_ctx. apply N.leb_le. lia. Qed.

Lemma is_helper_import name s : is_helper name (fst (import_from_vue name s)) = true.
Proof.
  unfold import_from_vue, is_helper, mk_ident. cbn [fst].
  rewrite is_gen_helper_ctx. cbn [andb]. apply str_eqb_refl.
Qed.
Arguments is_helper_import _%string_scope _.

Section Site.
Variable E : env.

Lemma transform_tag_type name s :
  user_name name = true -> view_type (fst (transform_tag E name s)) = spec_type E name.
Proof.
  intros U. destruct name; try discriminate U; try reflexivity.
  - (* Ident *)
    cbn [transform_tag spec_type].
    destruct (is_html_or_svg E _); [reflexivity|].
    destruct (sq "Fragment" _) eqn:EF.
    { unfold view_type. pose proof (is_helper_import "Fragment" s) as H.
      destruct (fst (import_from_vue "Fragment" s)) eqn:EI; try discriminate H;
        try (rewrite H; reflexivity).
      all: unfold import_from_vue, mk_ident in EI; cbn in EI; discriminate EI. }
    destruct (pat_any E _); [reflexivity|].
    destruct (N.eqb _ (e_unres E)).
    { destruct (import_from_vue "resolveComponent" s) as [h s'] eqn:EI.
      cbn [fst]. unfold mk_call, view_type. cbn [map].
      replace h with (fst (import_from_vue "resolveComponent" s)) by (rewrite EI; reflexivity).
      rewrite is_helper_import. reflexivity. }
    cbn [fst view_type is_helper]. cbn in U.
    destruct (is_gen_ctx _); [discriminate|]. reflexivity.
  - (* JNs *)
    cbn [transform_tag spec_type].
    repeat match goal with
           | |- context [match ?x with _ => _ end] => is_var x; destruct x; try reflexivity
           end.
Qed.

End Site.
