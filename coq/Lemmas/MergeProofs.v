(* Attribute lists under mergeProps (the default): runs of written attributes are flushed through
   dedupe_props, spreads become arguments of their own, the arguments are joined by mergeProps.
   The props argument reads back as what the attributes denote - grouped class / style /
   listeners included (C01, C11). *)
From VJ Require Import Model.Str Model.Json Model.Ast Model.State Model.Util Model.Text
  Model.Directive Model.Lower Spec.JsxText Spec.OutViews Spec.Site Spec.SiteCheck Lemmas.StrLemmas
  Lemmas.TextProofs Lemmas.SiteProofs Lemmas.AttrsProofs Lemmas.DirsProofs Lemmas.ContribsProofs.

(* ---- flattening and canonical listeners ---------------------------------------------------- *)
Definition flat_elems (es : list node) : list node :=
  (fix go (l : list node) : list node :=
     match l with
     | [] => []
     | e :: r => (match e with
                  | Elem false x => flat_vals x
                  | Elem true x => [Spread x]
                  | other => [other]
                  end) ++ go r
     end) es.

Lemma flat_vals_Arr es : flat_vals (Arr es) = flat_elems es. Proof. reflexivity. Qed.

Lemma flat_elems_app a b : flat_elems (a ++ b) = flat_elems a ++ flat_elems b.
Proof.
  induction a as [|x r IH]; [reflexivity|].
  change (flat_elems ((x :: r) ++ b)) with
    ((match x with Elem false y => flat_vals y | Elem true y => [Spread y] | other => [other] end) ++ flat_elems (r ++ b)).
  rewrite IH, app_assoc. reflexivity.
Qed.

Lemma flat_elems_one v : flat_elems [Elem false v] = flat_vals v.
Proof. cbn. apply app_nil_r. Qed.

Lemma flat_merge_into value old :
  flat_vals (merge_into value old) = flat_vals old ++ flat_vals value.
Proof.
  unfold merge_into. destruct old; try (rewrite flat_vals_Arr; cbn; rewrite app_nil_r; reflexivity).
  rewrite !flat_vals_Arr, flat_elems_app, flat_elems_one. reflexivity.
Qed.

Lemma canon_idem v : canon_value (canon_value v) = canon_value v.
Proof.
  unfold canon_value. destruct (is_listener v) eqn:EL; [|rewrite EL; reflexivity].
  cbn. reflexivity.
Qed.

Lemma canon_flat v : map canon_value (flat_vals (canon_value v)) = map canon_value (flat_vals v).
Proof.
  unfold canon_value. destruct (is_listener v) eqn:EL; [|reflexivity].
  (* a listener is an arrow: not an array *)
  destruct v; try discriminate EL. cbn [flat_vals map]. f_equal.
  unfold canon_value. rewrite EL. reflexivity.
Qed.

(* ---- one run: dedupe_props is the grouping of the spec, up to normalisation ---------------- *)
Definition kv_str (p : node) : option (str * node * node) :=
  match p with KV (Str k w) v => Some (k, w, v) | _ => None end.

Lemma kv_str_some p k w v : kv_str p = Some (k, w, v) -> p = KV (Str k w) v.
Proof.
  destruct p; try discriminate.
  match goal with |- kv_str (KV ?a ?b) = _ -> _ => destruct a; try discriminate end.
  cbn. intros H. inversion H. reflexivity.
Qed.

Lemma view_prop_none p : kv_str p = None -> forall k vs, view_prop p <> CKV k vs.
Proof.
  destruct p; try (intros; discriminate).
  match goal with |- kv_str (KV ?a ?b) = _ -> _ => destruct a; try (intros; discriminate) end.
  intros _ k vs. cbn. destruct (is_listener _); discriminate.
Qed.

Lemma update_first_cons name f p r :
  update_first name f (p :: r)
  = match kv_str p with
    | Some (k, w, v) =>
        if str_eqb k name then Some (KV (Str k w) (f v) :: r)
        else match update_first name f r with Some r' => Some (p :: r') | None => None end
    | None => match update_first name f r with Some r' => Some (p :: r') | None => None end
    end.
Proof.
  destruct p; try reflexivity.
  match goal with |- context [kv_str (KV ?a ?b)] => destruct a; reflexivity end.
Qed.

Lemma dedupe_step_eq d p :
  dedupe_step d p
  = match kv_str p with
    | Some (k, w, v) =>
        if dedupe_mergeable k then
          match update_first k (merge_into v) d with Some d' => d' | None => d ++ [p] end
        else d ++ [p]
    | None => d ++ [p]
    end.
Proof.
  destruct p; try reflexivity.
  match goal with |- context [kv_str (KV ?a ?b)] => destruct a; reflexivity end.
Qed.

Definition no_elem_prop (p : node) : Prop :=
  match kv_str p with Some (_, _, v) => is_vnode_call v = false | None => True end.

(* a defined property against a grouped contribution *)
Definition rel_prop (p : node) (c : contrib) : Prop :=
  match kv_str p with
  | Some (k, w, v) =>
      is_vnode_call v = false
      /\ exists vs, c = CKV k vs
                    /\ (mergeable_key k = true ->
                        map canon_value (flat_vals v) = map canon_value (flat_map flat_vals vs))
                    /\ (mergeable_key k = false -> vs = [canon_value v])
  | None => c = view_prop p
  end.

Lemma view_prop_kv k w v : is_vnode_call v = false -> view_prop (KV (Str k w) v) = CKV k [canon_value v].
Proof. intros H. cbn [view_prop]. rewrite H. reflexivity. Qed.

Lemma rel_prop_view p : no_elem_prop p -> rel_prop p (view_prop p).
Proof.
  unfold no_elem_prop, rel_prop. destruct (kv_str p) as [[[k w] v]|] eqn:EK; [|reflexivity].
  intros H. rewrite (kv_str_some _ _ _ _ EK), (view_prop_kv _ _ _ H).
  split; [exact H|]. eexists. split; [reflexivity|]. split; [|reflexivity].
  intros _. cbn [flat_map]. rewrite app_nil_r, canon_flat. reflexivity.
Qed.

Lemma rel_norm p c : rel_prop p c -> norm_contrib (view_prop p) = norm_contrib c.
Proof.
  unfold rel_prop. destruct (kv_str p) as [[[k w] v]|] eqn:EK; [|intros ->; reflexivity].
  intros [NV [vs [-> [M1 M2]]]].
  rewrite (kv_str_some _ _ _ _ EK), (view_prop_kv _ _ _ NV). cbn [norm_contrib].
  destruct (mergeable_key k) eqn:EM.
  - cbn [flat_map]. rewrite app_nil_r, canon_flat, (M1 eq_refl). reflexivity.
  - rewrite (M2 eq_refl). reflexivity.
Qed.

Lemma is_vnode_merge_into value old : is_vnode_call (merge_into value old) = false.
Proof. unfold merge_into. destruct old; reflexivity. Qed.

Lemma update_add name value d D :
  Forall2 rel_prop d D -> mergeable_key name = true ->
  match update_first name (merge_into value) d, add_to_group name [canon_value value] D with
  | Some d', Some D' => Forall2 rel_prop d' D'
  | None, None => True
  | _, _ => False
  end.
Proof.
  intros R MK. induction R as [|p c d D Hpc R IH]; [exact I|].
  rewrite update_first_cons. unfold rel_prop in Hpc.
  destruct (kv_str p) as [[[k w] v]|] eqn:EK.
  - destruct Hpc as [NV0 [vs [-> [M1 M2]]]]. cbn [add_to_group]. rewrite (str_eqb_sym name k).
    destruct (str_eqb k name) eqn:EN.
    + (* merged here *)
      apply str_eqb_eq in EN. subst k.
      constructor; [|exact R].
      unfold rel_prop. cbn [kv_str]. split; [apply is_vnode_merge_into|].
      eexists. split; [reflexivity|]. split; [|intros HF; rewrite MK in HF; discriminate HF].
      intros _. rewrite flat_merge_into, flat_map_app, !map_app, (M1 MK). cbn [flat_map].
      rewrite app_nil_r, canon_flat. reflexivity.
    + destruct (update_first name (merge_into value) d), (add_to_group name [canon_value value] D);
        try exact IH.
      constructor; [|exact IH]. unfold rel_prop. rewrite EK. split; [exact NV0|].
      exists vs. repeat split; assumption.
  - subst c. pose proof (view_prop_none p EK) as NK.
    assert (AG : add_to_group name [canon_value value] (view_prop p :: D)
                 = match add_to_group name [canon_value value] D with
                   | Some r' => Some (view_prop p :: r') | None => None end).
    { cbn [add_to_group]. destruct (view_prop p) eqn:EV; try reflexivity. exfalso. eapply NK. reflexivity. }
    rewrite AG.
    destruct (update_first name (merge_into value) d), (add_to_group name [canon_value value] D);
      try exact IH.
    constructor; [|exact IH]. unfold rel_prop. rewrite EK. reflexivity.
Qed.

Definition group_step (done : list contrib) (c : contrib) : list contrib :=
  match c with
  | CKV k vs => if mergeable_key k then
                  match add_to_group k vs done with Some d => d | None => done ++ [c] end
                else done ++ [c]
  | _ => done ++ [c]
  end.

Lemma group_contribs_fold cs : group_contribs cs = fold_left group_step cs [].
Proof. reflexivity. Qed.

Lemma dedupe_group_fold ps : forall d D,
  Forall no_elem_prop ps -> Forall2 rel_prop d D ->
  Forall2 rel_prop (fold_left dedupe_step ps d) (fold_left group_step (map view_prop ps) D).
Proof.
  induction ps as [|p r IH]; intros d D NE R; [exact R|].
  inversion NE as [|p' r' NEp NEr]; subst. cbn [fold_left map]. apply IH; [exact NEr|].
  rewrite dedupe_step_eq.
  pose proof (rel_prop_view p NEp) as RV.
  assert (APP : Forall2 rel_prop (d ++ [p]) (D ++ [view_prop p])).
  { apply Forall2_app; [exact R|constructor; [exact RV|constructor]]. }
  unfold no_elem_prop in NEp.
  destruct (kv_str p) as [[[k w] v]|] eqn:EK.
  - rewrite (kv_str_some _ _ _ _ EK) in *. rewrite (view_prop_kv _ _ _ NEp) in *. cbn [group_step].
    change (dedupe_mergeable k) with (mergeable_key k).
    destruct (mergeable_key k) eqn:MK; [|exact APP].
    pose proof (update_add k v d D R MK) as UA.
    destruct (update_first k (merge_into v) d), (add_to_group k [canon_value v] D);
      try contradiction; [exact UA|exact APP].
  - pose proof (view_prop_none p EK) as NK.
    unfold group_step. destruct (view_prop p) eqn:EV; try exact APP. exfalso. eapply NK. reflexivity.
Qed.

Theorem dedupe_group ps :
  Forall no_elem_prop ps ->
  map norm_contrib (map view_prop (dedupe_props ps)) = map norm_contrib (group_contribs (map view_prop ps)).
Proof.
  intros NE. unfold dedupe_props. rewrite group_contribs_fold.
  pose proof (dedupe_group_fold ps [] [] NE (Forall2_nil _)) as R.
  induction R as [|p c d D Hpc R IH]; [reflexivity|].
  cbn [map]. rewrite (rel_norm _ _ Hpc), IH. reflexivity.
Qed.

(* ---- whole attribute lists --------------------------------------------------------------------- *)
Section Merge.
Variable E : env.
Variable ic : bool.
Variable tag : node.
Variable attrs : list node.     (* v-models already spliced *)
Hypothesis MP : o_merge_props (e_opts E) = true.

Definition is_spread (x : node) : bool := match x with Spread _ => true | _ => false end.

(* an attribute of the run kind (its properties join the current object), or a spread *)
Definition merge_ok (x : node) : Prop :=
  (is_spread x = false /\ contrib_ok E ic tag attrs x
   /\ (forall k n, ~ In (CElem k n) (contribs_of E ic tag attrs x))
   /\ (forall e, ~ In (CSpread e) (contribs_of E ic tag attrs x)))
  \/ (exists e, x = Spread e /\ user_value e = true).

Definition nv (x : node) : list contrib := map norm_contrib (view_arg x).

Definition clean_prop (p : node) : Prop := no_elem_prop p /\ is_spread p = false.

(* where an argument of the final call comes from: a flushed run, or a written spread *)
Definition arg_origin (x : node) : Prop :=
  (exists ps, x = Obj ps) \/ (user_value x = true /\ In (Spread x) attrs).

Lemma clean_from_view ps cs :
  map view_prop ps = cs -> (forall k n, ~ In (CElem k n) cs) -> (forall e, ~ In (CSpread e) cs) ->
  Forall clean_prop ps.
Proof.
  intros <- NE NS. apply Forall_forall. intros p Hin. split.
  - unfold no_elem_prop. destruct (kv_str p) as [[[k w] v]|] eqn:EK; [|exact I].
    destruct (is_vnode_call v) eqn:EV; [|reflexivity]. exfalso. apply (NE k v).
    apply in_map_iff. exists p. split; [|exact Hin].
    rewrite (kv_str_some _ _ _ _ EK). cbn [view_prop]. rewrite EV. reflexivity.
  - destruct p; try reflexivity. exfalso. eapply NS. apply in_map_iff. eexists. split; [|exact Hin]. reflexivity.
Qed.

Lemma close_run_nv ps :
  Forall clean_prop ps ->
  map nv (match ps with [] => [] | ps0 => [Obj (dedupe_props ps0)] end)
  = map (map norm_contrib) (close_run E (map view_prop ps)).
Proof.
  intros CL. unfold close_run. rewrite MP. destruct ps as [|p r]; [reflexivity|].
  cbn [map]. unfold nv. cbn [view_arg]. f_equal.
  change (view_prop p :: map view_prop r) with (map view_prop (p :: r)).
  apply dedupe_group. eapply Forall_impl; [|exact CL]. intros x [H _]. exact H.
Qed.

Section Fold.
Variable step : list (list contrib) * list contrib * list adir * option node -> node ->
                list (list contrib) * list contrib * list adir * option node.
Hypothesis step_run : forall x segs run dirs slots,
  is_spread x = false -> (forall e, contribs_of E ic tag attrs x <> [COn e]) ->
  exists dirs' slots', step (segs, run, dirs, slots) x = (segs, run ++ contribs_of E ic tag attrs x, dirs', slots').
Hypothesis step_own : forall e segs run dirs slots,
  exists dirs' slots', step (segs, run, dirs, slots) (Spread e)
                       = (segs ++ close_run E run ++ [contribs_of E ic tag attrs (Spread e)], [], dirs', slots').

Lemma merge_fold xs : forall a segs run dirs slots,
  Forall merge_ok xs -> (forall x, In x xs -> In x attrs) ->
  Forall clean_prop (a_props a) -> map view_prop (a_props a) = run ->
  map nv (a_margs a) = map (map norm_contrib) segs ->
  Forall arg_origin (a_margs a) ->
  let a' := fold_left (attr_step E ic) xs a in
  let '(segs', run', _, _) := fold_left step xs (segs, run, dirs, slots) in
  Forall clean_prop (a_props a') /\ map view_prop (a_props a') = run'
  /\ map nv (a_margs a') = map (map norm_contrib) segs'
  /\ Forall arg_origin (a_margs a').
Proof.
  induction xs as [|x r IH]; intros a segs run dirs slots FA INC CL PR MA OR.
  - cbn. repeat split; assumption.
  - inversion FA as [|x' r' OK FR]; subst. cbn [fold_left].
    assert (INC' : forall y, In y r -> In y attrs) by (intros y Hy; apply INC; right; exact Hy).
    destruct OK as [[NSp [[NC SX] [NE NS]]]|[e [-> UV]]].
    + (* joins the run *)
      destruct (step_run x segs (map view_prop (a_props a)) dirs slots NSp NC) as [dirs' [slots' EQ]].
      rewrite EQ. destruct (SX a) as [ps [H1 [H2 H3]]].
      apply IH; [exact FR|exact INC'| | | |].
      * rewrite H1. apply Forall_app. split; [exact CL|]. exact (clean_from_view ps _ H3 NE NS).
      * rewrite H1, map_app, H3. reflexivity.
      * rewrite H2. exact MA.
      * rewrite H2. exact OR.
    + (* a spread: the run is closed, the spread is an argument of its own *)
      destruct (step_own e segs (map view_prop (a_props a)) dirs slots) as [dirs' [slots' EQ]].
      rewrite EQ.
      destruct (spread_refines_merge E ic tag attrs e a MP UV) as (H1 & H2 & H3 & _).
      apply IH; [exact FR|exact INC'| | | |];
        [| |
         |rewrite H2; apply Forall_app; split; [exact OR|]; apply Forall_app; split;
          [destruct (a_props a); constructor; [left; eexists; reflexivity|constructor]
          |constructor; [right; split; [exact UV|apply INC; left; reflexivity]|constructor]]].
      * rewrite H1. constructor.
      * rewrite H1. reflexivity.
      * rewrite H2, !map_app, MA. f_equal. f_equal; [|cbn [map]; unfold nv, contribs_of; rewrite H3; reflexivity].
        rewrite <- (close_run_nv _ CL). destruct (a_props a); reflexivity.
Qed.
End Fold.

Lemma join_norm segs : map norm_contrib (join_segments segs) = join_views (map (map norm_contrib) segs).
Proof.
  induction segs as [|x [|y r] IH]; [reflexivity|reflexivity|].
  change (join_segments (x :: y :: r)) with (x ++ CBreak :: join_segments (y :: r)).
  change (map (map norm_contrib) (x :: y :: r)) with (map norm_contrib x :: map (map norm_contrib) (y :: r)).
  rewrite map_app. cbn [map]. rewrite IH. reflexivity.
Qed.

Lemma map_join_views segs : map norm_contrib (join_views segs) = join_views (map (map norm_contrib) segs).
Proof.
  induction segs as [|x [|y r] IH]; [reflexivity|reflexivity|].
  change (join_views (x :: y :: r)) with (x ++ CBreak :: join_views (y :: r)).
  change (map (map norm_contrib) (x :: y :: r)) with (map norm_contrib x :: map (map norm_contrib) (y :: r)).
  rewrite map_app. cbn [map]. rewrite IH. reflexivity.
Qed.

Lemma join_views_norm args :
  map norm_contrib (join_views (map view_arg args)) = join_views (map nv args).
Proof. rewrite map_join_views, map_map. reflexivity. Qed.

(* the arguments of the final mergeProps call (one argument: passed as is) *)
Theorem contribs_refine_merge s :
  splice_vmodels attrs false = attrs ->
  Forall merge_ok attrs -> attrs <> [] ->
  exists args,
    join_views (map nv args) = fst (fst (spec_attrs E ic tag attrs))
    /\ Forall arg_origin args
    /\ r_attrs (transform_attrs E attrs ic s)
       = match args with
         | [] => Null
         | [e] => e
         | _ => mk_call (fst (import_from_vue "mergeProps" st0)) args
         end.
Proof.
  intros SP FA NE.
  unfold spec_attrs. rewrite SP.
  match goal with |- context [fold_left ?st attrs ?acc] =>
    pose proof (merge_fold st) as MF end.
  match type of MF with ?P -> _ => assert (HP : P) end.
  { intros x segs run dirs slots NSp NC. cbv beta iota zeta. unfold contribs_of in *.
    destruct (attr_spec E ic tag attrs x) as [[cs ds] sl]. cbn [fst] in *.
    assert (OWN : match x with
                  | Spread _ => o_merge_props (e_opts E)
                  | _ => match cs with [COn _] => true | _ => false end
                  end = false).
    { destruct x; try discriminate NSp;
        destruct cs as [|c0 [|c1 cr]]; try reflexivity; destruct c0; try reflexivity;
        exfalso; eapply NC; reflexivity. }
    rewrite OWN. eexists. eexists. reflexivity. }
  specialize (MF HP). clear HP.
  match type of MF with ?P -> _ => assert (HP : P) end.
  { intros e segs run dirs slots. cbv beta iota zeta. unfold contribs_of.
    destruct (attr_spec E ic tag attrs (Spread e)) as [[cs ds] sl]. cbn [fst]. rewrite MP.
    eexists. eexists. reflexivity. }
  specialize (MF HP attrs (mkAcc [] [] [] [] None false false false false false s) [] [] [] None
                 FA (fun x H => H) (Forall_nil _) eq_refl eq_refl (Forall_nil _)). clear HP.
  cbv zeta in MF.
  match type of MF with context [fold_left ?st attrs ?acc] =>
    destruct (fold_left st attrs acc) as [[[segs run] dirs'] slots'] end.
  destruct MF as (CL & PR & MA & OR). cbn [fst].
  unfold transform_attrs. destruct attrs as [|x0 xs] eqn:EA; [contradiction NE; reflexivity|].
  rewrite <- EA in *. clear EA x0 xs.
  set (a := fold_left (attr_step E ic) attrs _) in *.
  exists (a_margs a ++ match a_props a with [] => [] | ps => [Obj (dedupe_props ps)] end).
  split; [|split].
  - rewrite join_norm, !map_app, <- MA, <- PR, <- (close_run_nv _ CL). destruct (a_props a); reflexivity.
  - apply Forall_app. split; [exact OR|]. destruct (a_props a); constructor; [left; eexists; reflexivity|constructor].
  - unfold final_attrs_expr.
    assert (NSP : forall e, a_props a <> [Spread e]).
    { intros e HE. rewrite HE in CL. inversion CL as [|p l [_ HS] _]. discriminate HS. }
    destruct (a_margs a) as [|m0 mr] eqn:EM.
    + cbn [app]. destruct (a_props a) as [|p [|q l]] eqn:EP; [reflexivity| |].
      * destruct p; try (unfold flush_obj; rewrite MP; reflexivity). exfalso. eapply NSP. reflexivity.
      * unfold flush_obj. rewrite MP. destruct p; reflexivity.
    + destruct (a_props a) as [|p l] eqn:EP.
      * rewrite app_nil_r. destruct mr; [reflexivity|]. cbn [r_attrs fst]. reflexivity.
      * unfold flush_obj. rewrite MP.
        destruct mr; cbn [app]; cbn [r_attrs fst]; reflexivity.
Qed.


Lemma view_contribs_arg x :
  arg_origin x -> (forall e, In (Spread e) attrs -> e <> Null) ->
  view_contribs x = nv x.
Proof.
  intros [[ps ->]|[UV IN]] NN; [reflexivity|].
  pose proof (NN x IN) as NX.
  unfold user_value in UV. apply andb_true_iff in UV. destruct UV as [_ UV].
  unfold view_contribs, nv. destruct x; try reflexivity; try (contradiction NX; reflexivity).
  match type of UV with context [match ?b with true => _ | false => _ end] => destruct b end;
    [discriminate UV|reflexivity].
Qed.

(* the props ARGUMENT itself reads back as the denoted contributions *)
Theorem contribs_refine_arg_merge s :
  splice_vmodels attrs false = attrs ->
  Forall merge_ok attrs ->
  (forall e, In (Spread e) attrs -> e <> Null) ->
  view_contribs (r_attrs (transform_attrs E attrs ic s)) = fst (fst (spec_attrs E ic tag attrs)).
Proof.
  intros SP FA NN.
  destruct attrs as [|x0 xs] eqn:EA; [reflexivity|].
  rewrite <- EA in *.
  assert (NE : attrs <> []) by (rewrite EA; discriminate).
  destruct (contribs_refine_merge s SP FA NE) as [args [H1 [OR H3]]].
  rewrite H3, <- H1.
  destruct args as [|e [|e2 r]].
  - reflexivity.
  - inversion OR as [|x l Ox _]; subst. cbn [map join_views]. apply view_contribs_arg; assumption.
  - unfold view_contribs, mk_call.
    pose proof (is_helper_import "mergeProps" st0) as HI. rewrite HI.
    rewrite map_map.
    rewrite (map_ext (fun x => match Elem false x with Elem false y => view_arg y | _ => [] end) view_arg)
      by (intros; reflexivity).
    apply join_views_norm.
Qed.

End Merge.
