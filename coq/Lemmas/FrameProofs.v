(* The lowering of an element never touches the pragma, the recorded defineComponent binding
   or the type registries (used by C15 and C10). *)
From VJ Require Import Model.Str Model.Json Model.Ast Model.State Model.Util Model.Text
  Model.Directive Model.Lower Lemmas.NodeInd.

Definition frame (s s' : st) : Prop :=
  pragma s' = pragma s /\ define_component s' = define_component s
  /\ interfaces s' = interfaces s /\ aliases s' = aliases s.

Lemma frame_refl s : frame s s. Proof. repeat split. Qed.
Lemma frame_trans a b c : frame a b -> frame b c -> frame a c.
Proof. unfold frame. intros [A1 [A2 [A3 A4]]] [B1 [B2 [B3 B4]]]. repeat split; congruence. Qed.

Ltac fr := repeat first [apply frame_refl | eapply frame_trans; [eassumption|] | eassumption].

Lemma frame_set_imports v s : frame s (set_imports v s). Proof. destruct s; repeat split. Qed.
Lemma frame_set_ton v s : frame s (set_ton v s). Proof. destruct s; repeat split. Qed.
Lemma frame_set_slot_helper v s : frame s (set_slot_helper v s). Proof. destruct s; repeat split. Qed.
Lemma frame_set_inj_vars v s : frame s (set_inj_vars v s). Proof. destruct s; repeat split. Qed.
Lemma frame_set_slot_counter v s : frame s (set_slot_counter v s). Proof. destruct s; repeat split. Qed.
Lemma frame_set_slot_stack v s : frame s (set_slot_stack v s). Proof. destruct s; repeat split. Qed.
Lemma frame_set_assign_left v s : frame s (set_assign_left v s). Proof. destruct s; repeat split. Qed.
Lemma frame_set_inj_consts v s : frame s (set_inj_consts v s). Proof. destruct s; repeat split. Qed.
Lemma frame_set_fresh v s : frame s (set_fresh v s). Proof. destruct s; repeat split. Qed.
Lemma frame_set_diags v s : frame s (set_diags v s). Proof. destruct s; repeat split. Qed.
Lemma frame_panic s : frame s (panic s). Proof. destruct s; repeat split. Qed.
Lemma frame_add_diag m s : frame s (add_diag m s). Proof. destruct s; repeat split. Qed.

Lemma frame_import name s : frame s (snd (import_from_vue name s)).
Proof. destruct s; repeat split. Qed.
Lemma frame_fresh sy s : frame s (snd (fresh_ident sy s)).
Proof. destruct s; repeat split. Qed.

Section Frame.
Variable E : env.

Lemma frame_parse_html_text w v s : frame s (snd (parse_html_text w v s)).
Proof.
  unfold parse_html_text.
  repeat match goal with |- context [match ?x with _ => _ end] => destruct x end;
    try apply frame_refl; apply frame_set_diags.
Qed.

Lemma frame_parse_directive name value ic s : frame s (snd (parse_directive name value ic s)).
Proof.
  unfold parse_directive.
  match goal with |- context [match ?X with pair _ _ => _ end] => destruct X as [[dname a0] sp] end.
  destruct (sq "html" dname).
  { pose proof (frame_parse_html_text "v-html"%string value s) as H.
    destruct (parse_html_text "v-html"%string value s). exact H. }
  destruct (sq "text" dname).
  { pose proof (frame_parse_html_text "v-text"%string value s) as H.
    destruct (parse_html_text "v-text"%string value s). exact H. }
  destruct (sq "model" dname).
  { unfold parse_v_model.
    assert (H1 : frame s (snd (vmodel_attr_value value s))).
    { unfold vmodel_attr_value.
      repeat match goal with |- context [match ?x with _ => _ end] => destruct x end;
        try apply frame_refl; apply frame_add_diag. }
    destruct (vmodel_attr_value value s) as [av s1]. cbn [snd] in H1.
    assert (H2 : frame s1 (vmodel_first_check av s1)).
    { unfold vmodel_first_check.
      repeat match goal with |- context [match ?x with _ => _ end] => destruct x end;
        try apply frame_refl; apply frame_add_diag. }
    destruct (vmodel_parts av ic _ sp) as [[v a] m]. cbn [snd].
    assert (H3 : frame (vmodel_first_check av s1) (vmodel_target_check v (vmodel_first_check av s1))).
    { unfold vmodel_target_check. destruct (is_assignable v); [apply frame_refl|apply frame_add_diag]. }
    fr. }
  destruct (sq "slots" dname); [apply frame_refl|].
  destruct (normal_parts value _ sp) as [[v a] m]. apply frame_refl.
Qed.

Lemma frame_step_vmodel ic a arg targ mods v : a_st (step_vmodel ic a arg targ mods v) = a_st a.
Proof.
  unfold step_vmodel.
  repeat match goal with |- context [match ?X with pair _ _ => _ end] => destruct X end.
  reflexivity.
Qed.

Lemma frame_attr_step ic a x : frame (a_st a) (a_st (attr_step E ic a x)).
Proof.
  unfold attr_step. destruct x; try apply frame_refl.
  - unfold step_spread.
    repeat match goal with |- context [match ?X with pair _ _ => _ end] => destruct X end.
    apply frame_refl.
  - match goal with |- context [is_directive ?y] => destruct (is_directive y) end.
    + unfold step_directive.
      match goal with |- context [parse_directive ?n ?v ?c ?s0] =>
        pose proof (frame_parse_directive n v c s0) as H; destruct (parse_directive n v c s0) as [d s1] end.
      cbn [snd] in H. destruct d; try exact H. rewrite frame_step_vmodel. exact H.
    + unfold step_plain.
      match goal with |- context [match plain_attr_value ?v with _ => _ end] => destruct (plain_attr_value v) end;
        repeat match goal with |- context [match ?X with pair _ _ => _ end] => destruct X end;
        match goal with |- context [if ?c then _ else _] => destruct c end;
        cbn [a_st]; fr; try apply frame_set_ton; try apply frame_panic;
        try (eapply frame_trans; [apply frame_panic|apply frame_set_ton]).
Qed.

Lemma frame_fold ic attrs a : frame (a_st a) (a_st (fold_left (attr_step E ic) attrs a)).
Proof.
  revert a. induction attrs as [|x r IH]; intros a; [apply frame_refl|].
  cbn [fold_left]. eapply frame_trans; [apply frame_attr_step|apply IH].
Qed.

Lemma frame_final a : frame (a_st a) (snd (final_attrs_expr E a)).
Proof.
  unfold final_attrs_expr, import_from_vue.
  repeat match goal with |- context [match ?x with _ => _ end] => destruct x end;
    try apply frame_refl; apply frame_set_imports.
Qed.

Lemma frame_transform_attrs attrs ic s : frame s (r_st (transform_attrs E attrs ic s)).
Proof.
  unfold transform_attrs. destruct attrs as [|x0 xs]; [apply frame_refl|].
  set (a := fold_left _ _ _).
  pose proof (frame_fold ic (x0 :: xs) (mkAcc [] [] [] [] None false false false false false s)) as H1.
  fold a in H1. cbn [a_st] in H1.
  pose proof (frame_final a) as H2. destruct (final_attrs_expr E a) as [e s']. cbn [snd r_st] in *. fr.
Qed.

Lemma frame_transform_tag name s : frame s (snd (transform_tag E name s)).
Proof.
  unfold transform_tag, import_from_vue.
  repeat match goal with
         | |- context [if ?c then _ else _] => destruct c
         | |- context [match ?x with _ => _ end] => destruct x
         end; try apply frame_refl; try apply frame_set_imports; try apply frame_add_diag.
Qed.

Lemma frame_get_pragma s : frame s (snd (get_pragma E s)).
Proof.
  unfold get_pragma. destruct (pragma s); [apply frame_refl|].
  destruct (o_pragma (e_opts E)); [apply frame_refl|apply frame_import].
Qed.

Lemma frame_build_iife_elems lft elems s : frame s (snd (build_iife_elems lft elems s)).
Proof.
  revert s. induction elems as [|x r IH]; intros s; [apply frame_refl|].
  assert (Hdef : forall s0, frame s0 (snd (let '(r', s1) := build_iife_elems lft r s0 in (x :: r', s1)))).
  { intros s0. pose proof (IH s0) as H. destruct (build_iife_elems lft r s0). exact H. }
  cbn [build_iife_elems]. destruct x; try apply Hdef.
  match goal with |- context [Elem ?b ?e] => destruct b; [apply Hdef|destruct e; try apply Hdef] end.
  match goal with |- context [if ?c then _ else _] => destruct c end; [|apply Hdef].
  match goal with |- context [fresh_ident ?sy ?st0] =>
    pose proof (frame_fresh sy st0) as Hf; destruct (fresh_ident sy st0) as [[nm0 ctx0] s1] end.
  cbn [snd] in Hf.
  match goal with |- context [build_iife_elems lft r ?s2] =>
    pose proof (IH s2) as H; destruct (build_iife_elems lft r s2) end.
  cbn [snd] in *. eapply frame_trans; [exact Hf|]. eapply frame_trans; [apply frame_set_inj_consts|exact H].
Qed.

Lemma frame_build_iife elems s : frame s (snd (build_iife elems s)).
Proof.
  unfold build_iife. destruct (assign_left s); [|apply frame_refl].
  eapply frame_trans; [apply frame_set_assign_left|apply frame_build_iife_elems].
Qed.

Lemma frame_slot_ident s : frame s (snd (generate_unique_slot_ident s)).
Proof.
  unfold generate_unique_slot_ident.
  match goal with |- context [fresh_ident ?sy ?st0] =>
    pose proof (frame_fresh sy st0) as Hf; destruct (fresh_ident sy st0) as [[id ctx0] s1] end.
  cbn [snd] in *. eapply frame_trans; [exact Hf|].
  eapply frame_trans; [apply frame_set_inj_vars|apply frame_set_slot_counter].
Qed.

Lemma frame_finish_children elems ic slots s : frame s (snd (finish_children E elems ic slots s)).
Proof.
  unfold finish_children.
  assert (H0 : frame s (snd (if o_optimize (e_opts E)
                             then match rev (slot_stack s) with
                                  | top :: rest => (top, set_slot_stack (rev rest) s)
                                  | [] => (false, s)
                                  end else (false, s)))).
  { destruct (o_optimize (e_opts E)); [|apply frame_refl].
    destruct (rev (slot_stack s)); [apply frame_refl|apply frame_set_slot_stack]. }
  match goal with |- context [match ?X with pair _ _ => _ end] => destruct X as [flag s0] end.
  cbn [snd] in H0.
  assert (Hdef : frame s (snd (if ic then (wrap_children E elems flag slots, s0) else (Arr elems, s0))))
    by (destruct ic; exact H0).
  destruct elems as [|x [|y r]].
  - exact H0.
  - destruct x; try exact Hdef.
    match goal with |- context [Elem ?b ?e] => destruct b; [exact Hdef|destruct e] end;
      try exact Hdef; try (destruct (is_fn_like _); [exact H0|exact Hdef]); try exact H0.
    + (* identifier *)
      destruct ic; [|exact H0].
      match goal with |- context [build_iife ?es ?st0] =>
        pose proof (frame_build_iife es st0) as Hb; destruct (build_iife es st0) as [elems' s1] end.
      cbn [snd] in Hb.
      destruct (o_object_slots (e_opts E)); cbn [snd]; fr. apply frame_set_slot_helper.
    + (* call *)
      match goal with |- context [Call ?sy _ _ _ _] => destruct sy; [exact Hdef|] end.
      destruct ic; [|exact H0].
      destruct (o_object_slots (e_opts E)); [|exact H0].
      pose proof (frame_slot_ident s0) as Hs.
      destruct (generate_unique_slot_ident s0) as [slot s1]. cbn [snd] in Hs.
      match goal with |- context [build_iife ?es ?st0] =>
        pose proof (frame_build_iife es st0) as Hb; destruct (build_iife es st0) as [elems' s2] end.
      cbn [snd] in *. eapply frame_trans; [exact H0|]. eapply frame_trans; [exact Hs|].
      eapply frame_trans; [apply frame_set_slot_helper|exact Hb].
  - destruct x; try exact Hdef.
    match goal with |- context [Elem ?b ?e] => destruct b; [exact Hdef|destruct e; exact Hdef] end.
Qed.

Lemma frame_resolve_directive dn tag attrs s : frame s (snd (resolve_directive dn tag attrs s)).
Proof.
  unfold resolve_directive, import_from_vue.
  repeat match goal with
         | |- context [if ?c then _ else _] => destruct c
         | |- context [match ?x with _ => _ end] => destruct x
         end; apply frame_set_imports.
Qed.

Lemma frame_build_directives dirs tag attrs s : frame s (snd (build_directives dirs tag attrs s)).
Proof.
  revert s. induction dirs as [|d r IH]; intros s; [apply frame_refl|].
  cbn [build_directives]. destruct d; try apply IH.
  pose proof (frame_resolve_directive name tag attrs s) as H1.
  destruct (resolve_directive name tag attrs s) as [dd s1]. cbn [snd] in H1.
  pose proof (IH s1) as H2. destruct (build_directives r tag attrs s1). cbn [snd] in *. fr.
Qed.

Lemma frame_push s : frame s (push_slot_flag E s).
Proof. unfold push_slot_flag. destruct (o_optimize (e_opts E)); [apply frame_set_slot_stack|apply frame_refl]. Qed.

Lemma frame_mark e s : frame s (mark_dynamic E e s).
Proof. unfold mark_dynamic. destruct (_ && _); [apply frame_set_slot_stack|apply frame_refl]. Qed.

Definition Fr (n : node) : Prop := forall s, frame s (snd (lower_el E n s)).

Lemma frame_children cs : Forall Fr cs -> forall s, frame s (snd (lower_children_with E (lower_el E) cs s)).
Proof.
  induction 1 as [|c r Hc Hr IH]; intros s; [apply frame_refl|].
  cbn [lower_children_with].
  assert (Hrest : forall (o : list node) s0 s1, frame s0 s1 ->
            frame s0 (snd (let '(r', s2) := lower_children_with E (lower_el E) r s1 in (o ++ r', s2)))).
  { intros o s0 s1 H. pose proof (IH s1) as H2. destruct (lower_children_with E (lower_el E) r s1).
    cbn [snd] in *. fr. }
  destruct c; try (apply Hrest; apply frame_refl).
  - pose proof (Hc s) as H. destruct (lower_el E _ s). apply Hrest. exact H.
  - pose proof (Hc s) as H. destruct (lower_el E _ s). apply Hrest. exact H.
  - match goal with |- context [mark_dynamic E ?e _] => destruct e end;
      try (apply Hrest; apply frame_mark). apply Hrest. apply frame_refl.
  - unfold transform_jsx_text. destruct (transform_text v); [apply Hrest; apply frame_refl|].
    match goal with |- context [import_from_vue ?n ?st0] =>
      pose proof (frame_import n st0) as Hi; destruct (import_from_vue n st0) end.
    apply Hrest. exact Hi.
  - apply Hrest. apply frame_mark.
Qed.

Definition FrA (n : node) : Prop := Fr n /\ (forall nm v, n = JAttr nm v -> Fr v).

Lemma frame_attr_values attrs :
  Forall FrA attrs -> forall s, frame s (snd (lower_attr_values_with (lower_el E) attrs s)).
Proof.
  induction 1 as [|a r Ha Hr IH]; intros s; [apply frame_refl|].
  cbn [lower_attr_values_with].
  assert (Hrest : forall (a' : node) s0 s1, frame s0 s1 ->
            frame s0 (snd (let '(r', s2) := lower_attr_values_with (lower_el E) r s1 in (a' :: r', s2)))).
  { intros a' s0 s1 H. pose proof (IH s1) as H2. destruct (lower_attr_values_with (lower_el E) r s1).
    cbn [snd] in *. fr. }
  destruct Ha as [_ Hv].
  destruct a; try (apply Hrest; apply frame_refl).
  match goal with |- context [JAttr ?nm ?v] => destruct v end; try (apply Hrest; apply frame_refl).
  - match goal with |- context [is_directive ?x] => destruct (is_directive x) end;
      [apply Hrest; apply frame_refl|].
    pose proof (Hv _ _ eq_refl s) as H. destruct (lower_el E _ s). apply Hrest. exact H.
  - match goal with |- context [is_directive ?x] => destruct (is_directive x) end;
      [apply Hrest; apply frame_refl|].
    pose proof (Hv _ _ eq_refl s) as H. destruct (lower_el E _ s). apply Hrest. exact H.
Qed.

Theorem lower_el_frame_A : forall n, FrA n.
Proof.
  apply node_ind'; intros; split; try (let x := fresh "sx" in intros x; apply frame_refl); try (intros ? ? Heq; discriminate Heq).
  - (* JsxE *)
    intros sx. cbn [lower_el].
    assert (Hats : Forall FrA ats) by assumption.
    pose proof (frame_attr_values _ Hats (push_slot_flag E sx)) as G1.
    destruct (lower_attr_values_with (lower_el E) ats (push_slot_flag E sx)) as [attrs s1]. cbn [snd] in G1.
    pose proof (frame_transform_attrs attrs (is_component E nm) s1) as G2.
    set (ar := transform_attrs E attrs (is_component E nm) s1) in *.
    pose proof (frame_transform_tag nm (r_st ar)) as G3.
    destruct (transform_tag E nm (r_st ar)) as [tag s2]. cbn [snd] in G3.
    assert (Hch : Forall Fr ch).
    { match goal with H : Forall FrA ch |- _ => eapply Forall_impl; [|exact H] end. intros x [Hx _]. exact Hx. }
    pose proof (frame_children _ Hch s2) as G4.
    destruct (lower_children_with E (lower_el E) ch s2) as [elems s3]. cbn [snd] in G4.
    pose proof (frame_finish_children elems (is_component E nm) (r_slots ar) s3) as G5.
    destruct (finish_children E elems (is_component E nm) (r_slots ar) s3) as [chx s4]. cbn [snd] in G5.
    pose proof (frame_get_pragma s4) as G6. destruct (get_pragma E s4) as [callee s5]. cbn [snd] in G6.
    pose proof (frame_push sx) as G0.
    destruct (r_dirs ar) as [|d0 dr].
    + cbn [snd]. fr.
    + match goal with |- context [import_from_vue ?n ?st0] =>
        pose proof (frame_import n st0) as G7; destruct (import_from_vue n st0) as [wd s6] end.
      cbn [snd] in G7.
      pose proof (frame_build_directives (d0 :: dr) nm attrs s6) as G8.
      destruct (build_directives (d0 :: dr) nm attrs s6) as [ds s7]. cbn [snd] in *. fr.
  - (* JsxF *)
    intros sx. cbn [lower_el].
    pose proof (frame_push sx) as G0.
    pose proof (frame_get_pragma (push_slot_flag E sx)) as G1.
    destruct (get_pragma E (push_slot_flag E sx)) as [callee s1]. cbn [snd] in G1.
    match goal with |- context [import_from_vue ?n ?st0] =>
      pose proof (frame_import n st0) as G2; destruct (import_from_vue n st0) as [frag s2] end.
    cbn [snd] in G2.
    assert (Hch : Forall Fr ch).
    { match goal with H : Forall FrA ch |- _ => eapply Forall_impl; [|exact H] end. intros x [Hx _]. exact Hx. }
    pose proof (frame_children _ Hch s2) as G3.
    destruct (lower_children_with E (lower_el E) ch s2) as [elems s3]. cbn [snd] in G3.
    pose proof (frame_finish_children elems false None s3) as G4.
    destruct (finish_children E elems false None s3) as [chx s4]. cbn [snd] in *. fr.
  - (* JAttr: element values *)
    intros nm0 v0 Heq. inversion Heq; subst.
    match goal with H : FrA v0 |- _ => destruct H as [H _]; exact H end.
Qed.

Theorem lower_el_frame n s : frame s (snd (lower_el E n s)).
Proof. destruct (lower_el_frame_A n) as [H _]. apply H. Qed.

End Frame.
