(* Induction principle for the nested inductive [node] and generic traversals. *)
From VJ Require Import Model.Str Model.Json Model.Ast.

Section NodeInd.
Variable P : node -> Prop.
Hypothesis H_NScalar : forall j, P (NScalar j).
Hypothesis H_NArr : forall l, Forall P l -> P (NArr l).
Hypothesis H_NObj : forall l, Forall P l -> P (NObj l).
Hypothesis H_Field : forall k v, P v -> P (Field k v).
Hypothesis H_Ident : forall s c o, P (Ident s c o).
Hypothesis H_BIdent : forall s c o t, P t -> P (BIdent s c o t).
Hypothesis H_IdName : forall s, P (IdName s).
Hypothesis H_Str : forall v w, P w -> P (Str v w).
Hypothesis H_Num : forall v w, P w -> P (Num v w).
Hypothesis H_Bool : forall b, P (Bool b).
Hypothesis H_Null : P Null.
Hypothesis H_Arr : forall l, Forall P l -> P (Arr l).
Hypothesis H_Elem : forall s e, P e -> P (Elem s e).
Hypothesis H_Hole : P Hole.
Hypothesis H_Obj : forall l, Forall P l -> P (Obj l).
Hypothesis H_KV : forall k v, P k -> P v -> P (KV k v).
Hypothesis H_Computed : forall e, P e -> P (Computed e).
Hypothesis H_Spread : forall e, P e -> P (Spread e).
Hypothesis H_Call : forall sy c f a t, P f -> Forall P a -> P t -> P (Call sy c f a t).
Hypothesis H_Arrow : forall c ps b a g tp rt, Forall P ps -> P b -> P tp -> P rt -> P (Arrow c ps b a g tp rt).
Hypothesis H_Assign : forall o l r, P l -> P r -> P (Assign o l r).
Hypothesis H_Paren : forall e, P e -> P (Paren e).
Hypothesis H_Cond : forall t c a, P t -> P c -> P a -> P (Cond t c a).
Hypothesis H_Bin : forall o l r, P l -> P r -> P (Bin o l r).
Hypothesis H_Unary : forall o a, P a -> P (Unary o a).
Hypothesis H_Member : forall o p, P o -> P p -> P (Member o p).
Hypothesis H_Block : forall c l, Forall P l -> P (Block c l).
Hypothesis H_JsxE : forall nm ats sc ta ch cl, P nm -> Forall P ats -> P ta -> Forall P ch -> P cl ->
                                             P (JsxE nm ats sc ta ch cl).
Hypothesis H_JsxF : forall ch, Forall P ch -> P (JsxF ch).
Hypothesis H_JAttr : forall nm v, P nm -> P v -> P (JAttr nm v).
Hypothesis H_JNs : forall a b, P a -> P b -> P (JNs a b).
Hypothesis H_JExprC : forall e, P e -> P (JExprC e).
Hypothesis H_JEmpty : P JEmpty.
Hypothesis H_JText : forall v w, P (JText v w).
Hypothesis H_JSpreadChild : forall e, P e -> P (JSpreadChild e).

Fixpoint node_ind' (n : node) : P n :=
  let fl := fix fl (l : list node) : Forall P l :=
              match l with
              | [] => Forall_nil P
              | x :: r => Forall_cons x (node_ind' x) (fl r)
              end in
  match n with
  | NScalar j => H_NScalar j
  | NArr l => H_NArr l (fl l)
  | NObj l => H_NObj l (fl l)
  | Field k v => H_Field k v (node_ind' v)
  | Ident s c o => H_Ident s c o
  | BIdent s c o t => H_BIdent s c o t (node_ind' t)
  | IdName s => H_IdName s
  | Str v w => H_Str v w (node_ind' w)
  | Num v w => H_Num v w (node_ind' w)
  | Bool b => H_Bool b
  | Null => H_Null
  | Arr l => H_Arr l (fl l)
  | Elem s e => H_Elem s e (node_ind' e)
  | Hole => H_Hole
  | Obj l => H_Obj l (fl l)
  | KV k v => H_KV k v (node_ind' k) (node_ind' v)
  | Computed e => H_Computed e (node_ind' e)
  | Spread e => H_Spread e (node_ind' e)
  | Call sy c f a t => H_Call sy c f a t (node_ind' f) (fl a) (node_ind' t)
  | Arrow c ps b a g tp rt => H_Arrow c ps b a g tp rt (fl ps) (node_ind' b) (node_ind' tp) (node_ind' rt)
  | Assign o l r => H_Assign o l r (node_ind' l) (node_ind' r)
  | Paren e => H_Paren e (node_ind' e)
  | Cond t c a => H_Cond t c a (node_ind' t) (node_ind' c) (node_ind' a)
  | Bin o l r => H_Bin o l r (node_ind' l) (node_ind' r)
  | Unary o a => H_Unary o a (node_ind' a)
  | Member o p => H_Member o p (node_ind' o) (node_ind' p)
  | Block c l => H_Block c l (fl l)
  | JsxE nm ats sc ta ch cl => H_JsxE nm ats sc ta ch cl (node_ind' nm) (fl ats) (node_ind' ta) (fl ch) (node_ind' cl)
  | JsxF ch => H_JsxF ch (fl ch)
  | JAttr nm v => H_JAttr nm v (node_ind' nm) (node_ind' v)
  | JNs a b => H_JNs a b (node_ind' a) (node_ind' b)
  | JExprC e => H_JExprC e (node_ind' e)
  | JEmpty => H_JEmpty
  | JText v w => H_JText v w
  | JSpreadChild e => H_JSpreadChild e (node_ind' e)
  end.
End NodeInd.

(* the direct children of a node, in JSON order *)
Definition kids (n : node) : list node :=
  match n with
  | NArr l | NObj l | Arr l | Obj l | Block _ l | JsxF l => l
  | Field _ v | Str _ v | Num _ v | Elem _ v | Computed v | Spread v | Paren v | Unary _ v
  | JExprC v | JSpreadChild v | BIdent _ _ _ v => [v]
  | KV a b | Assign _ a b | Bin _ a b | Member a b | JAttr a b | JNs a b => [a; b]
  | Cond a b c => [a; b; c]
  | Call _ _ f a t => f :: a ++ [t]
  | Arrow _ ps b _ _ tp rt => ps ++ [b; tp; rt]
  | JsxE nm ats _ ta ch cl => nm :: ats ++ ta :: ch ++ [cl]
  | _ => []
  end.

(* [all_sub p n]: p holds of n and of every node below it *)
Fixpoint all_sub (p : node -> bool) (n : node) {struct n} : bool :=
  let al := fix al (l : list node) : bool :=
              match l with [] => true | x :: r => all_sub p x && al r end in
  p n &&
  match n with
  | NArr l | NObj l | Arr l | Obj l | Block _ l | JsxF l => al l
  | Field _ v | Str _ v | Num _ v | Elem _ v | Computed v | Spread v | Paren v | Unary _ v
  | JExprC v | JSpreadChild v | BIdent _ _ _ v => all_sub p v
  | KV a b | Assign _ a b | Bin _ a b | Member a b | JAttr a b | JNs a b => all_sub p a && all_sub p b
  | Cond a b c => all_sub p a && all_sub p b && all_sub p c
  | Call _ _ f a t => all_sub p f && al a && all_sub p t
  | Arrow _ ps b _ _ tp rt => al ps && all_sub p b && all_sub p tp && all_sub p rt
  | JsxE nm ats _ ta ch cl => all_sub p nm && al ats && all_sub p ta && al ch && all_sub p cl
  | _ => true
  end.

Lemma all_sub_list p l :
  (fix al (l : list node) : bool := match l with [] => true | x :: r => all_sub p x && al r end) l
  = forallb (all_sub p) l.
Proof. induction l as [|x r IH]; [reflexivity|]. cbn [forallb]. rewrite <- IH. reflexivity. Qed.

(* all nodes of a tree, parents first, in document order *)
Fixpoint subs (n : node) {struct n} : list node :=
  let sl := fix sl (l : list node) : list node :=
              match l with [] => [] | x :: r => subs x ++ sl r end in
  n ::
  match n with
  | NArr l | NObj l | Arr l | Obj l | Block _ l | JsxF l => sl l
  | Field _ v | Str _ v | Num _ v | Elem _ v | Computed v | Spread v | Paren v | Unary _ v
  | JExprC v | JSpreadChild v | BIdent _ _ _ v => subs v
  | KV a b | Assign _ a b | Bin _ a b | Member a b | JAttr a b | JNs a b => subs a ++ subs b
  | Cond a b c => subs a ++ subs b ++ subs c
  | Call _ _ f a t => subs f ++ sl a ++ subs t
  | Arrow _ ps b _ _ tp rt => sl ps ++ subs b ++ subs tp ++ subs rt
  | JsxE nm ats _ ta ch cl => subs nm ++ sl ats ++ subs ta ++ sl ch ++ subs cl
  | _ => []
  end.
