(* The lowering of children refines the independent reading in Spec/SiteCheck.v (C02, C03, C11). *)
From Coq Require Import Lia.
From VJ Require Import Model.Str Model.Json Model.Ast Model.State Model.Util Model.Text
  Model.Directive Model.Lower Spec.JsxText Spec.OutViews Spec.Site Spec.SiteCheck Lemmas.StrLemmas
  Lemmas.TextProofs Lemmas.SiteProofs.

(* ---- structural equality is reflexive ---------------------------------------------------- *)
Lemma jv_eqb_refl : forall a, jv_eqb a a = true.
Proof.
  fix IH 1. intros [ | b | n | s | l | l ]; cbn.
  - reflexivity.
  - destruct b; reflexivity.
  - apply str_eqb_refl.
  - apply str_eqb_refl.
  - induction l as [|x r IHl]; [reflexivity|]. rewrite (IH x). exact IHl.
  - induction l as [|[k x] r IHl]; [reflexivity|]. rewrite str_eqb_refl, (IH x). exact IHl.
Qed.

Lemma node_eqb_refl n : node_eqb n n = true.
Proof. apply jv_eqb_refl. Qed.

Lemma nodes_eqb_refl l : nodes_eqb l l = true.
Proof. induction l as [|x r IH]; [reflexivity|]. cbn. rewrite node_eqb_refl. exact IH. Qed.

Lemma view_items_app a b : view_items (a ++ b) = view_items a ++ view_items b.
Proof.
  unfold view_items. induction a as [|x r IH]; [reflexivity|].
  cbn [app fold_right]. rewrite IH. destruct (view_item x); reflexivity.
Qed.

(* ---- children, one by one ------------------------------------------------------------------ *)
Definition not_gen_call (e : node) : bool := match e with Call true _ _ _ _ => false | _ => true end.

Definition is_elem (c : node) : bool := match c with JsxE _ _ _ _ _ _ | JsxF _ => true | _ => false end.

(* expression children are expressions of the source *)
Definition child_ok (c : node) : bool := match c with JExprC e => not_gen_call e | _ => true end.

Lemma view_item_user e : not_gen_call e = true -> view_item (Elem false e) = Some (VExpr e).
Proof. destruct e; try reflexivity. cbn. match goal with |- context [match ?b with true => _ | false => _ end] => destruct b end; [discriminate|reflexivity]. Qed.

Section Children.
Variable E : env.
Variable rec : node -> st -> node * st.        (* the lowering of a nested element *)
Variable chk : node -> node -> list str.       (* the check of a nested element *)
Variable fail : list str.
(* a property of the visitor state that holds wherever a nested element is lowered (e.g. "no
   assignment target is pending"); [fun _ => True] when none is needed *)
Variable P : st -> Prop.
Hypothesis P_text : forall v s, P s -> P (snd (transform_jsx_text v s)).
Hypothesis P_mark : forall e s, P s -> P (mark_dynamic E e s).

Definition rec_ok (cs : list node) : Prop :=
  forall c s', P s' -> In c cs -> is_elem c = true ->
    view_item (Elem false (fst (rec c s'))) = Some (VElem (fst (rec c s')))
    /\ chk c (fst (rec c s')) = []
    /\ P (snd (rec c s')).

Lemma text_item v s :
  match jsx_clean v with
  | [] => fst (transform_jsx_text v s) = None
  | t => exists h, fst (transform_jsx_text v s) = Some (mk_call h [mk_str t])
                   /\ is_helper "createTextVNode" h = true
  end.
Proof.
  unfold transform_jsx_text. rewrite transform_text_is_jsx_clean.
  destruct (jsx_clean v) as [|c r]; [reflexivity|].
  destruct (import_from_vue "createTextVNode" s) as [h s'] eqn:EI. cbn [fst].
  exists h. split; [reflexivity|].
  replace h with (fst (import_from_vue "createTextVNode" s)) by (rewrite EI; reflexivity).
  apply is_helper_import.
Qed.

(* C02: the children an element receives are exactly its written children, in order *)
Lemma children_items cs : forall s,
  P s -> rec_ok cs -> forallb child_ok cs = true ->
  check_items_with chk fail cs (view_items (fst (lower_children_with E rec cs s))) = []
  /\ P (snd (lower_children_with E rec cs s)).
Proof.
  induction cs as [|c r IH]; intros s HP RO OK; [split; [reflexivity|exact HP]|].
  cbn [forallb] in OK. apply andb_true_iff in OK. destruct OK as [OKc OKr].
  assert (ROr : rec_ok r). { intros c' s' HP' Hin He. apply RO; [exact HP'|right; exact Hin|exact He]. }
  cbn [lower_children_with check_items_with].
  destruct c;
    (* kinds that are no children at all *)
    try solve [cbn [src_child_kind];
         match goal with |- context [lower_children_with E rec r ?s0] =>
           specialize (IH s0 HP ROr OKr); destruct (lower_children_with E rec r s0) as [r' s1] end;
         cbn [fst snd app] in *; exact IH];
    (* nested elements and fragments *)
    try solve [cbn [src_child_kind];
         match goal with |- context [rec ?c0 ?s0] =>
           destruct (RO c0 s0 HP (or_introl eq_refl) eq_refl) as [HV [HC HP']];
           destruct (rec c0 s0) as [x s0'] eqn:ER; cbn [fst snd] in HV, HC, HP';
           specialize (IH s0' HP' ROr OKr); destruct (lower_children_with E rec r s0') as [r' s1];
           cbn [fst snd app] in *; destruct IH as [IH IP]; split; [|exact IP];
           change (Elem false x :: r') with ([Elem false x] ++ r');
           rewrite view_items_app; unfold view_items at 1; cbn [fold_right]; rewrite HV; cbn [app];
           rewrite HC, IH; reflexivity
         end].
  - (* JExprC *)
    cbn [child_ok] in OKc.
    match goal with |- context [JExprC ?e] => destruct e end; cbn [src_child_kind];
      try (match goal with |- context [lower_children_with E rec r (mark_dynamic E ?e0 s)] =>
             specialize (IH _ (P_mark e0 s HP) ROr OKr);
             destruct (lower_children_with E rec r (mark_dynamic E e0 s)) as [r' s1] end;
           cbn [fst snd app] in *; destruct IH as [IH IP]; split; [|exact IP];
           match goal with |- context [view_items (Elem false ?e :: ?rr)] =>
             change (Elem false e :: rr) with ([Elem false e] ++ rr) end;
           rewrite view_items_app; unfold view_items at 1; cbn [fold_right];
           rewrite (view_item_user _ OKc); cbn [app]; rewrite node_eqb_refl, IH; reflexivity).
    (* the empty expression *)
    specialize (IH s HP ROr OKr). destruct (lower_children_with E rec r s) as [r' s1]. exact IH.
  - (* JText *)
    cbn [src_child_kind].
    match goal with |- context [transform_jsx_text ?v s] =>
      pose proof (text_item v s) as HT; pose proof (P_text v s HP) as HPT;
      destruct (transform_jsx_text v s) as [t s2];
      cbn [fst snd] in HT, HPT; specialize (IH s2 HPT ROr OKr);
      destruct (lower_children_with E rec r s2) as [r' s1]; cbn [fst snd] in *;
      destruct (jsx_clean v) as [|ch tl]
    end.
    + subst t. exact IH.
    + destruct HT as [h [-> HH]]. cbn [app]. destruct IH as [IH IP]. split; [|exact IP].
      change (Elem false (mk_call h [mk_str (ch :: tl)]) :: r')
        with ([Elem false (mk_call h [mk_str (ch :: tl)])] ++ r').
      rewrite view_items_app. unfold view_items at 1. cbn [fold_right view_item mk_call map mk_str].
      rewrite HH. cbn [app]. rewrite str_eqb_refl, IH. reflexivity.
  - (* JSpreadChild *)
    cbn [src_child_kind].
    match goal with |- context [lower_children_with E rec r (mark_dynamic E ?e0 s)] =>
      specialize (IH _ (P_mark e0 s HP) ROr OKr);
      destruct (lower_children_with E rec r (mark_dynamic E e0 s)) as [r' s1] end.
    cbn [fst snd app] in *. destruct IH as [IH IP]. split; [|exact IP].
    match goal with |- context [view_items (Elem true ?e :: ?rr)] =>
      change (Elem true e :: rr) with ([Elem true e] ++ rr) end.
    rewrite view_items_app. unfold view_items at 1. cbn [fold_right view_item app].
    rewrite node_eqb_refl, IH. reflexivity.
Qed.

End Children.

(* ---- the children argument as a whole ---------------------------------------------------- *)
Section Finish.
Variable E : env.
Variable rec : node -> st -> node * st.
Variable P : st -> Prop.

Lemma live_nil_text v : jsx_clean v = [] -> forall s, transform_jsx_text v s = (None, s).
Proof. intros H s. unfold transform_jsx_text. rewrite transform_text_is_jsx_clean, H. reflexivity. Qed.

(* children that denote nothing (empty expressions, comments, text cleaning to "") leave no trace *)
Lemma lower_live cs : forall s,
  lower_children_with E rec cs s = lower_children_with E rec (live_children cs) s.
Proof.
  induction cs as [|c r IH]; intros s; [reflexivity|].
  unfold live_children. cbn [filter]. fold (live_children r).
  destruct (src_child_kind c) as [k|] eqn:EK.
  - cbn [lower_children_with].
    match goal with |- context [match ?X with pair _ _ => _ end] => destruct X as [o1 s1] end.
    rewrite IH. reflexivity.
  - cbn [lower_children_with].
    assert (FIN : forall s0, (let '(r', s1) := lower_children_with E rec r s0 in ([] ++ r', s1))
                             = lower_children_with E rec (live_children r) s0).
    { intros s0. rewrite IH. destruct (lower_children_with E rec (live_children r) s0); reflexivity. }
    destruct c; cbn [src_child_kind] in EK; try discriminate EK; try apply FIN.
    + match type of EK with context [match ?e with JEmpty => _ | _ => _ end] => destruct e end;
        try discriminate EK. apply FIN.
    + match type of EK with context [jsx_clean ?v] => destruct (jsx_clean v) eqn:EC end;
        [|discriminate EK].
      rewrite (live_nil_text _ EC). apply FIN.
Qed.

Lemma merge_slots_entries props slots : merge_slots props slots = props ++ vslots_entries slots.
Proof. destruct slots as [e|]; [destruct e; reflexivity|symmetry; apply app_nil_r]. Qed.

Lemma strip_hint_hint flag l : strip_hint (o_optimize (e_opts E)) (l ++ hint_prop E flag) = l.
Proof.
  unfold strip_hint, hint_prop. destruct (o_optimize (e_opts E)); [|apply app_nil_r].
  unfold drop_last_hint. rewrite rev_app_distr. cbn [rev app].
  replace (is_hint_kv (KV (IdName (s_ "_")) (mk_num (slot_flag_num flag)))) with true
    by (destruct flag; reflexivity).
  apply rev_involutive.
Qed.

(* the slot flag is popped before anything else *)
Definition popped (s : st) : bool * st :=
  if o_optimize (e_opts E) then
    match rev (slot_stack s) with
    | top :: rest => (top, set_slot_stack (rev rest) s)
    | [] => (false, s)
    end
  else (false, s).

Lemma popped_assign s : assign_left (snd (popped s)) = assign_left s.
Proof.
  unfold popped. destruct (o_optimize (e_opts E)); [|reflexivity].
  destruct (rev (slot_stack s)); [reflexivity|]. destruct s; reflexivity.
Qed.

Lemma build_iife_none elems s : assign_left s = None -> build_iife elems s = (elems, s).
Proof. intros H. unfold build_iife. rewrite H. reflexivity. Qed.

Lemma slot_ident_props s :
  let '(id, s') := generate_unique_slot_ident s in
  (exists sym c, id = Ident sym c false /\ is_gen_ctx c = true)
  /\ assign_left (set_slot_helper true s') = assign_left s.
Proof.
  unfold generate_unique_slot_ident, fresh_ident.
  split; [|destruct s; reflexivity].
  exists (if N.eqb (slot_counter s) 1 then s_ "_slot" else s_ "_slot" ++ dec_of_N (slot_counter s)).
  exists (temp_ctx (fresh s)). split; [reflexivity|].
  unfold is_gen_ctx, temp_ctx. apply N.leb_le. lia.
Qed.

Definition sole_special (live : list node) : bool :=
  match live with
  | [JExprC e] => fn_like e || match e with Obj _ => true | _ => false end
  | _ => false
  end.

(* a live child lowers to exactly one element; what kind follows the child *)
Lemma lower_one c s :
  src_child_kind c <> None -> child_ok c = true -> P s ->
  forall chk0, rec_ok rec chk0 P [c] ->
  exists x, fst (lower_children_with E rec [c] s) = [x]
            /\ match c with
               | JExprC e => x = Elem false e
               | JSpreadChild e => x = Elem true e
               | _ => exists y, x = Elem false y /\ not_gen_call y = false
               end.
Proof.
  intros LIVE OK HP chk0 RO. cbn [lower_children_with].
  destruct c; cbn [src_child_kind] in LIVE; try (exfalso; apply LIVE; reflexivity).
  - (* JsxE *)
    match goal with |- context [rec ?c0 s] =>
      destruct (RO c0 s HP (or_introl eq_refl) eq_refl) as [HV _]; destruct (rec c0 s) as [x s1] end.
    cbn [fst app] in *. eexists. split; [reflexivity|]. exists x. split; [reflexivity|].
    destruct x; try (cbn in HV; discriminate HV).
    match goal with |- not_gen_call (Call ?b _ _ _ _) = false => is_var b; revert HV; destruct b; intros HV end;
      [reflexivity|].
    cbn in HV. discriminate HV.
  - match goal with |- context [rec ?c0 s] =>
      destruct (RO c0 s HP (or_introl eq_refl) eq_refl) as [HV _]; destruct (rec c0 s) as [x s1] end.
    cbn [fst app] in *. eexists. split; [reflexivity|]. exists x. split; [reflexivity|].
    destruct x; try (cbn in HV; discriminate HV).
    match goal with |- not_gen_call (Call ?b _ _ _ _) = false => is_var b; revert HV; destruct b; intros HV end;
      [reflexivity|].
    cbn in HV. discriminate HV.
  - (* JExprC *)
    match type of LIVE with context [match ?e with JEmpty => _ | _ => _ end] => destruct e end;
      try (eexists; split; reflexivity).
    exfalso. apply LIVE. reflexivity.
  - (* JText *)
    match goal with |- context [transform_jsx_text ?v s] =>
      pose proof (text_item v s) as HT; destruct (transform_jsx_text v s) as [t s2];
      cbn [fst] in HT; destruct (jsx_clean v) as [|ch tl]; [exfalso; apply LIVE; reflexivity|]
    end.
    destruct HT as [h [-> _]]. eexists. split; [reflexivity|]. eexists. split; reflexivity.
  - (* JSpreadChild *)
    eexists. split; reflexivity.
Qed.

End Finish.


Section Refine.
Variable E : env.
Variable rec : node -> st -> node * st.
Variable chk : node -> node -> list str.
Variable P : st -> Prop.
Hypothesis P_text : forall v s, P s -> P (snd (transform_jsx_text v s)).
Hypothesis P_mark : forall e s, P s -> P (mark_dynamic E e s).

Lemma lower_cons c r s :
  fst (lower_children_with E rec (c :: r) s)
  = fst (lower_children_with E rec [c] s)
    ++ fst (lower_children_with E rec r (snd (lower_children_with E rec [c] s))).
Proof.
  cbn [lower_children_with].
  match goal with |- context [match ?X with pair _ _ => _ end] => destruct X as [o1 s1] end.
  cbn [fst snd]. destruct (lower_children_with E rec r s1) as [r' s']. cbn [fst].
  rewrite app_nil_r. reflexivity.
Qed.

Lemma live_In c cs : In c (live_children cs) -> In c cs /\ src_child_kind c <> None.
Proof.
  unfold live_children. intros H. apply filter_In in H. destruct H as [H1 H2].
  split; [exact H1|]. intros EQ. rewrite EQ in H2. discriminate H2.
Qed.

Lemma child_ok_In c cs : forallb child_ok cs = true -> In c cs -> child_ok c = true.
Proof. intros H Hin. rewrite forallb_forall in H. apply H. exact Hin. Qed.

Lemma rec_ok_sub cs cs' : (forall c, In c cs' -> In c cs) -> rec_ok rec chk P cs -> rec_ok rec chk P cs'.
Proof. intros SUB RO c s' HP Hin He. apply RO; [exact HP|apply SUB; exact Hin|exact He]. Qed.

Definition elems_shape_of (live : list node) (elems : list node) : Prop :=
  match live with
  | [] => elems = []
  | [JExprC e] => elems = [Elem false e]
  | [JSpreadChild e] => elems = [Elem true e]
  | [_] => exists y, elems = [Elem false y] /\ not_gen_call y = false
  | _ :: _ :: _ => exists x y r, elems = x :: y :: r
  end.

Lemma elems_shape cs s :
  P s -> rec_ok rec chk P cs -> forallb child_ok cs = true ->
  elems_shape_of (live_children cs) (fst (lower_children_with E rec cs s)).
Proof.
  intros HP RO OK. rewrite lower_live.
  assert (L : forall c, In c (live_children cs) ->
                        src_child_kind c <> None /\ child_ok c = true /\ rec_ok rec chk P [c]).
  { intros c Hin. destruct (live_In _ _ Hin) as [H1 H2]. split; [exact H2|].
    split; [exact (child_ok_In _ _ OK H1)|].
    apply (rec_ok_sub cs); [|exact RO]. intros c' [<-|[]]. exact H1. }
  destruct (live_children cs) as [|c1 [|c2 r]].
  - reflexivity.
  - destruct (L c1 (or_introl eq_refl)) as [H1 [H2 H3]].
    destruct (lower_one E rec P c1 s H1 H2 HP chk H3) as [x [HX HK]].
    unfold elems_shape_of. rewrite HX.
    destruct c1; try exact HK; try (destruct HK as [y0 [-> Hy]]; exists y0; split; [reflexivity|exact Hy]).
    + subst x. reflexivity.
    + subst x. reflexivity.
  - destruct (L c1 (or_introl eq_refl)) as [H1 [H2 H3]].
    destruct (L c2 (or_intror (or_introl eq_refl))) as [G1 [G2 G3]].
    rewrite lower_cons.
    destruct (lower_one E rec P c1 s H1 H2 HP chk H3) as [x [HX _]]. rewrite HX.
    rewrite lower_cons.
    assert (HP1 : P (snd (lower_children_with E rec [c1] s))).
    { apply (children_items E rec chk [] P P_text P_mark [c1] s HP H3). cbn [forallb]. rewrite H2. reflexivity. }
    destruct (lower_one E rec P c2 (snd (lower_children_with E rec [c1] s)) G1 G2 HP1 chk G3) as [y [HY _]].
    rewrite HY. cbn [app]. unfold elems_shape_of. destruct c1; eexists; eexists; eexists; reflexivity.
Qed.

Lemma finish_unfold elems is_comp slots s :
  finish_children E elems is_comp slots s =
  let '(flag, s) := popped E s in
  let default (s : st) :=
    if is_comp then (wrap_children E elems flag slots, s) else (Arr elems, s) in
  match elems with
  | [] => (match slots with Some e => e | None => Null end, s)
  | [Elem false e] =>
      match e with
      | Ident _ _ _ =>
          if is_comp then
            let '(elems', s) := build_iife elems s in
            if o_object_slots (e_opts E) then
              (Cond (mk_call slot_helper_ident [e]) e (wrap_children E elems' flag slots),
               set_slot_helper true s)
            else (wrap_children E elems' flag slots, s)
          else default s
      | Call false _ _ _ _ =>
          if is_comp then
            if o_object_slots (e_opts E) then
              let '(slot, s) := generate_unique_slot_ident s in
              let '(elems', s) := build_iife [Elem false slot] (set_slot_helper true s) in
              (Cond (mk_call slot_helper_ident [Assign (s_ "=") (Paren slot) e]) slot
                    (wrap_children E elems' flag slots), s)
            else (wrap_children E elems flag slots, s)
          else default s
      | Obj props => (Obj (merge_slots props slots ++ hint_prop E flag), s)
      | _ =>
          if is_fn_like e then
            (Obj (merge_slots [KV (IdName (s_ "default")) e] slots), s)
          else default s
      end
  | _ => default s
  end.
Proof. reflexivity. Qed.

Definition failtag (is_comp : bool) : list str :=
  if is_comp then tag "C03:slots" else tag "C02:children".

(* the default slot: a lazily evaluated function returning the children, v-slots beside it *)
Lemma default_slot_ok is_comp cs elems flag slots :
  check_items_with chk (failtag is_comp) cs (view_items elems) = [] ->
  match strip_hint (o_optimize (e_opts E))
          (merge_slots [KV (IdName (s_ "default")) (mk_arrow [] (Arr elems))] slots ++ hint_prop E flag) with
  | KV (IdName k) (Arrow _ [] (Arr es) _ _ _ _) :: rest =>
      if sq "default" k
      then check_items_with chk (failtag is_comp) cs (view_items es)
           ++ (if nodes_eqb rest (vslots_entries slots) then [] else failtag is_comp)
      else failtag is_comp
  | _ => failtag is_comp
  end = [].
Proof.
  intros ITEMS. rewrite merge_slots_entries, strip_hint_hint. cbn [app mk_arrow].
  change (sq "default" (s_ "default")) with true. cbv iota.
  rewrite ITEMS, nodes_eqb_refl. reflexivity.
Qed.

Definition default_result (elems : list node) (is_comp : bool) (slots : option node) (s : st) : node * st :=
  let '(flag, s) := popped E s in
  if is_comp then (wrap_children E elems flag slots, s) else (Arr elems, s).

Lemma finish_default_many x y r is_comp slots s :
  finish_children E (x :: y :: r) is_comp slots s = default_result (x :: y :: r) is_comp slots s.
Proof.
  rewrite finish_unfold. unfold default_result. destruct (popped E s) as [flag s3].
  destruct x; try reflexivity.
  match goal with |- context [match ?b with true => _ | false => _ end] => destruct b end; reflexivity.
Qed.

Lemma finish_default_spread e is_comp slots s :
  finish_children E [Elem true e] is_comp slots s = default_result [Elem true e] is_comp slots s.
Proof. rewrite finish_unfold. unfold default_result. destruct (popped E s). reflexivity. Qed.

Lemma finish_default_generated y is_comp slots s :
  not_gen_call y = false ->
  finish_children E [Elem false y] is_comp slots s = default_result [Elem false y] is_comp slots s.
Proof.
  intros H. rewrite finish_unfold. unfold default_result. destruct (popped E s).
  destruct y; try discriminate H.
  match type of H with not_gen_call (Call ?b _ _ _ _) = false => destruct b end; [reflexivity|discriminate H].
Qed.

Lemma default_result_ok elems is_comp slots s cs :
  check_items_with chk (failtag is_comp) cs (view_items elems) = [] ->
  (if is_comp
   then match fst (default_result elems is_comp slots s) with
        | Obj props =>
            match strip_hint (o_optimize (e_opts E)) props with
            | KV (IdName k) (Arrow _ [] (Arr es) _ _ _ _) :: rest =>
                if sq "default" k
                then check_items_with chk (failtag is_comp) cs (view_items es)
                     ++ (if nodes_eqb rest (vslots_entries slots) then [] else failtag is_comp)
                else failtag is_comp
            | _ => failtag is_comp
            end
        | _ => failtag is_comp
        end
   else match fst (default_result elems is_comp slots s) with
        | Arr es => check_items_with chk (failtag is_comp) cs (view_items es)
        | _ => failtag is_comp
        end) = [].
Proof.
  intros ITEMS. unfold default_result. destruct (popped E s) as [flag s3].
  destruct is_comp; cbn [fst].
  - unfold wrap_children. apply (default_slot_ok true); exact ITEMS.
  - exact ITEMS.
Qed.

(* C02 / C03: the children argument the transform builds is the one the property describes *)
Theorem children_refine cs s s2 is_comp vslots :
  P s -> rec_ok rec chk P cs -> forallb child_ok cs = true ->
  assign_left s2 = None ->
  (is_comp = false -> sole_special (live_children cs) = false) ->
  check_children_with E chk is_comp vslots cs
    (fst (finish_children E (fst (lower_children_with E rec cs s)) is_comp vslots s2)) = [].
Proof.
  intros HP RO OK AL NS.
  destruct (children_items E rec chk (failtag is_comp) P P_text P_mark cs s HP RO OK) as [ITEMS _].
  pose proof (elems_shape cs s HP RO OK) as SH.
  set (elems := fst (lower_children_with E rec cs s)) in *.
  unfold check_children_with. fold (failtag is_comp).
  destruct (live_children cs) as [|c1 [|c2 r]] eqn:EL.
  - (* no children *)
    cbn in SH. rewrite SH. rewrite finish_unfold. destruct (popped E s2) as [flag s3].
    destruct is_comp; destruct vslots; cbn [fst negb]; rewrite ?node_eqb_refl; reflexivity.
  - (* one child *)
    assert (L1 : In c1 (live_children cs)) by (rewrite EL; left; reflexivity).
    destruct (live_In _ _ L1) as [IN1 LV1]. pose proof (child_ok_In _ _ OK IN1) as OK1.
    destruct c1; cbn [elems_shape_of] in SH;
      (* a generated single child: text, a nested element *)
      try solve [destruct SH as [y [SH Hy]]; rewrite SH in *;
           rewrite (finish_default_generated _ _ _ _ Hy);
           unfold default_result; destruct (popped E s2) as [flag s3];
           destruct is_comp; cbn [fst negb]; cbv beta iota zeta;
           [unfold wrap_children; apply (default_slot_ok true); exact ITEMS | exact ITEMS]].
    + (* a single expression *)
      rewrite SH in *. cbn [child_ok] in OK1. cbn [src_child_kind] in LV1.
      rewrite finish_unfold. destruct (popped E s2) as [flag s3] eqn:EP.
      assert (AL3 : assign_left s3 = None).
      { rewrite <- AL, <- (popped_assign E s2), EP. reflexivity. }
      match type of SH with _ = [Elem false ?e] => destruct e end;
        try (exfalso; apply LV1; reflexivity);
        try solve [cbn [is_fn_like fn_like orb]; cbv beta iota zeta;
                   destruct is_comp; cbn [fst negb]; cbv beta iota zeta;
                   [unfold wrap_children; apply (default_slot_ok true); exact ITEMS | exact ITEMS]].
      * (* a generic object: a function expression or not *)
        cbn [is_fn_like fn_like orb] in *. cbv beta iota zeta.
        match goal with |- context [sq "FunctionExpression" ?t] => destruct (sq "FunctionExpression" t) eqn:EF end.
        -- destruct is_comp; cbn [fst negb]; cbv beta iota zeta.
           ++ rewrite merge_slots_entries. cbn [app].
              change (sq "default" (s_ "default")) with true.
              rewrite node_eqb_refl, nodes_eqb_refl. reflexivity.
           ++ specialize (NS eq_refl). cbn [sole_special fn_like] in NS. rewrite EF in NS. discriminate NS.
        -- destruct is_comp; cbn [fst negb]; cbv beta iota zeta;
             [unfold wrap_children; apply (default_slot_ok true); exact ITEMS | exact ITEMS].
      * (* an identifier: decided at runtime when object slots are enabled *)
        cbn [is_fn_like fn_like orb] in *. cbv beta iota zeta.
        destruct is_comp; cbn [fst negb]; cbv beta iota zeta; [|exact ITEMS].
        rewrite (build_iife_none _ _ AL3).
        destruct (o_object_slots (e_opts E)); cbn [fst]; unfold wrap_children.
        -- unfold mk_call. cbn [map].
           change (is_helper "isSlot" slot_helper_ident) with true.
           rewrite !node_eqb_refl. cbn [andb].
           apply (default_slot_ok true); exact ITEMS.
        -- apply (default_slot_ok true); exact ITEMS.
      * (* an object literal: the slots object itself *)
        cbn [is_fn_like fn_like orb] in *. cbv beta iota zeta.
        destruct is_comp; cbn [fst negb]; cbv beta iota zeta.
        -- rewrite merge_slots_entries, strip_hint_hint, nodes_eqb_refl. reflexivity.
        -- specialize (NS eq_refl). cbn [sole_special fn_like orb] in NS. discriminate NS.
      * (* a call: evaluated exactly once, into a temporary, when object slots are enabled *)
        match type of OK1 with not_gen_call (Call ?b _ _ _ _) = true => destruct b end;
          [discriminate OK1|].
        cbn [is_fn_like fn_like orb] in *. cbv beta iota zeta.
        destruct is_comp; cbn [fst negb]; cbv beta iota zeta; [|exact ITEMS].
        destruct (o_object_slots (e_opts E)); cbn [fst].
        -- pose proof (slot_ident_props s3) as SP.
           destruct (generate_unique_slot_ident s3) as [slot s4].
           destruct SP as [[sym [c [-> GC]]] AL4]. rewrite AL3 in AL4.
           rewrite (build_iife_none _ _ AL4). cbn [fst]. unfold wrap_children, mk_call. cbn [map].
           change (is_helper "isSlot" slot_helper_ident) with true.
           change (sq "=" (s_ "=")) with true.
           rewrite !node_eqb_refl, GC. cbn [andb].
           rewrite merge_slots_entries, strip_hint_hint. cbn [app mk_arrow].
           change (sq "default" (s_ "default")) with true.
           rewrite node_eqb_refl, nodes_eqb_refl. reflexivity.
        -- unfold wrap_children. apply (default_slot_ok true); exact ITEMS.
      * (* an arrow function: the default slot itself *)
        cbn [is_fn_like fn_like orb] in *. cbv beta iota zeta.
        destruct is_comp; cbn [fst negb]; cbv beta iota zeta.
        -- rewrite merge_slots_entries. cbn [app].
           change (sq "default" (s_ "default")) with true.
           rewrite node_eqb_refl, nodes_eqb_refl. reflexivity.
        -- specialize (NS eq_refl). cbn [sole_special fn_like orb] in NS. discriminate NS.
    + (* a single spread child *)
      rewrite SH in *. rewrite finish_default_spread.
      unfold default_result; destruct (popped E s2) as [flag s3];
        destruct is_comp; cbn [fst negb]; cbv beta iota zeta;
        [unfold wrap_children; apply (default_slot_ok true); exact ITEMS | exact ITEMS].
  - (* several children *)
    assert (SH' : exists x y r', elems = x :: y :: r') by (destruct c1; exact SH).
    destruct SH' as [x [y [r' SH']]]. rewrite SH' in *.
    rewrite finish_default_many.
    pose proof (default_result_ok (x :: y :: r') is_comp vslots s2 cs ITEMS) as D.
    destruct is_comp; cbn [negb] in *; cbv beta iota zeta; destruct c1; exact D.
Qed.

End Refine.
