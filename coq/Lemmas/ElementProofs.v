(* The full statement of C01-C05 for a fragment of the language (mergeProps on or off): an element
   whose attributes each satisfy their per-attribute refinement, whose children are source
   expressions / text / nested elements of the same kind, is lowered to an expression that the
   independent reading of Spec/SiteCheck.v accepts entirely: [check_site] returns no complaint. *)
From Coq Require Import Lia PeanoNat.
From VJ Require Import Model.Str Model.Json Model.Ast Model.State Model.Util Model.Text
  Model.Directive Model.Lower Spec.JsxText Spec.OutViews Spec.Site Spec.SiteCheck Lemmas.StrLemmas
  Lemmas.NodeInd Lemmas.TextProofs Lemmas.SiteProofs Lemmas.ChildProofs Lemmas.AttrsProofs Lemmas.DirsProofs
  Lemmas.ContribsProofs Lemmas.MergeProofs Lemmas.BalProofs.

(* ---- the comparison functions of the oracle are reflexive -------------------------------- *)
Lemma atype_eqb_refl a : atype_eqb a a = true.
Proof. destruct a; cbn; try apply str_eqb_refl; try apply node_eqb_refl; reflexivity. Qed.

Lemma nodes_combine_refl vs : forallb (fun '(x, y) => node_eqb x y) (combine vs vs) = true.
Proof. induction vs as [|v r IH]; [reflexivity|]. cbn. rewrite node_eqb_refl. exact IH. Qed.

Lemma contrib_eqb_refl c : contrib_eqb c c = true.
Proof.
  destruct c; cbn; rewrite ?str_eqb_refl, ?node_eqb_refl, ?PeanoNat.Nat.eqb_refl, ?nodes_combine_refl; reflexivity.
Qed.

Lemma contribs_eqb_refl l : contribs_eqb l l = true.
Proof. induction l as [|c r IH]; [reflexivity|]. cbn. rewrite contrib_eqb_refl. exact IH. Qed.

Lemma strs_combine_refl m : forallb (fun '(x, y) => str_eqb x y) (combine m m) = true.
Proof. induction m as [|v r IH]; [reflexivity|]. cbn. rewrite str_eqb_refl. exact IH. Qed.

Lemma adir_eqb_refl d : adir_eqb d d = true.
Proof.
  destruct d as [def v g m]. cbn. rewrite !node_eqb_refl, PeanoNat.Nat.eqb_refl, strs_combine_refl.
  destruct g; [rewrite node_eqb_refl|]; reflexivity.
Qed.

Lemma dirs_match_views spec view : map view_dir view = map Some spec -> dirs_match spec view = true.
Proof.
  revert view. induction spec as [|d r IH]; intros [|v vr] H; try discriminate; [reflexivity|].
  cbn in H. injection H as H1 H2. cbn. rewrite H1, adir_eqb_refl. apply IH. exact H2.
Qed.

Lemma contribs_fail_same keys l : contribs_fail keys l l = [].
Proof. unfold contribs_fail. rewrite contribs_eqb_refl. reflexivity. Qed.

(* ---- host kind: the two definitions agree ------------------------------------------------ *)
Definition good_tag (name : node) : bool :=
  match name with
  | Ident _ c _ => negb (is_gen_ctx c)
  | JNs (IdName _) (IdName _) => true
  | NObj _ => sq "JSXMemberExpression" (ntype name)
  | _ => false
  end.

Lemma good_tag_user name : good_tag name = true -> user_name name = true.
Proof. destruct name; cbn; try discriminate; auto. Qed.

Lemma fragment_like_eq n : fragment_like n = is_fragment_name n.
Proof.
  unfold fragment_like, is_fragment_name, all_digits.
  destruct n as [|c r]; [reflexivity|].
  cbn [strip_prefix]. destruct (N.eqb 95 c) eqn:EC.
  - apply N.eqb_eq in EC. subst c. reflexivity.
  - destruct c as [|p]; [reflexivity|].
    repeat (destruct p as [p|p|]; try reflexivity); cbn in EC; discriminate.
Qed.

Lemma is_component_spec E name : good_tag name = true -> is_component E name = spec_is_component E name.
Proof.
  intros G. unfold is_component, spec_is_component, is_member_tag.
  change (last_name name) with (tag_name_str name). rewrite fragment_like_eq.
  destruct name; try discriminate G.
  - (* NObj: a member expression *)
    cbn [good_tag] in G. rewrite G.
    destruct (is_fragment_name _), (sq "KeepAlive" _); reflexivity.
  - (* Ident *)
    cbn [ntype]. change (sq "JSXMemberExpression" (ntype (Ident sym ctx opt))) with false.
    destruct (pat_any E _), (is_fragment_name _), (sq "KeepAlive" _), (is_html_or_svg E _); reflexivity.
  - (* JNs *)
    change (sq "JSXMemberExpression" (ntype (JNs name1 name2))) with false.
    destruct (pat_any E _), (is_fragment_name _), (sq "KeepAlive" _), (is_html_or_svg E _); reflexivity.
Qed.

(* ---- v-slots: the last written v-slots value ---------------------------------------------- *)
Section Slots.
Variable E : env.
Variable ic : bool.
Variable tag : node.
Variable attrs : list node.

Definition spec_slot (x : node) : option (option node) := snd (attr_spec E ic tag attrs x).

Definition slots_ok (x : node) : Prop :=
  forall a, a_slots (attr_step E ic a x) = match spec_slot x with Some v => v | None => a_slots a end.

Lemma slots_fold xs : forall a,
  Forall slots_ok xs ->
  a_slots (fold_left (attr_step E ic) xs a)
  = fold_left (fun acc x => match spec_slot x with Some v => v | None => acc end) xs (a_slots a).
Proof.
  induction xs as [|x r IH]; intros a FA; [reflexivity|].
  inversion FA as [|x' r' HX HR]; subst. cbn [fold_left]. rewrite (IH _ HR), (HX a). reflexivity.
Qed.

Lemma spec_attrs_slots :
  splice_vmodels attrs false = attrs ->
  snd (spec_attrs E ic tag attrs)
  = fold_left (fun acc x => match spec_slot x with Some v => v | None => acc end) attrs None.
Proof.
  intros SP. unfold spec_attrs. rewrite SP.
  match goal with |- context [fold_left ?st attrs ?acc] => set (step := st) end.
  assert (G : forall xs segs run dirs slots,
             let '(_, _, _, slots') := fold_left step xs (segs, run, dirs, slots) in
             slots' = fold_left (fun acc x => match spec_slot x with Some v => v | None => acc end) xs slots).
  { induction xs as [|x r IH]; intros segs run dirs slots; [reflexivity|].
    cbn [fold_left]. unfold step at 2. unfold spec_slot at 2.
    destruct (attr_spec E ic tag attrs x) as [[cs ds] sl]. cbn [fst snd].
    match goal with |- context [if ?b then _ else _] => destruct b end;
      match goal with |- context [fold_left step r (?s0, ?r0, ?d0, ?sl0)] =>
        specialize (IH s0 r0 d0 sl0); destruct (fold_left step r (s0, r0, d0, sl0)) as [[[? ?] ?] ?] end;
      exact IH. }
  specialize (G attrs [] [] [] None).
  destruct (fold_left step attrs ([], [], [], None)) as [[[segs run] dirs] slots].
  cbn [snd]. exact G.
Qed.

Lemma transform_attrs_slots s :
  splice_vmodels attrs false = attrs -> Forall slots_ok attrs ->
  r_slots (transform_attrs E attrs ic s) = snd (spec_attrs E ic tag attrs).
Proof.
  intros SP FA. rewrite (spec_attrs_slots SP). unfold transform_attrs.
  destruct attrs as [|x0 xs] eqn:EA; [reflexivity|]. rewrite <- EA in *.
  pose proof (slots_fold attrs (mkAcc [] [] [] [] None false false false false false s) FA) as H.
  cbn [a_slots] in H. destruct (final_attrs_expr E _) as [e s2]. cbn [r_slots]. exact H.
Qed.

End Slots.

(* ---- the element as a whole ------------------------------------------------------------------ *)
Section Element.
Variable E : env.

Definition no_elem_value (a : node) : bool :=
  match a with
  | JAttr _ (JsxE _ _ _ _ _ _) | JAttr _ (JsxF _) => false
  | _ => true
  end.

Lemma lower_attr_values_id rec attrs : forall s,
  forallb no_elem_value attrs = true -> lower_attr_values_with rec attrs s = (attrs, s).
Proof.
  induction attrs as [|a r IH]; intros s H; [reflexivity|].
  cbn [forallb] in H. apply andb_true_iff in H. destruct H as [Ha Hr].
  cbn [lower_attr_values_with].
  assert (Hdef : (let '(r', s0) := lower_attr_values_with rec r s in (a :: r', s0)) = (a :: r, s))
    by (rewrite (IH s Hr); reflexivity).
  destruct a; try exact Hdef.
  match goal with |- context [JAttr ?nm ?v] => destruct v end; try exact Hdef; discriminate Ha.
Qed.

(* the props part of an attribute: with mergeProps off every kind joins the one object; with it
   on a spread is an argument of its own and the others must not denote an element or a spread *)
Definition attr_contrib_ok (ic : bool) (tag : node) (attrs : list node) (x : node) : Prop :=
  if o_merge_props (e_opts E) then merge_ok E ic tag attrs x else contrib_ok E ic tag attrs x.

Definition attr_good (ic : bool) (tag : node) (attrs : list node) (x : node) : Prop :=
  attr_contrib_ok ic tag attrs x /\ dir_ok E ic tag attrs x /\ slots_ok E ic tag attrs x.

(* the state in which elements are lowered: no assignment target pending *)
Definition quiet_a (s : st) : Prop := assign_left s = None.

Lemma quiet_bal s s' : bal s s' -> quiet_a s -> quiet_a s'.
Proof. intros [B _] Q. apply B. exact Q. Qed.

Lemma quiet_text v s : quiet_a s -> quiet_a (snd (transform_jsx_text v s)).
Proof.
  unfold transform_jsx_text. destruct (transform_text v); [auto|].
  intros Q. destruct s; exact Q.
Qed.

Lemma quiet_push s : quiet_a s -> quiet_a (push_slot_flag E s).
Proof. unfold push_slot_flag, quiet_a. destruct (o_optimize (e_opts E)); [|auto]. destruct s; auto. Qed.

Lemma quiet_mark e s : quiet_a s -> quiet_a (mark_dynamic E e s).
Proof. apply quiet_bal. apply bal_mark. Qed.

(* the fragment: hosts, attributes and children the theorem covers *)
Inductive good : nat -> node -> Prop :=
| good_E : forall h name attrs sc ta children cl,
    good_tag name = true ->
    splice_vmodels attrs false = attrs ->
    forallb no_elem_value attrs = true ->
    Forall (attr_good (is_component E name) name attrs) attrs ->
    (forall x e, In x attrs -> contribs_of E (is_component E name) name attrs x = [CSpread e] ->
       view_arg e = [CSpread e] /\ e <> Null /\ match e with Call true _ _ _ _ => False | _ => True end) ->
    forallb child_ok children = true ->
    (is_component E name = false -> sole_special (live_children children) = false) ->
    elem_contribs (fst (fst (spec_attrs E (is_component E name) name attrs))) = [] ->
    (forall c, In c children -> is_elem c = true -> good h c) ->
    good (S h) (JsxE name attrs sc ta children cl)
| good_F : forall h children,
    forallb child_ok children = true ->
    sole_special (live_children children) = false ->
    (forall c, In c children -> is_elem c = true -> good h c) ->
    good (S h) (JsxF children).

(* the output of the lowering is a vnode call, possibly wrapped in withDirectives *)
Lemma pragma_not_merge_props s : is_helper "mergeProps" (fst (get_pragma E s)) = false.
Proof.
  unfold get_pragma. destruct (pragma s); [reflexivity|].
  destruct (o_pragma (e_opts E)); reflexivity.
Qed.

Lemma pragma_is_ident s : exists sym c o, fst (get_pragma E s) = Ident sym c o.
Proof.
  unfold get_pragma. destruct (pragma s); [do 3 eexists; reflexivity|].
  destruct (o_pragma (e_opts E)); do 3 eexists; reflexivity.
Qed.

Lemma split_dirs_call callee a b c r :
  split_dirs (mk_call callee (a :: b :: c :: r)) = (mk_call callee (a :: b :: c :: r), []).
Proof. unfold split_dirs, mk_call. cbn [map]. destruct b; reflexivity. Qed.

Lemma split_dirs_wd s call ds :
  split_dirs (mk_call (fst (import_from_vue "withDirectives" s)) [call; Arr ds]) = (call, ds).
Proof.
  unfold split_dirs, mk_call. cbn [map].
  pose proof (is_helper_import "withDirectives" s) as H. rewrite H. reflexivity.
Qed.

Lemma is_vnode_call_lowered s tag props ch rest :
  is_vnode_call (mk_call (fst (get_pragma E s)) (tag :: props :: ch :: rest)) = true.
Proof.
  destruct (pragma_is_ident s) as [sym [c [o EQ]]].
  pose proof (pragma_not_merge_props s) as NM. rewrite EQ in *.
  unfold is_vnode_call, mk_call. cbn [map]. rewrite NM. reflexivity.
Qed.

Lemma vnode_parts_lowered s tag props ch rest :
  exists v, vnode_parts (mk_call (fst (get_pragma E s)) (tag :: props :: ch :: rest)) = Some v
            /\ vp_tag v = tag /\ vp_props v = props /\ vp_children v = ch.
Proof.
  unfold vnode_parts. rewrite is_vnode_call_lowered. unfold mk_call. cbn [map].
  match goal with |- context [match ?X with pair _ _ => _ end] => destruct X as [fl dy] end.
  eexists. split; [reflexivity|]. repeat split.
Qed.

Lemma view_item_lowered_call s tag props ch rest :
  let x := mk_call (fst (get_pragma E s)) (tag :: props :: ch :: rest) in
  view_item (Elem false x) = Some (VElem x).
Proof.
  cbv zeta. pose proof (is_vnode_call_lowered s tag props ch rest) as H.
  unfold view_item, is_wrapped_vnode. rewrite H. unfold mk_call. cbn [map orb]. destruct tag; reflexivity.
Qed.

Lemma view_item_lowered_wd s0 s tag props ch rest ds :
  let call := mk_call (fst (get_pragma E s)) (tag :: props :: ch :: rest) in
  let x := mk_call (fst (import_from_vue "withDirectives" s0)) [call; Arr ds] in
  view_item (Elem false x) = Some (VElem x).
Proof.
  cbv zeta. pose proof (is_vnode_call_lowered s tag props ch rest) as H.
  pose proof (is_helper_import "withDirectives" s0) as HW.
  unfold view_item, is_wrapped_vnode, mk_call in *. cbn [map] in *.
  rewrite HW, H. cbn [andb orb].
  destruct (is_vnode_call _); reflexivity.
Qed.

(* C01-C05, full statement, for the fragment *)
Theorem element_refines : forall h el, good h el -> forall f s, (h <= f)%nat -> quiet_a s ->
  check_site E f el (fst (lower_el E el s)) = []
  /\ view_item (Elem false (fst (lower_el E el s))) = Some (VElem (fst (lower_el E el s)))
  /\ quiet_a (snd (lower_el E el s)).
Proof.
  induction h as [|h IH]; intros el G; [inversion G|].
  intros f s LE Q. destruct f as [|f]; [lia|]. assert (LE' : (h <= f)%nat) by lia.
  assert (QB : quiet_a (snd (lower_el E el s))).
  { eapply quiet_bal; [apply lower_el_bal|exact Q]. }
  inversion G as [h0 name attrs sc ta children cl GT SP NEV AG LONE OK NS EC GC
                 | h0 children OK NS GC]; subst.
  - (* an element *)
    set (ic := is_component E name) in *.
    assert (REC : rec_ok (lower_el E) (check_site E f) quiet_a children).
    { intros c s' Q' Hin He. destruct (IH c (GC c Hin He) f s' LE' Q') as [H1 [H2 H3]]. repeat split; assumption. }
    split; [|split; [|exact QB]].
    + (* check_site *)
      cbn [check_site lower_el]. fold ic.
      rewrite (lower_attr_values_id (lower_el E) attrs (push_slot_flag E s) NEV).
      set (s0 := push_slot_flag E s).
      set (ar := transform_attrs E attrs ic s0).
      assert (Q0 : quiet_a s0) by (apply quiet_push; exact Q).
      assert (Q1 : quiet_a (r_st ar)) by (eapply quiet_bal; [apply bal_transform_attrs|exact Q0]).
      pose proof (transform_tag_type E name (r_st ar) (good_tag_user _ GT)) as TT.
      pose proof (bal_transform_tag E name (r_st ar)) as BT.
      destruct (transform_tag E name (r_st ar)) as [tag s2]. cbn [fst snd] in TT, BT.
      assert (Q2 : quiet_a s2) by (eapply quiet_bal; [exact BT|exact Q1]).
      destruct (children_items E (lower_el E) (check_site E f) [] quiet_a quiet_text quiet_mark children s2 Q2 REC OK)
        as [_ Q3].
      pose proof (fun vs s4 => children_refine E (lower_el E) (check_site E f) quiet_a quiet_text quiet_mark
                                children s2 s4 ic vs Q2 REC OK) as CR.
      destruct (lower_children_with E (lower_el E) children s2) as [elems s3]. cbn [fst snd] in Q3, CR.
      specialize (CR (r_slots ar) s3 Q3 NS).
      destruct (finish_children E elems ic (r_slots ar) s3) as [ch s4]. cbn [fst] in CR.
      (* the views of the attribute part *)
      assert (AGd : Forall (dir_ok E ic name attrs) attrs)
        by (eapply Forall_impl; [|exact AG]; intros x [_ [H _]]; exact H).
      assert (AGs : Forall (slots_ok E ic name attrs) attrs)
        by (eapply Forall_impl; [|exact AG]; intros x [_ [_ H]]; exact H).
      assert (VC : view_contribs (r_attrs ar) = fst (fst (spec_attrs E ic name attrs))).
      { subst ar. destruct (o_merge_props (e_opts E)) eqn:MP.
        - apply (contribs_refine_arg_merge E ic name attrs MP s0 SP).
          + eapply Forall_impl; [|exact AG]. intros x [H _]. unfold attr_contrib_ok in H. rewrite MP in H. exact H.
          + intros e Hin. destruct e; try discriminate.
            destruct (LONE (Spread Null) Null Hin eq_refl) as [_ [H _]]. exact H.
        - apply (contribs_refine_arg E ic name attrs s0 MP SP); [|exact LONE].
          eapply Forall_impl; [|exact AG]. intros x [H _]. unfold attr_contrib_ok in H. rewrite MP in H. exact H. }
      pose proof (directives_refine E ic name attrs s0 SP AGd) as VD. fold ar in VD.
      pose proof (transform_attrs_slots E ic name attrs s0 SP AGs) as VS. fold ar in VS.
      rewrite <- (is_component_spec E name GT). fold ic.
      destruct (spec_attrs E ic name attrs) as [[cs dirs] vslots] eqn:ESA.
      cbn [fst snd] in VC, VD, VS, EC. rewrite VS in CR.
      destruct (get_pragma E s4) as [callee s5] eqn:EGP.
      assert (CAL : callee = fst (get_pragma E s4)) by (rewrite EGP; reflexivity).
      destruct (r_dirs ar) as [|d0 dr] eqn:ERD.
      * (* no directive *)
        cbn [fst app].
        match goal with |- context [mk_call callee (?t :: ?p :: ?c :: ?r)] =>
          rewrite (split_dirs_call callee t p c r);
          rewrite CAL; destruct (vnode_parts_lowered s4 t p c r) as [v [EV [V1 [V2 V3]]]]; rewrite EV end.
        rewrite V1, V2, V3, TT, atype_eqb_refl, VC, contribs_fail_same, EC.
        specialize (VD s4). cbn [build_directives fst map] in VD.
        destruct dirs; [|discriminate VD]. cbn [dirs_match app]. exact CR.
      * (* wrapped in withDirectives *)
        destruct (import_from_vue "withDirectives" s5) as [wd s6] eqn:EW.
        assert (WD : wd = fst (import_from_vue "withDirectives" s5)) by (rewrite EW; reflexivity).
        specialize (VD s6).
        destruct (build_directives (d0 :: dr) name attrs s6) as [ds s7]. cbn [fst] in VD |- *.
        rewrite WD, split_dirs_wd. cbn [app].
        match goal with |- context [mk_call callee (?t :: ?p :: ?c :: ?r)] =>
          rewrite CAL; destruct (vnode_parts_lowered s4 t p c r) as [v [EV [V1 [V2 V3]]]]; rewrite EV end.
        rewrite V1, V2, V3, TT, atype_eqb_refl, VC, contribs_fail_same, EC.
        rewrite (dirs_match_views dirs ds VD). cbn [app]. exact CR.
    + (* the result is a vnode call *)
      cbn [lower_el]. fold ic.
      rewrite (lower_attr_values_id (lower_el E) attrs (push_slot_flag E s) NEV).
      set (ar := transform_attrs E attrs ic (push_slot_flag E s)).
      destruct (transform_tag E name (r_st ar)) as [tag s2].
      destruct (lower_children_with E (lower_el E) children s2) as [elems s3].
      destruct (finish_children E elems ic (r_slots ar) s3) as [ch s4].
      destruct (get_pragma E s4) as [callee s5] eqn:EGP.
      assert (CAL : callee = fst (get_pragma E s4)) by (rewrite EGP; reflexivity).
      destruct (r_dirs ar) as [|d0 dr].
      * cbn [fst]. rewrite CAL. apply view_item_lowered_call.
      * destruct (import_from_vue "withDirectives" s5) as [wd s6] eqn:EW.
        assert (WD : wd = fst (import_from_vue "withDirectives" s5)) by (rewrite EW; reflexivity).
        destruct (build_directives (d0 :: dr) name attrs s6) as [ds s7]. cbn [fst].
        rewrite WD, CAL. apply view_item_lowered_wd.
  - (* a fragment *)
    assert (REC : rec_ok (lower_el E) (check_site E f) quiet_a children).
    { intros c s' Q' Hin He. destruct (IH c (GC c Hin He) f s' LE' Q') as [H1 [H2 H3]]. repeat split; assumption. }
    split; [|split; [|exact QB]].
    + cbn [check_site lower_el].
      set (s0 := push_slot_flag E s).
      assert (Q0 : quiet_a s0) by (apply quiet_push; exact Q).
      pose proof (bal_get_pragma E s0) as B1.
      destruct (get_pragma E s0) as [callee s1] eqn:EGP. cbn [snd] in B1.
      assert (CAL : callee = fst (get_pragma E s0)) by (rewrite EGP; reflexivity).
      assert (Q1 : quiet_a s1) by (eapply quiet_bal; [exact B1|exact Q0]).
      destruct (import_from_vue "Fragment" s1) as [frag s2] eqn:EF.
      assert (FR : frag = fst (import_from_vue "Fragment" s1)) by (rewrite EF; reflexivity).
      assert (Q2 : quiet_a s2).
      { replace s2 with (snd (import_from_vue "Fragment" s1)) by (rewrite EF; reflexivity).
        eapply quiet_bal; [apply bal_import|exact Q1]. }
      destruct (children_items E (lower_el E) (check_site E f) [] quiet_a quiet_text quiet_mark children s2 Q2 REC OK)
        as [_ Q3].
      pose proof (fun s4 => children_refine E (lower_el E) (check_site E f) quiet_a quiet_text quiet_mark
                              children s2 s4 false None Q2 REC OK) as CR.
      destruct (lower_children_with E (lower_el E) children s2) as [elems s3]. cbn [fst snd] in Q3, CR.
      specialize (CR s3 Q3 (fun _ => NS)).
      destruct (finish_children E elems false None s3) as [ch s4]. cbn [fst] in CR |- *.
      rewrite (split_dirs_call callee frag Null ch []).
      rewrite CAL. destruct (vnode_parts_lowered s0 frag Null ch []) as [v [EV [V1 [V2 V3]]]]. rewrite EV.
      rewrite V1, V2, V3, FR.
      assert (VT : view_type (fst (import_from_vue "Fragment" s1)) = TFragment).
      { unfold view_type. pose proof (is_helper_import "Fragment" s1) as H.
        unfold import_from_vue, mk_ident in *. cbn [fst] in *. rewrite H. reflexivity. }
      rewrite VT. cbn [atype_eqb app]. exact CR.
    + cbn [lower_el].
      destruct (get_pragma E (push_slot_flag E s)) as [callee s1] eqn:EGP.
      assert (CAL : callee = fst (get_pragma E (push_slot_flag E s))) by (rewrite EGP; reflexivity).
      destruct (import_from_vue "Fragment" s1) as [frag s2].
      destruct (lower_children_with E (lower_el E) children s2) as [elems s3].
      destruct (finish_children E elems false None s3) as [ch s4]. cbn [fst].
      rewrite CAL. apply (view_item_lowered_call (push_slot_flag E s) frag Null ch []).
Qed.

End Element.

(* ---- [slots_ok] for the attribute kinds, and a worked example ------------------------------ *)
Lemma slots_ok_spread E ic tag attrs e : slots_ok E ic tag attrs (Spread e).
Proof.
  intros a. unfold spec_slot. destruct e; cbn [attr_spec snd];
    cbn [attr_step]; unfold step_spread;
    repeat match goal with |- context [match ?X with pair _ _ => _ end] => destruct X end; reflexivity.
Qed.

Lemma spec_slot_none E ic tag attrs name value :
  match spec_directive_name name with Some d => sq "slots" (dn_name d) = false | None => True end ->
  spec_slot E ic tag attrs (JAttr name value) = None.
Proof.
  intros H. unfold spec_slot. cbn [attr_spec].
  destruct (spec_directive_name name) as [d|].
  - rewrite H.
    repeat match goal with
           | |- context [if ?c then _ else _] => destruct c
           | |- context [match ?x with _ => _ end] => destruct x
           end; reflexivity.
  - repeat match goal with
           | |- context [if ?c then _ else _] => destruct c
           | |- context [match ?x with _ => _ end] => destruct x
           end; reflexivity.
Qed.

Lemma slots_ok_plain E ic tag attrs name value x :
  wf_attr_name name -> spec_directive_name name = None ->
  plain_value value = Some x -> user_value x = true -> is_ton E name = false ->
  slots_ok E ic tag attrs (JAttr name value).
Proof.
  intros WF HN PV UV TON a.
  destruct (plain_attr_refines E ic tag attrs name value x a WF HN PV UV TON) as (_ & _ & _ & _ & _ & _ & HS).
  rewrite spec_slot_none; [exact HS|]. rewrite HN. exact I.
Qed.

Lemma slots_ok_normal E ic tag attrs name value d :
  spec_directive_name name = Some d ->
  sq "html" (dn_name d) = false -> sq "text" (dn_name d) = false ->
  sq "model" (dn_name d) = false -> sq "slots" (dn_name d) = false ->
  arg_not_void (dp_arg (spec_directive_parts d value)) ->
  match name with IdName _ | JNs (IdName _) (IdName _) => True | _ => False end ->
  slots_ok E ic tag attrs (JAttr name value).
Proof.
  intros HN Hh Ht Hm Hs NV WF a.
  destruct (normal_directive_refines E ic tag attrs attrs name value d a HN Hh Ht Hm Hs NV)
    as (dir & _ & _ & _ & _ & HS & _).
  rewrite spec_slot_none; [|rewrite HN; exact Hs].
  cbn [attr_step]. rewrite (directive_iff name value WF), HN. exact HS.
Qed.

Lemma slots_ok_vmodel_component E tag attrs name value d :
  spec_directive_name name = Some d ->
  sq "html" (dn_name d) = false -> sq "text" (dn_name d) = false -> sq "model" (dn_name d) = true ->
  static_arg (dp_arg (spec_directive_parts d value)) ->
  user_value (dflt_value (dp_value (spec_directive_parts d value))) = true ->
  match name with IdName _ | JNs (IdName _) (IdName _) => True | _ => False end ->
  slots_ok E true tag attrs (JAttr name value).
Proof.
  intros HN Hh Ht Hm SA UV WF a.
  destruct (vmodel_component_refines E tag attrs name value d a HN Hh Ht Hm SA UV) as (ps & _ & _ & _ & _ & HS).
  rewrite spec_slot_none.
  - cbn [attr_step]. rewrite (directive_iff name value WF), HN. exact HS.
  - rewrite HN. apply str_eqb_eq in Hm. rewrite <- Hm. reflexivity.
Qed.

Lemma slots_ok_html_text E ic tag attrs name value d :
  spec_directive_name name = Some d ->
  (sq "html" (dn_name d) = true \/ (sq "html" (dn_name d) = false /\ sq "text" (dn_name d) = true)) ->
  user_value (html_text_value value) = true ->
  match name with IdName _ | JNs (IdName _) (IdName _) => True | _ => False end ->
  slots_ok E ic tag attrs (JAttr name value).
Proof.
  intros HN HK UV WF a.
  destruct (html_text_refines E ic tag attrs name value d a HN HK UV) as (p & _ & _ & _ & _ & _ & HS).
  rewrite spec_slot_none.
  - cbn [attr_step]. rewrite (directive_iff name value WF), HN. exact HS.
  - rewrite HN. destruct HK as [H|[_ H]]; apply str_eqb_eq in H; rewrite <- H; reflexivity.
Qed.

Lemma slots_ok_vmodel_element E tag attrs name value d :
  spec_directive_name name = Some d ->
  sq "html" (dn_name d) = false -> sq "text" (dn_name d) = false -> sq "model" (dn_name d) = true ->
  static_arg (dp_arg (spec_directive_parts d value)) ->
  arg_not_void (dp_arg (spec_directive_parts d value)) ->
  match name with IdName _ | JNs (IdName _) (IdName _) => True | _ => False end ->
  slots_ok E false tag attrs (JAttr name value).
Proof.
  intros HN Hh Ht Hm SA NV WF a.
  destruct (vmodel_element_refines E tag attrs name value d a HN Hh Ht Hm SA NV) as (p & dir & _ & _ & _ & _ & _ & HS).
  rewrite spec_slot_none.
  - cbn [attr_step]. rewrite (directive_iff name value WF), HN. exact HS.
  - rewrite HN. apply str_eqb_eq in Hm. rewrite <- Hm. reflexivity.
Qed.

(* the v-slots attribute itself: no prop, no binding, the slots value as written (an identifier
   or an object literal; anything else is no slots value) *)
Lemma vslots_attr_good E ic tag attrs name value d :
  spec_directive_name name = Some d ->
  sq "html" (dn_name d) = false -> sq "text" (dn_name d) = false ->
  sq "model" (dn_name d) = false -> sq "slots" (dn_name d) = true ->
  match name with IdName _ | JNs (IdName _) (IdName _) => True | _ => False end ->
  contrib_ok E ic tag attrs (JAttr name value)
  /\ dir_ok E ic tag attrs (JAttr name value)
  /\ slots_ok E ic tag attrs (JAttr name value).
Proof.
  intros HN Hh Ht Hm Hs WF.
  assert (ST : forall a, attr_step E ic a (JAttr name value)
                         = mkAcc (a_props a) (a_margs a) (a_dyn a) (a_dirs a) (match parse_v_slots value with DSlots e => e | _ => None end)
                                 (a_ref a) (a_class a) (a_style a) (a_hyd a) (a_dynkeys a) (a_st a)).
  { intros a. cbn [attr_step]. rewrite (directive_iff name value WF), HN.
    unfold step_directive. rewrite parse_directive_unfold, (name_parts_spec _ _ HN), Hh, Ht, Hm, Hs.
    unfold parse_v_slots. destruct value; try reflexivity.
    match goal with |- context [match ?e with Ident _ _ _ => _ | _ => _ end] => destruct e end; reflexivity. }
  assert (SPEC : attr_spec E ic tag attrs (JAttr name value)
                 = ([], [], Some (match value with
                                  | JExprC ((Ident _ _ _) as e) => Some e
                                  | JExprC ((Obj _) as e) => Some e
                                  | _ => None
                                  end))).
  { cbn [attr_spec]. rewrite HN, Hh, Ht, Hs. reflexivity. }
  split; [|split].
  - split.
    + intros e. unfold contribs_of. rewrite SPEC. discriminate.
    + intros a. exists []. rewrite (ST a). cbn [a_props a_margs]. rewrite app_nil_r.
      unfold contribs_of. rewrite SPEC. repeat split.
  - intros a. exists []. rewrite (ST a). cbn [a_dirs]. rewrite app_nil_r. split; [reflexivity|].
    intros s1. unfold spec_dirs. rewrite SPEC. reflexivity.
  - intros a. rewrite (ST a). cbn [a_slots]. unfold spec_slot. rewrite SPEC. cbn [snd].
    unfold parse_v_slots. destruct value; try reflexivity.
    match goal with |- context [match ?e with Ident _ _ _ => _ | _ => _ end] => destruct e end; reflexivity.
Qed.

(* non-vacuity: `<div id="a" title={x}><Comp v-model={val} {...rest}>{y}</Comp> text {z}</div>` is in the fragment *)
Section Example.
Let opts : options := {| o_transform_on := false; o_optimize := true; o_merge_props := false;
                         o_object_slots := true; o_pragma := None; o_resolve_type := false; o_npat := 0 |}.
Let E0 : env := {| e_opts := opts; e_unres := 1; e_matches := []; e_html := [s_ "div"]; e_svg := []; e_comments := [] |}.
Let idn (n : String.string) : node := Ident (s_ n) 2 false.
Let comp_attrs : list node := [JAttr (IdName (s_ "v-model")) (JExprC (idn "val"%string)); Spread (idn "rest"%string)].
Let inner : node := JsxE (idn "Comp"%string) comp_attrs false nnull [JExprC (idn "y"%string)] nnull.
Let div_attrs : list node := [JAttr (IdName (s_ "id")) (Str (s_ "a") nnull); JAttr (IdName (s_ "title")) (JExprC (idn "x"%string))].
Let outer : node := JsxE (idn "div"%string) div_attrs false nnull [inner; JText (s_ " text ") (s_ " text "); JExprC (idn "z"%string)] nnull.

Lemma MP0 : o_merge_props (e_opts E0) = false. Proof. reflexivity. Qed.

Example fragment_is_inhabited : good E0 2 outer.
Proof.
  unfold outer. apply good_E; try reflexivity.
  - (* attributes of the div *)
    unfold div_attrs. apply Forall_cons; [split; [|split]|apply Forall_cons; [split; [|split]|apply Forall_nil]].
    + eapply contrib_ok_plain; try reflexivity; exact I.
    + eapply dir_ok_plain; try reflexivity; exact I.
    + eapply slots_ok_plain; try reflexivity; exact I.
    + eapply contrib_ok_plain; try reflexivity; exact I.
    + eapply dir_ok_plain; try reflexivity; exact I.
    + eapply slots_ok_plain; try reflexivity; exact I.
  - intros x e [<-|[<-|[]]] H; vm_compute in H; discriminate H.
  - intros c [<-|[<-|[<-|[]]]] He; try discriminate He.
    (* the nested component *)
    unfold inner. apply good_E; try reflexivity.
    + unfold comp_attrs. apply Forall_cons; [split; [|split]|apply Forall_cons; [split; [|split]|apply Forall_nil]].
      * eapply contrib_ok_vmodel_component; try reflexivity; exact I.
      * eapply dir_ok_vmodel_component; try reflexivity; exact I.
      * eapply slots_ok_vmodel_component; try reflexivity; exact I.
      * apply contrib_ok_spread. reflexivity.
      * apply dir_ok_spread.
      * apply slots_ok_spread.
    + intros x e [<-|[<-|[]]] H; vm_compute in H; try discriminate H.
      injection H as <-. split; [reflexivity|split; [discriminate|exact I]].
    + intros c0 [<-|[]] He0; discriminate He0.
Qed.

(* and the theorem applies to it: the whole check is silent *)
Example fragment_example_checked :
  check_site E0 5 outer (fst (lower_el E0 outer st0)) = [].
Proof. apply (element_refines E0 2 outer fragment_is_inhabited 5 st0); [repeat constructor|reflexivity]. Qed.

End Example.

(* non-vacuity under mergeProps (the default): `<div class="a" id={x} class={y} {...rest} title="t">{z}</div>`
   - a repeated class grouped by dedupe_props, a spread closing the run, a second run *)
Section ExampleMerge.
Let opts : options := {| o_transform_on := false; o_optimize := true; o_merge_props := true;
                         o_object_slots := true; o_pragma := None; o_resolve_type := false; o_npat := 0 |}.
Let E1 : env := {| e_opts := opts; e_unres := 1; e_matches := []; e_html := [s_ "div"]; e_svg := []; e_comments := [] |}.
Let idn (n : String.string) : node := Ident (s_ n) 2 false.
Let m_attrs : list node :=
  [JAttr (IdName (s_ "class")) (Str (s_ "a") nnull); JAttr (IdName (s_ "id")) (JExprC (idn "x"%string));
   JAttr (IdName (s_ "class")) (JExprC (idn "y"%string)); Spread (idn "rest"%string);
   JAttr (IdName (s_ "title")) (Str (s_ "t") nnull)].
Let m_el : node := JsxE (idn "div"%string) m_attrs false nnull [JExprC (idn "z"%string)] nnull.

Ltac plain_merge :=
  split; [|split];
  [left; split; [reflexivity|]; split; [eapply contrib_ok_plain; try reflexivity; exact I|];
   split; [intros k n|intros e]; (let H := fresh "HIn" in intro H; vm_compute in H; intuition discriminate)
  |eapply dir_ok_plain; try reflexivity; exact I
  |eapply slots_ok_plain; try reflexivity; exact I].

Example fragment_merge_is_inhabited : good E1 1 m_el.
Proof.
  unfold m_el. apply good_E; try reflexivity.
  - unfold m_attrs.
    apply Forall_cons; [plain_merge|]. apply Forall_cons; [plain_merge|]. apply Forall_cons; [plain_merge|].
    apply Forall_cons; [|apply Forall_cons; [plain_merge|apply Forall_nil]].
    split; [|split]; [right; eexists; split; reflexivity|apply dir_ok_spread|apply slots_ok_spread].
  - intros x e [<-|[<-|[<-|[<-|[<-|[]]]]]] H; vm_compute in H; try discriminate H.
    injection H as <-. split; [reflexivity|split; [discriminate|exact I]].
  - intros c [<-|[]] He; discriminate He.
Qed.

Example fragment_merge_example_checked :
  check_site E1 5 m_el (fst (lower_el E1 m_el st0)) = []
  /\ fst (fst (spec_attrs E1 false (idn "div"%string) m_attrs))
     = [CKV (s_ "class") [mk_str (s_ "a"); idn "y"%string]; CKV (s_ "id") [idn "x"%string]; CBreak;
        CSpread (idn "rest"%string); CBreak; CKV (s_ "title") [mk_str (s_ "t")]].
Proof.
  split; [apply (element_refines E1 1 m_el fragment_merge_is_inhabited 5 st0); [repeat constructor|reflexivity]|].
  vm_compute. reflexivity.
Qed.

End ExampleMerge.
