(* The lowering of an element leaves the visitor's traversal-scoped state as it found it: it never
   creates a pending assignment target, and it pops exactly the slot flags it pushed (C10: at
   every statement boundary the only state a lowering can still see is the naming counters).
   The proof skeleton is that of Lemmas/FrameProofs.v. *)
From Coq Require Import Lia.
From VJ Require Import Model.Str Model.Json Model.Ast Model.State Model.Util Model.Text
  Model.Directive Model.Lower Lemmas.NodeInd.

Definition bal (s s' : st) : Prop :=
  (assign_left s = None -> assign_left s' = None)
  /\ List.length (slot_stack s') = List.length (slot_stack s).

Lemma bal_refl s : bal s s. Proof. split; auto. Qed.
Lemma bal_trans a b c : bal a b -> bal b c -> bal a c.
Proof. intros [A1 A2] [B1 B2]. split; [auto|congruence]. Qed.

Ltac fr := repeat first [apply bal_refl | eapply bal_trans; [eassumption|] | eassumption].

Lemma bal_set_imports v s : bal s (set_imports v s). Proof. destruct s; split; auto. Qed.
Lemma bal_set_ton v s : bal s (set_ton v s). Proof. destruct s; split; auto. Qed.
Lemma bal_set_slot_helper v s : bal s (set_slot_helper v s). Proof. destruct s; split; auto. Qed.
Lemma bal_set_inj_vars v s : bal s (set_inj_vars v s). Proof. destruct s; split; auto. Qed.
Lemma bal_set_slot_counter v s : bal s (set_slot_counter v s). Proof. destruct s; split; auto. Qed.
Lemma bal_set_inj_consts v s : bal s (set_inj_consts v s). Proof. destruct s; split; auto. Qed.
Lemma bal_set_fresh v s : bal s (set_fresh v s). Proof. destruct s; split; auto. Qed.
Lemma bal_set_diags v s : bal s (set_diags v s). Proof. destruct s; split; auto. Qed.
Lemma bal_panic s : bal s (panic s). Proof. destruct s; split; auto. Qed.
Lemma bal_add_diag m s : bal s (add_diag m s). Proof. destruct s; split; auto. Qed.
Lemma bal_set_assign_left_none s : bal s (set_assign_left None s). Proof. destruct s; split; auto. Qed.
Lemma bal_set_slot_stack_map f s : bal s (set_slot_stack (map f (slot_stack s)) s).
Proof. destruct s; split; [auto|]. cbn. apply map_length. Qed.

Lemma bal_import name s : bal s (snd (import_from_vue name s)).
Proof. destruct s; split; auto. Qed.
Lemma bal_fresh sy s : bal s (snd (fresh_ident sy s)).
Proof. destruct s; split; auto. Qed.

Section Bal.
Variable E : env.

Lemma bal_parse_html_text w v s : bal s (snd (parse_html_text w v s)).
Proof.
  unfold parse_html_text.
  repeat match goal with |- context [match ?x with _ => _ end] => destruct x end;
    try apply bal_refl; apply bal_set_diags.
Qed.

Lemma bal_parse_directive name value ic s : bal s (snd (parse_directive name value ic s)).
Proof.
  unfold parse_directive.
  match goal with |- context [match ?X with pair _ _ => _ end] => destruct X as [[dname a0] sp] end.
  destruct (sq "html" dname).
  { pose proof (bal_parse_html_text "v-html"%string value s) as H.
    destruct (parse_html_text "v-html"%string value s). exact H. }
  destruct (sq "text" dname).
  { pose proof (bal_parse_html_text "v-text"%string value s) as H.
    destruct (parse_html_text "v-text"%string value s). exact H. }
  destruct (sq "model" dname).
  { unfold parse_v_model.
    assert (H1 : bal s (snd (vmodel_attr_value value s))).
    { unfold vmodel_attr_value.
      repeat match goal with |- context [match ?x with _ => _ end] => destruct x end;
        try apply bal_refl; apply bal_add_diag. }
    destruct (vmodel_attr_value value s) as [av s1]. cbn [snd] in H1.
    assert (H2 : bal s1 (vmodel_first_check av s1)).
    { unfold vmodel_first_check.
      repeat match goal with |- context [match ?x with _ => _ end] => destruct x end;
        try apply bal_refl; apply bal_add_diag. }
    destruct (vmodel_parts av ic _ sp) as [[v a] m]. cbn [snd].
    assert (H3 : bal (vmodel_first_check av s1) (vmodel_target_check v (vmodel_first_check av s1))).
    { unfold vmodel_target_check. destruct (is_assignable v); [apply bal_refl|apply bal_add_diag]. }
    fr. }
  destruct (sq "slots" dname); [apply bal_refl|].
  destruct (normal_parts value _ sp) as [[v a] m]. apply bal_refl.
Qed.

Lemma bal_step_vmodel ic a arg targ mods v : a_st (step_vmodel ic a arg targ mods v) = a_st a.
Proof.
  unfold step_vmodel.
  repeat match goal with |- context [match ?X with pair _ _ => _ end] => destruct X end.
  reflexivity.
Qed.

Lemma bal_attr_step ic a x : bal (a_st a) (a_st (attr_step E ic a x)).
Proof.
  unfold attr_step. destruct x; try apply bal_refl.
  - unfold step_spread.
    repeat match goal with |- context [match ?X with pair _ _ => _ end] => destruct X end.
    apply bal_refl.
  - match goal with |- context [is_directive ?y] => destruct (is_directive y) end.
    + unfold step_directive.
      match goal with |- context [parse_directive ?n ?v ?c ?s0] =>
        pose proof (bal_parse_directive n v c s0) as H; destruct (parse_directive n v c s0) as [d s1] end.
      cbn [snd] in H. destruct d; try exact H. rewrite bal_step_vmodel. exact H.
    + unfold step_plain.
      match goal with |- context [match plain_attr_value ?v with _ => _ end] => destruct (plain_attr_value v) end;
        repeat match goal with |- context [match ?X with pair _ _ => _ end] => destruct X end;
        match goal with |- context [if ?c then _ else _] => destruct c end;
        cbn [a_st]; fr; try apply bal_set_ton; try apply bal_panic;
        try (eapply bal_trans; [apply bal_panic|apply bal_set_ton]).
Qed.

Lemma bal_fold ic attrs a : bal (a_st a) (a_st (fold_left (attr_step E ic) attrs a)).
Proof.
  revert a. induction attrs as [|x r IH]; intros a; [apply bal_refl|].
  cbn [fold_left]. eapply bal_trans; [apply bal_attr_step|apply IH].
Qed.

Lemma bal_final a : bal (a_st a) (snd (final_attrs_expr E a)).
Proof.
  unfold final_attrs_expr, import_from_vue.
  repeat match goal with |- context [match ?x with _ => _ end] => destruct x end;
    try apply bal_refl; apply bal_set_imports.
Qed.

Lemma bal_transform_attrs attrs ic s : bal s (r_st (transform_attrs E attrs ic s)).
Proof.
  unfold transform_attrs. destruct attrs as [|x0 xs]; [apply bal_refl|].
  set (a := fold_left _ _ _).
  pose proof (bal_fold ic (x0 :: xs) (mkAcc [] [] [] [] None false false false false false s)) as H1.
  fold a in H1. cbn [a_st] in H1.
  pose proof (bal_final a) as H2. destruct (final_attrs_expr E a) as [e s']. cbn [snd r_st] in *. fr.
Qed.

Lemma bal_transform_tag name s : bal s (snd (transform_tag E name s)).
Proof.
  unfold transform_tag, import_from_vue.
  repeat match goal with
         | |- context [if ?c then _ else _] => destruct c
         | |- context [match ?x with _ => _ end] => destruct x
         end; try apply bal_refl; try apply bal_set_imports; try apply bal_add_diag.
Qed.

Lemma bal_get_pragma s : bal s (snd (get_pragma E s)).
Proof.
  unfold get_pragma. destruct (pragma s); [apply bal_refl|].
  destruct (o_pragma (e_opts E)); [apply bal_refl|apply bal_import].
Qed.

Lemma bal_build_iife_elems lft elems s : bal s (snd (build_iife_elems lft elems s)).
Proof.
  revert s. induction elems as [|x r IH]; intros s; [apply bal_refl|].
  assert (Hdef : forall s0, bal s0 (snd (let '(r', s1) := build_iife_elems lft r s0 in (x :: r', s1)))).
  { intros s0. pose proof (IH s0) as H. destruct (build_iife_elems lft r s0). exact H. }
  cbn [build_iife_elems]. destruct x; try apply Hdef.
  match goal with |- context [Elem ?b ?e] => destruct b; [apply Hdef|destruct e; try apply Hdef] end.
  match goal with |- context [if ?c then _ else _] => destruct c end; [|apply Hdef].
  match goal with |- context [fresh_ident ?sy ?st0] =>
    pose proof (bal_fresh sy st0) as Hf; destruct (fresh_ident sy st0) as [[nm0 ctx0] s1] end.
  cbn [snd] in Hf.
  match goal with |- context [build_iife_elems lft r ?s2] =>
    pose proof (IH s2) as H; destruct (build_iife_elems lft r s2) end.
  cbn [snd] in *. eapply bal_trans; [exact Hf|]. eapply bal_trans; [apply bal_set_inj_consts|exact H].
Qed.

Lemma bal_build_iife elems s : bal s (snd (build_iife elems s)).
Proof.
  unfold build_iife. destruct (assign_left s); [|apply bal_refl].
  eapply bal_trans; [apply bal_set_assign_left_none|apply bal_build_iife_elems].
Qed.

Lemma bal_slot_ident s : bal s (snd (generate_unique_slot_ident s)).
Proof.
  unfold generate_unique_slot_ident.
  match goal with |- context [fresh_ident ?sy ?st0] =>
    pose proof (bal_fresh sy st0) as Hf; destruct (fresh_ident sy st0) as [[id ctx0] s1] end.
  cbn [snd] in *. eapply bal_trans; [exact Hf|].
  eapply bal_trans; [apply bal_set_inj_vars|apply bal_set_slot_counter].
Qed.

(* one slot flag more / one less *)
Definition opt1 : nat := if o_optimize (e_opts E) then 1%nat else 0%nat.

Definition up (s s' : st) : Prop :=
  (assign_left s = None -> assign_left s' = None)
  /\ List.length (slot_stack s') = (List.length (slot_stack s) + opt1)%nat.
Definition down (s s' : st) : Prop :=
  (assign_left s = None -> assign_left s' = None)
  /\ (List.length (slot_stack s') + opt1)%nat = List.length (slot_stack s).

Lemma up_push s : up s (push_slot_flag E s).
Proof.
  unfold up, push_slot_flag, opt1. destruct (o_optimize (e_opts E)); [|split; [auto|lia]].
  destruct s; split; [auto|]. cbn. rewrite app_length. reflexivity.
Qed.

Lemma up_bal a b c : up a b -> bal b c -> up a c.
Proof. intros [A1 A2] [B1 B2]. split; [auto|lia]. Qed.
Lemma bal_down a b c : bal a b -> down b c -> down a c.
Proof. intros [A1 A2] [B1 B2]. split; [auto|lia]. Qed.
Lemma down_bal a b c : down a b -> bal b c -> down a c.
Proof. intros [A1 A2] [B1 B2]. split; [auto|lia]. Qed.
Lemma up_down a b c : up a b -> down b c -> bal a c.
Proof. intros [A1 A2] [B1 B2]. split; [auto|lia]. Qed.

Lemma down_finish_children elems ic slots s :
  (opt1 <= List.length (slot_stack s))%nat -> down s (snd (finish_children E elems ic slots s)).
Proof.
  intros LE. unfold finish_children.
  assert (H0 : down s (snd (if o_optimize (e_opts E)
                            then match rev (slot_stack s) with
                                 | top :: rest => (top, set_slot_stack (rev rest) s)
                                 | [] => (false, s)
                                 end else (false, s)))).
  { unfold down, opt1 in *. destruct (o_optimize (e_opts E)); [|split; [auto|cbn; lia]].
    destruct (rev (slot_stack s)) as [|top rest] eqn:ER.
    - assert (L : List.length (rev (slot_stack s)) = 0%nat) by (rewrite ER; reflexivity).
      rewrite rev_length in L. lia.
    - assert (L : List.length (rev (slot_stack s)) = S (List.length rest)) by (rewrite ER; reflexivity).
      rewrite rev_length in L. destruct s; split; [auto|]. cbn in *. rewrite rev_length. lia. }
  match goal with |- context [match ?X with pair _ _ => _ end] => destruct X as [flag s0] end.
  cbn [snd] in H0.
  assert (Hdef : down s (snd (if ic then (wrap_children E elems flag slots, s0) else (Arr elems, s0))))
    by (destruct ic; exact H0).
  destruct elems as [|x [|y r]].
  - exact H0.
  - destruct x; try exact Hdef.
    match goal with |- context [Elem ?b ?e] => destruct b; [exact Hdef|destruct e] end;
      try exact Hdef; try (destruct (is_fn_like _); [exact H0|exact Hdef]); try exact H0.
    + (* identifier *)
      destruct ic; [|exact H0].
      match goal with |- context [build_iife ?es ?st0] =>
        pose proof (bal_build_iife es st0) as Hb; destruct (build_iife es st0) as [elems' s1] end.
      cbn [snd] in Hb.
      destruct (o_object_slots (e_opts E)); cbn [snd].
      * eapply down_bal; [exact H0|]. eapply bal_trans; [exact Hb|apply bal_set_slot_helper].
      * eapply down_bal; [exact H0|exact Hb].
    + (* call *)
      match goal with |- context [Call ?sy _ _ _ _] => destruct sy; [exact Hdef|] end.
      destruct ic; [|exact H0].
      destruct (o_object_slots (e_opts E)); [|exact H0].
      pose proof (bal_slot_ident s0) as Hs.
      destruct (generate_unique_slot_ident s0) as [slot s1]. cbn [snd] in Hs.
      match goal with |- context [build_iife ?es ?st0] =>
        pose proof (bal_build_iife es st0) as Hb; destruct (build_iife es st0) as [elems' s2] end.
      cbn [snd] in *. eapply down_bal; [exact H0|]. eapply bal_trans; [exact Hs|].
      eapply bal_trans; [apply bal_set_slot_helper|exact Hb].
  - destruct x; try exact Hdef.
    match goal with |- context [Elem ?b ?e] => destruct b; [exact Hdef|destruct e; exact Hdef] end.
Qed.

Lemma bal_resolve_directive dn tag attrs s : bal s (snd (resolve_directive dn tag attrs s)).
Proof.
  unfold resolve_directive, import_from_vue.
  repeat match goal with
         | |- context [if ?c then _ else _] => destruct c
         | |- context [match ?x with _ => _ end] => destruct x
         end; apply bal_set_imports.
Qed.

Lemma bal_build_directives dirs tag attrs s : bal s (snd (build_directives dirs tag attrs s)).
Proof.
  revert s. induction dirs as [|d r IH]; intros s; [apply bal_refl|].
  cbn [build_directives]. destruct d; try apply IH.
  pose proof (bal_resolve_directive name tag attrs s) as H1.
  destruct (resolve_directive name tag attrs s) as [dd s1]. cbn [snd] in H1.
  pose proof (IH s1) as H2. destruct (build_directives r tag attrs s1). cbn [snd] in *. fr.
Qed.

Lemma bal_mark e s : bal s (mark_dynamic E e s).
Proof. unfold mark_dynamic. destruct (_ && _); [apply bal_set_slot_stack_map|apply bal_refl]. Qed.

Definition Bl (n : node) : Prop := forall s, bal s (snd (lower_el E n s)).

Lemma bal_children cs : Forall Bl cs -> forall s, bal s (snd (lower_children_with E (lower_el E) cs s)).
Proof.
  induction 1 as [|c r Hc Hr IH]; intros s; [apply bal_refl|].
  cbn [lower_children_with].
  assert (Hrest : forall (o : list node) s0 s1, bal s0 s1 ->
            bal s0 (snd (let '(r', s2) := lower_children_with E (lower_el E) r s1 in (o ++ r', s2)))).
  { intros o s0 s1 H. pose proof (IH s1) as H2. destruct (lower_children_with E (lower_el E) r s1).
    cbn [snd] in *. fr. }
  destruct c; try (apply Hrest; apply bal_refl).
  - pose proof (Hc s) as H. destruct (lower_el E _ s). apply Hrest. exact H.
  - pose proof (Hc s) as H. destruct (lower_el E _ s). apply Hrest. exact H.
  - match goal with |- context [mark_dynamic E ?e _] => destruct e end;
      try (apply Hrest; apply bal_mark). apply Hrest. apply bal_refl.
  - unfold transform_jsx_text. destruct (transform_text v); [apply Hrest; apply bal_refl|].
    match goal with |- context [import_from_vue ?n ?st0] =>
      pose proof (bal_import n st0) as Hi; destruct (import_from_vue n st0) end.
    apply Hrest. exact Hi.
  - apply Hrest. apply bal_mark.
Qed.

Definition BlA (n : node) : Prop := Bl n /\ (forall nm v, n = JAttr nm v -> Bl v).

Lemma bal_attr_values attrs :
  Forall BlA attrs -> forall s, bal s (snd (lower_attr_values_with (lower_el E) attrs s)).
Proof.
  induction 1 as [|a r Ha Hr IH]; intros s; [apply bal_refl|].
  cbn [lower_attr_values_with].
  assert (Hrest : forall (a' : node) s0 s1, bal s0 s1 ->
            bal s0 (snd (let '(r', s2) := lower_attr_values_with (lower_el E) r s1 in (a' :: r', s2)))).
  { intros a' s0 s1 H. pose proof (IH s1) as H2. destruct (lower_attr_values_with (lower_el E) r s1).
    cbn [snd] in *. fr. }
  destruct Ha as [_ Hv].
  destruct a; try (apply Hrest; apply bal_refl).
  match goal with |- context [JAttr ?nm ?v] => destruct v end; try (apply Hrest; apply bal_refl).
  - match goal with |- context [is_directive ?x] => destruct (is_directive x) end;
      [apply Hrest; apply bal_refl|].
    pose proof (Hv _ _ eq_refl s) as H. destruct (lower_el E _ s). apply Hrest. exact H.
  - match goal with |- context [is_directive ?x] => destruct (is_directive x) end;
      [apply Hrest; apply bal_refl|].
    pose proof (Hv _ _ eq_refl s) as H. destruct (lower_el E _ s). apply Hrest. exact H.
Qed.

Theorem lower_el_bal_A : forall n, BlA n.
Proof.
  apply node_ind'; intros; split; try (let x := fresh "sx" in intros x; apply bal_refl); try (intros ? ? Heq; discriminate Heq).
  - (* JsxE *)
    intros sx. cbn [lower_el].
    assert (Hats : Forall BlA ats) by assumption.
    pose proof (bal_attr_values _ Hats (push_slot_flag E sx)) as G1.
    destruct (lower_attr_values_with (lower_el E) ats (push_slot_flag E sx)) as [attrs s1]. cbn [snd] in G1.
    pose proof (bal_transform_attrs attrs (is_component E nm) s1) as G2.
    set (ar := transform_attrs E attrs (is_component E nm) s1) in *.
    pose proof (bal_transform_tag nm (r_st ar)) as G3.
    destruct (transform_tag E nm (r_st ar)) as [tag s2]. cbn [snd] in G3.
    assert (Hch : Forall Bl ch).
    { match goal with H : Forall BlA ch |- _ => eapply Forall_impl; [|exact H] end. intros x [Hx _]. exact Hx. }
    pose proof (bal_children _ Hch s2) as G4.
    destruct (lower_children_with E (lower_el E) ch s2) as [elems s3]. cbn [snd] in G4.
    assert (U3 : up sx s3).
    { eapply up_bal; [apply up_push|]. fr. }
    assert (LE : (opt1 <= List.length (slot_stack s3))%nat) by (destruct U3 as [_ U]; lia).
    pose proof (down_finish_children elems (is_component E nm) (r_slots ar) s3 LE) as G5.
    destruct (finish_children E elems (is_component E nm) (r_slots ar) s3) as [chx s4]. cbn [snd] in G5.
    assert (B4 : bal sx s4) by (eapply up_down; [exact U3|exact G5]).
    pose proof (bal_get_pragma s4) as G6. destruct (get_pragma E s4) as [callee s5]. cbn [snd] in G6.
    destruct (r_dirs ar) as [|d0 dr].
    + cbn [snd]. fr.
    + match goal with |- context [import_from_vue ?n ?st0] =>
        pose proof (bal_import n st0) as G7; destruct (import_from_vue n st0) as [wd s6] end.
      cbn [snd] in G7.
      pose proof (bal_build_directives (d0 :: dr) nm attrs s6) as G8.
      destruct (build_directives (d0 :: dr) nm attrs s6) as [ds s7]. cbn [snd] in *. fr.
  - (* JsxF *)
    intros sx. cbn [lower_el].
    pose proof (bal_get_pragma (push_slot_flag E sx)) as G1.
    destruct (get_pragma E (push_slot_flag E sx)) as [callee s1]. cbn [snd] in G1.
    match goal with |- context [import_from_vue ?n ?st0] =>
      pose proof (bal_import n st0) as G2; destruct (import_from_vue n st0) as [frag s2] end.
    cbn [snd] in G2.
    assert (Hch : Forall Bl ch).
    { match goal with H : Forall BlA ch |- _ => eapply Forall_impl; [|exact H] end. intros x [Hx _]. exact Hx. }
    pose proof (bal_children _ Hch s2) as G3.
    destruct (lower_children_with E (lower_el E) ch s2) as [elems s3]. cbn [snd] in G3.
    assert (U3 : up sx s3).
    { eapply up_bal; [apply up_push|]. fr. }
    assert (LE : (opt1 <= List.length (slot_stack s3))%nat) by (destruct U3 as [_ U]; lia).
    pose proof (down_finish_children elems false None s3 LE) as G4.
    destruct (finish_children E elems false None s3) as [chx s4]. cbn [snd] in *.
    eapply up_down; [exact U3|exact G4].
  - (* JAttr: element values *)
    intros nm0 v0 Heq. inversion Heq; subst.
    match goal with H : BlA v0 |- _ => destruct H as [H _]; exact H end.
Qed.

(* the lowering of an element creates no pending assignment target and leaves the slot-flag
   stack as long as it found it *)
Theorem lower_el_bal n s : bal s (snd (lower_el E n s)).
Proof. destruct (lower_el_bal_A n) as [H _]. apply H. Qed.

End Bal.
