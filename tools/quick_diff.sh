#!/bin/bash
# usage: quick_diff.sh <seed> <n>   -- ad-hoc differential run (development aid)
set -e
cd "$(dirname "$0")/.."
mkdir -p work/dump
python3 tools/gen_cases.py $1 $2 > work/q.jsonl
./harness/target/debug/vjx-harness run work/q.jsonl work/q.tok work/q.side.jsonl
./ocaml/_build/default/driver.exe cases work/q.tok work/dump > work/q.res
cut -d' ' -f2-6 work/q.res | sort | uniq -c
rm -f work/q.tok
