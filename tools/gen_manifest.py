#!/usr/bin/env python3
"""Writes MANIFEST.json from tools/manifest_data.py (kept valid at all times)."""
import json, os, sys
ROOT = os.path.dirname(os.path.dirname(os.path.abspath(__file__)))
sys.path.insert(0, os.path.join(ROOT, "tools"))
import manifest_data as M
checks = []
for pid, d in sorted(M.CLAIMED.items()):
    checks.append({
        "property_id": pid,
        "quick_cmd": "bin/vp check %s quick" % pid,
        "thorough_cmd": "bin/vp check %s thorough" % pid,
        "evidence_file": "evidence/%s.json" % pid,
        "replay_cmd_template": "bin/vp replay {path}",
        "engine": "coq-model+correspondence",
        "level_claimed": {"category": "proof", "text": d["text"], "design_ref": d.get("design_ref", "DESIGN.md section 6 (%s)" % pid)},
        "level_note": d["note"],
        "technique": d["technique"],
    })
manifest = {
    "version": 1,
    "setup_cmd": "bin/vp setup",
    "hooks": {
        "guard": "swc_vue_jsx_verif",
        "enable": "RUSTFLAGS=\"--cfg swc_vue_jsx_verif\" (set by bin/vp when it builds harness/, a path dependency on /repo/visitor)",
        "baseline_off_cmd": "cd /repo && cargo test --workspace --no-fail-fast --offline",
        "source_commits": M.HOOK_COMMITS,
        "add_only": True,
    },
    "engines": [{
        "name": "coq-model+correspondence", "path": "coq/ harness/ ocaml/ bin/vp",
        "serves_properties": sorted(M.CLAIMED),
        "kind_free_text": "Coq 8.16.1 theorems about a hand-written executable model of the transform; the model (extracted to OCaml) is run against the real visitor built from /repo on every check; tables regenerated from the source",
    }],
    "checks": checks,
    "not_applicable": [{"property_id": p, "reason": r} for p, r in sorted(M.NOT_CLAIMED.items())],
    "notes": M.NOTES,
}
json.dump(manifest, open(os.path.join(ROOT, "MANIFEST.json"), "w"), indent=1)
print("MANIFEST.json: %d checks, %d not claimed" % (len(checks), len(M.NOT_CLAIMED)))
