HOOK_COMMITS = ["95ddc6c"]
NOTES = ("All checks share one engine. `bin/vp check <id> <tier>` rebuilds the harness from /repo's working tree (hooks on), "
         "regenerates coq/Gen/Tables.v from the source, re-checks the Coq development and the property's theorem file, "
         "runs the extracted model against the real visitor, and writes evidence/<id>.json. See DESIGN.md.")
UNDER = "check under construction in this round: the model covers it and the correspondence exercises it, but no theorem file is registered yet"
CLAIMED = {
    "C02": {
        "text": "Theorem C02_text (forall strings: the transform's text cleaning equals the standard JSX rule jsx_clean, by induction, no length bound) about the model of util::transform_text; the model is tied to the code by running both on thousands of strings through a cfg-guarded hook (exhaustive small scope + random) and on generated modules through the public API.",
        "note": "Trusted: Coq kernel; the hand model's tie to the code is differential (this run's inputs only); jsx_clean is this check's reading of 'the standard JSX rule'; children part currently by whole-output correspondence.",
        "technique": "Coq proof by induction over code-point lists + differential correspondence (hook + public API)",
    },
}
CLAIMED["C13"] = {
    "text": "Theorem C13_flags_sound: for every attribute list, host kind, option set and visitor state, the (flag, dynamic-prop list, props expression) computed by the model of transform_attrs satisfies Vue's patch-flag contract flags_ok (fold invariant, no size bound; the bit constants are regenerated from patch_flags.rs on every run). The same contract is evaluated on every vnode call of the REAL output of each generated case, and the property's view of real and model outputs must agree.",
    "note": "Trusted: Coq kernel; Spec/PatchFlags.v as the reading of Vue's contract; model tied to code differentially. Known finding class_on_builtin_host (Fragment/KeepAlive hosts get the element treatment of class/style). The `_`=2 direction for bound identifier children is exercised by correspondence only.",
    "technique": "Coq proof (fold invariant over the attribute list) + output-only oracle on real outputs + view correspondence",
}
CLAIMED["C07"] = {
    "text": "Theorem C07_lowering_is_jsx_free: for every JSX element/fragment (unbounded nesting, attributes, children) whose embedded expressions are JSX-free, the model's lowering contains no JSX node - element-valued attributes, namespaced tags, directive values included (structural induction over the nested AST). On every generated/corpus case the REAL output is censused for JSX nodes and its printed form is re-parsed with JSX off unless a diagnostic was reported.",
    "note": "Module-level composition (the traversal reaches every JSX expression) is checked per case, not proved; `printed form re-parses` is about SWC's printer/parser (empirical). Trusted: Coq kernel; hand model tied differentially.",
    "technique": "Coq proof by induction over the nested AST + JSX census and re-parse of real outputs",
}
CLAIMED["C08"] = {
    "text": "Theorem C08_attrs_no_panic: for every parser-producible attribute list the attribute lowering never reaches the code's `unreachable!` (every panic site of the code is an explicit flag in the model; the site list is linted against the source on every run). Totality/determinism of the real code is exercised: every case under catch_unwind in a child process with a time limit, re-run in-process, and a sample re-run in two fresh processes in opposite orders with byte comparison.",
    "note": "Stack exhaustion, time and process-level nondeterminism cannot be exhibited by a Gallina model (harness only). Termination of type resolution on cyclic declarations is a known finding candidate handled under the resolveType properties. Determinism of the model is by construction (a Coq function); for the code it rests on lints + re-runs.",
    "technique": "Coq proof (panic-site unreachability for the attribute fold) + crash/timeout/re-run differential harness + source lints",
}
CLAIMED["C09"] = {
    "text": "Theorem C09_identity: for every environment without resolveType and every JSX-free module (any size), the model returns the module unchanged with nothing added (induction over the whole AST with the visitor state as invariant); C09_visit_identity gives the same for every sub-tree in every traversal mode. On real runs: 70 real-world JSX-free files and every JSX-free generated module must come back identical, and the visitor is run a second time on its own output of every case (idempotence).",
    "note": "The frame statement for modules WITH JSX (non-JSX parts embed unchanged) is covered by whole-output correspondence with the model, not by a separate theorem. Idempotence is decided on real second passes.",
    "technique": "Coq proof by induction over the generic AST + identity/idempotence oracles on real runs + whole-output correspondence",
}
CLAIMED["C12"] = {
    "text": "Theorems C12_attrs_independent / C12_tag_independent (attribute lowering, tag, host kind and factory do not read `optimize`, by conversion) and C12_hints_only_partial (no hint without the option; erasing `_` from a slots object built with it gives the object built without it). The module-level statement strip_hints(out(optimize=true)) = out(optimize=false) is decided on paired REAL runs of every generated case.",
    "note": "The module-level equality is not yet a theorem (labelled partial); Spec/OutViews.strip_hints defines `erasing the hints`. Trusted: Coq kernel; hand model tied differentially.",
    "technique": "Coq proofs for the pieces + paired-run oracle (erase hints, compare) on real outputs",
}
CLAIMED["C14"] = {
    "text": "Theorems about the model of serde's Options deserialisation: `{}`/`[]` give the defaults (values re-read from options.rs each run), unknown keys anywhere are ignored, an absent key keeps its default, an invalid pattern anywhere rejects the configuration; and element-level non-interference: transformOn only matters for on/nativeOn attributes, enableObjectSlots only for a component's sole identifier/call child, patterns only for tags they match. Configuration texts in many spellings go through the real serde_json call and are compared with the model; paired real runs flip an option the module does not use and compare outputs byte for byte.",
    "note": "serde/serde_json/regex are trusted libraries exercised, not verified; mergeProps/resolveType non-interference are decided by paired runs only.",
    "technique": "Coq proofs (list induction / conversion) + differential test of the configuration reader + paired-run oracle",
}
CLAIMED["C15"] = {
    "text": "Theorems: C15_annotation_grammar (the comment scan = `@jsx` + whitespace + name, for every comment text, by induction with fuel discharged), C15_module_pragma, C15_pragma_stable (lowering an element of any size never changes the pragma: frame induction over the nested AST), C15_factory / C15_no_createVNode_import (the callee is the annotated name, else the option, else the imported createVNode; createVNode is requested only then). On real outputs: every vnode call's callee and the generated import list are checked against Spec/Pragma.expected_pragma.",
    "note": "Modules whose annotations disagree are outside the claim. Trusted: Coq kernel; hand model tied differentially.",
    "technique": "Coq proofs (string induction; frame induction over the AST) + callee/import oracle on real outputs",
}
NOT_CLAIMED = {p: UNDER for p in ["C01", "C03", "C04", "C05", "C06", "C10", "C11", "C16", "C17", "C18", "C19", "C20"]}
