HOOK_COMMITS = ["95ddc6c"]
NOTES = ("All checks share one engine. `bin/vp check <id> <tier>` rebuilds the harness from /repo's working tree (hooks on), "
         "regenerates coq/Gen/Tables.v from the source, re-checks the Coq development and the property's theorem file, "
         "runs the extracted model against the real visitor, and writes evidence/<id>.json. See DESIGN.md.")
UNDER = "check under construction in this round: the model covers it and the correspondence exercises it, but no theorem file is registered yet"
CLAIMED = {
    "C02": {
        "text": "Theorem C02_text (forall strings: the transform's text cleaning equals the standard JSX rule jsx_clean, by induction, no length bound) about the model of util::transform_text; the model is tied to the code by running both on thousands of strings through a cfg-guarded hook (exhaustive small scope + random) and on generated modules through the public API.",
        "note": "Trusted: Coq kernel; the hand model's tie to the code is differential (this run's inputs only); jsx_clean is this check's reading of 'the standard JSX rule'; children part currently by whole-output correspondence.",
        "technique": "Coq proof by induction over code-point lists + differential correspondence (hook + public API)",
    },
}
CLAIMED["C13"] = {
    "text": "Theorem C13_flags_sound: for every attribute list, host kind, option set and visitor state, the (flag, dynamic-prop list, props expression) computed by the model of transform_attrs satisfies Vue's patch-flag contract flags_ok (fold invariant, no size bound; the bit constants are regenerated from patch_flags.rs on every run). The same contract is evaluated on every vnode call of the REAL output of each generated case, and the property's view of real and model outputs must agree.",
    "note": "Trusted: Coq kernel; Spec/PatchFlags.v as the reading of Vue's contract; model tied to code differentially. Known finding class_on_builtin_host (Fragment/KeepAlive hosts get the element treatment of class/style). The `_`=2 direction for bound identifier children is exercised by correspondence only.",
    "technique": "Coq proof (fold invariant over the attribute list) + output-only oracle on real outputs + view correspondence",
}
CLAIMED["C07"] = {
    "text": "Theorem C07_lowering_is_jsx_free: for every JSX element/fragment (unbounded nesting, attributes, children) whose embedded expressions are JSX-free, the model's lowering contains no JSX node - element-valued attributes, namespaced tags, directive values included (structural induction over the nested AST). On every generated/corpus case the REAL output is censused for JSX nodes and its printed form is re-parsed with JSX off unless a diagnostic was reported.",
    "note": "Module-level composition (the traversal reaches every JSX expression) is checked per case, not proved; `printed form re-parses` is about SWC's printer/parser (empirical). Trusted: Coq kernel; hand model tied differentially.",
    "technique": "Coq proof by induction over the nested AST + JSX census and re-parse of real outputs",
}
CLAIMED["C08"] = {
    "text": "Theorem C08_attrs_no_panic: for every parser-producible attribute list the attribute lowering never reaches the code's `unreachable!` (every panic site of the code is an explicit flag in the model; the site list is linted against the source on every run). Totality/determinism of the real code is exercised: every case under catch_unwind in a child process with a time limit, re-run in-process, and a sample re-run in two fresh processes in opposite orders with byte comparison.",
    "note": "Stack exhaustion, time and process-level nondeterminism cannot be exhibited by a Gallina model (harness only). Termination of type resolution on cyclic declarations is a known finding candidate handled under the resolveType properties. Determinism of the model is by construction (a Coq function); for the code it rests on lints + re-runs.",
    "technique": "Coq proof (panic-site unreachability for the attribute fold) + crash/timeout/re-run differential harness + source lints",
}
CLAIMED["C09"] = {
    "text": "Theorem C09_identity: for every environment without resolveType and every JSX-free module (any size), the model returns the module unchanged with nothing added (induction over the whole AST with the visitor state as invariant); C09_visit_identity gives the same for every sub-tree in every traversal mode. On real runs: 70 real-world JSX-free files and every JSX-free generated module must come back identical, and the visitor is run a second time on its own output of every case (idempotence).",
    "note": "The frame statement for modules WITH JSX (non-JSX parts embed unchanged) is covered by whole-output correspondence with the model, not by a separate theorem. Idempotence is decided on real second passes.",
    "technique": "Coq proof by induction over the generic AST + identity/idempotence oracles on real runs + whole-output correspondence",
}
CLAIMED["C12"] = {
    "text": "Theorems C12_attrs_independent / C12_tag_independent (attribute lowering, tag, host kind and factory do not read `optimize`, by conversion) and C12_hints_only_partial (no hint without the option; erasing `_` from a slots object built with it gives the object built without it). The module-level statement strip_hints(out(optimize=true)) = out(optimize=false) is decided on paired REAL runs of every generated case.",
    "note": "The module-level equality is not yet a theorem (labelled partial); Spec/OutViews.strip_hints defines `erasing the hints`. Trusted: Coq kernel; hand model tied differentially.",
    "technique": "Coq proofs for the pieces + paired-run oracle (erase hints, compare) on real outputs",
}
CLAIMED["C14"] = {
    "text": "Theorems about the model of serde's Options deserialisation: `{}`/`[]` give the defaults (values re-read from options.rs each run), unknown keys anywhere are ignored, an absent key keeps its default, an invalid pattern anywhere rejects the configuration; and element-level non-interference: transformOn only matters for on/nativeOn attributes, enableObjectSlots only for a component's sole identifier/call child, patterns only for tags they match. Configuration texts in many spellings go through the real serde_json call and are compared with the model; paired real runs flip an option the module does not use and compare outputs byte for byte.",
    "note": "serde/serde_json/regex are trusted libraries exercised, not verified; mergeProps/resolveType non-interference are decided by paired runs only.",
    "technique": "Coq proofs (list induction / conversion) + differential test of the configuration reader + paired-run oracle",
}
CLAIMED["C15"] = {
    "text": "Theorems: C15_annotation_grammar (the comment scan = `@jsx` + whitespace + name, for every comment text, by induction with fuel discharged), C15_module_pragma, C15_pragma_stable (lowering an element of any size never changes the pragma: frame induction over the nested AST), C15_factory / C15_no_createVNode_import (the callee is the annotated name, else the option, else the imported createVNode; createVNode is requested only then). On real outputs: every vnode call's callee and the generated import list are checked against Spec/Pragma.expected_pragma.",
    "note": "Modules whose annotations disagree are outside the claim. Trusted: Coq kernel; hand model tied differentially.",
    "technique": "Coq proofs (string induction; frame induction over the AST) + callee/import oracle on real outputs",
}
TYPES_NOTE = ("Trusted: Coq kernel; the hand model of resolve_type.rs is tied to the code differentially on the generated TS stream "
              "(prop maps x encodings x declaration positions x scopes x call shapes); the expected values are the generator's own ground truth, "
              "independent of the model; TypeScript's meaning of the type forms and Vue's validateProp/resolvePropValue are this check's reading (tools/props.py).")
CLAIMED["C16"] = {
    "text": "Theorems: C16_registry_complete (every alias of the module, wherever declared, is registered before the transformation - induction over the module's node list), C16_literal / C16_alias_paren_intersection / C16_partial_required_pick (each encoding operator is transparent or flips exactly the optional flag / keeps exactly the listed keys, for every fuel and registry), C16_required_unless_optional, C16_unresolved_reported. End to end, the `props` option received by the REAL output of every generated case is compared with the prop map the generator encoded (keys as declared, required unless optional).",
    "note": TYPES_NOTE + " Known finding partial_getter. Interface registration/`extends` with type arguments are covered by correspondence only.",
    "technique": "Coq proofs (laws of the resolver; list induction for the registry) + ground-truth oracle on real outputs",
}
CLAIMED["C17"] = {
    "text": "Theorems C17_keyword_table / C17_builtin_names (finite tables, decided by computation: the model's constructor for every keyword and built-in name equals the table regenerated from resolve_type.rs on this run), C17_union_alias_paren, C17_order_kept. On real outputs, every emitted `type` is checked to accept every value kind of the declared type (generator's kind table composed through unions, aliases, intersections; a model of Vue's assertType).",
    "note": TYPES_NOTE + " Known findings: bigint_literal (pinned by a fixture), union_with_any, empty_object_in_union.",
    "technique": "Coq finite-table lemmas against regenerated tables + composition laws + acceptance oracle on real outputs",
}
CLAIMED["C18"] = {
    "text": "Theorems C18_static_forms (literal as written, expression/shorthand through a factory), C18_function_prop (a Function-typed prop gets the written value, other types keep the factory), C18_key_spellings, C18_dynamic_forms (computed identifier key / spread => mergeDefaults). On real outputs the emitted default of every prop is compared with the form the generator wrote (literal, expression, shorthand, getter, method, async method, quoted/computed-literal keys, extra keys, dynamic forms).",
    "note": TYPES_NOTE,
    "technique": "Coq proofs (case analysis on the default forms) + ground-truth oracle on real outputs",
}
CLAIMED["C19"] = {
    "text": "Theorems C19_property_syntax, C19_literal_event, C19_registry_complete; the event set received by the REAL output is compared as a set with the one the generator encoded (function type, union of function types, call-signature literal/interface, extends chains, property syntax, literal-union aliases, declarations before/after use); no SetupContext<E> annotation => no emits added.",
    "note": TYPES_NOTE,
    "technique": "Coq proofs (laws) + ground-truth oracle on real outputs",
}
CLAIMED["C20"] = {
    "text": "Theorems C20_only_vue (a callee that is not the binding imported by name from 'vue', or resolveType off => call untouched), C20_user_option_wins (an option written in any spelling is kept and nothing added; spread argument lists and argument-less calls are left alone), C20_derived_before_spread (a derived option is inserted before the first spread; every user entry kept in order). On real outputs: calls with other provenance must be unchanged, user entries kept once and in order, no derived option after a spread, name only for simple declarations.",
    "note": TYPES_NOTE + " Computed option keys are outside the claim.",
    "technique": "Coq proofs (case analysis; list induction) + call-shape x provenance oracle on real outputs",
}
NOT_CLAIMED = {p: UNDER for p in ["C01", "C03", "C04", "C05", "C06", "C10", "C11"]}
