HOOK_COMMITS = ["95ddc6c"]
NOTES = ("All checks share one engine. `bin/vp check <id> <tier>` rebuilds the harness from /repo's working tree (hooks on), "
         "regenerates coq/Gen/Tables.v from the source, re-checks the Coq development and the property's theorem file, "
         "runs the extracted model against the real visitor, and writes evidence/<id>.json. See DESIGN.md.")
UNDER = "check under construction in this round: the model covers it and the correspondence exercises it, but no theorem file is registered yet"
CLAIMED = {
    "C02": {
        "text": "Theorem C02_text (forall strings: the transform's text cleaning equals the standard JSX rule jsx_clean, by induction, no length bound) about the model of util::transform_text; the model is tied to the code by running both on thousands of strings through a cfg-guarded hook (exhaustive small scope + random) and on generated modules through the public API.",
        "note": "Trusted: Coq kernel; the hand model's tie to the code is differential (this run's inputs only); jsx_clean is this check's reading of 'the standard JSX rule'; children part currently by whole-output correspondence.",
        "technique": "Coq proof by induction over code-point lists + differential correspondence (hook + public API)",
    },
}
CLAIMED["C13"] = {
    "text": "Theorem C13_flags_sound: for every attribute list, host kind, option set and visitor state, the (flag, dynamic-prop list, props expression) computed by the model of transform_attrs satisfies Vue's patch-flag contract flags_ok (fold invariant, no size bound; the bit constants are regenerated from patch_flags.rs on every run). The same contract is evaluated on every vnode call of the REAL output of each generated case, and the property's view of real and model outputs must agree.",
    "note": "Trusted: Coq kernel; Spec/PatchFlags.v as the reading of Vue's contract; model tied to code differentially. Known finding class_on_builtin_host (Fragment/KeepAlive hosts get the element treatment of class/style). The `_`=2 direction for bound identifier children is exercised by correspondence only.",
    "technique": "Coq proof (fold invariant over the attribute list) + output-only oracle on real outputs + view correspondence",
}
NOT_CLAIMED = {p: UNDER for p in ["C01", "C03", "C04", "C05", "C06", "C07", "C08", "C09", "C10", "C11", "C12", "C14", "C15", "C16", "C17", "C18", "C19", "C20"]}
