HOOK_COMMITS = ["95ddc6c"]
NOTES = ("All checks share one engine. `bin/vp check <id> <tier>` rebuilds the harness from /repo's working tree (hooks on), "
         "regenerates coq/Gen/Tables.v from the source, re-checks the Coq development and the property's theorem file, "
         "runs the extracted model against the real visitor, and writes evidence/<id>.json. See DESIGN.md.")
UNDER = "check under construction in this round: the model covers it and the correspondence exercises it, but no theorem file is registered yet"
CLAIMED = {
    "C02": {
        "text": "Theorem C02_text (forall strings: the transform's text cleaning equals the standard JSX rule jsx_clean, by induction, no length bound) about the model of util::transform_text; the model is tied to the code by running both on thousands of strings through a cfg-guarded hook (exhaustive small scope + random) and on generated modules through the public API.",
        "note": "Trusted: Coq kernel; the hand model's tie to the code is differential (this run's inputs only); jsx_clean is this check's reading of 'the standard JSX rule'; children part currently by whole-output correspondence.",
        "technique": "Coq proof by induction over code-point lists + differential correspondence (hook + public API)",
    },
}
CLAIMED["C13"] = {
    "text": "Theorem C13_flags_sound: for every attribute list, host kind, option set and visitor state, the (flag, dynamic-prop list, props expression) computed by the model of transform_attrs satisfies Vue's patch-flag contract flags_ok (fold invariant, no size bound; the bit constants are regenerated from patch_flags.rs on every run). The same contract is evaluated on every vnode call of the REAL output of each generated case, and the property's view of real and model outputs must agree.",
    "note": "Trusted: Coq kernel; Spec/PatchFlags.v as the reading of Vue's contract; model tied to code differentially. Known finding class_on_builtin_host (Fragment/KeepAlive hosts get the element treatment of class/style). The `_`=2 direction for bound identifier children is exercised by correspondence only.",
    "technique": "Coq proof (fold invariant over the attribute list) + output-only oracle on real outputs + view correspondence",
}
CLAIMED["C07"] = {
    "text": "Theorem C07_lowering_is_jsx_free: for every JSX element/fragment (unbounded nesting, attributes, children) whose embedded expressions are JSX-free, the model's lowering contains no JSX node - element-valued attributes, namespaced tags, directive values included (structural induction over the nested AST). On every generated/corpus case the REAL output is censused for JSX nodes and its printed form is re-parsed with JSX off unless a diagnostic was reported.",
    "note": "Module-level composition (the traversal reaches every JSX expression) is checked per case, not proved; `printed form re-parses` is about SWC's printer/parser (empirical). Trusted: Coq kernel; hand model tied differentially.",
    "technique": "Coq proof by induction over the nested AST + JSX census and re-parse of real outputs",
}
CLAIMED["C08"] = {
    "text": "Theorem C08_attrs_no_panic: for every parser-producible attribute list the attribute lowering never reaches the code's `unreachable!` (every panic site of the code is an explicit flag in the model; the site list is linted against the source on every run). Totality/determinism of the real code is exercised: every case under catch_unwind in a child process with a time limit, re-run in-process, and a sample re-run in two fresh processes in opposite orders with byte comparison.",
    "note": "Stack exhaustion, time and process-level nondeterminism cannot be exhibited by a Gallina model (harness only). Termination of type resolution on cyclic declarations is a known finding candidate handled under the resolveType properties. Determinism of the model is by construction (a Coq function); for the code it rests on lints + re-runs.",
    "technique": "Coq proof (panic-site unreachability for the attribute fold) + crash/timeout/re-run differential harness + source lints",
}
CLAIMED["C09"] = {
    "text": "Theorem C09_identity: for every environment without resolveType and every JSX-free module (any size), the model returns the module unchanged with nothing added (induction over the whole AST with the visitor state as invariant); C09_visit_identity gives the same for every sub-tree in every traversal mode. On real runs: 70 real-world JSX-free files and every JSX-free generated module must come back identical, and the visitor is run a second time on its own output of every case (idempotence).",
    "note": "The frame statement for modules WITH JSX (non-JSX parts embed unchanged) is covered by whole-output correspondence with the model, not by a separate theorem. Idempotence is decided on real second passes.",
    "technique": "Coq proof by induction over the generic AST + identity/idempotence oracles on real runs + whole-output correspondence",
}
CLAIMED["C12"] = {
    "text": "Theorems C12_attrs_independent / C12_tag_independent (attribute lowering, tag, host kind and factory do not read `optimize`, by conversion) and C12_hints_only_partial (no hint without the option; erasing `_` from a slots object built with it gives the object built without it). The module-level statement strip_hints(out(optimize=true)) = out(optimize=false) is decided on paired REAL runs of every generated case.",
    "note": "The module-level equality is not yet a theorem (labelled partial); Spec/OutViews.strip_hints defines `erasing the hints`. Trusted: Coq kernel; hand model tied differentially.",
    "technique": "Coq proofs for the pieces + paired-run oracle (erase hints, compare) on real outputs",
}
CLAIMED["C14"] = {
    "text": "Theorems about the model of serde's Options deserialisation: `{}`/`[]` give the defaults (values re-read from options.rs each run), unknown keys anywhere are ignored, an absent key keeps its default, an invalid pattern anywhere rejects the configuration; and element-level non-interference: transformOn only matters for on/nativeOn attributes, enableObjectSlots only for a component's sole identifier/call child, patterns only for tags they match. Configuration texts in many spellings go through the real serde_json call and are compared with the model; paired real runs flip an option the module does not use and compare outputs byte for byte.",
    "note": "serde/serde_json/regex are trusted libraries exercised, not verified; mergeProps/resolveType non-interference are decided by paired runs only.",
    "technique": "Coq proofs (list induction / conversion) + differential test of the configuration reader + paired-run oracle",
}
CLAIMED["C15"] = {
    "text": "Theorems: C15_annotation_grammar (the comment scan = `@jsx` + whitespace + name, for every comment text, by induction with fuel discharged), C15_module_pragma, C15_pragma_stable (lowering an element of any size never changes the pragma: frame induction over the nested AST), C15_factory / C15_no_createVNode_import (the callee is the annotated name, else the option, else the imported createVNode; createVNode is requested only then). On real outputs: every vnode call's callee and the generated import list are checked against Spec/Pragma.expected_pragma.",
    "note": "Modules whose annotations disagree are outside the claim. Trusted: Coq kernel; hand model tied differentially.",
    "technique": "Coq proofs (string induction; frame induction over the AST) + callee/import oracle on real outputs",
}
TYPES_NOTE = ("Trusted: Coq kernel; the hand model of resolve_type.rs is tied to the code differentially on the generated TS stream "
              "(prop maps x encodings x declaration positions x scopes x call shapes); the expected values are the generator's own ground truth, "
              "independent of the model; TypeScript's meaning of the type forms and Vue's validateProp/resolvePropValue are this check's reading (tools/props.py).")
CLAIMED["C16"] = {
    "text": "C16_resolution_is_denotation: on a grammar of encodings (literals, parentheses, optional, alias chains, intersections / unions of any width, Partial / Required, Pick / Omit with literal-union keys, interfaces with extends, any depth) resolve_type_elements returns exactly the denoted member list, by induction. Theorems: C16_registry_complete (every alias of the module, wherever declared, is registered before the transformation - induction over the module's node list), C16_literal / C16_alias_paren_intersection / C16_partial_required_pick (each encoding operator is transparent or flips exactly the optional flag / keeps exactly the listed keys, for every fuel and registry), C16_required_unless_optional, C16_unresolved_reported. End to end, the `props` option received by the REAL output of every generated case is compared with the prop map the generator encoded (keys as declared, required unless optional).",
    "note": TYPES_NOTE + " Known finding partial_getter. Interface registration/`extends` with type arguments are covered by correspondence only.",
    "technique": "Coq proofs (laws of the resolver; list induction for the registry) + ground-truth oracle on real outputs",
}
CLAIMED["C17"] = {
    "text": "Theorems C17_keyword_table / C17_builtin_names (finite tables, decided by computation: the model's constructor for every keyword and built-in name equals the table regenerated from resolve_type.rs on this run), C17_union_alias_paren, C17_order_kept, and the full statement on a grammar of types of any depth (C17_accepts_every_inhabitant, by induction over atoms / object types / interfaces / unions / parentheses / optional / alias chains / NonNullable: the computed list accepts every inhabitant under a model of assertType; C17_union_with_any_refuted carries the known finding's witness). On real outputs, every emitted `type` is checked to accept every value kind of the declared type (generator's kind table composed through unions, aliases, intersections; a model of Vue's assertType).",
    "note": TYPES_NOTE + " Known findings: bigint_literal (pinned by a fixture), union_with_any, empty_object_in_union.",
    "technique": "Coq finite-table lemmas against regenerated tables + composition laws + acceptance oracle on real outputs",
}
CLAIMED["C18"] = {
    "text": "Theorems C18_static_forms (literal as written, expression/shorthand through a factory), C18_function_prop (a Function-typed prop gets the written value, other types keep the factory), C18_key_spellings, C18_dynamic_forms (computed identifier key / spread => mergeDefaults). On real outputs the emitted default of every prop is compared with the form the generator wrote (literal, expression, shorthand, getter, method, async method, quoted/computed-literal keys, extra keys, dynamic forms).",
    "note": TYPES_NOTE,
    "technique": "Coq proofs (case analysis on the default forms) + ground-truth oracle on real outputs",
}
CLAIMED["C19"] = {
    "text": "C19_names_are_expanded: on a grammar of name types (string literals, unions of any width, alias chains, any depth) resolve_string_or_union_strings returns exactly the names written, by induction. Theorems C19_property_syntax, C19_literal_event, C19_registry_complete; the event set received by the REAL output is compared as a set with the one the generator encoded (function type, union of function types, call-signature literal/interface, extends chains, property syntax, literal-union aliases, declarations before/after use); no SetupContext<E> annotation => no emits added.",
    "note": TYPES_NOTE,
    "technique": "Coq proofs (laws) + ground-truth oracle on real outputs",
}
CLAIMED["C20"] = {
    "text": "Theorems C20_only_vue (a callee that is not the binding imported by name from 'vue', or resolveType off => call untouched), C20_user_option_wins (an option written in any spelling is kept and nothing added; spread argument lists and argument-less calls are left alone), C20_derived_before_spread (a derived option is inserted before the first spread; every user entry kept in order). On real outputs: calls with other provenance must be unchanged, user entries kept once and in order, no derived option after a spread, name only for simple declarations.",
    "note": TYPES_NOTE + " Computed option keys are outside the claim.",
    "technique": "Coq proofs (case analysis; list induction) + call-shape x provenance oracle on real outputs",
}
SITE_NOTE = ("Trusted: Coq kernel; Spec/Site.v + Spec/SiteCheck.v as this check's reading of what an element denotes (written from the property "
             "text, independent of the transform); the hand model of lib.rs/directive.rs is tied to the code differentially on the probe stream "
             "(`const __site = <element>` with attributes x directives x children x hosts x options, every fourth probe directive-heavy) and on whole modules. "
             "Vue's own runtime (createVNode, mergeProps, withDirectives, the vModel* directives) is not modelled: the claims are about the call the transform emits.")
CLAIMED["C02"]["text"] += (" C02_children_in_order / C02_children_argument: for every child list of an element host the children argument is the array of the written "
                           "children in order (cleaned text, expressions, spliced spreads, nested vnodes), null when none remain - relative to the lowering of nested "
                           "elements; on every probe the REAL output's children are checked against the source element by check_site.")
CLAIMED["C02"]["note"] = ("Trusted: Coq kernel; jsx_clean / check_children_with are this check's reading of the rules; model tied differentially (hook + public API + probes). "
                          "Known finding sole_fn_or_object_child_of_element (C02_sole_special_refuted gives the witness).")
CLAIMED["C01"] = {
    "text": "Theorems C01_type_partial (the vnode type for every tag form equals the independent reading spec_type), C01_plain_attribute_partial, C01_spread_plain_partial / C01_spread_merge_partial, C01_transform_on_partial (attribute by attribute, what the transform adds to the props object / mergeProps arguments is exactly the contribution attr_spec describes, and nothing else of the element changes), plus the whole-list statement without mergeProps (C11_source_order_partial). The FULL statement - no `C01:` entry in check_site(source element, output) - is evaluated on the REAL output of every probe.",
    "note": SITE_NOTE + " Partial: the composition over a whole attribute list with mergeProps on (dedupe_props grouping) is decided by the oracle only.",
    "technique": "Coq refinement proofs (per attribute, model vs. independent spec) + site oracle on real outputs + whole-output correspondence",
}
CLAIMED["C03"] = {
    "text": "Theorem C03_slots: for every child list of a component host, every v-slots form and both settings of enableObjectSlots/optimize, the third argument of the vnode call built by the model is the slots value check_children_with describes (lazy `default` slot in order; function child itself; object literal itself; v-slots beside default; runtime decision `_isSlot(x) ? x : {default}` for a single identifier/call with the call evaluated once into a generated temporary) - relative to the lowering of nested elements and a state without pending assignment target. C03_call_child_once, C03_always_wrapped_when_off. The same check runs on the REAL output of every probe.",
    "note": SITE_NOTE + " Which branch `_isSlot` selects per runtime value kind is Vue-runtime behaviour; the helper's text is pinned by the translator, not proved.",
    "technique": "Coq refinement proof (children argument vs. independent spec, case analysis on child shapes) + site oracle on real outputs",
}
CLAIMED["C04"] = {
    "text": "Theorems C04_name_partial (written name read identically: prefix, first letter, `:arg`, `_mod`), C04_binding_partial (for every directive attribute in every spelling and value shape: exactly one binding, equal - definition, value, argument, modifiers - to the one attr_spec describes, and no prop/merge argument/slot is touched), C04_html_text_partial, C04_modifiers_partial. The FULL statement (no `C04:` entry in check_site) is evaluated on the REAL output of every probe; every fourth probe is directive-heavy (namespaced names x array forms x modifiers).",
    "note": SITE_NOTE + " Partial: composition over the attribute list and the withDirectives wrapper are decided by the oracle only.",
    "technique": "Coq refinement proofs (per directive attribute) + site oracle on real outputs",
}
CLAIMED["C05"] = {
    "text": "Theorems C05_component_partial, C05_element_partial (props / directive + listener exactly as attr_spec describes, for absent and static arguments), C05_host_directive_partial (select / textarea / input by static type / dynamic type), C05_listener_assigns_target, C05_vmodels_sequence (v-models is replaced in place by the v-model attributes it lists, in order), C05_computed_arg_refuted (the known finding with its witness). The FULL statement (no `C05:` entry in check_site) is evaluated on the REAL output of every probe.",
    "note": SITE_NOTE + " Known finding vmodel_computed_arg (pinned by a fixture).",
    "technique": "Coq refinement proofs (per v-model attribute; list induction for v-models) + site oracle on real outputs",
}
CLAIMED["C11"] = {
    "text": "Theorems C11_source_order_partial (without mergeProps the props object of plain attributes and spreads holds their contributions in source order), C11_children_once_in_order, C11_slot_content_lazy (nothing below the `default` arrow is evaluated at vnode creation, whatever the children), C11_props_before_children, C03_call_child_once. The FULL statement is evaluated on the REAL output of every probe by order_fail: every non-trivial source expression occurs exactly once, among the evaluated-at-creation positions for attributes/element children and under a slot function for component children, plus the order tag of check_site.",
    "note": SITE_NOTE + " The property is about evaluation; it is decided on the syntax of the output, where JavaScript fixes the order. Partial: position of a repeated class/style/listener under mergeProps by oracle only. Known finding vslots_on_element_host_dropped.",
    "technique": "Coq proofs (list induction; structural) + once/eager/lazy occurrence oracle on real outputs",
}
CLAIMED["C10"] = {
    "text": "Theorems C10_reads_only_five_fields / C10_reads_stay_equal (relational induction over the nested AST): the lowering of an element of any size, in any two visitor states that agree on the pragma, the pending assignment target, the slot-flag stack and the two counters that name temporaries, is the same expression - helper imports, pending declarations, diagnostics, flags and type registries left behind by other code cannot influence it; C10_attributes_stateless. The FULL statement is decided on paired REAL runs: every generated (prefix, JSX statement, suffix) triple (assignments to same-named variables, functions/arrows/classes/loops with other JSX needing temporaries and helpers, fragments, user imports from 'vue', same tag names with another binding status) against the statement alone, comparing the statement's lowering with identifiers named by what they denote (Spec/Context.v).",
    "note": "Trusted: Coq kernel; Spec/Context.v's naming (vue import -> imported name; generated temporary -> order of first occurrence; other identifiers -> name + order of scope); hand model tied differentially. The step from the theorem to alone-vs-in-context (the naming counters differ, renaming temporaries consistently) is covered by the paired runs only. Pragma annotations are module-wide (C15) and not used as distractors.",
    "technique": "Coq proof (binary/relational induction over the nested AST: non-interference of the unread state) + paired-run oracle on real outputs",
}
CLAIMED["C06"] = {
    "text": "Theorems C06_helper_recorded (a helper identifier only comes from import_from_vue, which records the import), C06_nothing_dropped (a lowering of any element never drops a recorded import or pending declaration; the counter behind temporaries' contexts only grows - induction over the nested AST), C06_slot_temporary_declared / C06_capture_declared (a temporary is put on the pending list when created), C06_declared_at_list_head / C06_pending_all_emitted (a statement list declares everything pending at its end at its head, starts empty, restores the enclosing list's pending declarations), C06_module_imports, C06_contexts_distinct. The FULL statement is decided on the REAL output of every generated module (JSX in every syntactic context x lowerings needing helpers/temporaries x user bindings named like generated ones) by a binding analysis: each generated identifier declared exactly once, in an enclosing list/function, before every eager use; every generated declaration used; no new free variable.",
    "note": "Trusted: Coq kernel; tools/scope.py (block/function/class/catch/switch scoping, hoisting of functions and imports, sequential let/const, closures) as the reading of JavaScript scoping; identity = name + syntax context, so collisions after printing are SWC hygiene's business; hand model tied differentially. Partial: the composition of the proved pieces over the whole traversal is decided per case by the analysis. Known finding hoisted_capture_tdz (pinned by a fixture).",
    "technique": "Coq proofs (monotonicity induction over the nested AST; drain/import lemmas) + binding analysis of real outputs",
}

# ---- additions of the late build round (new theorems and oracles) ----
CLAIMED["C01"]["text"] += (" Whole attribute lists under mergeProps (the default) are now proved too: C01_element_props_merge (each run of written attributes is one object grouped "
                           "exactly as the spec's group_contribs says - C01_dedupe_is_grouping - each spread an argument of its own, joined by mergeProps, a single argument passed as is), "
                           "and the full statement on a fragment of the language holds with mergeProps on and off (C01_full_statement_on_fragment).")
CLAIMED["C01"]["note"] = SITE_NOTE + " Outside the proved fragment (element-valued attributes, transformOn objects inside a list) the statement is decided by the oracle only."
CLAIMED["C11"]["text"] += " C11_source_order_merge: under mergeProps the merge arguments, the keys inside a run and the values of a grouped key keep source order."
CLAIMED["C11"]["note"] = SITE_NOTE + " The property is about evaluation; it is decided on the syntax of the output, where JavaScript fixes the order. Known finding vslots_on_element_host_dropped."
CLAIMED["C07"]["text"] += (" C07_traversal_is_jsx_free / C07_module_is_jsx_free: the traversal of ANY grammatical tree (Spec/Plain.gram: JSX node kinds only where the JSX grammar puts them; "
                           "evaluated on every parsed input of the run) yields a JSX-free tree, whatever the nesting of JSX in expressions in JSX, injected imports / helper / hoisted declarations included; "
                           "the resolveType hooks are hypotheses, discharged when the option is off (C07_module_is_jsx_free_when_off).")
CLAIMED["C07"]["note"] = "With resolveType on the hooks' preservation of JSX-freedom is covered by the census of real outputs; `printed form re-parses` is about SWC's printer/parser (empirical). Trusted: Coq kernel; hand model tied differentially."
CLAIMED["C07"]["technique"] = "Coq proofs by induction over the nested AST (element level and whole traversal) + JSX census and re-parse of real outputs"
CLAIMED["C08"]["text"] += (" C08_lowering_no_panic (any element whose attribute lists hold attributes and spreads, any nesting) and C08_module_no_panic (any grammatical module: the traversal lowers every element in a ready state, "
                           "so the flag is never set; hooks as hypotheses, discharged with resolveType off). Ten generated modules with self- / mutually-referential declarations are run as well.")
CLAIMED["C08"]["note"] = ("Stack exhaustion, time and process-level nondeterminism cannot be exhibited by a Gallina model (harness only). Cyclic type declarations overflowed the stack until fix 9b943db; the model's resolver runs on fuel, so on the cyclic stream only the real run is judged (it returns and reports the cycle). Determinism of the model is by construction; for the code it rests on lints + re-runs.")
CLAIMED["C08"]["technique"] = "Coq proofs (panic-site unreachability: attribute fold, whole element, whole traversal) + crash/timeout/re-run differential harness + source lints"
CLAIMED["C09"]["text"] += (" For modules WITH JSX: C09_items_frame (every JSX-free top-level statement comes back unchanged and in order behind what the transform prepends) and C09_idempotent (a second pass is the identity), "
                           "both with resolveType off; on real outputs the oracle oC09stmts requires every JSX-free statement of the input, at any depth, to be a statement of the output.")
CLAIMED["C09"]["note"] = "With resolveType on, and for JSX-free code nested beside JSX inside one statement, the frame is decided by the oracles and paired runs. Idempotence of the real code is decided on real second passes."
CLAIMED["C13"]["text"] += (" Slot hint: C13_slot_flags_propagate (lowering an element ORs `dyn el` - a file-bound identifier child, directly or through direct JSX nesting - into every slot flag on the stack, and nothing else writes the stack; "
                           "induction over the nested AST), C13_slot_flag_is_dyn / C13_children_argument_uses_dyn (the flag of the element's own children argument is `dyn el`), C13_bound_child_makes_slot_dynamic; "
                           "on real outputs the probe element is compared with its output by Spec/SlotFlagCheck.flags_site.")
CLAIMED["C13"]["note"] = "Trusted: Coq kernel; Spec/PatchFlags.v as the reading of Vue's contract, Spec/SlotFlag.dyn_text as the reading of `direct children ... reached by direct JSX nesting`; model tied to code differentially. Known finding class_on_builtin_host."
CLAIMED["C13"]["technique"] = "Coq proofs (fold invariant over the attribute list; stack invariant over the nested AST) + patch-flag and slot-flag oracles on real outputs + view correspondence"
CLAIMED["C03"]["text"] += " On the scope stream the binding analysis decides that the `_slot` temporary of a call child is bound where the slot expression uses it."
CLAIMED["C17"]["note"] = TYPES_NOTE + " Known findings: bigint_literal (pinned by a fixture), union_with_any, empty_object_in_union, indexed_access_inherited_key, unresolved_indexed_access_in_union."
CLAIMED["C14"]["text"] += (" C14_mergeProps_only_spread_or_repeat: an attribute list without a spread, without an `on`/`nativeOn` object under transformOn and in which no class / style / listener key is produced twice "
                           "is lowered identically (props, flags, dynamic-prop list, directives, slots, state) with mergeProps on and off.")
CLAIMED["C14"]["note"] = "serde/serde_json/regex are trusted libraries exercised, not verified; resolveType non-interference is decided by paired runs (the hooks are the identity off a defineComponent call, C20_only_vue)."
CLAIMED["C15"]["text"] += " C15_pragma_module_wide: visiting ANY node leaves the pragma unchanged (induction over the whole traversal, hooks as hypotheses), so every element of a module is lowered with the same factory."

NOT_CLAIMED = {}
